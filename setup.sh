#!/bin/bash
# Build the framework from files on disk only (offline).
set -e
cd /verif
export GOFLAGS=-mod=mod GOPROXY=off GOSUMDB=off GOTOOLCHAIN=local
mkdir -p .bin evidence replay
(cd harness && cp /repo/go.sum . && go build -o /verif/.bin/extract ./cmd/extract && go build -tags verif -o /verif/.bin/vh ./cmd/vh)
/verif/.bin/extract -repo /repo -out /verif/lean/Verif/Generated/Facts.lean
targets="driver"
for f in lean/Verif/Properties/C*.lean; do n=$(basename "$f" .lean); targets="$targets Verif.Properties.$n"; done
for f in lean/Verif/Generated/FactsOK/C*.lean; do n=$(basename "$f" .lean); targets="$targets Verif.Generated.FactsOK.$n"; done
(cd lean && lake build $targets Verif.Generated.FactsOK.Keys)
echo setup-ok
