#!/bin/bash
# Build the framework from files on disk only (offline).
set -e
cd /verif
export GOFLAGS=-mod=mod GOPROXY=off GOSUMDB=off GOTOOLCHAIN=local
mkdir -p .bin evidence replay
(cd lean && lake build)
(cd harness && cp /repo/go.sum . && go build -o /verif/.bin/extract ./cmd/extract && go build -tags verif -o /verif/.bin/vh ./cmd/vh)
echo setup-ok
