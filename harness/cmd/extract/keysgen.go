package main

// keysgen.go — a translator from Go to Lean for the SplitKey predicates of internal/flatten/sortref/keys.go
// (single-return boolean functions over the segments of a key) and for the group chain of DepthFirst.
// The Lean definitions are regenerated on every run into Verif/Generated/Keys.lean; Verif/Generated/FactsOK/Keys.lean
// proves them equal to the hand-written model (Verif/Model/SortRef.lean) by `funext s; rfl`.

import (
	"bytes"
	"fmt"
	"go/ast"
	"go/parser"
	"go/token"
	"path/filepath"
	"sort"
	"strconv"
	"strings"
)

type keysGen struct {
	fset   *token.FileSet
	consts map[string]string // string constants of the package
	recv   string            // receiver name of the method being translated
	atoiFn map[string]string // local closures recognised as "strconv.Atoi(s[K]) succeeds": name -> K
	bad    []string
}

func lowerFirst(s string) string {
	if s == "" {
		return s
	}
	return strings.ToLower(s[:1]) + s[1:]
}

// expr translates a boolean Go expression over the receiver slice.
func (g *keysGen) expr(e ast.Expr) string {
	switch x := e.(type) {
	case *ast.ParenExpr:
		return "(" + g.expr(x.X) + ")"
	case *ast.UnaryExpr:
		if x.Op == token.NOT {
			return "!" + g.expr(x.X)
		}
	case *ast.BinaryExpr:
		switch x.Op {
		case token.LAND:
			return g.expr(x.X) + " && " + g.expr(x.Y)
		case token.LOR:
			return "(" + g.expr(x.X) + " || " + g.expr(x.Y) + ")"
		case token.GTR, token.GEQ, token.LSS, token.LEQ:
			// len(s) <op> N
			if c, ok := x.X.(*ast.CallExpr); ok && calleeName(c) == "len" && len(c.Args) == 1 {
				if id, ok := c.Args[0].(*ast.Ident); ok && id.Name == g.recv {
					if n, ok := x.Y.(*ast.BasicLit); ok && n.Kind == token.INT {
						op := map[token.Token]string{token.GTR: ">", token.GEQ: "≥", token.LSS: "<", token.LEQ: "≤"}[x.Op]
						return fmt.Sprintf("decide (s.length %s %s)", op, n.Value)
					}
				}
			}
		case token.EQL, token.NEQ:
			// s[i] == <const or literal>
			if ix, ok := x.X.(*ast.IndexExpr); ok {
				if id, ok := ix.X.(*ast.Ident); ok && id.Name == g.recv {
					if n, ok := ix.Index.(*ast.BasicLit); ok && n.Kind == token.INT {
						if v, ok := g.strValue(x.Y); ok {
							t := fmt.Sprintf("decide (s[%s]? = some %s)", n.Value, strconv.Quote(v))
							if x.Op == token.NEQ {
								return "!" + t
							}
							return t
						}
					}
				}
			}
		}
	case *ast.CallExpr:
		// s.IsOther()  /  isInt()
		if sel, ok := x.Fun.(*ast.SelectorExpr); ok && len(x.Args) == 0 {
			if id, ok := sel.X.(*ast.Ident); ok && id.Name == g.recv {
				return lowerFirst(sel.Sel.Name) + " s"
			}
		}
		if id, ok := x.Fun.(*ast.Ident); ok && len(x.Args) == 0 {
			if k, ok := g.atoiFn[id.Name]; ok {
				return fmt.Sprintf("SortRef.isInt (s[%s]?.getD \"\")", k)
			}
		}
	}
	src := exprSrc(g.fset, e)
	g.bad = append(g.bad, src)
	return "unsupported " + strconv.Quote(src)
}

func (g *keysGen) strValue(e ast.Expr) (string, bool) {
	switch v := e.(type) {
	case *ast.BasicLit:
		if v.Kind == token.STRING {
			s, err := strconv.Unquote(v.Value)
			return s, err == nil
		}
	case *ast.Ident:
		s, ok := g.consts[v.Name]
		return s, ok
	}
	return "", false
}

// atoiClosure recognises `name := func() bool { _, err := strconv.Atoi(s[K]); return err == nil }`.
func (g *keysGen) atoiClosure(st ast.Stmt) (name, k string, ok bool) {
	as, isAs := st.(*ast.AssignStmt)
	if !isAs || len(as.Lhs) != 1 || len(as.Rhs) != 1 {
		return
	}
	id, isID := as.Lhs[0].(*ast.Ident)
	fl, isFn := as.Rhs[0].(*ast.FuncLit)
	if !isID || !isFn || len(fl.Body.List) != 2 {
		return
	}
	a2, isAs2 := fl.Body.List[0].(*ast.AssignStmt)
	ret, isRet := fl.Body.List[1].(*ast.ReturnStmt)
	if !isAs2 || !isRet || len(a2.Rhs) != 1 || len(ret.Results) != 1 {
		return
	}
	call, isCall := a2.Rhs[0].(*ast.CallExpr)
	if !isCall || exprSrc(g.fset, call.Fun) != "strconv.Atoi" || len(call.Args) != 1 {
		return
	}
	ix, isIx := call.Args[0].(*ast.IndexExpr)
	if !isIx {
		return
	}
	if rid, isR := ix.X.(*ast.Ident); !isR || rid.Name != g.recv {
		return
	}
	n, isLit := ix.Index.(*ast.BasicLit)
	if !isLit || exprSrc(g.fset, ret.Results[0]) != "err == nil" {
		return
	}
	return id.Name, n.Value, true
}

// generateKeysLean translates keys.go / sort_ref.go of internal/flatten/sortref.
func generateKeysLean(repo string) ([]byte, error) {
	dir := filepath.Join(repo, "internal", "flatten", "sortref")
	fset := token.NewFileSet()
	pkgs := map[string]*ast.File{}
	for _, n := range []string{"keys.go", "sort_ref.go"} {
		f, err := parser.ParseFile(fset, filepath.Join(dir, n), nil, 0)
		if err != nil {
			return nil, err
		}
		pkgs[n] = f
	}
	g := &keysGen{fset: fset, consts: map[string]string{}}
	for _, f := range pkgs {
		for _, d := range f.Decls {
			gd, ok := d.(*ast.GenDecl)
			if !ok || gd.Tok != token.CONST {
				continue
			}
			for _, sp := range gd.Specs {
				vs := sp.(*ast.ValueSpec)
				for i, n := range vs.Names {
					if i < len(vs.Values) {
						if bl, ok := vs.Values[i].(*ast.BasicLit); ok && bl.Kind == token.STRING {
							if s, err := strconv.Unquote(bl.Value); err == nil {
								g.consts[n.Name] = s
							}
						}
					}
				}
			}
		}
	}
	wanted := []string{"IsDefinition", "IsOperation", "IsSharedOperationParam", "IsSharedParam", "IsOperationParam",
		"IsOperationResponse", "IsSharedResponse", "IsDefaultResponse", "IsStatusCodeResponse"}
	defs := map[string]string{}
	for _, d := range pkgs["keys.go"].Decls {
		fd, ok := d.(*ast.FuncDecl)
		if !ok || fd.Recv == nil || fd.Body == nil {
			continue
		}
		name := fd.Name.Name
		found := false
		for _, w := range wanted {
			if w == name {
				found = true
			}
		}
		if !found {
			continue
		}
		g.recv, _ = recvTypeName(fd)
		g.atoiFn = map[string]string{}
		body := fd.Body.List
		for len(body) > 1 {
			if n, k, ok := g.atoiClosure(body[0]); ok {
				g.atoiFn[n] = k
				body = body[1:]
				continue
			}
			break
		}
		if len(body) == 1 {
			if r, ok := body[0].(*ast.ReturnStmt); ok && len(r.Results) == 1 {
				defs[name] = g.expr(r.Results[0])
				continue
			}
		}
		src := exprSrc(fset, fd.Body)
		g.bad = append(g.bad, name+": "+src)
		defs[name] = "unsupported " + strconv.Quote(src)
	}
	// DepthFirst: the chain `if split.P() { pk = "g" }` and depthGroupOrder
	var chain [][2]string
	var order []string
	for _, d := range pkgs["sort_ref.go"].Decls {
		switch x := d.(type) {
		case *ast.FuncDecl:
			if x.Name.Name != "DepthFirst" || x.Body == nil {
				continue
			}
			ast.Inspect(x.Body, func(n ast.Node) bool {
				ifs, ok := n.(*ast.IfStmt)
				if !ok || ifs.Init != nil || ifs.Else != nil || len(ifs.Body.List) != 1 {
					return true
				}
				call, ok := ifs.Cond.(*ast.CallExpr)
				as, ok2 := ifs.Body.List[0].(*ast.AssignStmt)
				if !ok || !ok2 || len(as.Rhs) != 1 {
					return true
				}
				sel, ok := call.Fun.(*ast.SelectorExpr)
				lit, ok2 := as.Rhs[0].(*ast.BasicLit)
				if !ok || !ok2 || lit.Kind != token.STRING {
					return true
				}
				v, _ := strconv.Unquote(lit.Value)
				chain = append(chain, [2]string{sel.Sel.Name, v})
				return true
			})
		case *ast.GenDecl:
			for _, sp := range x.Specs {
				vs, ok := sp.(*ast.ValueSpec)
				if !ok {
					continue
				}
				for i, n := range vs.Names {
					if n.Name == "depthGroupOrder" && i < len(vs.Values) {
						if cl, ok := vs.Values[i].(*ast.CompositeLit); ok {
							for _, e := range cl.Elts {
								if bl, ok := e.(*ast.BasicLit); ok {
									v, _ := strconv.Unquote(bl.Value)
									order = append(order, v)
								}
							}
						}
					}
				}
			}
		}
	}
	var b bytes.Buffer
	b.WriteString("import Verif.Model.SortRef\n")
	b.WriteString("-- GENERATED by /verif/harness/cmd/extract (keysgen.go) from /repo/internal/flatten/sortref; do not edit.\n\n")
	b.WriteString("namespace Generated.Keys\n\n")
	b.WriteString("/-- a Go construct the translator does not know: makes every comparison with the model fail -/\n")
	b.WriteString("def unsupported (_ : String) : Bool := false\n\n")
	// dependency order: a predicate that calls another one comes after it
	names := make([]string, 0, len(defs))
	for n := range defs {
		names = append(names, n)
	}
	sort.Strings(names)
	emitted := map[string]bool{}
	var emit func(n string)
	emit = func(n string) {
		if emitted[n] {
			return
		}
		emitted[n] = true
		for _, m := range names {
			if m != n && strings.Contains(defs[n], lowerFirst(m)+" s") {
				emit(m)
			}
		}
		fmt.Fprintf(&b, "def %s (s : List String) : Bool := %s\n\n", lowerFirst(n), defs[n])
	}
	for _, n := range names {
		emit(n)
	}
	b.WriteString("/-- the chain of `if split.P() { pk = g }` statements of DepthFirst, in source order -/\n")
	b.WriteString("def groupChain : List (String × String) := [")
	for i, c := range chain {
		if i > 0 {
			b.WriteString(", ")
		}
		fmt.Fprintf(&b, "(%s, %s)", strconv.Quote(c[0]), strconv.Quote(c[1]))
	}
	b.WriteString("]\n\n")
	fmt.Fprintf(&b, "def depthGroupOrder : List String := %s\n\n", leanStrList(order))
	// GenLocation (flatten_name.go): `switch { case parts.P(): return "lit" … default: return "lit" }`
	b.WriteString("/-- `GenLocation(parts)` of flatten_name.go -/\n")
	fmt.Fprintf(&b, "def genLocation (s : List String) : String := %s\n\n", g.genLocation(repo))
	fmt.Fprintf(&b, "def untranslated : List String := %s\n\n", leanStrList(g.bad))
	b.WriteString("end Generated.Keys\n")
	return b.Bytes(), nil
}

// genLocation translates the body of GenLocation: a tag-less switch whose cases test one SplitKey predicate each and return a
// string literal.  Anything else becomes a string no comparison with the model survives.
func (g *keysGen) genLocation(repo string) string {
	fail := func(why string) string {
		g.bad = append(g.bad, "GenLocation: "+why)
		return strconv.Quote("<untranslated: " + why + ">")
	}
	f, err := parser.ParseFile(g.fset, filepath.Join(repo, "flatten_name.go"), nil, 0)
	if err != nil {
		return fail(err.Error())
	}
	for _, d := range f.Decls {
		fd, ok := d.(*ast.FuncDecl)
		if !ok || fd.Name.Name != "GenLocation" || fd.Body == nil || fd.Recv != nil {
			continue
		}
		if len(fd.Body.List) != 1 || len(fd.Type.Params.List) != 1 || len(fd.Type.Params.List[0].Names) != 1 {
			return fail(exprSrc(g.fset, fd.Body))
		}
		param := fd.Type.Params.List[0].Names[0].Name
		sw, ok := fd.Body.List[0].(*ast.SwitchStmt)
		if !ok || sw.Tag != nil || sw.Init != nil {
			return fail(exprSrc(g.fset, fd.Body))
		}
		out, deflt, haveDefault := "", "", false
		for _, st := range sw.Body.List {
			cc, ok := st.(*ast.CaseClause)
			if !ok || len(cc.Body) != 1 {
				return fail(exprSrc(g.fset, fd.Body))
			}
			ret, ok := cc.Body[0].(*ast.ReturnStmt)
			if !ok || len(ret.Results) != 1 {
				return fail(exprSrc(g.fset, fd.Body))
			}
			lit, ok := g.strValue(ret.Results[0])
			if !ok {
				return fail(exprSrc(g.fset, fd.Body))
			}
			if cc.List == nil {
				deflt, haveDefault = strconv.Quote(lit), true
				continue
			}
			if len(cc.List) != 1 || haveDefault {
				return fail(exprSrc(g.fset, fd.Body))
			}
			call, ok := cc.List[0].(*ast.CallExpr)
			if !ok || len(call.Args) != 0 {
				return fail(exprSrc(g.fset, fd.Body))
			}
			sel, ok := call.Fun.(*ast.SelectorExpr)
			if !ok {
				return fail(exprSrc(g.fset, fd.Body))
			}
			if id, ok := sel.X.(*ast.Ident); !ok || id.Name != param {
				return fail(exprSrc(g.fset, fd.Body))
			}
			out += fmt.Sprintf("if %s s then %s else ", lowerFirst(sel.Sel.Name), strconv.Quote(lit))
		}
		if !haveDefault {
			return fail("no default case")
		}
		return out + deflt
	}
	return fail("function not found")
}
