package main

// Conservative syntactic effect analysis for C16: which exported methods of *Spec can write to state reachable
// from the receiver or from a parameter (directly, through a local alias, or through same-package callees).

import (
	"go/ast"
	"go/token"
	"sort"
)

type funcInfo struct {
	decl       *ast.FuncDecl
	name       string
	recv       string   // receiver identifier ("" for plain functions)
	recvType   string   // receiver base type name
	params     []string // parameter identifiers in order
	writesRecv bool
	writesPar  map[int]bool
	calls      []callInfo
	alias      map[string]string // local ident -> root it aliases ("recv" or "param:<i>")
	fresh      map[string]bool   // local idents initialised with make / composite literal / new
}

type callInfo struct {
	callee string
	onRecv bool // s.callee(...)
	args   []ast.Expr
}

func rootIdent(e ast.Expr) *ast.Ident {
	for {
		switch x := e.(type) {
		case *ast.Ident:
			return x
		case *ast.SelectorExpr:
			e = x.X
		case *ast.IndexExpr:
			e = x.X
		case *ast.StarExpr:
			e = x.X
		case *ast.ParenExpr:
			e = x.X
		case *ast.UnaryExpr:
			e = x.X
		case *ast.CallExpr:
			// s.M(...)[k], s.M(...).f: what a method of the receiver returns may alias the receiver's state
			sel, ok := x.Fun.(*ast.SelectorExpr)
			if !ok {
				return nil
			}
			e = sel.X
		default:
			return nil
		}
	}
}

func recvTypeName(fd *ast.FuncDecl) (name, typ string) {
	if fd.Recv == nil || len(fd.Recv.List) == 0 {
		return "", ""
	}
	f := fd.Recv.List[0]
	if len(f.Names) > 0 {
		name = f.Names[0].Name
	}
	t := f.Type
	if st, ok := t.(*ast.StarExpr); ok {
		t = st.X
	}
	if id, ok := t.(*ast.Ident); ok {
		typ = id.Name
	}
	return
}

func isFreshExpr(e ast.Expr) bool {
	switch x := e.(type) {
	case *ast.CompositeLit:
		return true
	case *ast.UnaryExpr:
		if x.Op == token.AND {
			_, ok := x.X.(*ast.CompositeLit)
			return ok
		}
	case *ast.CallExpr:
		if id, ok := x.Fun.(*ast.Ident); ok && (id.Name == "make" || id.Name == "new") {
			return true
		}
	}
	return false
}

func analyzeEffects(fs *fileSet) (getterWrites []string, copyGetters map[string]bool) {
	infos := map[string]*funcInfo{}
	for _, f := range fs.files {
		for _, d := range f.Decls {
			fd, ok := d.(*ast.FuncDecl)
			if !ok || fd.Body == nil {
				continue
			}
			fi := &funcInfo{decl: fd, name: fd.Name.Name, writesPar: map[int]bool{}, alias: map[string]string{}, fresh: map[string]bool{}}
			fi.recv, fi.recvType = recvTypeName(fd)
			for _, p := range fd.Type.Params.List {
				for _, n := range p.Names {
					fi.params = append(fi.params, n.Name)
				}
				if len(p.Names) == 0 {
					fi.params = append(fi.params, "_")
				}
			}
			key := fi.name
			if fi.recvType != "" {
				key = fi.recvType + "." + fi.name
			}
			infos[key] = fi
		}
	}
	classify := func(fi *funcInfo, id *ast.Ident) string {
		if id == nil {
			return ""
		}
		if fi.recv != "" && id.Name == fi.recv {
			return "recv"
		}
		for i, p := range fi.params {
			if p == id.Name {
				return "param:" + itoa(i)
			}
		}
		if a, ok := fi.alias[id.Name]; ok {
			return a
		}
		return ""
	}
	markWrite := func(fi *funcInfo, target string) {
		switch {
		case target == "recv":
			fi.writesRecv = true
		case len(target) > 6 && target[:6] == "param:":
			fi.writesPar[atoi(target[6:])] = true
		}
	}
	for _, fi := range infos {
		// pass 1: aliases and fresh locals
		ast.Inspect(fi.decl.Body, func(n ast.Node) bool {
			switch st := n.(type) {
			case *ast.AssignStmt:
				if len(st.Lhs) == 2 && len(st.Rhs) == 1 && st.Tok == token.DEFINE {
					// `x, ok := s.M()[k]` / `x, ok := s.m[k]`
					if ix, isIx := st.Rhs[0].(*ast.IndexExpr); isIx {
						if id, ok := st.Lhs[0].(*ast.Ident); ok {
							if c := classify(fi, rootIdent(ix)); c != "" {
								fi.alias[id.Name] = c
							}
						}
					}
				}
				if len(st.Lhs) == len(st.Rhs) {
					for i, l := range st.Lhs {
						id, ok := l.(*ast.Ident)
						if !ok {
							continue
						}
						if isFreshExpr(st.Rhs[i]) {
							fi.fresh[id.Name] = true
							continue
						}
						if _, isCall := st.Rhs[i].(*ast.CallExpr); isCall {
							continue
						}
						// `x := s.field` / `x := &s.field` / `x := param.field`: x aliases that root when it is a reference-like value
						switch st.Rhs[i].(type) {
						case *ast.SelectorExpr, *ast.IndexExpr, *ast.UnaryExpr, *ast.StarExpr:
							if c := classify(fi, rootIdent(st.Rhs[i])); c != "" && st.Tok == token.DEFINE {
								fi.alias[id.Name] = c
							}
						}
					}
				}
			case *ast.FuncLit:
				// parameters of pointer / slice / map type of a function literal inside a method: conservatively, they may
				// be handed state of the receiver
				if fi.recv != "" {
					for _, p := range st.Type.Params.List {
						switch p.Type.(type) {
						case *ast.StarExpr, *ast.ArrayType, *ast.MapType:
							for _, n := range p.Names {
								if _, taken := fi.alias[n.Name]; !taken {
									fi.alias[n.Name] = "recv"
								}
							}
						}
					}
				}
			case *ast.RangeStmt:
				// `for k, v := range s.m`: v may be a reference (map, slice, pointer element) into what is ranged over:
				// conservatively, it aliases the root of the ranged expression
				if c := classify(fi, rootIdent(st.X)); c != "" && st.Tok == token.DEFINE {
					if id, ok := st.Value.(*ast.Ident); ok && id.Name != "_" {
						fi.alias[id.Name] = c
					}
				}
			}
			return true
		})
		// pass 2: writes and calls
		ast.Inspect(fi.decl.Body, func(n ast.Node) bool {
			switch st := n.(type) {
			case *ast.AssignStmt:
				for _, l := range st.Lhs {
					if _, plain := l.(*ast.Ident); plain {
						continue // rebinding a local / parameter variable is not a heap write
					}
					markWrite(fi, classify(fi, rootIdent(l)))
				}
			case *ast.IncDecStmt:
				if _, plain := st.X.(*ast.Ident); !plain {
					markWrite(fi, classify(fi, rootIdent(st.X)))
				}
			case *ast.CallExpr:
				name := calleeName(st)
				if id, ok := st.Fun.(*ast.Ident); ok && id.Name == "delete" && len(st.Args) > 0 {
					markWrite(fi, classify(fi, rootIdent(st.Args[0])))
				}
				// `append(x.f, …)` with a slice reachable from the receiver / a parameter as first argument may write into the
				// spare capacity of that slice's backing array, whatever is done with the result
				if id, ok := st.Fun.(*ast.Ident); ok && id.Name == "append" && len(st.Args) > 1 {
					if first := rootIdent(st.Args[0]); first != nil && !fi.fresh[first.Name] {
						markWrite(fi, classify(fi, first))
					}
				}
				ci := callInfo{callee: name, args: st.Args}
				if sel, ok := st.Fun.(*ast.SelectorExpr); ok {
					if id, ok := sel.X.(*ast.Ident); ok && fi.recv != "" && id.Name == fi.recv {
						ci.onRecv = true
					}
					// sort.X(s.field) and the like: in-place mutation of the argument
					if id, ok := sel.X.(*ast.Ident); ok && id.Name == "sort" {
						for _, a := range st.Args {
							markWrite(fi, classify(fi, rootIdent(a)))
						}
					}
				}
				fi.calls = append(fi.calls, ci)
			}
			return true
		})
	}
	// fixpoint over same-package callees
	for changed := true; changed; {
		changed = false
		for _, fi := range infos {
			for _, c := range fi.calls {
				var callee *funcInfo
				if c.onRecv {
					callee = infos[fi.recvType+"."+c.callee]
				} else {
					callee = infos[c.callee]
				}
				if callee == nil {
					continue
				}
				if c.onRecv && callee.writesRecv && !fi.writesRecv {
					fi.writesRecv = true
					changed = true
				}
				for i, a := range c.args {
					if !callee.writesPar[i] {
						continue
					}
					id := rootIdent(a)
					if id != nil && fi.fresh[id.Name] {
						continue
					}
					if _, isLit := a.(*ast.CompositeLit); isLit {
						continue
					}
					t := classify(fi, id)
					if t == "recv" && !fi.writesRecv {
						fi.writesRecv = true
						changed = true
					} else if len(t) > 6 && t[:6] == "param:" && !fi.writesPar[atoi(t[6:])] {
						fi.writesPar[atoi(t[6:])] = true
						changed = true
					}
				}
			}
		}
	}
	copyGetters = map[string]bool{}
	for key, fi := range infos {
		if fi.recvType != "Spec" || !ast.IsExported(fi.name) {
			continue
		}
		w := fi.writesRecv
		for range fi.writesPar {
			w = true
		}
		if w {
			getterWrites = append(getterWrites, key)
		}
		// map-returning pattern / enum getters: `return cloneXxx(...)`
		if len(fi.decl.Body.List) == 1 {
			if rs, ok := fi.decl.Body.List[0].(*ast.ReturnStmt); ok && len(rs.Results) == 1 {
				if c, ok := rs.Results[0].(*ast.CallExpr); ok {
					n := calleeName(c)
					if n == "cloneStringMap" || n == "cloneEnumMap" {
						copyGetters[fi.name] = true
					}
				} else if _, ok := rs.Results[0].(*ast.SelectorExpr); ok {
					if _, isMap := fi.decl.Type.Results.List[0].Type.(*ast.MapType); isMap {
						copyGetters[fi.name] = false
					}
				}
			}
		}
	}
	sort.Strings(getterWrites)
	return
}

func itoa(i int) string {
	if i == 0 {
		return "0"
	}
	s := ""
	for i > 0 {
		s = string(rune('0'+i%10)) + s
		i /= 10
	}
	return s
}

func atoi(s string) int {
	n := 0
	for _, c := range s {
		n = n*10 + int(c-'0')
	}
	return n
}
