package main

// skeleton.go — a small translator from Go function bodies to a "control skeleton": the sequence of calls,
// conditions, loops and returns of a function, with logging, verif hooks and the `if err != nil { return err }`
// plumbing normalised away.  The skeletons of the functions that orchestrate Flatten are regenerated on every run
// into Verif/Generated/Facts.lean; Verif/Generated/FactsOK/Flatten.lean proves (by `decide`) that they are the
// skeletons the Lean pipeline (`Flatten.flatten`, `Flatten.stripPointersAndOAIGen`, `Flatten.importReferences`,
// `Flatten.removeUnused`) was written after, which are spelled out next to those definitions.

import (
	"bytes"
	"go/ast"
	"go/printer"
	"go/token"
	"strings"
)

var skeletonIgnoredCalls = map[string]bool{"debugLog": true, "verifPhase": true, "debugOptions": true}

func exprSrc(fset *token.FileSet, e ast.Node) string {
	var b bytes.Buffer
	_ = printer.Fprint(&b, fset, e)
	return strings.Join(strings.Fields(b.String()), " ")
}

// callSummary: "callee(args…)" with the arguments printed as source.
func callSummary(fset *token.FileSet, c *ast.CallExpr) string {
	return exprSrc(fset, c)
}

func isErrNotNil(e ast.Expr) (string, bool) {
	b, ok := e.(*ast.BinaryExpr)
	if !ok || b.Op != token.NEQ {
		return "", false
	}
	id, ok := b.X.(*ast.Ident)
	if !ok {
		return "", false
	}
	if n, ok := b.Y.(*ast.Ident); !ok || n.Name != "nil" {
		return "", false
	}
	return id.Name, true
}

// returnsErrOnly: the block is `return <errName>` / `return <zero…>, <errName>` / `return …(errName)`
func returnsErr(fset *token.FileSet, blk *ast.BlockStmt, errName string) (string, bool) {
	if len(blk.List) != 1 {
		return "", false
	}
	r, ok := blk.List[0].(*ast.ReturnStmt)
	if !ok || len(r.Results) == 0 {
		return "", false
	}
	last := r.Results[len(r.Results)-1]
	src := exprSrc(fset, last)
	if src == errName {
		return "", true
	}
	if strings.Contains(src, errName) {
		return " via " + src, true
	}
	return "", false
}

func skeletonStmts(fset *token.FileSet, list []ast.Stmt, out *[]string, indent string) {
	for i := 0; i < len(list); i++ {
		st := list[i]
		switch s := st.(type) {
		case *ast.ExprStmt:
			if c, ok := s.X.(*ast.CallExpr); ok {
				if skeletonIgnoredCalls[calleeName(c)] {
					continue
				}
				*out = append(*out, indent+callSummary(fset, c))
				continue
			}
			*out = append(*out, indent+exprSrc(fset, s))
		case *ast.AssignStmt:
			// `x, err := f(..)` followed by `if err != nil { return err }` ⇒ "x := f(..) !"
			src := exprSrc(fset, s)
			if i+1 < len(list) {
				if ifs, ok := list[i+1].(*ast.IfStmt); ok && ifs.Init == nil && ifs.Else == nil {
					if en, ok := isErrNotNil(ifs.Cond); ok && assignsTo(s, en) {
						if via, ok := returnsErr(fset, ifs.Body, en); ok {
							*out = append(*out, indent+src+" !"+via)
							i++
							continue
						}
					}
				}
			}
			*out = append(*out, indent+src)
		case *ast.IfStmt:
			// `if err := f(..); err != nil { return err }` ⇒ "f(..) !"
			if as, ok := s.Init.(*ast.AssignStmt); ok && s.Else == nil {
				if en, ok := isErrNotNil(s.Cond); ok && assignsTo(as, en) && len(as.Rhs) == 1 {
					if via, ok := returnsErr(fset, s.Body, en); ok {
						lhsOnlyErr := len(as.Lhs) == 1
						if lhsOnlyErr {
							*out = append(*out, indent+exprSrc(fset, as.Rhs[0])+" !"+via)
						} else {
							*out = append(*out, indent+exprSrc(fset, as)+" !"+via)
						}
						continue
					}
				}
			}
			hdr := "if "
			if s.Init != nil {
				hdr += exprSrc(fset, s.Init) + "; "
			}
			*out = append(*out, indent+hdr+exprSrc(fset, s.Cond)+" {")
			skeletonStmts(fset, s.Body.List, out, indent+"  ")
			switch e := s.Else.(type) {
			case *ast.BlockStmt:
				*out = append(*out, indent+"} else {")
				skeletonStmts(fset, e.List, out, indent+"  ")
			case *ast.IfStmt:
				*out = append(*out, indent+"} else")
				skeletonStmts(fset, []ast.Stmt{e}, out, indent)
				continue
			}
			*out = append(*out, indent+"}")
		case *ast.ForStmt:
			hdr := "for"
			if s.Init != nil || s.Post != nil {
				hdr += " " + nodeOrEmpty(fset, s.Init) + "; " + nodeOrEmpty(fset, s.Cond) + "; " + nodeOrEmpty(fset, s.Post)
			} else if s.Cond != nil {
				hdr += " " + exprSrc(fset, s.Cond)
			}
			*out = append(*out, indent+hdr+" {")
			skeletonStmts(fset, s.Body.List, out, indent+"  ")
			*out = append(*out, indent+"}")
		case *ast.RangeStmt:
			hdr := "range " + exprSrc(fset, s.X)
			*out = append(*out, indent+hdr+" {")
			skeletonStmts(fset, s.Body.List, out, indent+"  ")
			*out = append(*out, indent+"}")
		case *ast.BlockStmt:
			skeletonStmts(fset, s.List, out, indent)
		case *ast.ReturnStmt:
			*out = append(*out, indent+exprSrc(fset, s))
		case *ast.DeclStmt:
			*out = append(*out, indent+exprSrc(fset, s))
		default:
			*out = append(*out, indent+exprSrc(fset, st))
		}
	}
}

func nodeOrEmpty(fset *token.FileSet, n ast.Node) string {
	if n == nil {
		return ""
	}
	switch v := n.(type) {
	case ast.Stmt:
		if v == nil {
			return ""
		}
	case ast.Expr:
		if v == nil {
			return ""
		}
	}
	return exprSrc(fset, n)
}

func assignsTo(as *ast.AssignStmt, name string) bool {
	for _, l := range as.Lhs {
		if id, ok := l.(*ast.Ident); ok && id.Name == name {
			return true
		}
	}
	return false
}

// skeletonOf returns the control skeleton of the named function of the root package ("<missing>" when absent).
func skeletonOf(fs *fileSet, name string) []string {
	fd := fs.fn(name)
	if fd == nil {
		return []string{"<missing>"}
	}
	var out []string
	skeletonStmts(fs.fset, fd.Body.List, &out, "")
	return out
}

// resetStale: the map / slice / pointer fields of the analyzed Spec (through its embedded index structs) that
// `(*Spec).reset` does not give a fresh value (`make`, composite literal or nil).  `reload()` = `reset(); initialize()`
// re-analyzes into the same Spec: a field that survives reset keeps entries of the previous document.
func resetStale(fs *fileSet) []string {
	structs := map[string]*ast.StructType{}
	for _, f := range fs.files {
		for _, d := range f.Decls {
			gd, ok := d.(*ast.GenDecl)
			if !ok {
				continue
			}
			for _, sp := range gd.Specs {
				if ts, ok := sp.(*ast.TypeSpec); ok {
					if st, ok := ts.Type.(*ast.StructType); ok {
						structs[ts.Name.Name] = st
					}
				}
			}
		}
	}
	var fields []string
	var walk func(prefix string, st *ast.StructType)
	walk = func(prefix string, st *ast.StructType) {
		for _, f := range st.Fields.List {
			for _, n := range f.Names {
				name := prefix + n.Name
				switch t := f.Type.(type) {
				case *ast.MapType, *ast.ArrayType:
					fields = append(fields, name)
				case *ast.Ident:
					if inner, ok := structs[t.Name]; ok {
						walk(name+".", inner)
					}
				case *ast.StarExpr:
					// the analyzed document itself (`spec *spec.Swagger`) is what reload re-reads; other pointers are state
					if name != "spec" {
						fields = append(fields, name)
					}
				default:
					_ = t
				}
			}
		}
	}
	root, ok := structs["Spec"]
	if !ok {
		return []string{"<no Spec struct>"}
	}
	walk("", root)
	fresh := map[string]bool{}
	var fd *ast.FuncDecl
	for _, f := range fs.files {
		for _, d := range f.Decls {
			if x, ok := d.(*ast.FuncDecl); ok && x.Name.Name == "reset" && x.Recv != nil && x.Body != nil {
				if _, typ := recvTypeName(x); typ == "Spec" {
					fd = x
				}
			}
		}
	}
	if fd == nil {
		return []string{"<no reset method>"}
	}
	recv, _ := recvTypeName(fd)
	// only top-level statements of reset count: an assignment under a condition does not always happen
	for _, st := range fd.Body.List {
		// … and only up to the first statement that can leave the function
		leaves := false
		ast.Inspect(st, func(n ast.Node) bool {
			if _, ok := n.(*ast.ReturnStmt); ok {
				leaves = true
			}
			return !leaves
		})
		if leaves {
			break
		}
		as, ok := st.(*ast.AssignStmt)
		if !ok || len(as.Lhs) != len(as.Rhs) {
			continue
		}
		for i, l := range as.Lhs {
			src := exprSrc(fs.fset, l)
			if !strings.HasPrefix(src, recv+".") {
				continue
			}
			r := as.Rhs[i]
			isNil := false
			if id, ok := r.(*ast.Ident); ok && id.Name == "nil" {
				isNil = true
			}
			if isFreshExpr(r) || isNil {
				fresh[strings.TrimPrefix(src, recv+".")] = true
			}
		}
	}
	var stale []string
	for _, f := range fields {
		if !fresh[f] {
			stale = append(stale, f)
		}
	}
	return stale
}
