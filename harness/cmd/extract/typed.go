package main

// Typed facts (go/packages): every `for … range` over a map-typed expression in the Flatten code of /repo.

import (
	"go/ast"
	"go/types"
	"sort"
	"strings"

	"golang.org/x/tools/go/packages"
)

func mapRanges(dir string) ([]string, error) {
	cfg := &packages.Config{Mode: packages.NeedName | packages.NeedFiles | packages.NeedCompiledGoFiles | packages.NeedSyntax | packages.NeedTypes | packages.NeedTypesInfo | packages.NeedImports | packages.NeedDeps, Dir: dir}
	pkgs, err := packages.Load(cfg, ".", "./internal/flatten/...")
	if err != nil {
		return nil, err
	}
	var out []string
	for _, p := range pkgs {
		for i, f := range p.Syntax {
			if i >= len(p.CompiledGoFiles) {
				continue
			}
			name := p.CompiledGoFiles[i]
			base := name[strings.LastIndex(name, "/")+1:]
			if strings.HasSuffix(base, "_test.go") || strings.HasPrefix(base, "verif_") {
				continue
			}
			if !(strings.HasPrefix(base, "flatten") || strings.Contains(name, "/internal/flatten/")) {
				continue
			}
			for _, d := range f.Decls {
				fd, ok := d.(*ast.FuncDecl)
				if !ok || fd.Body == nil {
					continue
				}
				ast.Inspect(fd.Body, func(n ast.Node) bool {
					rs, ok := n.(*ast.RangeStmt)
					if !ok {
						return true
					}
					if t := p.TypesInfo.TypeOf(rs.X); t != nil {
						if _, isMap := t.Underlying().(*types.Map); isMap {
							out = append(out, fd.Name.Name+":"+types.ExprString(rs.X))
						}
					}
					return true
				})
			}
		}
	}
	sort.Strings(out)
	// distinct
	var ded []string
	for i, s := range out {
		if i == 0 || s != out[i-1] {
			ded = append(ded, s)
		}
	}
	return ded, nil
}
