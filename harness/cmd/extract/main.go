package main

// extract — regenerates Verif/Generated/Facts.lean from /repo's current source (go/ast only, no type check).
// The tables are the parameters of the Lean model (see lean/Verif/Model/Facts.lean); the hypotheses the
// theorems need about them are discharged in lean/Verif/Generated/FactsOK.lean.

import (
	"bytes"
	"flag"
	"fmt"
	"go/ast"
	"go/parser"
	"go/token"
	"os"
	"path/filepath"
	"sort"
	"strconv"
	"strings"
)

type fileSet struct {
	fset  *token.FileSet
	files map[string]*ast.File
}

func parseDir(dir string) (*fileSet, error) {
	fs := &fileSet{fset: token.NewFileSet(), files: map[string]*ast.File{}}
	ents, err := os.ReadDir(dir)
	if err != nil {
		return nil, err
	}
	for _, e := range ents {
		n := e.Name()
		if e.IsDir() || !strings.HasSuffix(n, ".go") || strings.HasSuffix(n, "_test.go") || strings.HasPrefix(n, "verif_") {
			continue
		}
		f, err := parser.ParseFile(fs.fset, filepath.Join(dir, n), nil, 0)
		if err != nil {
			return nil, err
		}
		fs.files[n] = f
	}
	return fs, nil
}

func (fs *fileSet) fn(name string) *ast.FuncDecl {
	for _, f := range fs.files {
		for _, d := range f.Decls {
			if fd, ok := d.(*ast.FuncDecl); ok && fd.Name.Name == name && fd.Body != nil {
				return fd
			}
		}
	}
	return nil
}

// fnRecv finds a function by name, or a method by "Receiver.name".
func (fs *fileSet) fnRecv(name string) *ast.FuncDecl {
	recv := ""
	if i := strings.Index(name, "."); i >= 0 {
		recv, name = name[:i], name[i+1:]
	}
	for _, f := range fs.files {
		for _, d := range f.Decls {
			fd, ok := d.(*ast.FuncDecl)
			if !ok || fd.Name.Name != name || fd.Body == nil {
				continue
			}
			if recv == "" {
				return fd
			}
			if fd.Recv == nil || len(fd.Recv.List) == 0 {
				continue
			}
			t := fd.Recv.List[0].Type
			if st, ok := t.(*ast.StarExpr); ok {
				t = st.X
			}
			if id, ok := t.(*ast.Ident); ok && id.Name == recv {
				return fd
			}
		}
	}
	return nil
}

func calleeName(c *ast.CallExpr) string {
	switch f := c.Fun.(type) {
	case *ast.Ident:
		return f.Name
	case *ast.SelectorExpr:
		return f.Sel.Name
	}
	return ""
}

// lastField returns X for an expression of the form <expr>.X (after stripping & and parens).
func lastField(e ast.Expr) string {
	for {
		switch x := e.(type) {
		case *ast.ParenExpr:
			e = x.X
			continue
		case *ast.UnaryExpr:
			e = x.X
			continue
		case *ast.SelectorExpr:
			return x.Sel.Name
		}
		return ""
	}
}

func lower(s string) string { return strings.ToLower(s) }

func leanStr(s string) string { return strconv.Quote(s) }

func leanStrList(xs []string) string {
	q := make([]string, len(xs))
	for i, x := range xs {
		q[i] = leanStr(x)
	}
	return "[" + strings.Join(q, ", ") + "]"
}

var methodFields = map[string]bool{"Get": true, "Put": true, "Post": true, "Delete": true, "Options": true, "Head": true, "Patch": true}

func main() {
	repo := flag.String("repo", "/repo", "repository root")
	out := flag.String("out", "", "output Lean file")
	keysOut := flag.String("keys", "", "output Lean file for the translated SplitKey predicates (default: Keys.lean next to -out)")
	flag.Parse()

	root, err := parseDir(*repo)
	if err != nil {
		fmt.Fprintln(os.Stderr, "extract:", err)
		os.Exit(1)
	}

	var fixerMethods, mixinMethods, paramsForMethods []string
	var analyzerMethods [][2]string
	fixerNilGuard := false

	// FixEmptyResponseDescriptions: FixEmptyDescs(v.X.Responses)
	if fd := root.fn("FixEmptyResponseDescriptions"); fd != nil {
		ast.Inspect(fd.Body, func(n ast.Node) bool {
			if c, ok := n.(*ast.CallExpr); ok && calleeName(c) == "FixEmptyDescs" && len(c.Args) == 1 {
				if sel, ok := c.Args[0].(*ast.SelectorExpr); ok && sel.Sel.Name == "Responses" {
					if f := lastField(sel.X); methodFields[f] {
						fixerMethods = append(fixerMethods, lower(f))
					}
				}
			}
			return true
		})
	}
	// FixEmptyDescs: `if rs == nil { return }` before any use
	if fd := root.fn("FixEmptyDescs"); fd != nil && len(fd.Type.Params.List) == 1 && len(fd.Type.Params.List[0].Names) == 1 {
		pname := fd.Type.Params.List[0].Names[0].Name
		if len(fd.Body.List) > 0 {
			if ifs, ok := fd.Body.List[0].(*ast.IfStmt); ok && ifs.Init == nil {
				if be, ok := ifs.Cond.(*ast.BinaryExpr); ok && be.Op == token.EQL {
					x, xok := be.X.(*ast.Ident)
					y, yok := be.Y.(*ast.Ident)
					if xok && yok && ((x.Name == pname && y.Name == "nil") || (y.Name == pname && x.Name == "nil")) {
						for _, st := range ifs.Body.List {
							if _, ok := st.(*ast.ReturnStmt); ok {
								fixerNilGuard = true
							}
						}
					}
				}
			}
		}
	}
	// analyzeOperations: s.analyzeOperation("GET", path, op.Get)
	if fd := root.fn("analyzeOperations"); fd != nil {
		ast.Inspect(fd.Body, func(n ast.Node) bool {
			if c, ok := n.(*ast.CallExpr); ok && calleeName(c) == "analyzeOperation" && len(c.Args) == 3 {
				if lit, ok := c.Args[0].(*ast.BasicLit); ok && lit.Kind == token.STRING {
					m, _ := strconv.Unquote(lit.Value)
					if f := lastField(c.Args[2]); methodFields[f] {
						analyzerMethods = append(analyzerMethods, [2]string{m, lower(f)})
					}
				}
			}
			return true
		})
	}
	// pathItemOps: appendOp(rv, p.X)
	if fd := root.fn("pathItemOps"); fd != nil {
		ast.Inspect(fd.Body, func(n ast.Node) bool {
			if c, ok := n.(*ast.CallExpr); ok && calleeName(c) == "appendOp" && len(c.Args) == 2 {
				if f := lastField(c.Args[1]); methodFields[f] {
					mixinMethods = append(mixinMethods, lower(f))
				}
			}
			return true
		})
	}
	// SafeParametersFor: gatherParams(&pi, pi.X)
	if fd := root.fn("SafeParametersFor"); fd != nil {
		ast.Inspect(fd.Body, func(n ast.Node) bool {
			if c, ok := n.(*ast.CallExpr); ok && calleeName(c) == "gatherParams" && len(c.Args) == 2 {
				if f := lastField(c.Args[1]); methodFields[f] {
					paramsForMethods = append(paramsForMethods, lower(f))
				}
			}
			return true
		})
	}

	// getOpIDs / mergePaths: both compare an operation id with "" (and so ignore id-less operations)
	cmpIDEmpty := func(name string) bool {
		fd := root.fn(name)
		found := false
		if fd == nil {
			return false
		}
		ast.Inspect(fd.Body, func(n ast.Node) bool {
			if be, ok := n.(*ast.BinaryExpr); ok && (be.Op == token.EQL || be.Op == token.NEQ) {
				isID := func(e ast.Expr) bool { s, ok := e.(*ast.SelectorExpr); return ok && s.Sel.Name == "ID" }
				isEmpty := func(e ast.Expr) bool { l, ok := e.(*ast.BasicLit); return ok && l.Value == `""` }
				if (isID(be.X) && isEmpty(be.Y)) || (isID(be.Y) && isEmpty(be.X)) {
					found = true
				}
			}
			return true
		})
		return found
	}
	mixinSkipsEmptyIDs := cmpIDEmpty("getOpIDs") && cmpIDEmpty("mergePaths")
	// mergeSwaggerProps: `if primary.ExternalDocs == nil {..} else if m.ExternalDocs != nil {..}`
	mixinExtDocsGuard := false
	if fd := root.fn("mergeSwaggerProps"); fd != nil {
		selIs := func(e ast.Expr, field string) bool { s, ok := e.(*ast.SelectorExpr); return ok && s.Sel.Name == field }
		ast.Inspect(fd.Body, func(n ast.Node) bool {
			ifs, ok := n.(*ast.IfStmt)
			if !ok {
				return true
			}
			be, ok := ifs.Cond.(*ast.BinaryExpr)
			if !ok || be.Op != token.EQL || !selIs(be.X, "ExternalDocs") {
				return true
			}
			if els, ok := ifs.Else.(*ast.IfStmt); ok {
				if b2, ok := els.Cond.(*ast.BinaryExpr); ok && b2.Op == token.NEQ && selIs(b2.X, "ExternalDocs") {
					if id, ok := b2.Y.(*ast.Ident); ok && id.Name == "nil" {
						mixinExtDocsGuard = true
					}
				}
			}
			return true
		})
	}

	// analyzeDefaultResponse calls addHeaderEnum
	defaultHeaderEnums := false
	if fd := root.fn("analyzeDefaultResponse"); fd != nil {
		ast.Inspect(fd.Body, func(n ast.Node) bool {
			if c, ok := n.(*ast.CallExpr); ok && calleeName(c) == "addHeaderEnum" {
				defaultHeaderEnums = true
			}
			return true
		})
	}

	// SafeParamsFor / SafeParametersFor: no `<x>.Paths.Paths` and no field selection on a map-index expression
	paramsNilSafe := true
	for _, name := range []string{"SafeParamsFor", "SafeParametersFor"} {
		fd := root.fn(name)
		if fd == nil {
			paramsNilSafe = false
			continue
		}
		ast.Inspect(fd.Body, func(n ast.Node) bool {
			if sel, ok := n.(*ast.SelectorExpr); ok {
				if inner, ok := sel.X.(*ast.SelectorExpr); ok && sel.Sel.Name == "Paths" && inner.Sel.Name == "Paths" {
					paramsNilSafe = false
				}
				if _, ok := sel.X.(*ast.IndexExpr); ok {
					paramsNilSafe = false
				}
			}
			return true
		})
	}

	// inferFromRef consults a `visited` set before expanding the $ref
	schemaRefGuard := false
	if fd := root.fn("inferFromRef"); fd != nil {
		ast.Inspect(fd.Body, func(n ast.Node) bool {
			if ifs, ok := n.(*ast.IfStmt); ok && ifs.Init != nil {
				if as, ok := ifs.Init.(*ast.AssignStmt); ok && len(as.Rhs) == 1 {
					if ix, ok := as.Rhs[0].(*ast.IndexExpr); ok {
						if sel, ok := ix.X.(*ast.SelectorExpr); ok && sel.Sel.Name == "visited" {
							for _, st := range ifs.Body.List {
								if _, ok := st.(*ast.ReturnStmt); ok {
									schemaRefGuard = true
								}
							}
						}
					}
				}
			}
			return true
		})
	}

	// phases of Flatten: each must end (top level) with opts.Spec.reload(), possibly guarded by a flag or inside its loop
	isReload := func(st ast.Stmt) bool {
		es, ok := st.(*ast.ExprStmt)
		if !ok {
			return false
		}
		c, ok := es.X.(*ast.CallExpr)
		return ok && calleeName(c) == "reload"
	}
	endsWithReload := func(self string, body *ast.BlockStmt) bool {
		list := body.List
		if n := len(list); n > 0 {
			if _, isRet := list[n-1].(*ast.ReturnStmt); isRet {
				list = list[:n-1]
			}
		}
		// a tail call of the phase to itself after the reload (`if again { return phase(opts) }`): that run ends the same way
		if n := len(list); n > 0 {
			if is, ok := list[n-1].(*ast.IfStmt); ok && is.Else == nil && len(is.Body.List) == 1 {
				if rs, ok := is.Body.List[0].(*ast.ReturnStmt); ok && len(rs.Results) == 1 {
					if c, ok := rs.Results[0].(*ast.CallExpr); ok && calleeName(c) == self {
						list = list[:n-1]
					}
				}
			}
		}
		if len(list) == 0 {
			return false
		}
		switch last := list[len(list)-1].(type) {
		case *ast.IfStmt:
			return len(last.Body.List) > 0 && isReload(last.Body.List[len(last.Body.List)-1])
		case *ast.ForStmt:
			return len(last.Body.List) > 0 && isReload(last.Body.List[len(last.Body.List)-1])
		default:
			return isReload(last)
		}
	}
	var phasesWithoutReload []string
	for _, ph := range []string{"expand", "normalizeRef", "removeUnusedShared", "importReferences", "nameInlinedSchemas", "stripOAIGen", "namePointers", "removeUnusedSinglePass"} {
		fd := root.fn(ph)
		if fd == nil || !endsWithReload(ph, fd.Body) {
			phasesWithoutReload = append(phasesWithoutReload, ph)
		}
	}
	// uniqifyName: no map lookup `definitions[candidate]` (every candidate is tested case-insensitively)
	uniqifyCaseInsensitive := false
	if fd := root.fn("uniqifyName"); fd != nil && len(fd.Type.Params.List) > 0 && len(fd.Type.Params.List[0].Names) > 0 {
		defsName := fd.Type.Params.List[0].Names[0].Name
		uniqifyCaseInsensitive = true
		usesFold := false
		ast.Inspect(fd.Body, func(n ast.Node) bool {
			if ix, ok := n.(*ast.IndexExpr); ok {
				if id, ok := ix.X.(*ast.Ident); ok && id.Name == defsName {
					uniqifyCaseInsensitive = false
				}
			}
			if c, ok := n.(*ast.CallExpr); ok && calleeName(c) == "EqualFold" {
				usesFold = true
			}
			return true
		})
		uniqifyCaseInsensitive = uniqifyCaseInsensitive && usesFold
	}
	ranges, err := mapRanges(*repo)
	if err != nil {
		fmt.Fprintln(os.Stderr, "extract: map ranges:", err)
		os.Exit(1)
	}

	getterWrites, copyGetters := analyzeEffects(root)
	var aliasGetters, freshGetters []string
	for k, v := range copyGetters {
		if v {
			freshGetters = append(freshGetters, k)
		} else {
			aliasGetters = append(aliasGetters, k)
		}
	}
	sort.Strings(aliasGetters)
	sort.Strings(freshGetters)

	var b bytes.Buffer
	b.WriteString("import Verif.Model.Facts\n")
	b.WriteString("-- GENERATED by /verif/harness/cmd/extract from /repo's working tree; do not edit.\n\n")
	b.WriteString("def Generated.facts : Facts where\n")
	fmt.Fprintf(&b, "  fixerMethods := %s\n", leanStrList(fixerMethods))
	fmt.Fprintf(&b, "  fixerNilGuard := %v\n", fixerNilGuard)
	pairs := make([]string, len(analyzerMethods))
	for i, p := range analyzerMethods {
		pairs[i] = fmt.Sprintf("(%s, %s)", leanStr(p[0]), leanStr(p[1]))
	}
	fmt.Fprintf(&b, "  analyzerMethods := [%s]\n", strings.Join(pairs, ", "))
	fmt.Fprintf(&b, "  defaultHeaderEnums := %v\n", defaultHeaderEnums)
	fmt.Fprintf(&b, "  mixinMethods := %s\n", leanStrList(mixinMethods))
	fmt.Fprintf(&b, "  mixinSkipsEmptyIDs := %v\n", mixinSkipsEmptyIDs)
	fmt.Fprintf(&b, "  mixinExtDocsGuard := %v\n", mixinExtDocsGuard)
	fmt.Fprintf(&b, "  schemaRefGuard := %v\n", schemaRefGuard)
	fmt.Fprintf(&b, "  paramsNilSafe := %v\n", paramsNilSafe)
	fmt.Fprintf(&b, "  getterWrites := %s\n", leanStrList(getterWrites))
	fmt.Fprintf(&b, "  freshMapGetters := %s\n", leanStrList(freshGetters))
	fmt.Fprintf(&b, "  aliasMapGetters := %s\n", leanStrList(aliasGetters))
	fmt.Fprintf(&b, "  phasesWithoutReload := %s\n", leanStrList(phasesWithoutReload))
	fmt.Fprintf(&b, "  uniqifyCaseInsensitive := %v\n", uniqifyCaseInsensitive)
	fmt.Fprintf(&b, "  mapRanges := %s\n", leanStrList(ranges))
	fmt.Fprintf(&b, "  paramsForMethods := %s\n", leanStrList(paramsForMethods))
	fmt.Fprintf(&b, "  resetStale := %s\n", leanStrList(resetStale(root)))
	fmt.Fprintf(&b, "  reloadSkeleton := %s\n", leanStrList(skeletonOf(root, "reload")))
	// control skeletons of the functions that orchestrate Flatten (skeleton.go)
	b.WriteString("  skeletons := [\n")
	skNames := []string{"Flatten", "expand", "importReferences", "stripPointersAndOAIGen", "removeUnused", "removeUnusedShared"}
	for i, n := range skNames {
		sep := ","
		if i == len(skNames)-1 {
			sep = ""
		}
		fmt.Fprintf(&b, "    (%s, %s)%s\n", leanStr(n), leanStrList(skeletonOf(root, n)), sep)
	}
	b.WriteString("  ]\n")
	// … and of the phase functions the Lean model transcribes function by function (Verif/Model/Flatten.lean)
	b.WriteString("  phaseSkeletons := [\n")
	phNames := []string{"normalizeRef", "removeUnusedSinglePass", "importExternalReferences", "importNewRef", "importKnownRef",
		"nameInlinedSchemas", "namePointers", "flattenAnonPointer", "stripOAIGen", "updateRefParents", "stripOAIGenForRef",
		"Name", "uniqifyName", "namesFromKey", "namesForParam", "namesForOperation", "nameFromRef"}
	for i, n := range phNames {
		sep := ","
		if i == len(phNames)-1 {
			sep = ""
		}
		fmt.Fprintf(&b, "    (%s, %s)%s\n", leanStr(n), leanStrList(skeletonOf(root, n)), sep)
	}
	b.WriteString("  ]\n")
	_ = sort.Strings

	// … and of the functions the other models transcribe: schema.go (classification), the walk of analyzer.go,
	// mixin.go, fixer.go
	groups := []struct {
		field string
		names []string
	}{
		{"classifySkeletons", []string{"Schema", "inherits", "inferFromRef", "inferSimpleSchema", "inferKnownType", "inferMap", "inferArray",
			"inferTuple", "inferBaseType", "inferEnum", "initializeFlags", "isObjectType", "isArrayType", "isAnalyzedAsComplex"}},
		{"analyzerSkeletons", []string{"initialize", "analyzeOperations", "analyzeItems", "analyzeParameter", "analyzeOperation",
			"analyzeDefaultResponse", "analyzeResponse", "analyzeSchema"}},
		{"mixinSkeletons", []string{"Mixin", "getOpIDs", "pathItemOps", "appendOp", "mergeSecurityDefinitions", "mergeSecurityRequirements",
			"mergeDefinitions", "mergePaths", "mergeParameters", "mergeResponses", "mergeConsumes", "mergeProduces", "mergeTags", "mergeSchemes",
			"mergeSwaggerProps", "mergeExternalDocs", "mergeInfo", "mergeExtensions", "initPrimary"}},
		{"fixerSkeletons", []string{"FixEmptyResponseDescriptions", "FixEmptyDescs", "FixEmptyDesc"}},
	}
	for _, gr := range groups {
		fmt.Fprintf(&b, "  %s := [\n", gr.field)
		for i, n := range gr.names {
			sep := ","
			if i == len(gr.names)-1 {
				sep = ""
			}
			fmt.Fprintf(&b, "    (%s, %s)%s\n", leanStr(n), leanStrList(skeletonOf(root, n)), sep)
		}
		b.WriteString("  ]\n")
	}
	// … and of the functions of the internal packages the Flatten model transcribes (replace, normalize, operations,
	// sortref, schutils): "<package>.<function>" or "<package>.<Receiver>.<method>"
	internal := []struct {
		dir   string
		names []string
	}{
		{"internal/flatten/replace", []string{"RewriteSchemaToRef", "rewriteParentRef", "getPointerFromKey", "getParentFromKey", "isNilTarget",
			"UpdateRef", "UpdateRefWithSchema", "DeepestRef"}},
		{"internal/flatten/normalize", []string{"RebaseRef", "Path"}},
		{"internal/flatten/operations", []string{"AllOpRefsByRef", "OpRefsByRef", "OpRefs.Less", "GatherOperations"}},
		{"internal/flatten/sortref", []string{"Keys.Less", "KeyParts", "DefinitionName", "isKeyName", "BuildName", "ResponseName", "PathItemRef",
			"PathRef", "DepthFirst", "topmostRefs.Less", "TopmostFirst", "ReverseIndex"}},
		{"internal/flatten/schutils", []string{"Save", "Clone"}},
	}
	b.WriteString("  internalSkeletons := [\n")
	first := true
	for _, pk := range internal {
		pfs, perr := parseDir(filepath.Join(*repo, pk.dir))
		for _, n := range pk.names {
			sk := []string{"<missing>"}
			if perr == nil {
				if fd := pfs.fnRecv(n); fd != nil {
					sk = nil
					skeletonStmts(pfs.fset, fd.Body.List, &sk, "")
				}
			}
			if !first {
				b.WriteString(",\n")
			}
			first = false
			fmt.Fprintf(&b, "    (%s, %s)", leanStr(filepath.Base(pk.dir)+"."+n), leanStrList(sk))
		}
	}
	b.WriteString("\n  ]\n")
	kb, kerr := generateKeysLean(*repo)
	if kerr != nil {
		fmt.Fprintln(os.Stderr, "extract: keys:", kerr)
		os.Exit(1)
	}
	if *out == "" {
		os.Stdout.Write(b.Bytes())
		if *keysOut == "-" {
			os.Stdout.Write(kb)
		}
		return
	}
	kp := *keysOut
	if kp == "" {
		kp = filepath.Join(filepath.Dir(*out), "Keys.lean")
	}
	if old, err := os.ReadFile(kp); err != nil || !bytes.Equal(old, kb) {
		if err := os.WriteFile(kp, kb, 0o644); err != nil {
			fmt.Fprintln(os.Stderr, "extract:", err)
			os.Exit(1)
		}
	}
	if old, err := os.ReadFile(*out); err == nil && bytes.Equal(old, b.Bytes()) {
		return // unchanged: keep the build cache warm
	}
	if err := os.WriteFile(*out, b.Bytes(), 0o644); err != nil {
		fmt.Fprintln(os.Stderr, "extract:", err)
		os.Exit(1)
	}
}
