package main

var props = map[string]*PropDef{}

func reg(p *PropDef) { props[p.ID] = p }

func init() {
	reg(&PropDef{
		ID: "C19", Level: "proof", FactsOK: true,
		LeanModules: []string{"Verif.Properties.C19"},
		Streams:     []func(*Ctx) StreamResult{fixStream.Run},
		Assumptions: []string{
			"documents are those go-openapi/spec loads; the model works on their JSON in serialization normal form",
			"a response is a $ref when its JSON has a string-valued $ref key",
		},
	})
}
