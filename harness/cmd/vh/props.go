package main

var props = map[string]*PropDef{}

func reg(p *PropDef) { props[p.ID] = p }

func init() {
	analyzeAssume := []string{
		"documents are those go-openapi/spec loads; $ref strings are pre-normalised by jsonreference (the model treats them as opaque)",
		"names range over the C01 alphabet (no '%', '.', '..', empty); header names contain no '/' or '~'; non-body parameters carry no schema; status codes are canonical decimals",
	}
	for _, id := range []string{"C11", "C12", "C13"} {
		reg(&PropDef{
			ID: id, Level: "proof", FactsOK: true,
			LeanModules: []string{"Verif.Properties." + id},
			Streams:     []func(*Ctx) StreamResult{analyzeStream.Run},
			Assumptions: analyzeAssume,
		})
	}
	for _, id := range []string{"C14", "C15"} {
		reg(&PropDef{
			ID: id, Level: "proof", FactsOK: true,
			LeanModules: []string{"Verif.Properties." + id},
			Streams:     []func(*Ctx) StreamResult{opsStream.Run},
			Assumptions: append([]string{
				"swag.ToGoName and the decoding of $ref strings into pointer tokens are external functions: their values on the names/refs of each document are computed by the real libraries and shipped with the case",
				"method strings are ASCII; lookups by id are made for non-empty unique ids and unknown ids",
			}, analyzeAssume...),
		})
	}
	flatAssume := []string{
		"bundles are those of W as produced by the bundle generator (see coverage.rule); every Flatten call runs in a child process with a wall-clock limit",
		"the resolution of a $ref string relative to its document (jsonreference + net/url + path), the canonical spelling of a definition $ref, the strfmt registry and swag name mangling are external functions whose values are supplied by the real libraries",
		"input and output documents are compared in the serialization normal form of the spec model (absent == zero value); the x-go-gen-location marker is not part of the meaning",
	}
	for _, id := range []string{"C01", "C02", "C03", "C04", "C05", "C06", "C07", "C08", "C09", "C10"} {
		lvl := "translation_validation"
		switch id {
		case "C09":
			lvl = "fault_enumeration"
		case "C07":
			lvl = "exploration"
		case "C10":
			lvl = "proof"
		}
		mods := []string{}
		// every Flatten property rests on the orchestration skeleton regenerated from flatten.go (FactsOK/Flatten.lean)
		factsOK := true
		switch id {
		case "C01":
			mods = []string{"Verif.Properties.C01", "Verif.Properties.C01Move", "Verif.Properties.C01Skeleton", "Verif.Properties.C01RetargetExample", "Verif.Properties.C01Phases", "Verif.Properties.C01PhasesExample", "Verif.Properties.C01Import", "Verif.Properties.C01Name"}
		case "C02":
			mods = []string{"Verif.Properties.C02"}
		case "C03":
			mods = []string{"Verif.Properties.C03", "Verif.Properties.C03Phases"}
			factsOK = true
		case "C04":
			mods = []string{"Verif.Properties.C04", "Verif.Properties.C01", "Verif.Properties.C02", "Verif.Properties.C03"}
		case "C05":
			mods = []string{"Verif.Properties.C05", "Verif.Properties.C01", "Verif.Properties.C02"}
		case "C06":
			mods = []string{"Verif.Properties.C06", "Verif.Properties.C02"}
		case "C07":
			mods = []string{"Verif.Properties.C07"}
			factsOK = true
		case "C08":
			mods = []string{"Verif.Properties.C08"}
		case "C09":
			mods = []string{"Verif.Properties.C09", "Verif.Properties.C06", "Verif.Properties.C20", "Verif.Properties.C03"}
		case "C10":
			mods = []string{"Verif.Properties.C10"}
			factsOK = true
		}
		reg(&PropDef{
			ID: id, Level: lvl, FactsOK: factsOK,
			LeanModules: mods,
			Streams:     flatStreams(id),
			Assumptions: flatAssume,
		})
	}
	reg(&PropDef{
		ID: "C16", Level: "proof", FactsOK: true,
		LeanModules: []string{"Verif.Properties.C16"},
		Streams:     []func(*Ctx) StreamResult{readonlyStream.Run, raceStream},
		Assumptions: []string{
			"partial: the theorems are about atomic queries over an unchanging state; that no exported method of *Spec writes to shared state is established by the regenerated syntactic effect table (conservative, trusted) and sampled by the race detector; data races below query granularity are a Go-memory-model behaviour the model cannot exhibit",
			"swag.ToGoName's internal caches (sync.Pool / sync.Once) are library code, covered only by the race detector runs",
		},
	})
	reg(&PropDef{
		ID: "C20", Level: "proof", FactsOK: true,
		LeanModules: []string{"Verif.Properties.C20"},
		Streams:     []func(*Ctx) StreamResult{classifyStream.Run},
		Assumptions: []string{
			"spec.ExpandSchema is modelled lazily (resolve on demand + reachability check for dangling $refs); the equivalence with the library's eager expansion is validated by the classify stream, not proved",
			"the strfmt registry and the decoding of $ref strings are external functions whose values are shipped with each case",
			"$ref targets are definitions of the root document",
		},
	})
	mixinAssume := []string{
		"documents are those go-openapi/spec loads, in serialization normal form (absent == zero value)",
		"operation ids are unique within each document and none has the form <id>Mixin<N> of another (hypotheses of C18; the generator guarantees them)",
		"extension keys are x-... in any letter case (the spec model keeps them as written)",
	}
	reg(&PropDef{
		ID: "C17", Level: "proof", FactsOK: true,
		LeanModules: []string{"Verif.Properties.C17"},
		Streams:     []func(*Ctx) StreamResult{mixinStream.Run},
		Assumptions: mixinAssume,
	})
	reg(&PropDef{
		ID: "C18", Level: "proof", FactsOK: true,
		LeanModules: []string{"Verif.Properties.C18"},
		Streams:     []func(*Ctx) StreamResult{mixinStream.Run},
		Assumptions: mixinAssume,
	})
	reg(&PropDef{
		ID: "C19", Level: "proof", FactsOK: true,
		LeanModules: []string{"Verif.Properties.C19"},
		Streams:     []func(*Ctx) StreamResult{fixStream.Run},
		Assumptions: []string{
			"documents are those go-openapi/spec loads; the model works on their JSON in serialization normal form",
			"a response is a $ref when its JSON has a string-valued $ref key",
		},
	})
}

// flatStreams: the whole-pipeline stream plus the unit streams that tie the modelled pieces to the code.
func flatStreams(id string) []func(*Ctx) StreamResult {
	ss := []func(*Ctx) StreamResult{flattenStream.Run}
	switch id {
	case "C01", "C04":
		ss = append(ss, replaceStream.Run, phasesStreamRun)
	case "C02", "C08", "C10":
		ss = append(ss, phasesStreamRun)
	case "C03":
		ss = append(ss, uniqifyStream.Run, phasesStreamRun)
	case "C06":
		ss = append(ss, removeUnusedStream.Run, phasesStreamRun)
	case "C07":
		// the order-independence theorems speak about the phase model, which the phases stream ties to flatten.go
		ss = append(ss, sortStream.Run, phasesStreamRun)
	case "C09":
		ss = append(ss, flattenPlusStream.Run, removeUnusedStream.Run)
	}
	return ss
}
