package main

import (
	"encoding/json"
	"fmt"

	"github.com/go-openapi/spec"
)

// StreamSpec is a correspondence stream: generate inputs, run the implementation, run the Lean model and Spec
// oracle through the driver, compare.
type StreamSpec struct {
	Name       string
	Op         string
	N          int // quick-tier number of generated cases
	Corpus     func() []any
	Gen        func(g *Gen, i int) (in any, note string)
	Impl       func(in any) any
	ImplBatch  func(ins []any) []any // when set, used instead of Impl for the whole run (child processes)
	DriverIn   func(c *Case) any     // when set, what is sent to the Lean driver (computed after the implementation ran)
	Compare    func(c *Case, out any) []Finding
	Nontrivial func(c *Case) bool
	Rule       string
	Stream     uint64 // PCG stream id
}

func (s *StreamSpec) register() *StreamSpec {
	replayers[s.Op] = func(c *Case) []Finding {
		if s.ImplBatch != nil {
			c.Impl = s.ImplBatch([]any{c.In})[0]
		} else {
			c.Impl = s.Impl(c.In)
		}
		out, err := runDriver(s.driverCases([]*Case{c}))
		if err != nil {
			return []Finding{{Kind: "obligation", Stream: s.Name, Detail: err.Error()}}
		}
		return s.Compare(c, out[c.ID])
	}
	return s
}

// driverCases: the lines sent to the Lean driver.
func (s *StreamSpec) driverCases(cases []*Case) []*Case {
	if s.DriverIn == nil {
		return cases
	}
	out := make([]*Case, 0, len(cases))
	for _, c := range cases {
		out = append(out, &Case{ID: c.ID, Op: c.Op, In: s.DriverIn(c)})
	}
	return out
}

func (s *StreamSpec) Run(ctx *Ctx) StreamResult {
	res := StreamResult{Name: s.Name, Rule: s.Rule, Features: map[string]int{}}
	var cases []*Case
	id := 0
	add := func(in any, note string, feat map[string]int) {
		id++
		c := &Case{ID: id, Op: s.Op, In: in, Note: note, Feat: feat}
		cases = append(cases, c)
	}
	if s.Corpus != nil {
		for i, in := range s.Corpus() {
			add(in, fmt.Sprintf("corpus[%d]", i), map[string]int{"corpus": 1})
		}
	}
	n := ctx.N(s.N)
	for i := 0; i < n; i++ {
		g := NewGen(ctx.Seed, s.Stream<<32|uint64(i))
		in, note := s.Gen(g, i)
		if in == nil {
			continue
		}
		add(in, fmt.Sprintf("seed=%d stream=%d index=%d %s", ctx.Seed, s.Stream, i, note), g.feat)
	}
	if s.ImplBatch != nil {
		ins := make([]any, len(cases))
		for i, c := range cases {
			ins[i] = c.In
		}
		for i, a := range s.ImplBatch(ins) {
			cases[i].Impl = a
		}
	}
	for _, c := range cases {
		if s.ImplBatch == nil {
			c.Impl = s.Impl(c.In)
		}
		mergeFeat(res.Features, c.Feat)
		res.Features["impl:"+outcomeTag(c.Impl)]++
	}
	outs, err := runDriver(s.driverCases(cases))
	if err != nil {
		res.Findings = append(res.Findings, Finding{Kind: "obligation", Stream: s.Name, Detail: "driver failed: " + err.Error(), Signature: "driver-failed"})
	}
	for _, c := range cases {
		out, ok := outs[c.ID]
		if !ok {
			if err == nil {
				res.Findings = append(res.Findings, Finding{Kind: "correspondence", Stream: s.Name, Detail: "driver returned nothing for the case", Signature: s.Name + ":no-output", Case: c})
			}
			continue
		}
		if u := get(out, "unsupported"); u != nil {
			res.Findings = append(res.Findings, Finding{Kind: "obligation", Stream: s.Name, Detail: fmt.Sprintf("driver does not support op %v", u), Signature: s.Name + ":unsupported"})
			break
		}
		fs := s.Compare(c, out)
		for i := range fs {
			fs[i].Stream = s.Name
			if fs[i].Case == nil {
				fs[i].Case = c
			}
			if fs[i].Model == nil {
				fs[i].Model = out
			}
		}
		// keep the first few of each signature
		res.Findings = append(res.Findings, fs...)
	}
	res.Findings = shrinkAndDedupe(s, res.Findings)
	res.Evaluations = len(cases)
	res.Nontrivial = distinctCount(cases, s.Nontrivial)
	for i, c := range cases {
		if i%max(1, len(cases)/3) == 0 && len(res.Samples) < 3 {
			res.Samples = append(res.Samples, M{"op": c.Op, "in": c.In, "impl": truncate(string(mustJSON(c.Impl)), 400), "note": c.Note})
		}
	}
	return res
}

// shrinkAndDedupe keeps, per (kind, signature), the smallest failing case.
func shrinkAndDedupe(s *StreamSpec, fs []Finding) []Finding {
	best := map[string]Finding{}
	var order []string
	for _, f := range fs {
		k := f.Kind + "|" + f.Signature
		b, ok := best[k]
		if !ok {
			order = append(order, k)
			best[k] = f
			continue
		}
		if f.Case != nil && b.Case != nil && len(mustJSON(f.Case.In)) < len(mustJSON(b.Case.In)) {
			best[k] = f
		}
	}
	out := make([]Finding, 0, len(order))
	for _, k := range order {
		out = append(out, best[k])
	}
	return out
}

// ---- spec helpers -----------------------------------------------------------------------------------

func loadSwagger(doc any) (*spec.Swagger, error) {
	var sw spec.Swagger
	if err := json.Unmarshal(mustJSON(doc), &sw); err != nil {
		return nil, err
	}
	return &sw, nil
}

// normDoc passes a document through the spec model's load + marshal (its serialization normal form).
func normDoc(doc any) (any, error) {
	sw, err := loadSwagger(doc)
	if err != nil {
		return nil, err
	}
	b, err := json.Marshal(sw)
	if err != nil {
		return nil, err
	}
	var out any
	if err := json.Unmarshal(b, &out); err != nil {
		return nil, err
	}
	return out, nil
}

func swaggerJSON(sw *spec.Swagger) any {
	b, err := json.Marshal(sw)
	if err != nil {
		return M{"marshal-error": err.Error()}
	}
	var out any
	_ = json.Unmarshal(b, &out)
	return out
}

// normalFormGen wraps a document generator so that the case input is already in serialization normal form.
func normalFormDoc(raw any) any {
	n1, err := normDoc(raw)
	if err != nil {
		return nil
	}
	n2, err := normDoc(n1)
	if err != nil || !jsonEq(n1, n2) {
		return nil
	}
	return n1
}

func cmpOutcomeDocs(c *Case, out any, modelPath ...string) []Finding {
	model := get(out, modelPath...)
	mt, it := outcomeTag(model), outcomeTag(c.Impl)
	if mt != it {
		return []Finding{{Kind: "correspondence", Detail: fmt.Sprintf("model outcome %s, implementation outcome %s (%s)", mt, it, truncate(string(mustJSON(c.Impl)), 300)), Signature: fmt.Sprintf("%s:outcome:%s-vs-%s", c.Op, mt, it)}}
	}
	if mt == "ok" {
		md, err := normDoc(get(model, "ok"))
		if err != nil {
			return []Finding{{Kind: "correspondence", Detail: "model output does not load: " + err.Error(), Signature: c.Op + ":model-unloadable"}}
		}
		if !jsonEq(md, get(c.Impl, "ok")) {
			return []Finding{{Kind: "correspondence", Detail: "model and implementation produce different documents: " + firstDiff(md, get(c.Impl, "ok")), Signature: c.Op + ":doc-differs"}}
		}
	}
	return nil
}

// firstDiff describes the first difference between two JSON values.
func firstDiff(a, b any) string {
	return diffAt("", canon(a), canon(b))
}

func diffAt(path string, a, b any) string {
	switch x := a.(type) {
	case map[string]any:
		y, ok := b.(map[string]any)
		if !ok {
			return fmt.Sprintf("at %s: %s vs %s", path, truncate(canonStr(a), 120), truncate(canonStr(b), 120))
		}
		for k, v := range x {
			w, has := y[k]
			if !has {
				return fmt.Sprintf("at %s/%s: present on the left only (%s)", path, k, truncate(canonStr(v), 120))
			}
			if d := diffAt(path+"/"+k, v, w); d != "" {
				return d
			}
		}
		for k, w := range y {
			if _, has := x[k]; !has {
				return fmt.Sprintf("at %s/%s: present on the right only (%s)", path, k, truncate(canonStr(w), 120))
			}
		}
		return ""
	case []any:
		y, ok := b.([]any)
		if !ok || len(x) != len(y) {
			return fmt.Sprintf("at %s: %s vs %s", path, truncate(canonStr(a), 120), truncate(canonStr(b), 120))
		}
		for i := range x {
			if d := diffAt(fmt.Sprintf("%s/%d", path, i), x[i], y[i]); d != "" {
				return d
			}
		}
		return ""
	}
	if canonStr(a) != canonStr(b) {
		return fmt.Sprintf("at %s: %s vs %s", path, truncate(canonStr(a), 120), truncate(canonStr(b), 120))
	}
	return ""
}

func normalFormAll(docs []any) []any {
	out := make([]any, 0, len(docs))
	for _, d := range docs {
		if n := normalFormDoc(d); n != nil {
			out = append(out, n)
		}
	}
	return out
}
