package main

import (
	"bufio"
	"crypto/sha256"
	"encoding/hex"
	"encoding/json"
	"fmt"
	"os"
	"os/exec"
	"path/filepath"
	"regexp"
	"sort"
	"strings"
	"syscall"
	"time"
)

// PropDef describes how one property is decided.
type PropDef struct {
	ID          string
	Level       string // level written to the evidence file; must match MANIFEST.json
	LeanModules []string
	FactsOK     bool // whether the regenerated-facts obligations concern this property
	Streams     []func(*Ctx) StreamResult
	TrustedBase []string
	Assumptions []string
}

var allowedAxioms = map[string]bool{"propext": true, "Classical.choice": true, "Quot.sound": true}

var baseTrusted = []string{
	"Lean 4.33.0 kernel (leanchecker re-check in the thorough tier); axioms limited to propext, Classical.choice, Quot.sound (audited per theorem by #print axioms)",
	"Lean compiler/runtime executing the model and the Spec oracles inside the driver",
	"the correspondence harness (generators, canonicaliser, comparator) in /verif/harness/cmd/vh",
	"the fact extractor /verif/harness/cmd/extract (syntactic, go/ast)",
	"go-openapi/spec JSON loading (documents reach the implementation through spec.Swagger.UnmarshalJSON)",
}

type leanReport struct {
	Skipped     bool                `json:"skipped,omitempty"`
	BuildOK     bool                `json:"build_ok"`
	FactsOK     bool                `json:"facts_ok"`
	Theorems    map[string][]string `json:"theorems"` // theorem -> axioms
	BadAxioms   []string            `json:"bad_axioms,omitempty"`
	Forbidden   []string            `json:"forbidden_tokens,omitempty"`
	Failures    []string            `json:"failures,omitempty"`
	LeanChecker string              `json:"leanchecker,omitempty"`
	WallS       float64             `json:"wall_s"`
	FactsFile   string              `json:"facts_sha256"`
}

func sh(dir string, env []string, name string, args ...string) (string, error) {
	cmd := exec.Command(name, args...)
	cmd.Dir = dir
	cmd.Env = append(os.Environ(), env...)
	out, err := cmd.CombinedOutput()
	return string(out), err
}

// withLock serialises the Lean build steps between concurrently running checks.
func withLock(f func()) {
	lf, err := os.OpenFile(filepath.Join(verifDir, ".lean.lock"), os.O_CREATE|os.O_RDWR, 0o644)
	if err == nil {
		defer lf.Close()
		_ = syscall.Flock(int(lf.Fd()), syscall.LOCK_EX)
		defer syscall.Flock(int(lf.Fd()), syscall.LOCK_UN)
	}
	f()
}

var axiomLine = regexp.MustCompile(`^'([^']+)' depends on axioms: \[(.*)\]`)
var noAxiomLine = regexp.MustCompile(`^'([^']+)' does not depend on any axioms`)

func leanStage(p *PropDef, tier string) leanReport {
	t0 := time.Now()
	rep := leanReport{Theorems: map[string][]string{}}
	withLock(func() {
		// 1. regenerate the facts from /repo's current source
		factsPath := filepath.Join(leanDir, "Verif", "Generated", "Facts.lean")
		out, err := sh(verifDir, nil, filepath.Join(verifDir, ".bin", "extract"), "-repo", "/repo", "-out", factsPath)
		if err != nil {
			rep.Failures = append(rep.Failures, "extract: "+truncate(out, 2000))
		}
		if b, err := os.ReadFile(factsPath); err == nil {
			h := sha256.Sum256(b)
			rep.FactsFile = hex.EncodeToString(h[:8])
		}
		// 2. the driver (model + spec oracles) must build: it is what executes the model
		if out, err := sh(leanDir, nil, "lake", "build", "driver"); err != nil {
			rep.Failures = append(rep.Failures, "lake build driver: "+truncate(out, 4000))
			return
		}
		rep.BuildOK = true
		// 3. the property's theorems and the facts obligations
		rep.FactsOK = true
		if p.FactsOK {
			if out, err := sh(leanDir, nil, "lake", "build", "Verif.Generated.FactsOK."+p.ID); err != nil {
				rep.FactsOK = false
				rep.Failures = append(rep.Failures, "Verif.Generated.FactsOK."+p.ID+" no longer checks (a regenerated fact does not satisfy a theorem's hypothesis): "+truncate(lastLines(out, 30), 4000))
			}
		}
		for _, m := range p.LeanModules {
			if out, err := sh(leanDir, nil, "lake", "build", m); err != nil {
				rep.BuildOK = false
				rep.Failures = append(rep.Failures, m+" no longer checks: "+truncate(lastLines(out, 30), 4000))
			}
		}
		// 4. axiom audit
		audit := filepath.Join("Verif", "Audit", p.ID+".lean")
		if _, err := os.Stat(filepath.Join(leanDir, audit)); err == nil && rep.BuildOK {
			out, err := sh(leanDir, nil, "lake", "env", "lean", audit)
			if err != nil {
				rep.Failures = append(rep.Failures, "audit "+audit+": "+truncate(lastLines(out, 30), 4000))
			}
			for _, ln := range strings.Split(joinWrapped(out), "\n") {
				if m := axiomLine.FindStringSubmatch(ln); m != nil {
					var ax []string
					for _, a := range strings.Split(m[2], ",") {
						a = strings.TrimSpace(a)
						if a == "" {
							continue
						}
						ax = append(ax, a)
						if !allowedAxioms[a] {
							rep.BadAxioms = append(rep.BadAxioms, m[1]+": "+a)
						}
					}
					rep.Theorems[m[1]] = ax
				} else if m := noAxiomLine.FindStringSubmatch(ln); m != nil {
					rep.Theorems[m[1]] = []string{}
				}
			}
		}
		// 5. forbidden tokens outside comments
		rep.Forbidden = grepForbidden(filepath.Join(leanDir, "Verif"))
		// 6. independent re-check
		if tier == "thorough" && rep.BuildOK {
			for _, m := range p.LeanModules {
				out, err := sh(leanDir, nil, "lake", "env", "leanchecker", m)
				if err != nil {
					rep.Failures = append(rep.Failures, "leanchecker "+m+": "+truncate(lastLines(out, 20), 2000))
					rep.LeanChecker = "failed"
				} else if rep.LeanChecker == "" {
					rep.LeanChecker = "ok"
				}
			}
		}
	})
	rep.WallS = time.Since(t0).Seconds()
	return rep
}

// joinWrapped undoes the line wrapping Lean applies to long #print axioms lists.
func joinWrapped(s string) string {
	lines := strings.Split(s, "\n")
	var out []string
	for _, ln := range lines {
		if len(out) > 0 && (strings.HasPrefix(ln, " ") || strings.HasPrefix(ln, "\t")) {
			out[len(out)-1] += " " + strings.TrimSpace(ln)
		} else {
			out = append(out, ln)
		}
	}
	return strings.Join(out, "\n")
}

func lastLines(s string, n int) string {
	ls := strings.Split(strings.TrimSpace(s), "\n")
	if len(ls) > n {
		ls = ls[len(ls)-n:]
	}
	return strings.Join(ls, "\n")
}

var forbiddenRe = regexp.MustCompile(`\bsorry\b|\badmit\b|^\s*axiom\s|native_decide|bv_decide|implemented_by|\bunsafe\s|maxHeartbeats\s+0\b`)

func grepForbidden(root string) []string {
	var hits []string
	_ = filepath.Walk(root, func(p string, info os.FileInfo, err error) error {
		if err != nil || info.IsDir() || !strings.HasSuffix(p, ".lean") {
			return nil
		}
		f, err := os.Open(p)
		if err != nil {
			return nil
		}
		defer f.Close()
		sc := bufio.NewScanner(f)
		sc.Buffer(make([]byte, 1<<20), 1<<24)
		depth := 0
		ln := 0
		for sc.Scan() {
			ln++
			line := sc.Text()
			// strip block comments (possibly nested) and line comments
			var code strings.Builder
			for i := 0; i < len(line); i++ {
				if strings.HasPrefix(line[i:], "/-") {
					depth++
					i++
					continue
				}
				if depth > 0 && strings.HasPrefix(line[i:], "-/") {
					depth--
					i++
					continue
				}
				if depth == 0 {
					if strings.HasPrefix(line[i:], "--") {
						break
					}
					code.WriteByte(line[i])
				}
			}
			if forbiddenRe.MatchString(code.String()) {
				hits = append(hits, fmt.Sprintf("%s:%d: %s", p, ln, strings.TrimSpace(line)))
			}
		}
		return nil
	})
	return hits
}

// ---- known findings -------------------------------------------------------------------------------

type knownFinding struct {
	Status    string `json:"status"`
	Property  string `json:"property"`
	Signature string `json:"signature"`
	What      string `json:"what"`
	Commit    string `json:"commit,omitempty"`
}

func loadKnown() []knownFinding {
	var out []knownFinding
	f, err := os.Open(filepath.Join(verifDir, "known_findings.jsonl"))
	if err != nil {
		return nil
	}
	defer f.Close()
	sc := bufio.NewScanner(f)
	sc.Buffer(make([]byte, 1<<20), 1<<24)
	for sc.Scan() {
		line := strings.TrimSpace(sc.Text())
		if line == "" || strings.HasPrefix(line, "#") {
			continue
		}
		var k knownFinding
		if json.Unmarshal([]byte(line), &k) == nil {
			out = append(out, k)
		}
	}
	return out
}

// ---- the check ------------------------------------------------------------------------------------

func runCheck(prop, tier string, seed uint64, skipLean bool) int {
	p := props[prop]
	if p == nil {
		fmt.Fprintf(os.Stderr, "unknown property %s\n", prop)
		return 2
	}
	ctxProp = prop
	ctx := &Ctx{Prop: prop, Tier: tier, Seed: seed, Scale: 1}
	if tier == "thorough" {
		ctx.Scale = 15
	}
	_ = os.MkdirAll(filepath.Join(verifDir, "evidence"), 0o755)
	_ = os.MkdirAll(filepath.Join(verifDir, "replay"), 0o755)

	var lean leanReport
	if skipLean {
		lean = leanReport{Skipped: true, BuildOK: true, FactsOK: true}
	} else {
		lean = leanStage(p, tier)
	}
	var findings []Finding
	for _, f := range lean.Failures {
		findings = append(findings, Finding{Kind: "obligation", Stream: "lean", Detail: f, Signature: "lean:" + firstWords(f, 6)})
	}
	for _, f := range lean.BadAxioms {
		findings = append(findings, Finding{Kind: "obligation", Stream: "lean-audit", Detail: "axiom outside the allow-list: " + f, Signature: "axiom:" + f})
	}
	for _, f := range lean.Forbidden {
		findings = append(findings, Finding{Kind: "obligation", Stream: "lean-grep", Detail: "forbidden token: " + f, Signature: "forbidden:" + f})
	}

	var results []StreamResult
	runStreams := func(c *Ctx) {
		for _, s := range p.Streams {
			r := s(c)
			results = append(results, r)
			findings = append(findings, r.Findings...)
		}
	}
	driverOK := true
	if _, err := os.Stat(driverBin); err != nil {
		driverOK = false
		findings = append(findings, Finding{Kind: "obligation", Stream: "driver", Detail: "model driver is not built", Signature: "driver-missing"})
	}
	if driverOK {
		runStreams(ctx)
		if tier == "thorough" {
			// further derived seeds: three more for the properties whose streams are cheap (analyzer, mixin, fixer,
			// classification), one more for the Flatten properties (each Flatten runs in a child process)
			extra := 3
			if strings.Compare(prop, "C10") <= 0 {
				extra = 1
			}
			for k := 1; k <= extra; k++ {
				ck := *ctx
				ck.Seed = ctx.Seed + uint64(k)*7919
				fmt.Printf("thorough: derived seed %d\n", ck.Seed)
				runStreams(&ck)
			}
		}
		// a broken obligation or correspondence without a concrete failing input: intensify the search
		if hasKind(findings, "obligation", "correspondence") && !hasKind(findings, "property") {
			c2 := *ctx
			c2.Scale = ctx.Scale * 8
			c2.Seed = ctx.Seed + 1000003
			fmt.Printf("obligation/correspondence broken without a failing input yet: intensifying search (scale %d)\n", c2.Scale)
			runStreams(&c2)
		}
	}

	// triage
	known := loadKnown()
	exit := 0
	violations := 0
	reported := map[string]bool{}
	knownPrinted := map[string]bool{}
	var propFindings, otherFindings []Finding
	for _, f := range findings {
		if f.Kind == "property" {
			propFindings = append(propFindings, f)
		} else {
			otherFindings = append(otherFindings, f)
		}
	}
	unlistedProperty := false
	for _, f := range propFindings {
		listed := false
		for _, k := range known {
			if k.Status == "open" && k.Property == prop && k.Signature == f.Signature {
				listed = true
				if !knownPrinted[k.Signature] {
					knownPrinted[k.Signature] = true
					fmt.Printf("KNOWN-FINDING: property=%s %s\n", prop, k.What)
				}
			}
		}
		if listed {
			continue
		}
		unlistedProperty = true
		if reported[f.Signature] {
			continue
		}
		reported[f.Signature] = true
		violations++
		path := writeReplay(ctx, f, len(reported))
		fmt.Printf("VIOLATION property=%s replay=%s\n", prop, path)
		fmt.Printf("  %s: %s\n", f.Stream, truncate(f.Detail, 600))
		exit = 1
	}
	if !unlistedProperty {
		// correspondence / obligation failures that are not explained by a listed finding on the same case
		for _, f := range otherFindings {
			if f.Kind == "correspondence" && f.Case != nil && caseHasKnown(f, propFindings, known, prop) {
				continue
			}
			if reported[f.Signature] {
				continue
			}
			reported[f.Signature] = true
			violations++
			path := writeReplay(ctx, f, len(reported))
			fmt.Printf("VIOLATION property=%s replay=%s no-failing-input-found\n", prop, path)
			fmt.Printf("  %s (%s): %s\n", f.Stream, f.Kind, truncate(f.Detail, 600))
			exit = 1
			if violations >= 5 {
				break
			}
		}
	}

	if os.Getenv("VH_NO_EVIDENCE") == "" { // sweeps over other seeds do not rewrite the evidence file
		writeEvidence(ctx, p, lean, results, violations)
	}
	if exit == 0 {
		fmt.Printf("OK property=%s tier=%s seed=%d wall=%.1fs\n", prop, tier, seed, time.Since(startTime).Seconds())
	}
	return exit
}

// caseHasKnown: the correspondence finding concerns a case that also carries a listed property finding.
func caseHasKnown(f Finding, propFindings []Finding, known []knownFinding, prop string) bool {
	for _, pf := range propFindings {
		if pf.Case != nil && f.Case != nil && pf.Case.ID == f.Case.ID && pf.Stream == f.Stream {
			for _, k := range known {
				if k.Status == "open" && k.Property == prop && k.Signature == pf.Signature {
					return true
				}
			}
		}
	}
	return false
}

func hasKind(fs []Finding, kinds ...string) bool {
	for _, f := range fs {
		for _, k := range kinds {
			if f.Kind == k {
				return true
			}
		}
	}
	return false
}

func firstWords(s string, n int) string {
	w := strings.Fields(s)
	if len(w) > n {
		w = w[:n]
	}
	return strings.Join(w, " ")
}

func writeReplay(ctx *Ctx, f Finding, n int) string {
	path := filepath.Join(verifDir, "replay", fmt.Sprintf("%s-%d-%d.json", ctx.Prop, ctx.Seed, n))
	rec := M{
		"property":  ctx.Prop,
		"kind":      f.Kind,
		"stream":    f.Stream,
		"seed":      ctx.Seed,
		"tier":      ctx.Tier,
		"detail":    f.Detail,
		"signature": f.Signature,
	}
	if f.Case != nil {
		rec["case"] = M{"id": f.Case.ID, "op": f.Case.Op, "in": f.Case.In, "impl": f.Case.Impl, "note": f.Case.Note}
	}
	if f.Model != nil {
		rec["model"] = f.Model
	}
	if f.Kind != "property" {
		rec["no_failing_input_found"] = true
		rec["broken"] = f.Stream + ": " + firstWords(f.Detail, 12)
	}
	b, _ := json.MarshalIndent(rec, "", " ")
	_ = os.WriteFile(path, b, 0o644)
	return path
}

func writeEvidence(ctx *Ctx, p *PropDef, lean leanReport, results []StreamResult, violations int) {
	evals, nontriv := 0, 0
	var rules []string
	var samples []any
	feats := map[string]int{}
	streams := []any{}
	for _, r := range results {
		evals += r.Evaluations
		nontriv += r.Nontrivial
		rules = append(rules, r.Name+": "+r.Rule)
		for i, s := range r.Samples {
			if i < 2 {
				samples = append(samples, M{"stream": r.Name, "case": s})
			}
		}
		for k, v := range r.Features {
			feats[r.Name+"/"+k] += v
		}
		streams = append(streams, M{"name": r.Name, "evaluations": r.Evaluations, "distinct_nontrivial": r.Nontrivial, "findings": len(r.Findings), "extra": r.Extra})
	}
	thms := make([]string, 0, len(lean.Theorems))
	for k := range lean.Theorems {
		thms = append(thms, k)
	}
	sort.Strings(thms)
	obligations := len(thms)
	if p.FactsOK {
		obligations++
	}
	discharged := 0
	if lean.BuildOK && len(lean.BadAxioms) == 0 && len(lean.Forbidden) == 0 {
		discharged = len(thms)
		if p.FactsOK && lean.FactsOK {
			discharged++
		}
	}
	for _, t := range thms {
		samples = append(samples, M{"obligation": t, "axioms": lean.Theorems[t]})
	}
	cov := M{
		"evaluations":         evals,
		"distinct_nontrivial": nontriv,
		"rule":                strings.Join(rules, " | "),
		"samples":             samples,
		"obligations":         obligations,
		"discharged":          discharged,
		"checker_cmd":         "cd /verif/lean && lake build " + strings.Join(p.LeanModules, " ") + " Verif.Generated.FactsOK." + p.ID + " && lake env lean Verif/Audit/" + p.ID + ".lean   (thorough: lake env leanchecker <module>)",
		"trusted_base":        append(append([]string{}, baseTrusted...), p.TrustedBase...),
		"theorems":            thms,
		"lean":                lean,
		"streams":             streams,
		"input_distribution":  feats,
		// keys of the other levels, measured by the same run
		"programs":              evals,
		"disagreements_checked": evals,
		"explanation":           "theorems about the Lean model (obligations) + differential execution of model, Spec oracle and implementation on generated inputs (evaluations)",
	}
	ev := M{
		"property_id": p.ID,
		"tier":        ctx.Tier,
		"seed":        ctx.Seed,
		"level":       p.Level,
		"coverage":    cov,
		"assumptions": p.Assumptions,
		"wall_s":      time.Since(startTime).Seconds(),
		"violations":  violations,
	}
	b, _ := json.MarshalIndent(ev, "", " ")
	_ = os.WriteFile(filepath.Join(verifDir, "evidence", p.ID+".json"), b, 0o644)
}

// distinctCount counts distinct canonical inputs among the cases selected by nontrivial.
func distinctCount(cases []*Case, nontrivial func(*Case) bool) int {
	seen := map[[32]byte]bool{}
	for _, c := range cases {
		if nontrivial != nil && !nontrivial(c) {
			continue
		}
		seen[sha256.Sum256(mustJSON(M{"op": c.Op, "in": c.In}))] = true
	}
	return len(seen)
}

func mergeFeat(dst map[string]int, src map[string]int) {
	for k, v := range src {
		dst[k] += v
	}
}

func runReplay(path string) int {
	b, err := os.ReadFile(path)
	if err != nil {
		fmt.Fprintln(os.Stderr, err)
		return 2
	}
	var rec struct {
		Property string `json:"property"`
		Stream   string `json:"stream"`
		Kind     string `json:"kind"`
		Detail   string `json:"detail"`
		Case     *struct {
			Op string `json:"op"`
			In any    `json:"in"`
		} `json:"case"`
	}
	if err := json.Unmarshal(b, &rec); err != nil {
		fmt.Fprintln(os.Stderr, err)
		return 2
	}
	if rec.Case == nil {
		fmt.Printf("replay %s: no concrete input stored (%s); broken obligation: %s\n", path, rec.Kind, truncate(rec.Detail, 500))
		return 1
	}
	c := &Case{ID: 1, Op: rec.Case.Op, In: rec.Case.In}
	fn := replayers[rec.Case.Op]
	if fn == nil {
		fmt.Printf("no replayer for op %s\n", rec.Case.Op)
		return 2
	}
	fs := fn(c)
	if len(fs) == 0 {
		fmt.Printf("replay %s: no longer fails\n", path)
		return 0
	}
	for _, f := range fs {
		fmt.Printf("replay %s: %s %s: %s\n", path, f.Kind, f.Stream, truncate(f.Detail, 800))
	}
	return 1
}

// replayers: op -> run the implementation on the case, the model/oracle, and return findings.
var replayers = map[string]func(*Case) []Finding{}
