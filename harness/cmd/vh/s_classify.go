package main

import (
	"encoding/json"
	"fmt"
	"strings"
	"time"

	"github.com/go-openapi/analysis"
	"github.com/go-openapi/spec"
	"github.com/go-openapi/strfmt"
)

func init() {
	childOps["classify"] = classifyChild
}

func flagsJSON(a *analysis.AnalyzedSchema) M {
	return M{"IsKnownType": a.IsKnownType, "IsSimpleSchema": a.IsSimpleSchema, "IsArray": a.IsArray, "IsSimpleArray": a.IsSimpleArray,
		"IsMap": a.IsMap, "IsSimpleMap": a.IsSimpleMap, "IsExtendedObject": a.IsExtendedObject, "IsTuple": a.IsTuple,
		"IsTupleWithExtra": a.IsTupleWithExtra, "IsBaseType": a.IsBaseType, "IsEnum": a.IsEnum}
}

// classifyChild: {root, schemas} -> list of outcomes; runs inside a child process.
func classifyChild(in any) any {
	sw, err := loadSwagger(get(in, "root"))
	if err != nil {
		return M{"err": "load: " + err.Error()}
	}
	schemas, _ := get(in, "schemas").([]any)
	out := make([]any, 0, len(schemas))
	for _, s := range schemas {
		var sch spec.Schema
		if err := json.Unmarshal(mustJSON(s), &sch); err != nil {
			out = append(out, M{"err": "load schema: " + err.Error()})
			continue
		}
		out = append(out, protect(func() any {
			a, err := analysis.Schema(analysis.SchemaOpts{Schema: &sch, Root: sw})
			if err != nil {
				return M{"error": err.Error()}
			}
			return flagsJSON(a)
		}))
	}
	return M{"ok": out}
}

// recursion patterns planted among the definitions
func (g *Gen) recursiveDefs(defs M) {
	add := func(name string, s M) {
		if _, dup := defs[name]; !dup {
			defs[name] = s
			g.defNames = append(g.defNames, name)
		}
	}
	ref := func(n string) M { return M{"$ref": "#/definitions/" + jsonPtrEscape(n)} }
	for i, k := 0, g.n(4); i < k; i++ {
		switch g.n(8) {
		case 0:
			add("SelfArr", M{"type": "array", "items": ref("SelfArr")})
			g.hit("rec:array-of-itself")
		case 1:
			add("self map", M{"type": "object", "additionalProperties": ref("self map")})
			g.hit("rec:map-of-itself")
		case 2:
			add("C1", ref("C2"))
			add("C2", ref("C1"))
			g.hit("rec:pure-ref-cycle")
		case 3:
			add("AB1", M{"type": "array", "items": ref("AB2")})
			add("AB2", ref("AB1"))
			g.hit("rec:array-through-ref")
		case 4:
			add("Tree", M{"type": "object", "properties": M{"kids": M{"type": "array", "items": ref("Tree")}, "v": M{"type": "string"}}})
			g.hit("rec:through-property")
		case 5:
			add("MutA", M{"type": "object", "additionalProperties": M{"type": "array", "items": ref("MutB")}})
			add("MutB", M{"type": "array", "items": M{"type": "object", "additionalProperties": ref("MutA")}})
			g.hit("rec:mutual-containers")
		case 6:
			add("Ch1", ref("Ch2"))
			add("Ch2", ref("Ch3"))
			add("Ch3", g.Schema(2))
			g.hit("rec:ref-chain")
		case 7:
			add("deep map", M{"type": "object", "additionalProperties": M{"type": "object", "additionalProperties": M{"type": "object", "additionalProperties": ref("deep map")}}})
			g.hit("rec:nested-map-of-itself")
		}
	}
}

func classifyGen(g *Gen) any {
	g.MaxDepth = 3
	g.Exotic = 0.08
	g.PlantRefs = 0.25
	g.RefValidOnly = g.p(0.7)
	g.Names = simpleNames
	if g.p(0.4) {
		g.Names = alphabetNames
	}
	g.defNames = g.distinctNames(1 + g.n(6))
	defs := M{}
	for _, nm := range g.defNames {
		defs[nm] = M{} // placeholder so that refs can target it
	}
	for _, nm := range append([]string{}, g.defNames...) {
		defs[nm] = g.Schema(g.MaxDepth)
	}
	g.recursiveDefs(defs)
	// two definitions whose names differ by percent-escaping only: "my def" and "my%20def".  A $ref is a URI: its
	// fragment "#/definitions/my%20def" designates "my def"; the twin can only be reached as "my%2520def".
	for _, nm := range sortedMapKeys(defs) {
		if !strings.Contains(nm, " ") || !g.p(0.5) {
			continue
		}
		twin := strings.ReplaceAll(nm, " ", "%20")
		if _, taken := defs[twin]; taken {
			continue
		}
		if body, _ := defs[nm].(M); body["properties"] != nil || body["allOf"] != nil {
			defs[twin] = M{"type": "string"}
		} else {
			defs[twin] = M{"type": "object", "properties": M{"p": M{"type": "string"}}}
		}
		g.hit("classify:percent-twin")
	}
	root := M{"swagger": "2.0", "info": M{"title": "t", "version": "1"}, "paths": M{}, "definitions": defs}
	var schemas []any
	for _, nm := range sortedMapKeys(defs) {
		schemas = append(schemas, M{"$ref": "#/definitions/" + jsonPtrEscape(nm)}, defs[nm])
	}
	for i := 0; i < 4; i++ {
		schemas = append(schemas, g.Schema(3))
	}
	if !g.RefValidOnly {
		schemas = append(schemas, M{"$ref": "#/definitions/nope"}, M{"type": "array", "items": M{"$ref": "#/definitions/nope"}})
	}
	rootN := normRefs(root)
	schN := normRefs(schemas)
	if rootN == nil || schN == nil {
		return nil
	}
	ext := collectExt(M{"a": rootN, "b": schN})
	known := []any{}
	for _, f := range formats {
		if strfmt.Default.ContainsName(f) {
			known = append(known, f)
		}
	}
	ext["knownFormats"] = known
	return M{"root": rootN, "schemas": schN, "ext": ext}
}

var classifyStream = (&StreamSpec{
	Name:   "classify",
	Op:     "classify",
	N:      150,
	Stream: 20,
	Rule:   "root documents with 1..8 definitions from the schema grammar (primitive, formatted, enum, object, map, array, tuple with/without additionalItems, allOf, discriminator, $ref, nesting <= 3) plus planted recursion patterns (array/map of itself, nested map of itself, pure $ref cycle, array through a $ref, mutual containers, recursion through a property, $ref chains); each definition is classified directly and through a $ref, plus random inline schemas and dangling $refs; every call runs in a child process with a 10 s timeout; non-trivial = case with at least one recursion pattern or $ref; distinct by canonical JSON",
	Corpus: func() []any {
		mk := func(defs M, schemas ...any) any {
			root := normRefs(M{"swagger": "2.0", "info": M{"title": "t", "version": "1"}, "paths": M{}, "definitions": defs})
			sch := normRefs(schemas)
			ext := collectExt(M{"a": root, "b": sch})
			ext["knownFormats"] = []any{"date", "date-time", "uuid", "int32", "int64", "byte", "email", "password"}
			return M{"root": root, "schemas": sch, "ext": ext}
		}
		r := func(n string) M { return M{"$ref": "#/definitions/" + n} }
		return []any{
			mk(M{"A": M{"type": "array", "items": r("A")}}, r("A"), M{"type": "array", "items": r("A")}),
			mk(M{"C1": r("C2"), "C2": r("C1")}, r("C1")),
			mk(M{"AB1": M{"type": "array", "items": r("AB2")}, "AB2": r("AB1")}, r("AB1"), r("AB2")),
			mk(M{"my def": M{"type": "object", "additionalProperties": M{"type": "object", "additionalProperties": M{"type": "object", "additionalProperties": M{"$ref": "#/definitions/my def"}}}}}, M{"$ref": "#/definitions/my def"}),
			mk(M{"X": M{"type": "object", "properties": M{"p": r("nope")}}, "Y": M{"type": "object", "properties": M{"p": M{"type": "string"}}}, "ArrY": M{"type": "array", "items": r("Y")}},
				r("X"), M{"type": "array", "items": r("X")}, r("nope"), M{"type": "object", "additionalProperties": r("nope")},
				M{"type": "object", "properties": M{"p": r("nope")}}, r("ArrY"), M{"$ref": "#/definitions/Y", "type": "string"},
				M{"type": "object", "format": "date", "properties": M{"a": M{}}}, M{"items": []any{M{"type": "string"}}}, M{"type": "array", "items": []any{}},
				M{"type": "object", "additionalProperties": false}),
		}
	},
	Gen: func(g *Gen, i int) (any, string) { return classifyGen(g), "" },
	ImplBatch: func(ins []any) []any {
		return runInChildren("classify", ins, 10*time.Second, 12)
	},
	Nontrivial: func(c *Case) bool { return true },
	Compare: func(c *Case, out any) []Finding {
		var fs []Finding
		schemas, _ := get(c.In, "schemas").([]any)
		switch outcomeTag(c.Impl) {
		case "timeout":
			return []Finding{{Kind: "property", Detail: "analysis.Schema did not return within 10 s for one of the schemas of the case (child process killed)", Signature: "classify:timeout"}}
		case "crash":
			return []Finding{{Kind: "property", Detail: "analysis.Schema crashed the process: " + fmt.Sprint(get(c.Impl, "crash")), Signature: "classify:crash"}}
		case "err":
			return nil
		}
		impl, _ := get(c.Impl, "ok").([]any)
		ans, _ := out.([]any)
		if len(impl) != len(schemas) || len(ans) != len(schemas) {
			return []Finding{{Kind: "correspondence", Detail: fmt.Sprintf("answer counts differ: %d schemas, %d impl, %d model", len(schemas), len(impl), len(ans)), Signature: "classify:count"}}
		}
		defs, _ := get(c.In, "root", "definitions").(map[string]any)
		byRef := map[string]any{} // definition name -> impl flags when classified directly
		for i, s := range schemas {
			sd := truncate(string(mustJSON(s)), 200)
			im := impl[i]
			model := get(ans[i], "model")
			if outcomeTag(im) == "panic" {
				fs = append(fs, Finding{Kind: "property", Detail: fmt.Sprintf("analysis.Schema panics on %s: %v", sd, get(im, "panic")), Signature: "classify:panic"})
				continue
			}
			iv := get(im, "ok")
			if e := get(iv, "error"); e != nil {
				// $ref transparency, error side: when the target itself cannot be classified (a $ref of it dangles where the
				// classification looks), {$ref: target} cannot either - the expansion of the target meets the same $ref
				if i > 0 && defs != nil {
					if pm, ok := schemas[i-1].(map[string]any); ok && len(pm) == 1 {
						if r, ok := pm["$ref"].(string); ok && jsonEq(s, defBody(defs, c.In, r)) {
							if rv, ok := byRef[r]; ok {
								fs = append(fs, Finding{Kind: "property", Detail: fmt.Sprintf("{$ref: %s} classifies as %s but its target cannot be classified: %v", r, canonStr(rv), e), Signature: "classify:not-transparent-error"})
							}
						}
					}
				}
				if outcomeTag(model) != "err" {
					fs = append(fs, Finding{Kind: "correspondence", Detail: fmt.Sprintf("schema %s: implementation returns error %v, model %s", sd, e, canonStr(model)), Signature: "classify:err-vs-" + outcomeTag(model)})
				}
				continue
			}
			// oracle: coherence and documented rules on the implementation's flags
			b := func(k string) bool { v, _ := get(iv, k).(bool); return v }
			coherent := b("IsSimpleSchema") == (b("IsKnownType") || b("IsSimpleArray") || b("IsSimpleMap")) &&
				(!b("IsSimpleArray") || b("IsArray")) && (!b("IsSimpleMap") || b("IsMap")) &&
				!(b("IsMap") && b("IsExtendedObject")) && !(b("IsTuple") && b("IsTupleWithExtra")) && !(b("IsArray") && (b("IsTuple") || b("IsTupleWithExtra")))
			if !coherent {
				fs = append(fs, Finding{Kind: "property", Detail: fmt.Sprintf("incoherent flags for %s: %s", sd, canonStr(iv)), Signature: "classify:incoherent"})
			}
			if exp, ok := get(ans[i], "spec", "expectedComplex").(bool); ok {
				complex := !b("IsSimpleSchema") && !b("IsArray") && !b("IsMap")
				if complex != exp {
					fs = append(fs, Finding{Kind: "property", Detail: fmt.Sprintf("schema %s of shape %v: complex=%v, documented rule says %v", sd, get(ans[i], "spec", "shape"), complex, exp), Signature: "classify:rule:" + fmt.Sprint(get(ans[i], "spec", "shape"))})
				}
			}
			// $ref transparency on the implementation: {$ref: D} classifies like D (schemas come in pairs: ref, body)
			if sm, ok := s.(map[string]any); ok && len(sm) == 1 {
				if r, ok := sm["$ref"].(string); ok {
					byRef[r] = iv
				}
			}
			if i > 0 {
				if pm, ok := schemas[i-1].(map[string]any); ok && len(pm) == 1 {
					if r, ok := pm["$ref"].(string); ok {
						if rv, ok := byRef[r]; ok && defs != nil && jsonEq(s, defBody(defs, c.In, r)) && !jsonEq(rv, iv) {
							fs = append(fs, Finding{Kind: "property", Detail: fmt.Sprintf("{$ref: %s} classifies as %s but its target classifies as %s", r, canonStr(rv), canonStr(iv)), Signature: "classify:not-transparent"})
						}
					}
				}
			}
			// correspondence
			if outcomeTag(model) != "ok" {
				fs = append(fs, Finding{Kind: "correspondence", Detail: fmt.Sprintf("schema %s: implementation %s, model outcome %s", sd, canonStr(iv), canonStr(model)), Signature: "classify:ok-vs-" + outcomeTag(model)})
			} else if !jsonEq(get(model, "ok"), iv) {
				fs = append(fs, Finding{Kind: "correspondence", Detail: fmt.Sprintf("schema %s: flags differ: %s (left model, right implementation)", sd, firstDiff(get(model, "ok"), iv)), Signature: "classify:flags-differ"})
			}
		}
		return fs
	},
}).register()

// defBody returns the body of the definition a normalised "#/definitions/<name>" ref designates.
func defBody(defs map[string]any, in any, ref string) any {
	toks, _ := get(in, "ext", "refTokens", ref).([]any)
	if len(toks) == 2 && toks[0] == "definitions" {
		if n, ok := toks[1].(string); ok {
			return defs[n]
		}
	}
	return nil
}
