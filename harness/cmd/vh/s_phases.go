package main

// stream `phases`: the Lean model of each phase of Flatten (Verif/Model/Flatten.lean) is run on the state the
// implementation was in before that phase (document, flatten context; delivered by the verif sink of Flatten) and must
// yield the state the implementation was in after it.  External functions of the model are tables filled by the real
// libraries; a request the table cannot answer comes back as err "need:<fn>:<arg>", is answered here and the case re-run.

import (
	"bytes"
	"encoding/json"
	"fmt"
	"net/http"
	"os"
	"path/filepath"
	"sort"
	"strconv"
	"strings"
	"time"

	"github.com/go-openapi/jsonpointer"
	"github.com/go-openapi/spec"
	"github.com/go-openapi/swag"
)

func init() { childOps["phases"] = phasesChild }

// phasesChild: {bundle:{root,aux}, opts} -> the end-of-phase snapshots of one observed Flatten run.
func phasesChild(in any) any {
	o := optsOf(get(in, "opts"))
	root := get(in, "bundle", "root")
	aux := auxOf(get(in, "bundle", "aux"))
	dir, err := writeBundle(root, aux, nil)
	defer os.RemoveAll(dir)
	if err != nil {
		return M{"err": "write bundle: " + err.Error()}
	}
	r := flattenOnceObs(dir, o, 0, true)
	res := M{}
	if r.panic != "" {
		res["panic"] = r.panic
	}
	if r.err != nil {
		res["flattenErr"] = string(scrubDir([]byte(r.err.Error()), dir))
	}
	var phs []any
	for _, ph := range r.phases {
		var doc any
		if ph.Doc != nil {
			doc = decodeJSON(scrubDir(ph.Doc, dir))
		}
		phs = append(phs, M{"name": ph.Name, "doc": doc, "inSync": ph.InSync, "ctx": decodeJSON(scrubDir(mustJSON(ph.NewRefs), dir))})
	}
	res["phases"] = phs
	return M{"ok": res}
}

func decodeJSON(b []byte) any {
	var v any
	dec := jsonDecoder(b)
	_ = dec.Decode(&v)
	return v
}

// modelled phases (names as reported by the sink)
var modelledPhases = map[string]bool{"normalizeRef": true, "removeUnusedShared": true, "nameInlinedSchemas": true, "namePointers": true, "removeUnused": true, "stripOAIGen": true, "importReferences": true}

// extTables: the seeded tables of external functions for one case.
type extTables struct {
	dir                                       string // the bundle on disk (for resolving $refs into auxiliary documents with the real library)
	rootDoc                                   *spec.Swagger
	resolve                                   M
	mkRef, jsonName, goName, fold, statusText M
	refTokens                                 M
	formats                                   map[string]bool
}

func newExtTables() *extTables {
	t := &extTables{resolve: M{}, mkRef: M{}, jsonName: M{}, goName: M{}, fold: M{}, statusText: M{}, refTokens: M{}, formats: map[string]bool{}}
	for code := 100; code < 600; code++ {
		t.statusText[strconv.Itoa(code)] = http.StatusText(code)
	}
	return t
}

func (t *extTables) toJSON() M {
	fm := []any{}
	for f := range t.formats {
		fm = append(fm, f)
	}
	return M{"resolve": t.resolve, "mkRef": t.mkRef, "jsonName": t.jsonName, "goName": t.goName, "fold": t.fold, "statusText": t.statusText, "refTokens": t.refTokens, "knownFormats": fm}
}

func safeMkRef(s string) (out string, ok bool) {
	defer func() {
		if r := recover(); r != nil {
			ok = false
		}
	}()
	r := spec.MustCreateRef(s)
	return r.String(), true
}

// answer computes one external function with the real libraries; false when the function has no value there.
func (t *extTables) answer(fn, arg string) bool {
	switch fn {
	case "resolve":
		// spec.ResolveRefWithBase(root, ref, {RelativeBase: <dir>/root.json}) with the bundle on disk
		if t.dir == "" || t.rootDoc == nil {
			return false
		}
		real := strings.ReplaceAll(arg, "$DIR", t.dir)
		ref, err := spec.NewRef(real)
		if err != nil {
			return false
		}
		sch, err := spec.ResolveRefWithBase(t.rootDoc, &ref, &spec.ExpandOptions{RelativeBase: filepath.Join(t.dir, "root.json")})
		if err != nil || sch == nil {
			return false
		}
		b, err := json.Marshal(sch)
		if err != nil {
			return false
		}
		t.resolve[arg] = decodeJSON(scrubDir(b, t.dir))
		return true
	case "mkRef":
		if v, ok := safeMkRef(arg); ok {
			t.mkRef[arg] = v
			return true
		}
	case "jsonName":
		v := swag.ToJSONName(arg)
		t.jsonName[arg] = v
		// what the namer asks next about the mangled name
		t.answer("fold", v)
		for _, n := range []string{v, v + "OAIGen", v + "OAIGen1", v + "OAIGen2", v + "OAIGen3"} {
			t.answer("mkRef", "#/definitions/"+n)
		}
		return true
	case "goName":
		t.goName[arg] = swag.ToGoName(arg)
		return true
	case "fold":
		t.fold[arg] = foldKey(arg)
		// the search of uniqifyName looks at the numbered OAIGen variants of a name next
		stem := strings.TrimRight(arg, "0123456789")
		for _, base := range []string{stem, stem + "OAIGen"} {
			t.fold[base] = foldKey(base)
			for i := 1; i <= 120; i++ {
				c := base + strconv.Itoa(i)
				t.fold[c] = foldKey(c)
			}
		}
		return true
	case "refTokens":
		ref, err := spec.NewRef(arg)
		if err == nil && ref.HasFragmentOnly && ref.GetPointer() != nil {
			toks := []any{}
			for _, tk := range ref.GetPointer().DecodedTokens() {
				toks = append(toks, tk)
			}
			t.refTokens[arg] = toks
			return true
		}
	case "statusText":
		if code, err := strconv.Atoi(arg); err == nil {
			t.statusText[arg] = http.StatusText(code)
			return true
		}
	}
	return false
}

// seed fills the tables with what can be read off a document.
func (t *extTables) seed(doc any) {
	var walk func(v any)
	walk = func(v any) {
		switch x := v.(type) {
		case map[string]any:
			if r, ok := x["$ref"].(string); ok && r != "" {
				if _, done := t.refTokens[r]; !done {
					t.answer("refTokens", r)
				}
				if !strings.HasPrefix(r, "#") {
					if _, done := t.resolve[r]; !done {
						t.answer("resolve", r)
					}
					t.answer("mkRef", r)
				}
			}
			if f, ok := x["format"].(string); ok && knownFormat(f) {
				t.formats[f] = true
			}
			for _, e := range x {
				walk(e)
			}
		case []any:
			for _, e := range x {
				walk(e)
			}
		}
	}
	walk(doc)
	if defs, ok := get(doc, "definitions").(map[string]any); ok {
		for n := range defs {
			t.answer("fold", n)
			t.answer("mkRef", "#/definitions/"+n)
		}
	}
	if paths, ok := get(doc, "paths").(map[string]any); ok {
		for p, pi := range paths {
			t.answer("mkRef", "#/paths/"+jsonpointer.Escape(p))
			pm, _ := pi.(map[string]any)
			for _, m := range allMethods {
				if _, has := pm[m]; has {
					t.answer("mkRef", "#/paths/"+jsonpointer.Escape(p)+"/"+strings.ToUpper(m))
					t.answer("goName", m+" "+p)
				}
			}
		}
	}
}

func knownFormat(f string) bool {
	for _, k := range knownFormatsIn(M{"format": f}) {
		if k == f {
			return true
		}
	}
	return false
}

type phasesCase struct {
	c      *Case
	ext    *extTables
	steps  []any    // driver steps
	after  []any    // implementation state after each step
	next   []string // name of the phase the implementation ran after each step ("" = none)
	names  []string
	out    any
	rounds int
}

func phasesGen(g *Gen, i int) (any, string) {
	sets := []flatOpts{{Minimal: true}, {Minimal: true, RemoveUnused: true}, {}, {RemoveUnused: true}, {Expand: true}, {Expand: true, RemoveUnused: true}}
	o := sets[i%len(sets)]
	gb := NewGen(g.seed, 3<<40|uint64(i/len(sets)))
	in := flattenCase(gb, o, false, 0, 0, false, i/len(sets))
	mergeFeat(g.feat, gb.feat)
	g.hit("opts:" + o.String())
	return in, o.String()
}

const phasesRule = "bundles of W from the bundle generator x {Minimal, full, Expand} x {RemoveUnused}; one observed Flatten per case (child process); for every modelled phase (normalizeRef, removeUnusedShared, importReferences, nameInlinedSchemas, namePointers, stripOAIGen incl. its loop flag, removeUnused) and for the whole pipeline after expand, whose preceding phase left the analyzer in sync: model(state before) must equal the implementation's state after (document in serialization normal form, newRefs bookkeeping); non-trivial = at least one modelled phase changed the document; distinct by canonical JSON"

// phasesStreamRun is the stream `phases` (custom runner because of the need/answer rounds).
func phasesStreamRun(ctx *Ctx) StreamResult {
	res := StreamResult{Name: "phases", Rule: phasesRule, Features: map[string]int{}, Extra: map[string]any{}}
	n := ctx.N(240)
	var cases []*Case
	for i := 0; i < n; i++ {
		g := NewGen(ctx.Seed, 11<<32|uint64(i))
		in, note := phasesGen(g, i)
		c := &Case{ID: i + 1, Op: "phases", In: in, Note: fmt.Sprintf("seed=%d stream=11 index=%d %s", ctx.Seed, i, note), Feat: g.feat}
		cases = append(cases, c)
		mergeFeat(res.Features, g.feat)
	}
	ins := make([]any, len(cases))
	for i, c := range cases {
		ins[i] = c.In
	}
	for i, a := range runInChildren("phases", ins, 25*time.Second, 14) {
		cases[i].Impl = a
		res.Features["impl:"+outcomeTag(a)]++
	}
	fs, stats := phasesDecide(cases)
	res.Findings = shrinkAndDedupeFindings(fs)
	for k, v := range stats {
		res.Features[k] += v
	}
	res.Evaluations = stats["steps:compared"]
	res.Nontrivial = stats["steps:changed-document"]
	res.Extra["cases"] = len(cases)
	for i, c := range cases {
		if i%max(1, len(cases)/3) == 0 && len(res.Samples) < 3 {
			res.Samples = append(res.Samples, M{"op": c.Op, "in": c.In, "impl": truncate(string(mustJSON(c.Impl)), 400), "note": c.Note})
		}
	}
	return res
}

func shrinkAndDedupeFindings(fs []Finding) []Finding {
	return shrinkAndDedupe(nil, fs)
}

// phasesDecide runs the model on every modelled step of every case (with need/answer rounds) and compares.
func phasesDecide(cases []*Case) ([]Finding, map[string]int) {
	stats := map[string]int{}
	var stale []Finding
	var pcs []*phasesCase
	for _, c := range cases {
		r := get(c.Impl, "ok")
		phs := asList(get(r, "phases"))
		if r == nil || len(phs) < 2 {
			continue
		}
		if idlessKeyCollision(get(c.In, "bundle", "root")) {
			// known finding D10: GatherOperations keeps one of two id-less operations with the same derived key at random
			stats["cases:skipped-idless-key-collision"]++
			continue
		}
		if sharedParamTwins(get(c.In, "bundle", "root"), false) {
			// known finding D18: one key named once per operation with names equal up to case — the aliasing between the two
			// definitions created from one schema is not something the model claims to follow
			stats["cases:skipped-shared-param-name-twins"]++
			continue
		}
		pc := &phasesCase{c: c, ext: newExtTables()}
		if aux := auxOf(get(c.In, "bundle", "aux")); len(aux) > 0 {
			if dir, err := writeBundle(get(c.In, "bundle", "root"), aux, nil); err == nil {
				pc.ext.dir = dir
				pc.ext.rootDoc, _ = loadSwagger(get(c.In, "bundle", "root"))
				defer os.RemoveAll(dir)
			}
		}
		for _, ph := range phs {
			pc.ext.seed(get(ph, "doc"))
		}
		o := get(c.In, "opts")
		for i := 1; i < len(phs); i++ {
			name, _ := get(phs[i], "name").(string)
			stats["phase:"+name]++
			if !modelledPhases[name] {
				continue
			}
			if ok, _ := get(phs[i-1], "inSync").(bool); !ok {
				stats["steps:skipped-stale-index"]++
				continue
			}
			if ok, _ := get(phs[i], "inSync").(bool); !ok && get(phs[i], "doc") != nil {
				// every modelled phase ends with a re-analysis (C10.pipeline_in_sync): the implementation must be in sync there too
				stale = append(stale, Finding{Kind: "correspondence", Stream: "phases", Case: c,
					Detail:    fmt.Sprintf("at the end of phase %s the analyzer handed to Flatten does not answer like a fresh analysis of the document (the model re-analyzes at the end of every phase)", name),
					Signature: "phases:" + name + ":stale-index"})
			}
			if get(phs[i-1], "doc") == nil || get(phs[i], "doc") == nil {
				continue
			}
			pc.steps = append(pc.steps, M{"name": name, "doc": get(phs[i-1], "doc"), "ctx": get(phs[i-1], "ctx")})
			pc.after = append(pc.after, phs[i])
			pc.names = append(pc.names, name)
			nx := ""
			if i+1 < len(phs) {
				nx, _ = get(phs[i+1], "name").(string)
			}
			pc.next = append(pc.next, nx)
			_ = o
		}
		// the whole pipeline after `expand` (Flatten.flattenLocal), for runs that completed
		if get(r, "flattenErr") == nil && get(r, "panic") == nil {
			for i, ph := range phs {
				if nm, _ := get(ph, "name").(string); nm == "expand" && get(ph, "doc") != nil && get(phs[len(phs)-1], "doc") != nil {
					if ok, _ := get(ph, "inSync").(bool); ok && i < len(phs)-1 {
						pc.steps = append(pc.steps, M{"name": "pipeline", "doc": get(ph, "doc"), "ctx": get(ph, "ctx")})
						pc.after = append(pc.after, phs[len(phs)-1])
						pc.names = append(pc.names, "pipeline")
						pc.next = append(pc.next, "")
					}
				}
			}
		}
		if len(pc.steps) > 0 {
			pcs = append(pcs, pc)
		}
	}
	fs := append([]Finding{}, stale...)
	pending := pcs
	for round := 0; round < 400 && len(pending) > 0; round++ {
		var dcs []*Case
		for _, pc := range pending {
			o := clone(get(pc.c.In, "opts")).(map[string]any)
			o["basePath"] = "$DIR/root.json"
			dcs = append(dcs, &Case{ID: pc.c.ID, Op: "phases", In: M{"opts": o, "ext": pc.ext.toJSON(), "steps": pc.steps}})
		}
		outs, err := runDriver(dcs)
		if err != nil {
			fs = append(fs, Finding{Kind: "obligation", Stream: "phases", Detail: "driver failed: " + err.Error(), Signature: "driver-failed"})
			break
		}
		var next []*phasesCase
		for _, pc := range pending {
			pc.out = outs[pc.c.ID]
			pc.rounds++
			asked := false
			var flat []any
			for _, so := range asList(pc.out) {
				if a := asList(get(so, "anyOf")); a != nil {
					flat = append(flat, a...)
				} else {
					flat = append(flat, so)
				}
			}
			for _, so := range flat {
				if e, ok := get(so, "err").(string); ok && strings.HasPrefix(e, "need:") {
					parts := strings.SplitN(e, ":", 3)
					if len(parts) == 3 && pc.ext.answer(parts[1], parts[2]) {
						asked = true
					}
				}
			}
			if asked {
				next = append(next, pc)
			}
		}
		stats["driver:rounds"]++
		pending = next
	}
	for _, pc := range pcs {
		outs := asList(pc.out)
		for i := range pc.steps {
			if i >= len(outs) {
				break
			}
			name := pc.names[i]
			if name == "pipeline" {
				if e, _ := get(outs[i], "err").(string); strings.HasPrefix(e, "not modelled") {
					stats["pipeline:not-modelled"]++
					continue
				}
				stats["pipeline:compared"]++
			}
			stats["steps:compared"]++
			// hypothesis of the C07 order-independence theorems, evaluated by the driver on the index the phase ranges over
			if ka, ok := get(outs[i], "keysApart").(bool); ok {
				if ka {
					stats["c07-hypothesis:keys-apart:held"]++
				} else {
					stats["c07-hypothesis:keys-apart:not-met"]++
				}
			}
			before := get(pc.steps[i], "doc")
			implDoc := get(pc.after[i], "doc")
			if !jsonEq(before, implDoc) {
				stats["steps:changed-document"]++
				stats["changed:"+name]++
			}
			mo := outs[i]
			sig := func(s string) string { return "phases:" + name + ":" + s }
			mk := func(kind, detail, s string) Finding {
				if dbg := os.Getenv("VH_DUMP_PHASES"); dbg != "" && (os.Getenv("VH_DUMP_NAME") == "" || os.Getenv("VH_DUMP_NAME") == name) {
					_ = os.WriteFile(dbg, mustJSON(M{"id": 1, "op": "phases", "in": M{"opts": get(pc.c.In, "opts"), "ext": pc.ext.toJSON(), "steps": []any{pc.steps[i]}}, "after": pc.after[i]}), 0o644)
				}
				return Finding{Kind: kind, Stream: "phases", Detail: detail, Signature: sig(s), Case: pc.c, Model: M{"step": i, "phase": name, "model": truncate(string(mustJSON(mo)), 3000)}}
			}
			// a phase that ranges over a Go map is modelled for several iteration orders: the implementation must agree with one
			alts := []any{mo}
			if a := asList(get(mo, "anyOf")); a != nil {
				alts = a
				stats["steps:with-alternative-orders"]++
			}
			var first *Finding
			agreed := false
			for _, alt := range alts {
				f := comparePhase(name, alt, implDoc, get(pc.after[i], "ctx", "newRefs"), mk)
				if f == nil && name == "stripOAIGen" && get(c2err(pc.c), "flattenErr") == nil {
					// the flag stripOAIGen returns decides whether the loop of stripPointersAndOAIGen goes round again
					if again, ok := get(alt, "ok", "again").(bool); ok {
						implAgain := pc.next[i] == "nameInlinedSchemas" || pc.next[i] == "namePointers"
						if again != implAgain {
							ff := mk("correspondence", fmt.Sprintf("phase stripOAIGen: the model says the pointer/naming loop must go round again = %v, the implementation went on with %q", again, pc.next[i]), "loop-flag-differs")
							f = &ff
						}
					}
				}
				if f == nil {
					agreed = true
					break
				}
				if first == nil {
					first = f
				}
			}
			if agreed {
				stats["steps:agree"]++
			} else if first != nil {
				if len(alts) > 1 {
					first.Detail = fmt.Sprintf("(none of the %d modelled iteration orders agrees; first one:) %s", len(alts), first.Detail)
				}
				fs = append(fs, *first)
			}
		}
	}
	return fs, stats
}

// comparePhase: nil when the model outcome agrees with the implementation's state after the phase.
func comparePhase(name string, mo, implDoc, implNewRefs any, mk func(kind, detail, s string) Finding) *Finding {
	ret := func(f Finding) *Finding { return &f }
	switch outcomeTag(mo) {
	case "ok":
		md, err := normDoc(get(mo, "ok", "doc"))
		if err != nil {
			return ret(mk("correspondence", "model output of phase "+name+" does not load: "+err.Error(), "model-unloadable"))
		}
		if !jsonEq(md, implDoc) {
			return ret(mk("correspondence", "phase "+name+": model and implementation produce different documents: "+firstDiff(md, implDoc), "doc-differs"))
		}
		// the bookkeeping is discarded when Flatten returns: for the whole pipeline only the document counts
		if d := newRefsDiff(get(mo, "ok", "newRefs"), implNewRefs); d != "" && name != "pipeline" {
			return ret(mk("correspondence", "phase "+name+": model and implementation keep different newRefs bookkeeping: "+d, "newrefs-differ"))
		}
		return nil
	case "err":
		// the implementation completed this phase (its end was observed): the model must not fail
		return ret(mk("correspondence", fmt.Sprintf("phase %s: the model returns an error (%v) where the implementation completed the phase", name, get(mo, "err")), "model-error"))
	case "timeout":
		return ret(mk("correspondence", "phase "+name+": the model ran out of fuel where the implementation completed the phase", "model-out-of-fuel"))
	}
	if get(mo, "notModelled") != nil {
		return nil
	}
	return ret(mk("correspondence", "phase "+name+": unexpected model outcome "+truncate(string(mustJSON(mo)), 200), "model-outcome"))
}

// newRefsDiff compares the newRefs bookkeeping (schemas through the serialization normal form of a schema).
func newRefsDiff(model, impl any) string {
	mm, _ := model.(map[string]any)
	im, _ := impl.(map[string]any)
	keys := map[string]bool{}
	for k := range mm {
		keys[k] = true
	}
	for k := range im {
		keys[k] = true
	}
	ks := make([]string, 0, len(keys))
	for k := range keys {
		ks = append(ks, k)
	}
	sort.Strings(ks)
	for _, k := range ks {
		a, b := mm[k], im[k]
		if a == nil || b == nil {
			return fmt.Sprintf("entry %s present on one side only", k)
		}
		for _, f := range []string{"key", "newName", "path", "isOAIGen", "resolved"} {
			if !jsonEq(get(a, f), get(b, f)) {
				return fmt.Sprintf("entry %s field %s: %s vs %s", k, f, canonStr(get(a, f)), canonStr(get(b, f)))
			}
		}
		// parents and schema of an entry are read again only while the entry is an unresolved OAIGen one (stripOAIGen);
		// for the others they are dead data (the schema merely aliases wherever it was saved or re-inlined, the parents
		// depend on the order in which the entries were resolved)
		if live, _ := get(b, "isOAIGen").(bool); !live {
			continue
		}
		pa, pb := sortedAnyStrings(get(a, "parents")), sortedAnyStrings(get(b, "parents"))
		if !jsonEq(pa, pb) {
			return fmt.Sprintf("entry %s parents: %s vs %s", k, canonStr(pa), canonStr(pb))
		}
		if !jsonEq(normSchema(get(a, "schema")), normSchema(get(b, "schema"))) {
			return fmt.Sprintf("entry %s schema: %s", k, firstDiff(normSchema(get(a, "schema")), normSchema(get(b, "schema"))))
		}
	}
	return ""
}

func sortedAnyStrings(v any) []any {
	l := asList(v)
	ss := make([]string, 0, len(l))
	for _, e := range l {
		ss = append(ss, fmt.Sprint(e))
	}
	sort.Strings(ss)
	out := make([]any, len(ss))
	for i, s := range ss {
		out[i] = s
	}
	return out
}

// normSchema passes a schema through the spec model's load + marshal.
func normSchema(v any) any {
	if v == nil {
		return nil
	}
	var s spec.Schema
	if err := s.UnmarshalJSON(mustJSON(v)); err != nil {
		return v
	}
	b, err := s.MarshalJSON()
	if err != nil {
		return v
	}
	return decodeJSON(b)
}

func jsonDecoder(b []byte) *json.Decoder {
	dec := json.NewDecoder(bytes.NewReader(b))
	dec.UseNumber()
	return dec
}

// c2err: the implementation's answer of a case (for its flattenErr).
func c2err(c *Case) any { return get(c.Impl, "ok") }
