package main

// Hazardous implementation calls (may hang, exhaust the stack or crash the process) run in child processes:
// `vh child` reads one JSON request per line on stdin and writes one JSON answer per line on stdout.
// The parent (Pool) enforces a wall-clock timeout per request and replaces a child that hangs or dies.

import (
	"bufio"
	"encoding/json"
	"fmt"
	"os"
	"os/exec"
	"runtime/debug"
	"sync"
	"time"
)

type childReq struct {
	Op string `json:"op"`
	In any    `json:"in"`
}

// childOps: op -> implementation runner executed inside the child.
var childOps = map[string]func(in any) any{}

func childMain() {
	debug.SetMaxStack(256 << 20) // a runaway recursion dies quickly instead of eating all memory
	debug.SetGCPercent(100)
	sc := bufio.NewScanner(os.Stdin)
	sc.Buffer(make([]byte, 1<<20), 1<<28)
	w := bufio.NewWriter(os.Stdout)
	for sc.Scan() {
		var req childReq
		dec := json.NewDecoder(bytesReader(sc.Bytes()))
		dec.UseNumber()
		if err := dec.Decode(&req); err != nil {
			fmt.Fprintln(w, `{"err":"bad request"}`)
			w.Flush()
			continue
		}
		fn := childOps[req.Op]
		var ans any
		if fn == nil {
			ans = M{"err": "unknown child op " + req.Op}
		} else {
			ans = fn(req.In)
		}
		w.Write(mustJSON(ans))
		w.WriteByte('\n')
		w.Flush()
	}
}

type worker struct {
	cmd *exec.Cmd
	in  *bufio.Writer
	out *bufio.Scanner
}

func startWorker() (*worker, error) {
	self, err := os.Executable()
	if err != nil {
		return nil, err
	}
	cmd := exec.Command(self, "child")
	cmd.Env = append(os.Environ(), "GOMEMLIMIT=1500MiB", "GOMAXPROCS=2")
	stdin, err := cmd.StdinPipe()
	if err != nil {
		return nil, err
	}
	stdout, err := cmd.StdoutPipe()
	if err != nil {
		return nil, err
	}
	cmd.Stderr = nil
	if err := cmd.Start(); err != nil {
		return nil, err
	}
	sc := bufio.NewScanner(stdout)
	sc.Buffer(make([]byte, 1<<20), 1<<28)
	return &worker{cmd: cmd, in: bufio.NewWriter(stdin), out: sc}, nil
}

func (w *worker) kill() {
	if w != nil && w.cmd != nil && w.cmd.Process != nil {
		_ = w.cmd.Process.Kill()
		_, _ = w.cmd.Process.Wait()
	}
}

// call sends one request and waits for the answer or the timeout. ok=false means the worker must be replaced.
func (w *worker) call(op string, in any, timeout time.Duration) (ans any, ok bool) {
	type res struct {
		v  any
		ok bool
	}
	ch := make(chan res, 1)
	go func() {
		if _, err := w.in.Write(append(mustJSON(childReq{Op: op, In: in}), '\n')); err != nil {
			ch <- res{M{"crash": "write: " + err.Error()}, false}
			return
		}
		if err := w.in.Flush(); err != nil {
			ch <- res{M{"crash": "flush: " + err.Error()}, false}
			return
		}
		if !w.out.Scan() {
			ch <- res{M{"crash": "child process died (stack overflow, fatal error or out of memory)"}, false}
			return
		}
		var v any
		dec := json.NewDecoder(bytesReader(w.out.Bytes()))
		dec.UseNumber()
		if err := dec.Decode(&v); err != nil {
			ch <- res{M{"crash": "bad answer: " + err.Error()}, false}
			return
		}
		ch <- res{v, true}
	}()
	select {
	case r := <-ch:
		return r.v, r.ok
	case <-time.After(timeout):
		return M{"timeout": true}, false
	}
}

// runInChildren evaluates op on every input in parallel child processes with a per-call timeout.
func runInChildren(op string, inputs []any, timeout time.Duration, parallel int) []any {
	out := make([]any, len(inputs))
	idx := make(chan int, len(inputs))
	for i := range inputs {
		idx <- i
	}
	close(idx)
	var wg sync.WaitGroup
	for k := 0; k < parallel; k++ {
		wg.Add(1)
		go func() {
			defer wg.Done()
			var w *worker
			defer func() { w.kill() }()
			for i := range idx {
				if w == nil {
					var err error
					if w, err = startWorker(); err != nil {
						out[i] = M{"crash": "cannot start child: " + err.Error()}
						w = nil
						continue
					}
				}
				ans, ok := w.call(op, inputs[i], timeout)
				out[i] = ans
				if !ok {
					w.kill()
					w = nil
				}
			}
		}()
	}
	wg.Wait()
	return out
}
