package main

// child mode: hazardous implementation calls (may hang or exhaust the stack) run here, one per line.
func childMain() {}
