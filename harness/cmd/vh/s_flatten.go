package main

import (
	"bytes"
	"crypto/sha256"
	"encoding/hex"
	"encoding/json"
	"fmt"
	"math/rand/v2"
	"os"
	"path"
	"path/filepath"
	"runtime/debug"
	"sort"
	"strings"
	"time"

	"github.com/go-openapi/analysis"
	"github.com/go-openapi/jsonpointer"
	"github.com/go-openapi/spec"
	"github.com/go-openapi/strfmt"
	"github.com/go-openapi/swag"
)

func init() { childOps["flatten"] = flattenChild }

type flatOpts struct {
	Minimal, Expand, RemoveUnused, KeepNames bool
}

func (o flatOpts) String() string {
	mode := "full"
	if o.Minimal {
		mode = "minimal"
	} else if o.Expand {
		mode = "expand"
	}
	if o.RemoveUnused {
		mode += "+removeUnused"
	}
	if o.KeepNames {
		mode += "+keepNames"
	}
	return mode
}

func optsOf(v any) flatOpts {
	b := func(k string) bool { x, _ := get(v, k).(bool); return x }
	return flatOpts{Minimal: b("minimal"), Expand: b("expand"), RemoveUnused: b("removeUnused"), KeepNames: b("keepNames")}
}

func (o flatOpts) toJSON() M {
	return M{"minimal": o.Minimal, "expand": o.Expand, "removeUnused": o.RemoveUnused, "keepNames": o.KeepNames}
}

// writeBundle materialises a bundle in a fresh temporary directory (outside /repo and /verif).
func writeBundle(root any, aux map[string]any, shuffle *rand.Rand) (dir string, err error) {
	dir, err = os.MkdirTemp("", "vhb")
	if err != nil {
		return "", err
	}
	enc := func(v any) []byte {
		if shuffle != nil {
			return marshalShuffled(v, shuffle)
		}
		return mustJSON(v)
	}
	if err = os.WriteFile(filepath.Join(dir, "root.json"), enc(root), 0o644); err != nil {
		return dir, err
	}
	for rel, doc := range aux {
		p := filepath.Join(dir, filepath.FromSlash(rel))
		if err = os.MkdirAll(filepath.Dir(p), 0o755); err != nil {
			return dir, err
		}
		if err = os.WriteFile(p, enc(doc), 0o644); err != nil {
			return dir, err
		}
	}
	return dir, nil
}

// marshalShuffled serialises JSON with the keys of every object in random order (insertion history of Go maps).
func marshalShuffled(v any, r *rand.Rand) []byte {
	var buf bytes.Buffer
	var w func(v any)
	w = func(v any) {
		switch x := v.(type) {
		case map[string]any:
			keys := make([]string, 0, len(x))
			for k := range x {
				keys = append(keys, k)
			}
			sort.Strings(keys)
			r.Shuffle(len(keys), func(i, j int) { keys[i], keys[j] = keys[j], keys[i] })
			buf.WriteByte('{')
			for i, k := range keys {
				if i > 0 {
					buf.WriteByte(',')
				}
				buf.Write(mustJSON(k))
				buf.WriteByte(':')
				w(x[k])
			}
			buf.WriteByte('}')
		case []any:
			buf.WriteByte('[')
			for i, e := range x {
				if i > 0 {
					buf.WriteByte(',')
				}
				w(e)
			}
			buf.WriteByte(']')
		default:
			buf.Write(mustJSON(x))
		}
	}
	w(canon(v))
	return buf.Bytes()
}

// phaseSnap is what the verif sink of Flatten delivers at the end of one phase.
type phaseSnap struct {
	Name    string
	Doc     []byte // marshalled document (nil when marshalling panicked)
	InSync  bool   // the analyzer passed in answers like a fresh analysis of the document
	NewRefs any
}

type flatRun struct {
	phases []phaseSnap
	err    error
	panic  string
	stack  string
	out    []byte
	an     *analysis.Spec
	sw     *spec.Swagger
	loads  int
}

// flattenOnce loads root.json from dir and flattens it. failAt > 0 makes the failAt-th document load fail.
func flattenOnce(dir string, o flatOpts, failAt int) (res flatRun) {
	return flattenOnceObs(dir, o, failAt, false)
}

// newRefsJSON renders the flatten context's bookkeeping of created references.
func newRefsJSON(ph analysis.VerifPhase) any {
	out := M{}
	for k, r := range ph.NewRefs {
		var sch any
		if r.Schema != nil && schemaDepthWithin(r.Schema, 48) {
			func() {
				defer func() { _ = recover() }()
				b, err := json.Marshal(r.Schema)
				if err == nil {
					_ = json.Unmarshal(b, &sch)
				}
			}()
		}
		ps := []any{}
		for _, p := range r.Parents {
			ps = append(ps, p)
		}
		out[k] = M{"key": r.Key, "newName": r.NewName, "path": r.Path, "isOAIGen": r.IsOAIGen, "resolved": r.Resolved, "schema": sch, "parents": ps}
	}
	res := M{}
	for k, v := range ph.Resolved {
		res[k] = v
	}
	return M{"newRefs": out, "resolved": res}
}

// schemaDepthWithin: the schema's nesting stays within limit (a Go pointer cycle built by re-inlining has no bound, and
// marshalling it would overflow the stack of the harness itself).
func schemaDepthWithin(s *spec.Schema, limit int) bool {
	if s == nil {
		return true
	}
	if limit <= 0 {
		return false
	}
	for _, m := range []map[string]spec.Schema{s.Properties, s.PatternProperties, s.Definitions} {
		for _, v := range m {
			v := v
			if !schemaDepthWithin(&v, limit-1) {
				return false
			}
		}
	}
	for _, l := range [][]spec.Schema{s.AllOf, s.AnyOf, s.OneOf} {
		for i := range l {
			if !schemaDepthWithin(&l[i], limit-1) {
				return false
			}
		}
	}
	if s.Items != nil {
		if !schemaDepthWithin(s.Items.Schema, limit-1) {
			return false
		}
		for i := range s.Items.Schemas {
			if !schemaDepthWithin(&s.Items.Schemas[i], limit-1) {
				return false
			}
		}
	}
	if s.AdditionalProperties != nil && !schemaDepthWithin(s.AdditionalProperties.Schema, limit-1) {
		return false
	}
	if s.AdditionalItems != nil && !schemaDepthWithin(s.AdditionalItems.Schema, limit-1) {
		return false
	}
	return schemaDepthWithin(s.Not, limit-1)
}

// flattenOnceObs: as flattenOnce; with observe, the end of every phase is recorded through the verif sink.
func flattenOnceObs(dir string, o flatOpts, failAt int, observe bool) (res flatRun) {
	rootPath := filepath.Join(dir, "root.json")
	raw, err := os.ReadFile(rootPath)
	if err != nil {
		res.err = err
		return
	}
	var sw spec.Swagger
	if err := json.Unmarshal(raw, &sw); err != nil {
		res.err = fmt.Errorf("load: %w", err)
		return
	}
	orig := spec.PathLoader
	loads := 0
	spec.PathLoader = func(p string) (json.RawMessage, error) {
		loads++
		if failAt > 0 && loads == failAt {
			return nil, fmt.Errorf("injected fault: load #%d of %s failed", loads, filepath.Base(p))
		}
		return orig(p)
	}
	defer func() {
		spec.PathLoader = orig
		res.loads = loads
		if r := recover(); r != nil {
			res.panic = fmt.Sprint(r)
			res.stack = panicSite(string(debug.Stack()))
		}
	}()
	res.sw = &sw
	res.an = analysis.New(&sw)
	if len(raw)%2 == 0 {
		// the analyzer handed to Flatten has already been queried (every public getter once): answers memoized before
		// Flatten must not survive it (C10); the other half of the runs hands in an untouched analyzer
		func() {
			defer func() { _ = recover() }()
			_ = queryDigest(res.an, &sw)
		}()
	}
	if observe {
		analysis.VerifSetSink(func(ph analysis.VerifPhase) {
			snap := phaseSnap{Name: ph.Name, NewRefs: newRefsJSON(ph)}
			func() {
				defer func() { _ = recover() }()
				cur := ph.Opts.Swagger()
				if b, err := json.Marshal(cur); err == nil {
					snap.Doc = b
				}
				snap.InSync = queryDigest(ph.Opts.Spec, cur) == queryDigest(analysis.New(cur), cur)
			}()
			res.phases = append(res.phases, snap)
		})
		defer analysis.VerifSetSink(nil)
	}
	res.err = analysis.Flatten(analysis.FlattenOpts{Spec: res.an, BasePath: rootPath, Minimal: o.Minimal, Expand: o.Expand, RemoveUnused: o.RemoveUnused, KeepNames: o.KeepNames})
	if res.err == nil {
		b, err := json.Marshal(&sw)
		if err != nil {
			res.err = fmt.Errorf("marshal of the flattened document: %w", err)
		}
		res.out = b
	}
	return
}

func scrubDir(b []byte, dir string) []byte {
	b = bytes.ReplaceAll(b, []byte(dir), []byte("$DIR"))
	// url-escaped spelling of the same prefix
	return b
}

func hashOf(b []byte) string {
	h := sha256.Sum256(b)
	return hex.EncodeToString(h[:8])
}

func auxOf(v any) map[string]any {
	out := map[string]any{}
	if m, ok := v.(map[string]any); ok {
		for k, d := range m {
			out[k] = d
		}
	}
	return out
}

// flattenChild: {bundle:{root,aux}, opts, repeats, permutes, faults} -> everything the Flatten properties need from the implementation.
func flattenChild(in any) any {
	o := optsOf(get(in, "opts"))
	root := get(in, "bundle", "root")
	aux := auxOf(get(in, "bundle", "aux"))
	repeats, _ := get(in, "repeats").(json.Number)
	permutes, _ := get(in, "permutes").(json.Number)
	nrep, _ := repeats.Int64()
	nperm, _ := permutes.Int64()
	wantFaults, _ := get(in, "faults").(bool)

	dir, err := writeBundle(root, aux, nil)
	defer os.RemoveAll(dir)
	if err != nil {
		return M{"err": "write bundle: " + err.Error()}
	}
	// the phase observer marshals intermediate documents: only on bundles of W (a W+ bundle may hold Go pointer cycles
	// half-way, which the code under test - not the harness - has to survive)
	plusBundle, _ := get(in, "plus").(bool)
	r1 := flattenOnceObs(dir, o, 0, !plusBundle)
	res := M{"loads": r1.loads}
	{
		var phs []any
		for _, ph := range r1.phases {
			var doc any
			if ph.Doc != nil {
				dec := json.NewDecoder(bytes.NewReader(scrubDir(ph.Doc, dir)))
				dec.UseNumber()
				_ = dec.Decode(&doc)
			}
			phs = append(phs, M{"name": ph.Name, "doc": doc, "inSync": ph.InSync, "ctx": ph.NewRefs})
		}
		res["phases"] = phs
	}
	if r1.panic != "" {
		res["panic"] = r1.panic
		res["panicStack"] = r1.stack
		return M{"ok": res}
	}
	if r1.err != nil {
		res["flattenErr"] = string(scrubDir([]byte(r1.err.Error()), dir))
	} else {
		out := scrubDir(r1.out, dir)
		var outDoc any
		dec := json.NewDecoder(bytes.NewReader(out))
		dec.UseNumber()
		_ = dec.Decode(&outDoc)
		res["out"] = outDoc
		res["outHash"] = hashOf(out)
		// C10: the analyzer that was passed in vs a fresh analysis of the rewritten document
		func() {
			defer func() {
				if r := recover(); r != nil {
					res["syncPanic"] = fmt.Sprint(r)
				}
			}()
			d1 := queryDigest(r1.an, r1.sw)
			d2 := queryDigest(analysis.New(r1.sw), r1.sw)
			res["inSync"] = d1 == d2
			if d1 != d2 {
				var a, b any
				_ = json.Unmarshal([]byte(d1), &a)
				_ = json.Unmarshal([]byte(d2), &b)
				res["syncDiff"] = firstDiff(a, b)
			}
		}()
		// C08: flatten the output again
		func() {
			var outAny any
			_ = json.Unmarshal(r1.out, &outAny)
			dir2, err := writeBundle(outAny, aux, nil)
			defer os.RemoveAll(dir2)
			if err != nil {
				res["second"] = M{"err": "write: " + err.Error()}
				return
			}
			// the first output may mention the first directory (Expand with cycles): keep both trees identical
			r2 := flattenOnce(dir2, o, 0)
			switch {
			case r2.panic != "":
				res["second"] = M{"panic": r2.panic}
			case r2.err != nil:
				res["second"] = M{"err": string(scrubDir([]byte(r2.err.Error()), dir2))}
			default:
				o2 := scrubDir(r2.out, dir2)
				same := bytes.Equal(o2, out)
				sec := M{"same": same}
				if !same {
					var a, b any
					_ = json.Unmarshal(out, &a)
					_ = json.Unmarshal(o2, &b)
					sec["diff"] = firstDiff(a, b)
				}
				res["second"] = sec
			}
		}()
	}
	// C07: repeated runs (fresh load each time) and loads from JSON with permuted key order
	var reps []any
	for i := int64(0); i < nrep+nperm; i++ {
		d := dir
		var cleanup func()
		if i >= nrep {
			sh := rand.New(rand.NewPCG(uint64(i), 4242))
			d2, err := writeBundle(root, aux, sh)
			cleanup = func() { os.RemoveAll(d2) }
			if err != nil {
				cleanup()
				continue
			}
			d = d2
		}
		rr := flattenOnce(d, o, 0)
		entry := M{"permuted": i >= nrep}
		switch {
		case rr.panic != "":
			entry["panic"] = rr.panic
		case rr.err != nil:
			entry["err"] = string(scrubDir([]byte(rr.err.Error()), d))
			entry["same"] = r1.err != nil
		default:
			ob := scrubDir(rr.out, d)
			entry["same"] = r1.err == nil && hashOf(ob) == res["outHash"]
			if r1.err == nil && entry["same"] == false {
				var a, b any
				_ = json.Unmarshal(scrubDir(r1.out, dir), &a)
				_ = json.Unmarshal(ob, &b)
				entry["diff"] = firstDiff(a, b)
			}
		}
		if cleanup != nil {
			cleanup()
		}
		reps = append(reps, entry)
	}
	res["repeats"] = reps
	// C09: fail the k-th document load, for every k
	if wantFaults && r1.loads > 0 {
		var fr []any
		for k := 1; k <= r1.loads && k <= 12; k++ {
			rr := flattenOnce(dir, o, k)
			e := M{"k": k}
			switch {
			case rr.panic != "":
				e["panic"] = rr.panic
			case rr.err != nil:
				e["err"] = truncate(rr.err.Error(), 200)
			default:
				e["reportedSuccess"] = true
			}
			fr = append(fr, e)
		}
		res["faults"] = fr
	}
	return M{"ok": res}
}

// ---- tables of external functions for the Lean validators ------------------------------------------------------

// refTargets: for every $ref string in doc (located at relative path docPath, "" = root): the document it designates
// (relative path) and the decoded pointer tokens.
func refTargets(doc any, docPath string) M {
	out := M{}
	var walk func(v any)
	walk = func(v any) {
		switch x := v.(type) {
		case map[string]any:
			if r, ok := x["$ref"].(string); ok && r != "" {
				if _, done := out[r]; !done {
					ref, err := spec.NewRef(r)
					if err == nil {
						u := ref.GetURL()
						target := docPath
						if u != nil && (u.Path != "" || u.Host != "") {
							p := u.Path
							if strings.HasPrefix(p, "$DIR/") {
								target = strings.TrimPrefix(p, "$DIR/")
							} else if path.IsAbs(p) {
								target = p
							} else {
								target = path.Join(path.Dir("/"+docPath), p)[1:]
							}
							if target == "root.json" {
								target = ""
							}
						}
						toks := []any{}
						if ptr := ref.GetPointer(); ptr != nil {
							for _, t := range ptr.DecodedTokens() {
								toks = append(toks, t)
							}
						}
						out[r] = M{"doc": target, "tokens": toks}
					}
				}
			}
			for _, e := range x {
				walk(e)
			}
		case []any:
			for _, e := range x {
				walk(e)
			}
		}
	}
	walk(doc)
	return out
}

func canonicalDefRefs(doc any) M {
	out := M{}
	if defs, ok := get(doc, "definitions").(map[string]any); ok {
		for name := range defs {
			r := spec.MustCreateRef("#/definitions/" + jsonpointer.Escape(name))
			out[name] = r.String()
		}
	}
	return out
}

func knownFormatsIn(doc any) []any {
	seen := map[string]bool{}
	var walk func(v any)
	walk = func(v any) {
		switch x := v.(type) {
		case map[string]any:
			if f, ok := x["format"].(string); ok {
				seen[f] = true
			}
			for _, e := range x {
				walk(e)
			}
		case []any:
			for _, e := range x {
				walk(e)
			}
		}
	}
	walk(doc)
	out := []any{}
	for f := range seen {
		if strfmt.Default.ContainsName(f) {
			out = append(out, f)
		}
	}
	return out
}

// normAux puts an auxiliary document (a definitions container) in serialization normal form.
func normAux(doc any) any {
	in := M{"swagger": "2.0", "paths": M{}, "definitions": get(doc, "definitions")}
	for _, k := range []string{"responses", "parameters"} {
		if v := get(doc, k); v != nil {
			in[k] = v
		}
	}
	n, err := normDoc(in)
	if err != nil {
		return nil
	}
	out := M{"definitions": get(n, "definitions")}
	for _, k := range []string{"responses", "parameters"} {
		if v := get(n, k); v != nil {
			out[k] = v
		}
	}
	return out
}

var _ = swag.ToGoName
var _ = time.Second

// panicSite extracts the frames of go-openapi code from a stack trace (where the panic happened).
func panicSite(stack string) string {
	var out []string
	lines := strings.Split(stack, "\n")
	for i, ln := range lines {
		if strings.Contains(ln, "github.com/go-openapi/") && !strings.HasPrefix(ln, "\t") {
			fn := ln
			if j := strings.Index(fn, "("); j > 0 {
				fn = fn[:j]
			}
			fn = strings.TrimPrefix(fn, "github.com/go-openapi/")
			loc := ""
			if i+1 < len(lines) {
				loc = strings.TrimSpace(lines[i+1])
				if j := strings.Index(loc, " +0x"); j > 0 {
					loc = loc[:j]
				}
				if j := strings.LastIndex(loc, "/"); j >= 0 {
					loc = loc[j+1:]
				}
			}
			out = append(out, fn+"@"+loc)
			if len(out) >= 5 {
				break
			}
		}
	}
	return strings.Join(out, " <- ")
}
