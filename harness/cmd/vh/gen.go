package main

// Type-directed generators of Swagger 2.0 documents as raw JSON (map[string]any).
// Every random choice derives from one PCG state so that a case is reproducible from (seed, index).

import (
	"fmt"
	"math/rand/v2"
	"sort"
	"strings"
)

type M = map[string]any

type Gen struct {
	seed uint64
	r    *rand.Rand
	feat map[string]int // feature histogram of the current case

	// knobs
	MaxDepth         int
	Names            []string // alphabet of definition / property names
	RefValidOnly     bool     // only $refs that resolve
	PlantRefs        float64  // probability of a $ref at a schema node
	PlantPattern     float64
	PlantEnum        float64
	Exotic           float64 // probability of the keywords swagger 2.0 does not support (anyOf, oneOf, not, patternProperties, nested definitions, additionalItems)
	SimpleRefs       bool    // allow $ref inside simple-schema items / headers (invalid swagger, analyzable)
	PathItemRefs     bool
	PointerLikeNames bool // a definition named like the pointer to a property of another one (analyze stream only)
	DeepChains       bool // plant a 70-level schema chain now and then (analyze stream only)

	nonBodySchema bool
	defNames      []string
	paramNames    []string
	respNames     []string
	wantTemplates bool // a parameter $ref points into the untyped root extension x-templates
}

func NewGen(seed, stream uint64) *Gen {
	return &Gen{
		seed:         seed,
		r:            rand.New(rand.NewPCG(seed, stream)),
		feat:         map[string]int{},
		MaxDepth:     4,
		Names:        alphabetNames,
		PlantRefs:    0.2,
		PlantPattern: 0.15,
		PlantEnum:    0.15,
		Exotic:       0.15,
		SimpleRefs:   true,
		PathItemRefs: true,
	}
}

// names over the alphabet of C01: spaces, unicode, '/', '~', '?', '#', brackets, braces, case pairs.
var alphabetNames = []string{
	"pet", "Pet", "PET", "owner", "petOwner", "PetOwner", "tag", "my def", "a/b", "t~x", "~0", "~1x", "a~1b",
	"q?x", "h#x", "br[0]", "cu{id}", "日本", "שלום", "x y z", "a//b", "trailing/", "/lead", "n-1", "n_1",
	"petOAIGen", "petoaigen1", "items", "properties", "schema", "default", "200", "allOf", "x-ext",
}

var simpleNames = []string{"pet", "Pet", "owner", "tag", "item", "user", "order", "thing", "id", "name", "value", "n1"}

func (g *Gen) hit(f string)            { g.feat[f]++ }
func (g *Gen) p(x float64) bool        { return g.r.Float64() < x }
func (g *Gen) n(k int) int             { return g.r.IntN(k) }
func (g *Gen) pick(xs []string) string { return xs[g.r.IntN(len(xs))] }

func (g *Gen) name() string {
	if g.p(0.15) {
		return fmt.Sprintf("%s%d", g.pick(simpleNames), g.n(5))
	}
	return g.pick(g.Names)
}

func (g *Gen) distinctNames(k int) []string {
	seen := map[string]bool{}
	var out []string
	for tries := 0; len(out) < k && tries < 10*k+10; tries++ {
		nm := g.name()
		if !seen[nm] {
			seen[nm] = true
			out = append(out, nm)
		}
	}
	return out
}

var patterns = []string{"^a+$", "[0-9]{3}", "^x", "[a-z]+", "(a|b)*"}
var formats = []string{"date", "date-time", "uuid", "int32", "int64", "byte", "email", "unknownfmt", "password"}

func (g *Gen) enumVals() []any {
	k := 1 + g.n(3)
	out := make([]any, 0, k)
	for i := 0; i < k; i++ {
		if g.p(0.3) {
			out = append(out, g.n(10))
		} else {
			out = append(out, g.pick([]string{"a", "b", "c", "red", "green"}))
		}
	}
	return out
}

// jsonPtrEscape is the harness's own copy of the RFC 6901 escaping (used only to *build* inputs).
func jsonPtrEscape(s string) string {
	out := make([]byte, 0, len(s))
	for i := 0; i < len(s); i++ {
		switch s[i] {
		case '~':
			out = append(out, '~', '0')
		case '/':
			out = append(out, '~', '1')
		default:
			out = append(out, s[i])
		}
	}
	return string(out)
}

// urlFragEscape percent-escapes what net/url escapes in a fragment (used only to build inputs: the loader normalises anyway).
func urlFragEscape(s string) string {
	const hex = "0123456789ABCDEF"
	var out []byte
	for i := 0; i < len(s); i++ {
		c := s[i]
		ok := c >= 'a' && c <= 'z' || c >= 'A' && c <= 'Z' || c >= '0' && c <= '9'
		if !ok {
			switch c {
			case '-', '_', '.', '~', '$', '&', '+', ',', '/', ':', ';', '=', '?', '@', '!', '(', ')', '*', '\'':
				ok = true
			}
		}
		if ok {
			out = append(out, c)
		} else {
			out = append(out, '%', hex[c>>4], hex[c&15])
		}
	}
	return string(out)
}

func (g *Gen) defRef() (string, bool) {
	if len(g.defNames) > 0 && (g.RefValidOnly || g.p(0.85)) {
		nm := g.pick(g.defNames)
		g.hit("ref:definition")
		// raw (unescaped-for-URL) or escaped spelling: both load to the same normal form
		if g.p(0.5) {
			return "#/definitions/" + jsonPtrEscape(nm), true
		}
		return "#/definitions/" + urlFragEscape(jsonPtrEscape(nm)), true
	}
	if g.RefValidOnly {
		return "", false
	}
	g.hit("ref:dangling")
	return "#/definitions/nope" + fmt.Sprint(g.n(3)), true
}

// Schema generates a schema following the grammar of C20's quantifier x the schema-bearing keywords of C11's.
func (g *Gen) Schema(depth int) M {
	s := M{}
	if g.p(g.PlantRefs) {
		if ref, ok := g.defRef(); ok {
			s["$ref"] = ref
			if g.p(0.2) { // siblings of a $ref (kept by the loader)
				s["description"] = "sibling"
			}
			if depth > 0 && g.p(0.25) {
				// schema-bearing siblings of a $ref: the loader keeps them and the analyzer must still index what is below
				g.hit("ref:with-schema-siblings")
				switch g.n(5) {
				case 0:
					s["properties"] = M{g.name(): g.Schema(depth - 1)}
				case 1:
					s["items"] = g.Schema(depth - 1)
				case 2:
					s["allOf"] = []any{g.Schema(depth - 1)}
				case 3:
					s["additionalProperties"] = g.Schema(depth - 1)
				default:
					s["not"] = g.Schema(depth - 1)
				}
				if g.p(0.3) {
					s["pattern"] = g.pick(patterns)
				}
				if g.p(0.3) {
					s["enum"] = g.enumVals()
				}
			}
			return s
		}
	}
	if g.p(g.PlantPattern) {
		s["pattern"] = g.pick(patterns)
		g.hit("schema:pattern")
	}
	if g.p(g.PlantEnum) {
		s["enum"] = g.enumVals()
		g.hit("schema:enum")
	}
	kinds := []string{"prim", "prim", "fmt", "object", "object", "map", "array", "tuple", "allOf", "empty", "emptyobj"}
	if depth <= 0 {
		kinds = []string{"prim", "fmt", "empty", "emptyobj"}
	}
	k := g.pick(kinds)
	g.hit("schema:" + k)
	switch k {
	case "prim":
		s["type"] = g.pick([]string{"string", "integer", "number", "boolean"})
	case "fmt":
		s["type"] = g.pick([]string{"string", "integer", "number"})
		s["format"] = g.pick(formats)
	case "emptyobj":
		s["type"] = "object"
		if g.p(0.25) {
			// a format on an empty object, registered or not: still an empty object
			s["format"] = g.pick(formats)
			g.hit("schema:emptyobj-with-format")
		}
	case "empty":
		if g.p(0.15) {
			s["format"] = g.pick(formats)
			g.hit("schema:untyped-with-format")
		}
	case "object":
		if g.p(0.8) {
			s["type"] = "object"
		}
		props := M{}
		for _, nm := range g.distinctNames(1 + g.n(3)) {
			props[nm] = g.Schema(depth - 1)
		}
		s["properties"] = props
		if g.p(0.2) {
			s["discriminator"] = "kind"
		}
		if g.p(0.2) {
			g.hit("schema:extendedObject")
			if g.p(0.5) {
				s["additionalProperties"] = g.Schema(depth - 1)
			} else {
				s["additionalProperties"] = g.p(0.7)
			}
		}
	case "map":
		if g.p(0.8) {
			s["type"] = "object"
		}
		if g.p(0.75) {
			s["additionalProperties"] = g.Schema(depth - 1)
		} else {
			s["additionalProperties"] = g.p(0.8)
		}
	case "array":
		s["type"] = "array"
		if g.p(0.9) {
			s["items"] = g.Schema(depth - 1)
		}
	case "tuple":
		if g.p(0.9) {
			s["type"] = "array"
		}
		var its []any
		for i, k := 0, 1+g.n(3); i < k; i++ {
			its = append(its, g.Schema(depth-1))
		}
		s["items"] = its
		if g.p(0.4) {
			g.hit("schema:tupleExtra")
			if g.p(0.6) {
				s["additionalItems"] = g.Schema(depth - 1)
			} else {
				s["additionalItems"] = g.p(0.7)
			}
		}
	case "allOf":
		var mem []any
		for i, k := 0, 1+g.n(3); i < k; i++ {
			mem = append(mem, g.Schema(depth-1))
		}
		s["allOf"] = mem
		if g.p(0.3) {
			s["type"] = "object"
		}
		if g.p(0.25) {
			// a composition that also allows additional properties (no properties of its own)
			if g.p(0.5) {
				s["additionalProperties"] = g.Schema(depth - 1)
			} else {
				s["additionalProperties"] = true
			}
			g.hit("schema:allOf-with-additionalProperties")
		}
	}
	if g.p(0.04) {
		// explicitly empty containers (they load as empty, non-nil Go slices / maps): no allOf member, no property
		if _, has := s["allOf"]; !has {
			s["allOf"] = []any{}
			g.hit("schema:empty-allOf")
		}
	}
	if depth > 0 && g.p(g.Exotic) {
		ex := g.pick([]string{"anyOf", "oneOf", "not", "patternProperties", "definitions", "additionalItems", "dependencies"})
		g.hit("schema:exotic:" + ex)
		switch ex {
		case "anyOf", "oneOf":
			var mem []any
			for i, k := 0, 1+g.n(2); i < k; i++ {
				mem = append(mem, g.Schema(depth-1))
			}
			s[ex] = mem
		case "not":
			s["not"] = g.Schema(depth - 1)
		case "patternProperties":
			// several entries: each must be indexed with its own schema
			pp := M{}
			for i, k := 0, 1+g.n(3); i < k; i++ {
				pp[g.pick(patterns)] = g.Schema(depth - 1)
			}
			if g.p(0.4) {
				// two entries that hold complex inline schemas of different shapes
				pp["^o1"] = M{"type": "object", "properties": M{"first": M{"type": "string"}}}
				pp["^o2"] = M{"type": "object", "properties": M{"second": M{"type": "integer"}}}
			}
			s["patternProperties"] = pp
		case "dependencies":
			// both forms of the keyword: a list of property names, a schema (the analyzer looks at neither)
			s["dependencies"] = M{"a": []any{"b", "c"}, "d": M{"type": "object", "required": []any{"e"}}}
		case "definitions":
			nd := M{}
			for _, nm := range g.distinctNames(1 + g.n(3)) {
				nd[nm] = g.Schema(depth - 1)
			}
			s["definitions"] = nd
		case "additionalItems":
			if _, has := s["additionalItems"]; !has {
				s["additionalItems"] = g.Schema(depth - 1)
			}
		}
	}
	return s
}

// Items generates a simple-schema items object (parameters, headers), nested up to depth.
func (g *Gen) Items(depth int) M {
	it := M{"type": g.pick([]string{"string", "integer", "number", "boolean"})}
	if g.SimpleRefs && g.p(0.15) {
		if ref, ok := g.defRef(); ok {
			it["$ref"] = ref
			g.hit("items:ref")
		}
	}
	if g.p(0.3) {
		it["pattern"] = g.pick(patterns)
		g.hit("items:pattern")
	}
	if g.p(0.3) {
		it["enum"] = g.enumVals()
		g.hit("items:enum")
	}
	if depth > 0 && g.p(0.4) {
		it["type"] = "array"
		it["items"] = g.Items(depth - 1)
	}
	return it
}

var paramIns = []string{"query", "path", "header", "formData"}
var paramNamePool = []string{"id", "limit", "X-Rate", "tags", "q", "user id", "user_id", "userId", "body", "a/b"}

// Param generates an inline parameter.
func (g *Gen) Param() M {
	p := M{"name": g.pick(paramNamePool)}
	if g.p(0.3) {
		p["in"] = "body"
		g.hit("param:body")
		if g.p(0.9) {
			p["schema"] = g.Schema(g.MaxDepth - 1)
		}
		return p
	}
	p["in"] = g.pick(paramIns)
	p["type"] = g.pick([]string{"string", "integer", "array"})
	if p["type"] == "array" || g.p(0.2) {
		p["type"] = "array"
		p["items"] = g.Items(2)
	}
	if g.p(0.3) {
		p["pattern"] = g.pick(patterns)
		g.hit("param:pattern")
	}
	if g.p(0.3) {
		p["enum"] = g.enumVals()
		g.hit("param:enum")
	}
	if g.nonBodySchema && g.p(0.05) {
		// non-body parameter carrying a schema: loadable, only analysed at path level
		p["schema"] = g.Schema(1)
		g.hit("param:nonbody-schema")
	}
	if g.p(0.1) {
		p["x-go-name"] = "Custom" + fmt.Sprint(g.n(3))
	}
	return p
}

// ParamOrRef: inline, or $ref to a shared parameter (valid / dangling / pointing to a non-parameter).
func (g *Gen) ParamOrRef() M {
	if g.p(0.3) {
		switch {
		case len(g.paramNames) > 0 && (g.RefValidOnly || g.p(0.7)):
			g.hit("paramref:valid")
			return M{"$ref": "#/parameters/" + jsonPtrEscape(g.pick(g.paramNames))}
		case g.RefValidOnly:
		case g.p(0.5):
			g.hit("paramref:dangling")
			// also: the name of an existing shared parameter spelled without JSON-pointer escaping ("a/b" for the key "a/b":
			// by pointer rules that designates the member "b" of a parameter "a", which does not exist)
			for _, n := range g.paramNames {
				if strings.ContainsAny(n, "/~") && g.p(0.5) {
					g.hit("paramref:dangling-unescaped-name")
					return M{"$ref": "#/parameters/" + n}
				}
			}
			return M{"$ref": "#/parameters/nope"}
		default:
			g.hit("paramref:nonparam")
			if g.p(0.3) {
				// a non-parameter that looks like one: an apiKey security scheme carries "name" and "in"
				g.hit("paramref:nonparam-lookalike")
				return M{"$ref": "#/securityDefinitions/apiKey"}
			}
			if g.p(0.25) {
				// an object kept in an untyped part of the document (below a vendor extension): it resolves, to a plain
				// map whose keys read like a parameter's, and it is no parameter
				g.hit("paramref:nonparam-untyped")
				g.wantTemplates = true
				return M{"$ref": "#/x-templates/" + g.pick([]string{"paging", "nested/x-inner"})}
			}
			if len(g.defNames) > 0 {
				return M{"$ref": "#/definitions/" + jsonPtrEscape(g.pick(g.defNames))}
			}
			return M{"$ref": "#/info"}
		}
	}
	return g.Param()
}

var headerNames = []string{"X-Rate-Limit", "X-Request-Id", "Via", "ETag", "X h"}

func (g *Gen) Header() M {
	h := M{"type": g.pick([]string{"string", "integer"})}
	if g.p(0.4) {
		h["pattern"] = g.pick(patterns)
		g.hit("header:pattern")
	}
	if g.p(0.4) {
		h["enum"] = g.enumVals()
		g.hit("header:enum")
	}
	if g.p(0.4) {
		h["type"] = "array"
		h["items"] = g.Items(2)
	}
	return h
}

// Response generates an inline response: description present / empty / absent, headers, schema.
func (g *Gen) Response() M {
	r := M{}
	switch g.n(4) {
	case 0:
		g.hit("resp:nodesc")
	case 1:
		r["description"] = ""
		g.hit("resp:emptydesc")
	default:
		// blank (white space only) descriptions are descriptions
		r["description"] = g.pick([]string{"ok", "not found", "a response", "ok", " ", "\n", "\t "})
	}
	if g.p(0.5) {
		hs := M{}
		for i, k := 0, 1+g.n(2); i < k; i++ {
			hs[g.pick(headerNames)] = g.Header()
		}
		r["headers"] = hs
	}
	if g.p(0.5) {
		r["schema"] = g.Schema(g.MaxDepth - 1)
	}
	return r
}

func (g *Gen) ResponseOrRef() M {
	if g.p(0.25) {
		switch {
		case len(g.respNames) > 0 && (g.RefValidOnly || g.p(0.8)):
			g.hit("respref:valid")
			return M{"$ref": "#/responses/" + jsonPtrEscape(g.pick(g.respNames))}
		case g.RefValidOnly:
		case g.p(0.2):
			// a reference to the document root: a $ref all the same (its URL is non-nil although it prints as "")
			g.hit("respref:root")
			return M{"$ref": "#"}
		default:
			g.hit("respref:dangling")
			return M{"$ref": "#/responses/nope"}
		}
	}
	return g.Response()
}

var mediaTypes = []string{"application/json", "application/xml", "text/plain", "application/x-yaml"}
var secNames = []string{"basic", "apiKey", "oauth", "undefinedScheme"}

func (g *Gen) strSubset(pool []string, maxN int, dup bool) []any {
	k := g.n(maxN + 1)
	out := []any{}
	for i := 0; i < k; i++ {
		out = append(out, g.pick(pool))
	}
	if !dup {
		seen := map[any]bool{}
		var o2 []any
		for _, x := range out {
			if !seen[x] {
				seen[x] = true
				o2 = append(o2, x)
			}
		}
		out = o2
		if out == nil {
			out = []any{}
		}
	}
	return out
}

func (g *Gen) security() []any {
	k := g.n(3)
	out := []any{}
	for i := 0; i < k; i++ {
		req := M{}
		for j, kk := 0, g.n(3); j < kk; j++ {
			var scopes any
			if g.p(0.15) {
				scopes = nil // `"name": null`: loads as a nil scope list
				g.hit("security:null-scopes")
			} else {
				sc := []any{}
				for s, ks := 0, g.n(3); s < ks; s++ {
					sc = append(sc, g.pick([]string{"read", "write", "admin"}))
				}
				scopes = sc
			}
			req[g.pick(secNames)] = scopes
		}
		out = append(out, req)
	}
	return out
}

type idPool struct {
	used map[string]bool
	n    int
}

// Operation: id absent / unique; consumes/produces/security optional incl. explicitly empty; responses maybe absent.
func (g *Gen) Operation(ids *idPool, dupIDs bool) M {
	op := M{}
	switch {
	case g.p(0.25):
		g.hit("op:noid")
	case dupIDs && len(ids.used) > 0 && g.p(0.2):
		for k := range ids.used {
			op["operationId"] = k
			break
		}
		g.hit("op:dupid")
	case g.p(0.08):
		// an id that reads like the "METHOD path" designation of an operation (possibly another one)
		id := strings.ToUpper(g.pick(allMethods)) + " " + g.pick(pathPool)
		if g.p(0.3) {
			id = strings.ToLower(id)
		}
		if !ids.used[id] {
			ids.used[id] = true
			op["operationId"] = id
			g.hit("op:id-like-method-path")
		}
	default:
		for {
			id := fmt.Sprintf("%s%s", g.pick([]string{"get", "list", "create", "del", "x"}), g.pick(simpleNames))
			if ids.n > 6 {
				id = fmt.Sprintf("%s%d", id, ids.n)
			}
			ids.n++
			if !ids.used[id] {
				ids.used[id] = true
				op["operationId"] = id
				break
			}
		}
	}
	if g.p(0.4) {
		op["consumes"] = g.strSubset(mediaTypes, 2, true)
		g.hit("op:consumes")
	}
	if g.p(0.4) {
		op["produces"] = g.strSubset(mediaTypes, 2, true)
		g.hit("op:produces")
	}
	if g.p(0.4) {
		sec := g.security()
		op["security"] = sec
		if len(sec) == 0 {
			g.hit("op:security-empty")
		} else {
			g.hit("op:security")
		}
	}
	if g.p(0.7) {
		var ps []any
		for i, k := 0, g.n(4); i < k; i++ {
			ps = append(ps, g.ParamOrRef())
		}
		if ps != nil {
			op["parameters"] = ps
		}
	}
	if g.p(0.85) {
		rs := M{}
		if g.p(0.5) {
			rs["default"] = g.ResponseOrRef()
			g.hit("resp:default")
		}
		for i, k := 0, g.n(3); i < k; i++ {
			rs[g.pick([]string{"200", "201", "204", "400", "404", "500"})] = g.ResponseOrRef()
			g.hit("resp:code")
		}
		if g.p(0.06) {
			rs["0"] = g.ResponseOrRef()
			g.hit("resp:code-zero")
		}
		op["responses"] = rs
	} else {
		g.hit("op:noresponses")
	}
	return op
}

var pathPool = []string{"/pets", "/pets/{id}", "/a", "/a-b", "/a_b", "/users/{user id}/tags", "/x~y", "/", "/q?x", "/日本", "/pets/", "/a//b", "/a/", "/pets/./{id}"}
var allMethods = []string{"get", "put", "post", "delete", "options", "head", "patch"}

type DocOpts struct {
	NonBodySchema bool // non-body parameters may carry a schema (loadable, invalid swagger; outside the domain of C11-C13)
	NoPathsProb   float64
	DupIDs        bool
	MinimalTop    bool // no info etc (not needed for analysis)
}

// Doc generates a whole document.
func (g *Gen) Doc(o DocOpts) M {
	d := M{"swagger": "2.0", "info": M{"title": "t", "version": "1"}}
	g.nonBodySchema = o.NonBodySchema
	g.defNames = g.distinctNames(g.n(6))
	g.paramNames = nil
	g.respNames = nil
	g.wantTemplates = false
	for i, k := 0, g.n(4); i < k; i++ {
		g.paramNames = append(g.paramNames, fmt.Sprintf("%s%d", g.pick([]string{"idParam", "lim it", "p/q", "body~P"}), i))
	}
	for i, k := 0, g.n(3); i < k; i++ {
		g.respNames = append(g.respNames, fmt.Sprintf("%s%d", g.pick([]string{"notFound", "err or", "r/s"}), i))
	}
	if len(g.defNames) > 0 {
		defs := M{}
		for _, nm := range g.defNames {
			defs[nm] = g.Schema(g.MaxDepth)
		}
		d["definitions"] = defs
		if g.PointerLikeNames && g.p(0.12) {
			// a definition whose name reads like the pointer to a sub-schema of another definition: "a" with a property "b"
			// next to a definition named "a/properties/b" (two different places: #/definitions/a/properties/b and
			// #/definitions/a~1properties~1b)
		planted:
			for _, nm := range g.defNames {
				sch, _ := defs[nm].(M)
				for _, kw := range []string{"properties", "patternProperties", "definitions"} {
					props, _ := sch[kw].(M)
					for _, pk := range sortedKeysM(props) {
						defs[nm+"/"+kw+"/"+pk] = M{"type": "string", "pattern": "^twin$", "enum": []any{"twin"}}
						g.hit("defname:pointer-like-twin")
						break planted
					}
				}
				if _, has := sch["items"].(M); has {
					defs[nm+"/items"] = M{"allOf": []any{M{"type": "object"}}}
					g.hit("defname:pointer-like-twin")
					break planted
				}
			}
		}
	}
	if g.DeepChains && g.p(0.04) {
		// a schema nested far deeper than any fixture (70 hops), with a pattern, an enum and a $ref at the bottom
		leaf := M{"type": "string", "pattern": g.pick(patterns), "enum": g.enumVals()}
		var cur M = M{"type": "object", "properties": M{"leaf": leaf, "r": M{"$ref": "#/definitions/deepChain"}}}
		for i := 0; i < 70; i++ {
			switch i % 3 {
			case 0:
				cur = M{"type": "array", "items": cur}
			case 1:
				cur = M{"type": "object", "properties": M{"n": cur}}
			default:
				cur = M{"type": "object", "additionalProperties": cur}
			}
		}
		defs, _ := d["definitions"].(M)
		if defs == nil {
			defs = M{}
			d["definitions"] = defs
		}
		defs["deepChain"] = cur
		g.hit("schema:deep-chain-70")
	}
	if len(g.paramNames) > 0 {
		ps := M{}
		for _, nm := range g.paramNames {
			ps[nm] = g.Param()
		}
		d["parameters"] = ps
	}
	if len(g.respNames) > 0 {
		rs := M{}
		for _, nm := range g.respNames {
			rs[nm] = g.Response()
		}
		d["responses"] = rs
	}
	if g.p(0.5) {
		d["consumes"] = g.strSubset(mediaTypes, 3, true)
	}
	if g.p(0.5) {
		d["produces"] = g.strSubset(mediaTypes, 3, true)
	}
	if g.p(0.5) {
		d["security"] = g.security()
	}
	if g.p(0.6) {
		sd := M{}
		for _, nm := range []string{"basic", "apiKey", "oauth"} {
			if g.p(0.7) {
				switch nm {
				case "basic":
					sd[nm] = M{"type": "basic"}
				case "apiKey":
					sd[nm] = M{"type": "apiKey", "in": "header", "name": "X-Key"}
				default:
					sd[nm] = M{"type": "oauth2", "flow": "implicit", "authorizationUrl": "http://x/auth", "scopes": M{"read": "r", "write": "w"}}
				}
			}
		}
		d["securityDefinitions"] = sd
	}
	if g.p(o.NoPathsProb) {
		g.hit("doc:nopaths")
		return d
	}
	paths := M{}
	ids := &idPool{used: map[string]bool{}}
	np := g.n(5)
	for i := 0; i < np; i++ {
		pth := g.pick(pathPool)
		if _, dup := paths[pth]; dup {
			continue
		}
		pi := M{}
		if g.PathItemRefs && g.p(0.1) {
			pi["$ref"] = "#/x-shared/pathItem" + fmt.Sprint(g.n(2))
			g.hit("pathitem:ref")
			if g.p(0.5) {
				// the target exists and holds $refs of its own: they are not places of the paths section (the analyzer
				// does not follow a path item's $ref), so none of them may be reported
				xs, _ := d["x-shared"].(M)
				if xs == nil {
					xs = M{}
					d["x-shared"] = xs
				}
				for _, k := range []string{"pathItem0", "pathItem1"} {
					xs[k] = M{"get": M{"parameters": []any{g.ParamOrRef()}, "responses": M{"200": g.ResponseOrRef()}}}
				}
				g.hit("pathitem:ref-resolvable-extension")
			} else if len(paths) > 0 && g.p(0.5) {
				others := make([]string, 0, len(paths))
				for other := range paths {
					others = append(others, other)
				}
				sort.Strings(others)
				pi["$ref"] = "#/paths/" + jsonPtrEscape(others[g.n(len(others))])
				g.hit("pathitem:ref-to-other-path")
			}
		}
		for _, m := range allMethods {
			if g.p(0.3) {
				pi[m] = g.Operation(ids, o.DupIDs)
				g.hit("method:" + m)
			}
		}
		if g.p(0.4) {
			var ps []any
			for j, k := 0, 1+g.n(3); j < k; j++ {
				ps = append(ps, g.ParamOrRef())
			}
			pi["parameters"] = ps
			g.hit("pathitem:params")
		}
		paths[pth] = pi
	}
	d["paths"] = paths
	if g.wantTemplates {
		d["x-templates"] = M{
			"paging": M{"type": "integer", "description": "a page number", "name": "page", "in": "query"},
			"nested": M{"x-inner": M{"type": "string", "format": "date"}},
		}
	}
	return d
}

func sortedKeys(m map[string]int) []string {
	ks := make([]string, 0, len(m))
	for k := range m {
		ks = append(ks, k)
	}
	sort.Strings(ks)
	return ks
}
