package main

// Generator of well-formed bundles W (and the wider class W+) for the Flatten properties C01–C10.

import (
	"fmt"
	"github.com/go-openapi/swag"
	"path"
	"sort"
	"strings"
)

// Bundle is a root document plus auxiliary JSON documents at relative paths.
type Bundle struct {
	Root     M            `json:"root"`
	Aux      map[string]M `json:"aux"` // relative path (from the root's directory) -> document
	Feat     map[string]int
	MustFail bool // W+: some planted $ref cannot be resolved
	Plus     []string
}

type bgen struct {
	*Gen
	plus        bool // W+: constructs outside W
	auxPaths    []string
	auxDefs     map[string][]string // aux path -> definition names
	rootDefs    []string
	anonOK      bool                // anonymous pointers allowed (Minimal / full only)
	sharedOK    bool                // anonymous pointers into shared parameters/responses (without RemoveUnused only)
	rootProps   map[string][]string // root definition -> its direct property names (targets of anonymous pointers)
	bodyParams  []string            // shared body parameters
	schemaResps []string            // shared responses with a schema
	scnOps      int
	auxShared   []string // auxiliary documents that carry shared responses / parameters
}

var auxPathPool = []string{"aux/a.json", "aux/deep/b.json", "other/c.json"}

// names for auxiliary definitions: disjoint (also case-insensitively and after name mangling) from the root pool
var auxNamePool = []string{"user", "Order Line", "geo/point", "t~ag", "日本語", "x?y", "h#v", "arr[]", "cu{r}ly", "Money", "line item", "ns.item"}
var rootNamePool = []string{"pet", "owner", "my def", "a/b", "t~x", "q?x", "br[0]", "cu{id}", "שלום", "x y z", "tagValue", "n-1", "Record"}

func relRef(fromDoc, toDoc string) string {
	// relative file reference from the directory of fromDoc ("" = root) to toDoc
	fromDir := path.Dir(fromDoc)
	if fromDoc == "" {
		fromDir = "."
	}
	if fromDoc == toDoc {
		return ""
	}
	// compute a relative path
	f := strings.Split(path.Clean(fromDir), "/")
	if len(f) == 1 && f[0] == "." {
		f = nil
	}
	t := strings.Split(toDoc, "/")
	i := 0
	for i < len(f) && i < len(t)-1 && f[i] == t[i] {
		i++
	}
	var parts []string
	for j := i; j < len(f); j++ {
		parts = append(parts, "..")
	}
	parts = append(parts, t[i:]...)
	return strings.Join(parts, "/")
}

// schemaRefFrom picks a $ref valid from document `from` ("" = root): local definition, cross-file definition, or
// (root only, when allowed) an anonymous pointer.
func (b *bgen) schemaRefFrom(from string) (string, bool) {
	type cand struct{ ref, feat string }
	var cs []cand
	local := b.rootDefs
	if from != "" {
		local = b.auxDefs[from]
	}
	for _, n := range local {
		cs = append(cs, cand{"#/definitions/" + jsonPtrEscape(n), "ref:local"})
	}
	for _, ap := range b.auxPaths {
		if ap == from {
			continue
		}
		for _, n := range b.auxDefs[ap] {
			cs = append(cs, cand{relRef(from, ap) + "#/definitions/" + urlFragEscape(jsonPtrEscape(n)), "ref:cross-file"})
			if from != "" {
				b.hit("ref:aux-to-aux")
			}
		}
	}
	if from == "" && b.anonOK && b.p(0.25) {
		var as []cand
		for d, ps := range b.rootProps {
			for _, p := range ps {
				as = append(as, cand{"#/definitions/" + jsonPtrEscape(d) + "/properties/" + jsonPtrEscape(p), "ref:anon-subschema"})
			}
		}
		if b.sharedOK {
			for _, p := range b.bodyParams {
				as = append(as, cand{"#/parameters/" + jsonPtrEscape(p) + "/schema", "ref:anon-shared-param"})
			}
			for _, r := range b.schemaResps {
				as = append(as, cand{"#/responses/" + jsonPtrEscape(r) + "/schema", "ref:anon-shared-response"})
			}
		}
		sort.Slice(as, func(i, j int) bool { return as[i].ref < as[j].ref })
		if len(as) > 0 {
			c := as[b.n(len(as))]
			b.hit(c.feat)
			return c.ref, true
		}
	}
	if len(cs) == 0 {
		return "", false
	}
	// favour cross-file refs a little
	c := cs[b.n(len(cs))]
	b.hit(c.feat)
	return c.ref, true
}

// bschema generates a schema inside document `from`.
func (b *bgen) bschema(from string, depth int, refP float64) M {
	if b.p(refP) {
		if r, ok := b.schemaRefFrom(from); ok {
			return M{"$ref": r}
		}
	}
	kinds := []string{"prim", "prim", "object", "object", "map", "array", "allOf", "tuple", "emptyobj"}
	if depth <= 0 {
		kinds = []string{"prim", "emptyobj"}
	}
	k := b.pick(kinds)
	b.hit("schema:" + k)
	s := M{}
	switch k {
	case "prim":
		s["type"] = b.pick([]string{"string", "integer", "number", "boolean"})
		if b.p(0.2) {
			s["format"] = b.pick([]string{"date", "int64", "uuid"})
		}
		if b.p(0.15) {
			s["enum"] = []any{"a", "b"}
		}
		if s["type"] == "string" && b.p(0.2) {
			s["pattern"] = b.pick([]string{"^[a-z]+$", "x/y"})
			b.hit("schema:pattern")
		}
	case "emptyobj":
		s["type"] = "object"
	case "object":
		s["type"] = "object"
		props := M{}
		for _, nm := range b.distinctNames(1 + b.n(3)) {
			props[nm] = b.bschema(from, depth-1, refP)
		}
		s["properties"] = props
		if b.p(0.2) {
			s["additionalProperties"] = b.bschema(from, depth-1, refP)
		}
		// rarely used holders of a schema: only a $ref or a primitive below them
		switch b.n(14) {
		case 0:
			s["patternProperties"] = M{"^x-": b.leafOrRef(from, refP)}
			b.hit("holder:patternProperties")
		case 1:
			s[b.pick([]string{"anyOf", "oneOf"})] = []any{b.leafOrRef(from, refP), b.leafOrRef(from, refP)}
			b.hit("holder:anyOf-oneOf")
		case 2:
			// `not` is a holder only in W+: when a complex schema ends up under it (Expand) and has to be named, Flatten
			// fails with "unhandled parent schema rewrite" (rewriteParentRef has no case for a schema holder; pinned by
			// C04.rewriteSchemaToRef_under_not) — an out-of-domain observation, the holders W enumerates do not include it
			if b.plus {
				s["not"] = b.leafOrRef(from, refP)
				b.hit("holder:not")
			}
		case 3:
			// `dependencies`, in both forms (a list of property names, a $ref-free schema): no schema position of W, the
			// analyzer does not look below it
			s["dependencies"] = M{"a": []any{"b", "c"}, "d": M{"type": "object", "required": []any{"e"}}}
			b.hit("keyword:dependencies")
		}
	case "map":
		s["type"] = "object"
		s["additionalProperties"] = b.bschema(from, depth-1, refP)
	case "array":
		s["type"] = "array"
		s["items"] = b.bschema(from, depth-1, refP)
		if b.p(0.12) {
			delete(s, "type") // an array written without its type: `items` is still a schema position
			b.hit("schema:untyped-array")
		}
		if b.p(0.15) {
			// additionalItems beside a single items schema (no tuple): still a schema position
			s["additionalItems"] = b.leafOrRef(from, refP)
			b.hit("holder:additionalItems-no-tuple")
		}
	case "tuple":
		s["type"] = "array"
		var its []any
		for i, n := 0, 1+b.n(2); i < n; i++ {
			its = append(its, b.bschema(from, depth-1, refP))
		}
		s["items"] = its
		if b.p(0.3) {
			s["additionalItems"] = b.bschema(from, depth-1, refP)
		}
	case "allOf":
		var mem []any
		for i, n := 0, 1+b.n(2); i < n; i++ {
			mem = append(mem, b.bschema(from, depth-1, refP))
		}
		s["allOf"] = mem
		if b.p(0.25) {
			// a composition that also allows additional properties, without properties of its own
			s["additionalProperties"] = b.leafOrRef(from, refP)
			b.hit("schema:allOf-with-additionalProperties")
		}
	}
	return s
}

// leafOrRef: a $ref to a definition reachable from `from`, or a primitive.
func (b *bgen) leafOrRef(from string, refP float64) M {
	if refP > 0 && b.p(0.7) {
		if r, ok := b.schemaRefFrom(from); ok {
			return M{"$ref": r}
		}
	}
	return M{"type": b.pick([]string{"string", "integer"})}
}

// refFreeSchema: an imported definition that may collide by name must itself be $ref-free.
func (b *bgen) refFreeSchema(depth int) M { return b.bschema("", depth, 0) }

type BundleOpts struct {
	Scenario string // "" or a named interplay shape injected into the bundle (see injectScenario)
	Plain    bool   // only names that need neither JSON-pointer nor URL escaping
	Plus     bool
	AnonOK   bool
	SharedOK bool
	MaxAux   int
}

func genBundle(g *Gen, o BundleOpts) *Bundle {
	b := &bgen{Gen: g, plus: o.Plus, anonOK: o.AnonOK, sharedOK: o.SharedOK, auxDefs: map[string][]string{}, rootProps: map[string][]string{}}
	g.Names = []string{"name", "id", "owner", "a b", "x/y", "t~x", "q?x", "items", "properties", "日本", "tag", "value", "n_1", "Kind"}
	rootPool := rootNamePool
	if o.Plain {
		g.Names = []string{"name", "id", "owner", "items", "properties", "tag", "value", "n_1", "Kind", "petOwner"}
		rootPool = []string{"pet", "owner", "Record", "tagValue", "n-1", "PetOwner", "thing", "order"}
		g.hit("names:plain")
	}
	// layout
	nAux := g.n(o.MaxAux + 1)
	if nAux == 0 && o.MaxAux > 0 && strings.HasPrefix(o.Scenario, "collide-") && o.Scenario != "collide-nested" {
		nAux = 1 // these shapes need an auxiliary document to import from
	}
	if o.Scenario == "relative-path-two-bases" || o.Scenario == "root-named-aux" || o.Scenario == "two-spellings" {
		nAux = 0 // the scenario brings its own auxiliary documents
	}
	if nAux == 0 && o.MaxAux > 0 && (o.Scenario == "empty-mangled-names" || o.Scenario == "generated-name-equals-imported" || o.Scenario == "collide-sibling-refs" || o.Scenario == "alias-named-like-generated") {
		nAux = 1
	}
	perm := g.r.Perm(len(auxPathPool))
	for i := 0; i < nAux; i++ {
		b.auxPaths = append(b.auxPaths, auxPathPool[perm[i]])
	}
	sort.Strings(b.auxPaths)
	pickNames := func(pool []string, k int) []string {
		p := g.r.Perm(len(pool))
		var out []string
		for i := 0; i < k && i < len(pool); i++ {
			out = append(out, pool[p[i]])
		}
		sort.Strings(out)
		return out
	}
	b.rootDefs = pickNames(rootPool, 1+g.n(5))
	used := map[string]bool{}
	for _, ap := range b.auxPaths {
		var names []string
		for _, n := range pickNames(auxNamePool, 1+g.n(3)) {
			if !used[n] {
				used[n] = true
				names = append(names, n)
			}
		}
		b.auxDefs[ap] = names
	}
	// name collisions of imported, $ref-free definitions with root definitions (exact / case-insensitive): decided before
	// anything is generated, so that the colliding definition can be referenced from everywhere (also from a direct
	// sub-schema of a root definition that is itself the target of an anonymous pointer)
	collider := ""
	colliderDoc := ""
	if nAux > 0 && g.p(0.45) {
		colliderDoc = b.auxPaths[0]
		rn := b.rootDefs[g.n(len(b.rootDefs))]
		collider = rn
		if g.p(0.5) && rn[0] >= 'a' && rn[0] <= 'z' {
			collider = strings.ToUpper(rn[:1]) + rn[1:]
			g.hit("collide:case")
		} else {
			g.hit("collide:exact")
		}
		dup := false
		for _, n := range b.auxDefs[colliderDoc] {
			if n == collider {
				dup = true
			}
		}
		if !dup {
			b.auxDefs[colliderDoc] = append(b.auxDefs[colliderDoc], collider)
		}
	}
	g.hit(fmt.Sprintf("aux:%d", nAux))
	// root definitions (placeholders first so that refs can target any of them, including themselves: recursion)
	rootDefs := M{}
	for _, n := range b.rootDefs {
		rootDefs[n] = M{}
	}
	for _, n := range b.rootDefs {
		s := b.bschema("", 3, 0.25)
		rootDefs[n] = s
	}
	// direct properties of root definitions: targets of anonymous pointers
	for _, n := range b.rootDefs {
		if props, ok := rootDefs[n].(M)["properties"].(M); ok {
			for p := range props {
				// the sub-schema may itself be a $ref (to a local or an imported definition)
				b.rootProps[n] = append(b.rootProps[n], p)
			}
			sort.Strings(b.rootProps[n])
		}
	}
	// recursion patterns inside W
	if g.p(0.3) {
		n := b.rootDefs[0]
		rootDefs[n] = M{"type": "object", "properties": M{"self": M{"$ref": "#/definitions/" + jsonPtrEscape(n)}, "v": M{"type": "string"}}}
		delete(b.rootProps, n)
		g.hit("rec:self-property")
	}
	if g.p(0.2) && len(b.rootDefs) > 1 {
		n := b.rootDefs[1]
		rootDefs[n] = M{"type": "array", "items": M{"$ref": "#/definitions/" + jsonPtrEscape(n)}}
		delete(b.rootProps, n)
		g.hit("rec:array-of-itself")
	}
	if g.p(0.2) && len(b.rootDefs) > 2 {
		n := b.rootDefs[2]
		rootDefs[n] = M{"type": "object", "additionalProperties": M{"$ref": "#/definitions/" + jsonPtrEscape(n)}}
		delete(b.rootProps, n)
		g.hit("rec:map-of-itself")
	}
	// auxiliary documents
	aux := map[string]M{}
	for _, ap := range b.auxPaths {
		defs := M{}
		for _, n := range b.auxDefs[ap] {
			if ap == colliderDoc && n == collider {
				defs[n] = b.refFreeSchema(2)
			} else {
				defs[n] = b.bschema(ap, 2, 0.3)
			}
		}
		if g.p(0.3) && len(b.auxDefs[ap]) > 0 {
			// recursion inside an auxiliary document
			n := b.auxDefs[ap][0]
			if ap == colliderDoc && n == collider {
				continue
			}
			defs[n] = M{"type": "object", "properties": M{"next": M{"$ref": "#/definitions/" + jsonPtrEscape(n)}, "v": M{"type": "integer"}}}
			g.hit("rec:aux-self")
		}
		aux[ap] = M{"definitions": defs}
		if b.plus && g.p(0.35) {
			// shared objects living in an auxiliary document (W+ only: W's parameter / response $refs target shared objects
			// of the root; cross-file ones make Flatten fail or leave non-canonical $refs on the unchanged tree for some
			// shapes, which are recorded as observations outside W)
			aux[ap]["responses"] = M{"auxResp": M{"description": "from aux", "schema": b.bschema(ap, 2, 0.5)}}
			aux[ap]["parameters"] = M{"auxParam": M{"name": "body", "in": "body", "schema": b.bschema(ap, 2, 0.5)}}
			b.auxShared = append(b.auxShared, ap)
			g.hit("aux:shared-objects")
		}
	}
	// shared parameters / responses
	params := M{}
	resps := M{}
	for i, n := 0, g.n(3); i < n; i++ {
		nm := fmt.Sprintf("%s%d", g.pick([]string{"bodyP", "lim it", "p/q"}), i)
		if g.p(0.6) {
			params[nm] = M{"name": "body", "in": "body", "schema": b.bschema("", 2, 0.3)}
			if _, isRef := params[nm].(M)["schema"].(M)["$ref"]; !isRef {
				b.bodyParams = append(b.bodyParams, nm)
			}
		} else {
			params[nm] = b.simpleParam("limit")
		}
	}
	for i, n := 0, g.n(3); i < n; i++ {
		nm := fmt.Sprintf("%s%d", g.pick([]string{"okR", "err or", "r/s"}), i)
		r := M{"description": "shared"}
		if g.p(0.7) {
			r["schema"] = b.bschema("", 2, 0.3)
			if _, isRef := r["schema"].(M)["$ref"]; !isRef {
				b.schemaResps = append(b.schemaResps, nm)
			}
		}
		if g.p(0.4) {
			r["headers"] = b.simpleHeaders()
		}
		resps[nm] = r
	}
	sort.Strings(b.bodyParams)
	sort.Strings(b.schemaResps)
	// paths
	paths := M{}
	ids := &idPool{used: map[string]bool{}}
	pathPoolW := []string{"/pets", "/pets/{id}", "/a", "/users/{user id}/tags", "/x~y", "/q", "/a-b", "/a_b"}
	for i, n := 0, 1+g.n(3); i < n; i++ {
		pth := pathPoolW[g.n(len(pathPoolW))]
		if _, dup := paths[pth]; dup {
			continue
		}
		pi := M{}
		for _, m := range allMethods {
			if !g.p(0.3) {
				continue
			}
			op := M{}
			// ids: unique; id-less operations only on distinct derived keys (see D10)
			id := fmt.Sprintf("%s%s%d", g.pick([]string{"get", "list", "create"}), g.pick([]string{"Pet", "User", "Thing"}), ids.n)
			ids.n++
			if g.p(0.85) {
				op["operationId"] = id
			} else {
				g.hit("op:noid")
			}
			var ps []any
			if g.p(0.5) {
				if len(b.auxShared) > 0 && b.anonOK && g.p(0.2) { // (not under Expand: spec.ExpandSpec mis-rebases such a parameter, see DESIGN.md)
					ps = append(ps, M{"$ref": b.auxShared[g.n(len(b.auxShared))] + "#/parameters/auxParam"})
					g.hit("op:paramref-cross-file")
				} else if len(params) > 0 && g.p(0.4) {
					ps = append(ps, M{"$ref": "#/parameters/" + jsonPtrEscape(sortedMapKeys(params)[g.n(len(params))])})
					g.hit("op:paramref")
				} else {
					ps = append(ps, M{"name": "body", "in": "body", "schema": b.bschema("", 2, 0.35)})
				}
			}
			if g.p(0.3) {
				ps = append(ps, b.simpleParam("q"))
			}
			if ps != nil {
				op["parameters"] = ps
			}
			rs := M{}
			for _, code := range []string{"200", "404", "default"} {
				if !g.p(0.45) {
					continue
				}
				if len(b.auxShared) > 0 && g.p(0.2) {
					rs[code] = M{"$ref": b.auxShared[g.n(len(b.auxShared))] + "#/responses/auxResp"}
					g.hit("op:respref-cross-file")
				} else if len(resps) > 0 && g.p(0.3) {
					rs[code] = M{"$ref": "#/responses/" + jsonPtrEscape(sortedMapKeys(resps)[g.n(len(resps))])}
					g.hit("op:respref")
				} else {
					r := M{"description": "r"}
					if g.p(0.75) {
						r["schema"] = b.bschema("", 2, 0.35)
					}
					if g.p(0.2) {
						r["headers"] = b.simpleHeaders()
					}
					rs[code] = r
				}
			}
			if len(rs) == 0 {
				rs["200"] = M{"description": "ok"}
			}
			op["responses"] = rs
			pi[m] = op
			g.hit("method:" + m)
		}
		if g.p(0.3) {
			pi["parameters"] = []any{M{"name": "body", "in": "body", "schema": b.bschema("", 2, 0.3)}}
			g.hit("pathitem:params")
		}
		paths[pth] = pi
	}
	// path items given by $ref (W: path-item $refs target shared objects; Swagger 2.0 has no section for them, an
	// extension of the root is used)
	sharedPI := M{}
	if g.p(0.25) {
		op := M{"operationId": fmt.Sprintf("sharedItemOp%d", ids.n), "responses": M{"200": M{"description": "via path item", "schema": b.bschema("", 2, 0.35)}}}
		ids.n++
		sharedPI["pi0"] = M{g.pick(allMethods): op}
		paths["/via/item"] = M{"$ref": "#/x-path-items/pi0"}
		g.hit("pathitem:ref")
	}
	b.injectScenario(o.Scenario, rootDefs, paths, aux, params, resps)
	var mustFail bool
	var plusWhat []string
	if o.Plus {
		var what []string
		mustFail, what = b.injectPlus(rootDefs, paths, aux, params, resps)
		for _, w := range what {
			g.hit("plus:" + w)
		}
		plusWhat = what
	}
	root := M{"swagger": "2.0", "info": M{"title": "t", "version": "1"}, "paths": paths, "definitions": rootDefs}
	if g.p(0.5) {
		// document-level media types and security that no operation restates (the analyzer's required unions)
		root["consumes"] = []any{"application/json", "text/x-top"}
		root["produces"] = []any{"application/x-top"}
		root["security"] = []any{M{"topKey": []any{}}}
		root["securityDefinitions"] = M{"topKey": M{"type": "apiKey", "in": "header", "name": "X-Top"}}
		g.hit("root:top-level-defaults")
	}
	if len(params) > 0 {
		root["parameters"] = params
	}
	if len(resps) > 0 {
		root["responses"] = resps
	}
	if len(sharedPI) > 0 && paths["/via/item"] != nil {
		root["x-path-items"] = sharedPI
	}
	if !b.plus {
		// W: every $ref resolves.  A planted scenario may have replaced a root definition that anonymous pointers
		// generated earlier designate: such a pointer is turned into a plain schema.
		if n := sanitizeLocalRefs(root, root); n > 0 {
			g.hit("sanitized:dangling-local-pointer")
		}
	}
	return &Bundle{Root: root, Aux: aux, Feat: g.feat, MustFail: mustFail, Plus: plusWhat}
}

// sanitizeLocalRefs replaces every {"$ref": "#/…"} of node that does not resolve in root by {"type": "string"}.
func sanitizeLocalRefs(root M, node any) int {
	n := 0
	switch v := node.(type) {
	case map[string]any:
		if r, ok := v["$ref"].(string); ok && strings.HasPrefix(r, "#/") {
			if _, ok := ptrResolve(map[string]any(root), ptrTokens(strings.TrimPrefix(r, "#"))); !ok {
				for k := range v {
					delete(v, k)
				}
				v["type"] = "string"
				return 1
			}
		}
		for _, c := range v {
			n += sanitizeLocalRefs(root, c)
		}
	case []any:
		for _, c := range v {
			n += sanitizeLocalRefs(root, c)
		}
	}
	return n
}

// simpleItems: a simple-schema items object (parameters, headers), possibly nested, with patterns and enums so that the
// analyzer's items / parameter / header indexes are populated in Flatten bundles too.
func (b *bgen) simpleItems(depth int) M {
	g := b.Gen
	it := M{"type": "string"}
	if depth > 0 && g.p(0.35) {
		it = M{"type": "array", "items": b.simpleItems(depth - 1)}
		g.hit("simple:nested-items")
		return it
	}
	if g.p(0.6) {
		it["pattern"] = g.pick([]string{"^[a-z]+$", "x/y", "a~b"})
		g.hit("simple:items-pattern")
	}
	if g.p(0.4) {
		it["enum"] = []any{"a", "b"}
		g.hit("simple:items-enum")
	}
	return it
}

// simpleParam: a non-body parameter: a plain one, one with pattern / enum, or an array with (nested) items.
func (b *bgen) simpleParam(name string) M {
	g := b.Gen
	p := M{"name": name, "in": g.pick([]string{"query", "header", "formData"}), "type": "integer"}
	switch g.n(4) {
	case 0:
		p["type"] = "string"
		p["pattern"] = "^[0-9]+$"
		if g.p(0.5) {
			p["enum"] = []any{"1", "2"}
		}
		g.hit("simple:param-pattern")
	case 1:
		p["type"] = "array"
		p["items"] = b.simpleItems(2)
		g.hit("simple:param-items")
	}
	return p
}

// simpleHeaders: response headers with patterns, enums and (nested) items.
func (b *bgen) simpleHeaders() M {
	g := b.Gen
	hs := M{}
	for i, n := 0, 1+g.n(2); i < n; i++ {
		h := M{"type": "string"}
		switch g.n(3) {
		case 0:
			h["pattern"] = "^h+$"
			if g.p(0.5) {
				h["enum"] = []any{"h", "hh"}
			}
		case 1:
			h = M{"type": "array", "items": b.simpleItems(2)}
		}
		hs[g.pick([]string{"X-Rate", "X-Next", "X Odd"})+fmt.Sprint(i)] = h
	}
	g.hit("simple:headers")
	return hs
}

// injectScenario plants an interplay shape that W allows but that independent random choices rarely produce together.
func (b *bgen) injectScenario(name string, rootDefs, paths M, aux map[string]M, params, resps M) {
	g := b.Gen
	resp := func(schema M) M {
		b.scnOps++
		return M{"operationId": fmt.Sprintf("scenarioOp%d", b.scnOps), "responses": M{"200": M{"description": "scenario", "schema": schema}}}
	}
	switch name {
	case "collide-pointer":
		// an imported $ref-free definition collides by name with a root definition; the $ref to it is a direct sub-schema of
		// another root definition; an anonymous pointer designates that very sub-schema
		if len(b.auxPaths) == 0 {
			return
		}
		ap := b.auxPaths[0]
		rn := b.rootDefs[g.n(len(b.rootDefs))]
		cn := rn
		if g.p(0.4) && rn[0] >= 'a' && rn[0] <= 'z' {
			cn = strings.ToUpper(rn[:1]) + rn[1:]
		}
		aux[ap]["definitions"].(M)[cn] = b.refFreeSchema(1)
		holder := "holder" + fmt.Sprint(g.n(3))
		prop := g.pick([]string{"item", "a b", "x/y", "t~x"})
		auxRef := relRef("", ap) + "#/definitions/" + urlFragEscape(jsonPtrEscape(cn))
		rootDefs[holder] = M{"type": "object", "properties": M{prop: M{"$ref": auxRef}, "n": M{"type": "integer"}}}
		if g.p(0.5) {
			// the $ref to the colliding import sits inside an inline sub-schema, which is what the (single) pointer designates
			rootDefs[holder].(M)["properties"].(M)[prop] = M{"type": "object", "properties": M{"t": M{"$ref": auxRef}, "u": M{"type": "string"}}}
			g.hit("scenario:collide-pointer-inline-target")
		}
		if g.p(0.35) {
			// the pointer is held by another root definition (so that it resolves, through the $ref it designates, to a
			// top-level definition), and the import is a simple type with this single referrer
			aux[ap]["definitions"].(M)[cn] = M{"type": "string", "format": "date-time"}
			rootDefs["ptrUser"] = M{"type": "object", "properties": M{"when": M{"$ref": "#/definitions/" + jsonPtrEscape(holder) + "/properties/" + jsonPtrEscape(prop)}}}
			paths["/scn/pointer"] = M{"get": resp(M{"$ref": "#/definitions/ptrUser"}), "put": resp(M{"$ref": "#/definitions/" + jsonPtrEscape(holder)})}
			g.hit("scenario:collide-pointer-from-definition")
		} else {
			paths["/scn/pointer"] = M{"get": resp(M{"$ref": "#/definitions/" + jsonPtrEscape(holder) + "/properties/" + jsonPtrEscape(prop)})}
		}
		if g.p(0.6) {
			paths["/scn/root"] = M{"get": resp(M{"$ref": "#/definitions/" + jsonPtrEscape(rn)})}
		}
		if g.p(0.4) {
			paths["/scn/direct"] = M{"post": resp(M{"type": "array", "items": M{"$ref": auxRef}})}
		}
		g.hit("scenario:collide-pointer")
	case "collide-many":
		// several imported definitions collide with the same root name (exactly and up to case), referenced from several places
		if len(b.auxPaths) == 0 {
			return
		}
		rn := b.rootDefs[g.n(len(b.rootDefs))]
		for i, ap := range b.auxPaths {
			cn := rn
			if i%2 == 1 && rn[0] >= 'a' && rn[0] <= 'z' {
				cn = strings.ToUpper(rn[:1]) + rn[1:]
			}
			aux[ap]["definitions"].(M)[cn] = b.refFreeSchema(1)
			auxRef := relRef("", ap) + "#/definitions/" + urlFragEscape(jsonPtrEscape(cn))
			paths[fmt.Sprintf("/scn/many%d", i)] = M{"get": resp(M{"$ref": auxRef}), "put": resp(M{"type": "object", "properties": M{"v": M{"$ref": auxRef}}})}
		}
		paths["/scn/root"] = M{"get": resp(M{"$ref": "#/definitions/" + jsonPtrEscape(rn)})}
		g.hit("scenario:collide-many")
	case "expand-via-response":
		// the root has no schema $ref of its own: every schema $ref is reached through a response $ref into an auxiliary
		// document (acyclic chain of definitions there)
		for k := range rootDefs {
			delete(rootDefs, k)
		}
		rootDefs["plain"] = M{"type": "string"}
		for _, m := range []M{paths, params, resps} {
			for k := range m {
				delete(m, k)
			}
		}
		for k := range aux {
			delete(aux, k)
		}
		ap := "aux/resp.json"
		aux[ap] = M{
			"responses":   M{"things": M{"description": "things", "schema": M{"type": "array", "items": M{"$ref": "#/definitions/thing"}}}},
			"definitions": M{"thing": M{"type": "object", "properties": M{"tag": M{"$ref": "#/definitions/t~0ag"}}}, "t~ag": M{"type": "string"}},
		}
		paths["/scn/things"] = M{"get": M{"operationId": "scenarioThings", "responses": M{"200": M{"$ref": ap + "#/responses/things"}}}}
		g.hit("scenario:expand-via-response")
	case "collide-nested":
		// three-way name conflict (root, two auxiliary documents) where one imported definition refers to a sibling whose
		// name also conflicts with a root definition
		tn, ln := g.pick([]string{"Tag", "pet", "Thing"}), g.pick([]string{"Label", "owner", "Part"})
		rootDefs[tn] = M{"type": "object", "properties": M{"id": M{"type": "integer"}}}
		rootDefs[ln] = M{"type": "object", "properties": M{"id": M{"type": "integer"}}}
		for _, ap := range []string{"aux/a.json", "other/c.json"} {
			if _, ok := aux[ap]; !ok {
				aux[ap] = M{"definitions": M{}}
			}
		}
		aux["aux/a.json"]["definitions"].(M)[tn] = M{"type": "object", "properties": M{"name": M{"type": "string"}}}
		aux["other/c.json"]["definitions"].(M)[tn] = M{"type": "object", "properties": M{"label": M{"$ref": "#/definitions/" + jsonPtrEscape(ln)}}}
		aux["other/c.json"]["definitions"].(M)[ln] = M{"type": "object", "properties": M{"text": M{"type": "string"}}}
		paths["/scn/a"] = M{"get": resp(M{"$ref": "aux/a.json#/definitions/" + jsonPtrEscape(tn)})}
		paths["/scn/c"] = M{"get": resp(M{"$ref": "other/c.json#/definitions/" + jsonPtrEscape(tn)})}
		if g.p(0.4) {
			// the only referrer of a colliding import with complex inline children is a top-level alias definition
			aux["aux/a.json"]["definitions"].(M)[tn] = M{"type": "object", "properties": M{
				"name":   M{"type": "string"},
				"detail": M{"type": "object", "properties": M{"d": M{"type": "string"}}},
				"pair":   M{"type": "array", "items": []any{M{"type": "string"}, M{"type": "integer"}}}}}
			rootDefs["remoteAlias"] = M{"$ref": "aux/a.json#/definitions/" + jsonPtrEscape(tn)}
			paths["/scn/a"] = M{"get": resp(M{"$ref": "#/definitions/remoteAlias"})}
			g.hit("scenario:collide-nested-alias-referrer")
		}
		g.hit("scenario:collide-nested")
	case "collide-simple-shared":
		// an imported definition that collides by name with a root definition, is simple ($ref-free array / map / enum) and
		// is referred to from several places, the topmost of which is a property nested inside a root definition
		if len(b.auxPaths) == 0 || len(b.rootDefs) == 0 {
			return
		}
		ap := b.auxPaths[0]
		rn := b.rootDefs[g.n(len(b.rootDefs))]
		var simple M
		switch g.n(3) {
		case 0:
			simple = M{"type": "array", "items": M{"type": "string"}}
		case 1:
			simple = M{"type": "object", "additionalProperties": M{"type": "integer"}}
		default:
			simple = M{"type": "string", "enum": []any{"a", "b"}}
		}
		aux[ap]["definitions"].(M)[rn] = simple
		auxRef := relRef("", ap) + "#/definitions/" + urlFragEscape(jsonPtrEscape(rn))
		holder := "holderS" + fmt.Sprint(g.n(3))
		prop := g.pick([]string{"labels", "a b", "x/y"})
		rootDefs[holder] = M{"type": "object", "properties": M{prop: M{"$ref": auxRef}, "n": M{"type": "integer"}}}
		paths["/scn/simple"] = M{"get": resp(M{"$ref": auxRef}), "put": resp(M{"$ref": "#/definitions/" + jsonPtrEscape(holder)})}
		if g.p(0.5) {
			paths["/scn/simple2"] = M{"post": resp(M{"type": "array", "items": M{"$ref": auxRef}})}
		}
		g.hit("scenario:collide-simple-shared")
	case "prefix-names":
		// definition names one of which is a strict prefix of another; the shorter one is referred to only from inside the
		// longer one or from inside itself; both recursive (they survive Expand)
		short := g.pick([]string{"shape", "sha/pe", "sh~ape", "my shape"})
		long := short + g.pick([]string{"Group", " group", "/set"})
		rootDefs[short] = M{"type": "object", "properties": M{"kids": M{"type": "array", "items": M{"$ref": "#/definitions/" + jsonPtrEscape(short)}}}}
		rootDefs[long] = M{"type": "object", "properties": M{
			"members": M{"type": "array", "items": M{"$ref": "#/definitions/" + jsonPtrEscape(short)}},
			"parent":  M{"$ref": "#/definitions/" + jsonPtrEscape(long)}}}
		paths["/scn/prefix"] = M{"get": resp(M{"$ref": "#/definitions/" + jsonPtrEscape(long)})}
		if g.p(0.5) {
			// an unused definition whose name is a prefix of a used one that is the only referrer of a third
			rootDefs["pet"] = M{"type": "string"}
			rootDefs["petStore"] = M{"type": "object", "properties": M{"location": M{"$ref": "#/definitions/address"}}}
			rootDefs["address"] = M{"type": "object", "properties": M{"street": M{"type": "string"}}}
			paths["/scn/store"] = M{"get": resp(M{"$ref": "#/definitions/petStore"})}
		}
		if g.p(0.5) {
			// a definition whose name continues another one's by a pointer-like suffix, referred to only from inside that one
			base := g.pick([]string{"page", "tok~", "my page"})
			sub := base + g.pick([]string{"/items", "0", "/properties/p"})
			rootDefs[base] = M{"type": "object", "properties": M{"p": M{"type": "array", "items": M{"$ref": "#/definitions/" + jsonPtrEscape(sub)}}}}
			rootDefs[sub] = M{"type": "object", "properties": M{"v": M{"type": "string"}}}
			paths["/scn/prefix-sub"] = M{"get": resp(M{"$ref": "#/definitions/" + jsonPtrEscape(base)})}
			g.hit("scenario:prefix-names-pointer-like-suffix")
		}
		g.hit("scenario:prefix-names")
	case "generated-name-clash":
		// existing definitions named like the names full flattening generates for inline complex schemas nested in a
		// definition (object / tuple / allOf, one to three levels deep)
		holder := g.pick([]string{"holderG", "pet", "order"})
		mid, leaf := g.pick([]string{"owner", "part", "a b"}), g.pick([]string{"address", "items", "tag"})
		var inner M
		switch g.n(3) {
		case 0:
			inner = M{"type": "object", "properties": M{"street": M{"type": "string"}}}
		case 1:
			inner = M{"type": "array", "items": []any{M{"type": "string"}, M{"type": "integer"}}}
		default:
			inner = M{"allOf": []any{M{"type": "object", "properties": M{"z": M{"type": "string"}}}}}
		}
		deep := g.p(0.5)
		if deep {
			rootDefs[holder] = M{"type": "object", "properties": M{mid: M{"type": "object", "properties": M{leaf: inner, "n": M{"type": "integer"}}}}}
		} else {
			rootDefs[holder] = M{"type": "object", "properties": M{mid: inner, "n": M{"type": "integer"}}}
		}
		// the names the namer derives: ToJSONName("<holder> <mid>[ <leaf>]")
		clash := swag.ToJSONName(holder + " " + mid)
		if deep && g.p(0.6) {
			clash = swag.ToJSONName(holder + " " + mid + " " + leaf)
		}
		if g.p(0.3) {
			clash = strings.ToUpper(clash[:1]) + clash[1:]
		}
		if _, exists := rootDefs[clash]; !exists {
			rootDefs[clash] = M{"type": "object", "properties": M{"existing": M{"type": "boolean"}}}
		}
		twoSpellings := g.p(0.6)
		if twoSpellings {
			// two existing names that differ from the generated one (and from each other) by letter case only; half of the
			// time the generated spelling itself is not among them
			for _, v := range []string{strings.ToUpper(clash), strings.ToUpper(clash[:1]) + clash[1:]} {
				if _, exists := rootDefs[v]; !exists && v != clash {
					rootDefs[v] = M{"type": "object", "properties": M{"existing": M{"type": "string"}}}
				}
			}
			if g.p(0.6) && clash != holder && strings.ToUpper(clash) != clash {
				delete(rootDefs, clash)
				clash = strings.ToUpper(clash)
			}
			g.hit("scenario:generated-name-clash-two-spellings")
		}
		paths["/scn/clash"] = M{"get": resp(M{"$ref": "#/definitions/" + jsonPtrEscape(holder)}), "put": resp(M{"$ref": "#/definitions/" + jsonPtrEscape(clash)})}
		g.hit("scenario:generated-name-clash")
	case "pointer-chain-sections":
		// a chain of anonymous pointers that crosses sections: a shared parameter's schema points to a shared response's
		// schema, which points to a sub-schema of a root definition (W without RemoveUnused only)
		if !b.sharedOK {
			return
		}
		holder := g.pick([]string{"holderC", "chain holder", "ch/n"})
		prop := g.pick([]string{"part", "a b", "x/y"})
		var inner M
		if g.p(0.6) {
			inner = M{"type": "object", "properties": M{"deep": M{"type": "string"}}}
		} else {
			inner = M{"type": "array", "items": M{"type": "integer"}}
		}
		rootDefs[holder] = M{"type": "object", "properties": M{prop: inner, "n": M{"type": "integer"}}}
		resps["chainR"] = M{"description": "chain", "schema": M{"$ref": "#/definitions/" + jsonPtrEscape(holder) + "/properties/" + jsonPtrEscape(prop)}}
		params["chainP"] = M{"name": "body", "in": "body", "schema": M{"$ref": "#/responses/chainR/schema"}}
		paths["/scn/chain"] = M{"post": M{"operationId": "scenarioChain", "parameters": []any{M{"$ref": "#/parameters/chainP"}},
			"responses": M{"200": M{"$ref": "#/responses/chainR"}}}}
		if g.p(0.5) {
			paths["/scn/chain2"] = M{"get": resp(M{"$ref": "#/parameters/chainP/schema"})}
		}
		g.hit("scenario:pointer-chain-sections")
	case "cycle-collide-simple":
		// a recursive definition of an auxiliary document (its cycle survives Expand) that uses, several times, a simple
		// $ref-free sibling whose name collides with a root definition
		if len(b.auxPaths) == 0 {
			return
		}
		ap := b.auxPaths[0]
		kn := g.pick([]string{"kind", "k/ind", "my kind"})
		var simple M
		switch g.n(3) {
		case 0:
			simple = M{"type": "string", "enum": []any{"a", "b"}}
		case 1:
			simple = M{"type": "array", "items": M{"type": "string"}}
		default:
			simple = M{"type": "object", "additionalProperties": M{"type": "integer"}}
		}
		local := func(n string) M { return M{"$ref": "#/definitions/" + jsonPtrEscape(n)} }
		aux[ap]["definitions"].(M)[kn] = simple
		aux[ap]["definitions"].(M)["cycNode"] = M{"type": "object", "properties": M{"next": local("cycNode"), "kind": local(kn), "other": local(kn)}}
		rootDefs[kn] = M{"type": "object", "properties": M{"rootKind": M{"type": "boolean"}}}
		if g.p(0.35) {
			// the root definition is the same schema up to the keywords that are no validation (readOnly, an extension,
			// an example, a title): two different definitions all the same
			twin := M{}
			for k, v := range simple {
				twin[k] = v
			}
			switch g.n(4) {
			case 0:
				twin["readOnly"] = true
			case 1:
				twin["x-nullable"] = true
			case 2:
				twin["example"] = "ex"
			default:
				twin["title"] = "the root one"
			}
			rootDefs[kn] = twin
			g.hit("scenario:cycle-collide-annotation-twin")
		}
		paths["/scn/cyc"] = M{"get": resp(M{"$ref": relRef("", ap) + "#/definitions/cycNode"}), "put": resp(M{"$ref": "#/definitions/" + jsonPtrEscape(kn)})}
		g.hit("scenario:cycle-collide-simple")
	case "hash-twins":
		// two $ref-free definitions of one auxiliary document whose names agree up to a '#', both referred to
		if len(b.auxPaths) == 0 {
			return
		}
		ap := b.auxPaths[0]
		base := g.pick([]string{"issue", "a b", "t~k"})
		n1, n2 := base+"#1", base+"#2"
		aux[ap]["definitions"].(M)[n1] = M{"type": "object", "properties": M{"first": M{"type": "string"}}}
		aux[ap]["definitions"].(M)[n2] = M{"type": "object", "properties": M{"second": M{"type": "integer"}}}
		refTo := func(n string) M {
			return M{"$ref": relRef("", ap) + "#/definitions/" + urlFragEscape(jsonPtrEscape(n))}
		}
		paths["/scn/hash"] = M{"get": resp(refTo(n1)), "put": resp(refTo(n2))}
		if g.p(0.5) {
			rootDefs["hashHolder"] = M{"type": "object", "properties": M{"one": refTo(n1), "two": M{"type": "array", "items": refTo(n2)}}}
			paths["/scn/hash2"] = M{"get": resp(M{"$ref": "#/definitions/hashHolder"})}
		}
		if g.p(0.5) {
			// … and from a definition of the auxiliary document that lies on a cycle: in Expand mode the cycle survives the
			// expansion, and with it the $refs to the twins, which the import phase then has to tell apart
			local := func(n string) M { return M{"$ref": "#/definitions/" + urlFragEscape(jsonPtrEscape(n))} }
			aux[ap]["definitions"].(M)["hashLoop"] = M{"type": "object", "properties": M{"again": local("hashLoop"), "one": local(n1), "two": local(n2)}}
			paths["/scn/hash3"] = M{"get": resp(refTo("hashLoop"))}
			g.hit("scenario:hash-twins-under-cycle")
		}
		g.hit("scenario:hash-twins")
	case "no-root-definitions":
		// the root has no definitions section at all; two auxiliary documents define a $ref-free schema under the same name
		for k := range rootDefs {
			delete(rootDefs, k)
		}
		for _, m := range []M{paths, params, resps} {
			for k := range m {
				delete(m, k)
			}
		}
		for k := range aux {
			delete(aux, k)
		}
		nm := g.pick([]string{"item", "line item", "geo/point"})
		aux["aux/a.json"] = M{"definitions": M{nm: M{"type": "object", "properties": M{"fromA": M{"type": "string"}}}}}
		aux["aux/deep/b.json"] = M{"definitions": M{nm: M{"type": "object", "properties": M{"fromB": M{"type": "integer"}}}}}
		frag := "#/definitions/" + urlFragEscape(jsonPtrEscape(nm))
		paths["/scn/nodefs"] = M{"get": resp(M{"$ref": "aux/a.json" + frag}), "put": resp(M{"type": "array", "items": M{"$ref": "aux/deep/b.json" + frag}})}
		if g.p(0.5) {
			// … each reached through a definition that lies on a cycle of its document: the cycles survive Expand, and with
			// them the $refs to the two leaves, which are then imported under one name
			for i, ap := range []string{"aux/a.json", "aux/deep/b.json"} {
				// (the definitions on the cycles hold $refs: their own names must not collide)
				ln := []string{"loopA", "loopB"}[i]
				aux[ap]["definitions"].(M)[ln] = M{"type": "object", "properties": M{"again": M{"$ref": "#/definitions/" + ln}, "leaf": M{"$ref": frag}}}
			}
			paths["/scn/nodefs-cycles"] = M{"get": resp(M{"$ref": "aux/a.json#/definitions/loopA"}), "put": resp(M{"$ref": "aux/deep/b.json#/definitions/loopB"})}
			g.hit("scenario:no-root-definitions-under-cycles")
		}
		g.hit("scenario:no-root-definitions")
	case "pointer-in-simple-target":
		// an operation-level pointer (single caller) to a simple array / map sub-schema of a root definition whose element is
		// itself an anonymous pointer to another simple sub-schema: the inlined copy carries a pointer that is still to be named
		if !b.anonOK {
			return
		}
		holder := g.pick([]string{"holderP", "row", "my row"})
		var list M
		inner := M{"$ref": "#/definitions/" + jsonPtrEscape(holder) + "/properties/label"}
		if g.p(0.5) {
			list = M{"type": "array", "items": inner}
		} else {
			list = M{"type": "object", "additionalProperties": inner}
		}
		var label M
		if g.p(0.5) {
			label = M{"type": "string"}
		} else {
			label = M{"type": "array", "items": M{"type": "integer"}}
		}
		rootDefs[holder] = M{"type": "object", "properties": M{"list": list, "label": label}}
		paths["/scn/ptr"] = M{"get": resp(M{"$ref": "#/definitions/" + jsonPtrEscape(holder) + "/properties/list"})}
		if g.p(0.3) {
			paths["/scn/ptr2"] = M{"get": resp(M{"$ref": "#/definitions/" + jsonPtrEscape(holder)})}
		}
		g.hit("scenario:pointer-in-simple-target")
	case "shared-param-twins":
		// an inline complex schema in a path-level body parameter, shared by operations whose generated names are equal up
		// to letter case (and distinct)
		ids := [][]string{{"find-pets-by-ids", "findPetsByIDs"}, {"searchPets", "SearchPets"}, {"list_users", "listUsers"}}[g.n(3)]
		body := M{"type": "object", "properties": M{"q": M{"type": "string"}}}
		if g.p(0.5) {
			body["properties"].(M)["inner"] = M{"type": "object", "properties": M{"deep": M{"type": "integer"}}}
			g.hit("scenario:shared-param-twins-nested")
		}
		pi := M{"parameters": []any{M{"name": "body", "in": "body", "schema": body}}}
		for i, m := range []string{"get", "post"} {
			pi[m] = M{"operationId": ids[i], "responses": M{"200": M{"description": "ok"}}}
		}
		paths["/scn/shared"] = pi
		g.hit("scenario:shared-param-twins")
	case "id-equals-derived-key":
		// an operation without id next to another one, of the same method, whose explicit id is the key derived for the first
		var inl M
		if g.p(0.5) {
			inl = M{"type": "object", "properties": M{"p": M{"type": "string"}}}
		} else {
			inl = M{"type": "array", "items": []any{M{"type": "string"}, M{"type": "integer"}}}
		}
		paths["/scn/things"] = M{"get": M{"responses": M{"200": M{"description": "idless", "schema": inl}}}}
		paths["/scn/other"] = M{"get": M{"operationId": "GetScnThings", "responses": M{"200": M{"description": "named", "schema": M{"type": "object", "properties": M{"o": M{"type": "integer"}}}}}}}
		g.hit("scenario:id-equals-derived-key")
	case "case-twins":
		// an auxiliary document with two $ref-free definitions whose names differ by letter case only, both referred to from
		// the root: the two imports compete for one generated name (the order of import must not depend on map order)
		if len(b.auxPaths) == 0 {
			return
		}
		ap := b.auxPaths[0]
		lo := g.pick([]string{"item", "twin item", "tw/in", "tw~in"}) // names no other auxiliary document uses (W: colliding imports are $ref-free)
		up := strings.ToUpper(lo[:1]) + lo[1:]
		aux[ap]["definitions"].(M)[lo] = M{"type": "object", "properties": M{"lower": M{"type": "string"}}}
		aux[ap]["definitions"].(M)[up] = M{"type": "object", "properties": M{"upper": M{"type": "integer"}}}
		refTo := func(n string) M {
			return M{"$ref": relRef("", ap) + "#/definitions/" + urlFragEscape(jsonPtrEscape(n))}
		}
		paths["/scn/twins"] = M{"get": resp(refTo(lo)), "put": resp(refTo(up))}
		if g.p(0.5) {
			paths["/scn/twins2"] = M{"get": resp(M{"type": "array", "items": refTo(up)}), "post": resp(M{"type": "object", "additionalProperties": refTo(lo)})}
		}
		if g.p(0.6) {
			// a recursive definition of the same document that refers to both twins: its cycle survives Expand, so that
			// the twins are met in one import pass there too
			local := func(n string) M { return M{"$ref": "#/definitions/" + jsonPtrEscape(n)} }
			aux[ap]["definitions"].(M)["twinNode"] = M{"type": "object", "properties": M{"next": local("twinNode"), "lo": local(lo), "up": local(up)}}
			paths["/scn/twins3"] = M{"get": resp(refTo("twinNode"))}
			g.hit("scenario:case-twins-in-cycle")
		}
		g.hit("scenario:case-twins")
	case "digit-siblings":
		// an imported $ref-free definition that collides with a root definition and is referred to from sibling properties
		// (or allOf members) whose names are numerals, with and without leading zeros
		if len(b.auxPaths) == 0 || len(b.rootDefs) == 0 {
			return
		}
		ap := b.auxPaths[0]
		rn := b.rootDefs[g.n(len(b.rootDefs))]
		aux[ap]["definitions"].(M)[rn] = b.refFreeSchema(1)
		auxRef := M{"$ref": relRef("", ap) + "#/definitions/" + urlFragEscape(jsonPtrEscape(rn))}
		props := M{}
		for _, n := range [][]string{{"7", "07"}, {"2", "10"}, {"1", "01", "001"}}[g.n(3)] {
			props[n] = auxRef
		}
		holder := "holderD" + fmt.Sprint(g.n(3))
		rootDefs[holder] = M{"type": "object", "properties": props}
		paths["/scn/digits"] = M{"get": resp(M{"$ref": "#/definitions/" + jsonPtrEscape(holder)})}
		g.hit("scenario:digit-siblings")
	case "odd-status":
		// responses under legal status codes the net/http table has no text for, with inline complex schemas
		codes := []string{"299", "499", "520", "306", "420"}
		rs := M{}
		for i, n := 0, 1+g.n(2); i < n; i++ {
			var sch M
			switch g.n(3) {
			case 0:
				sch = M{"type": "object", "properties": M{"p": M{"type": "string"}, "inner": M{"type": "object", "properties": M{"q": M{"type": "integer"}}}}}
			case 1:
				sch = M{"type": "array", "items": []any{M{"type": "string"}, M{"type": "integer"}}}
			default:
				sch = M{"allOf": []any{M{"type": "object", "properties": M{"z": M{"type": "string"}}}}}
			}
			rs[codes[g.n(len(codes))]] = M{"description": "odd", "schema": sch}
		}
		op := M{"responses": rs}
		if g.p(0.7) {
			b.scnOps++
			op["operationId"] = fmt.Sprintf("scenarioOdd%d", b.scnOps)
		}
		paths["/scn/odd"] = M{g.pick(allMethods): op}
		if b.anonOK && g.p(0.6) {
			// … and an anonymous pointer held by a response under such a code (also 0 and 600: any integer is a status code for
			// the loader), into a definition that nothing else refers to
			oc := g.pick([]string{"299", "499", "0", "600"})
			tgt := g.pick([]string{"simple", "complex"})
			rootDefs["oddOwner"] = M{"type": "object", "properties": M{
				"simple":  M{"type": "string"},
				"complex": M{"type": "object", "properties": M{"c": M{"type": "integer"}}}}}
			b.scnOps++
			paths["/scn/odd-pointer"] = M{"get": M{"operationId": fmt.Sprintf("scenarioOddPtr%d", b.scnOps),
				"responses": M{oc: M{"description": "odd pointer", "schema": M{"$ref": "#/definitions/oddOwner/properties/" + tgt}}}}}
			g.hit("scenario:odd-status-pointer")
		}
		g.hit("scenario:odd-status")
	case "ref-siblings":
		// a $ref with schema-bearing siblings (kept by the loader): the only $ref to a definition sits under such a sibling
		tgt, only := g.pick([]string{"tagS", "tag s", "t/s"}), g.pick([]string{"extraOnly", "extra only", "e~x"})
		rootDefs[tgt] = M{"type": "object", "properties": M{"v": M{"type": "string"}}}
		rootDefs[only] = M{"type": "object", "properties": M{"w": M{"type": "integer"}}}
		var sib M
		switch g.n(3) {
		case 0:
			sib = M{"$ref": "#/definitions/" + jsonPtrEscape(tgt), "properties": M{"extra": M{"$ref": "#/definitions/" + jsonPtrEscape(only)}}}
		case 1:
			sib = M{"$ref": "#/definitions/" + jsonPtrEscape(tgt), "items": M{"$ref": "#/definitions/" + jsonPtrEscape(only)}}
		default:
			sib = M{"$ref": "#/definitions/" + jsonPtrEscape(tgt), "allOf": []any{M{"$ref": "#/definitions/" + jsonPtrEscape(only)}}}
		}
		rootDefs["withSiblings"] = M{"type": "object", "properties": M{"p": sib}}
		paths["/scn/siblings"] = M{"get": resp(M{"$ref": "#/definitions/withSiblings"})}
		g.hit("scenario:ref-siblings")
	case "remote-ref-siblings":
		// a cross-file $ref with schema-bearing siblings that hold cross-file $refs themselves (to the same or to
		// another definition): whichever of the holder and the nested position is rewritten first, the other must
		// still be there to be rewritten
		if len(b.auxPaths) == 0 {
			return
		}
		ap := b.auxPaths[0]
		x, y := g.pick([]string{"sibX", "sib x", "s/x"}), g.pick([]string{"sibY", "sib y", "s~y"})
		aux[ap]["definitions"].(M)[x] = M{"type": "object", "properties": M{"vx": M{"type": "string"}}}
		aux[ap]["definitions"].(M)[y] = M{"type": "object", "properties": M{"wy": M{"type": "integer"}}}
		refTo := func(n string) M {
			return M{"$ref": relRef("", ap) + "#/definitions/" + urlFragEscape(jsonPtrEscape(n))}
		}
		inner := x
		if g.p(0.5) {
			inner = y
		}
		sib := refTo(x)
		switch g.n(3) {
		case 0:
			sib["properties"] = M{"extra": refTo(inner)}
		case 1:
			sib["items"] = refTo(inner)
		default:
			sib["allOf"] = []any{refTo(inner)}
		}
		switch g.n(3) {
		case 0:
			rootDefs["remoteSiblings"] = sib
		case 1:
			rootDefs["remoteSiblings"] = M{"type": "object", "properties": M{"p": sib}}
		default:
			rootDefs["remoteSiblings"] = M{"allOf": []any{sib, M{"type": "object", "properties": M{"own": M{"type": "string"}}}}}
		}
		paths["/scn/remote-siblings"] = M{"get": resp(M{"$ref": "#/definitions/remoteSiblings"})}
		if g.p(0.5) {
			// the same shape inside a definition of the auxiliary document: its $refs are rebased while it is imported
			local := func(n string) M { return M{"$ref": "#/definitions/" + urlFragEscape(jsonPtrEscape(n))} }
			in := local(x)
			switch g.n(3) {
			case 0:
				in["properties"] = M{"extra": local(inner)}
			case 1:
				in["items"] = local(inner)
			default:
				in["allOf"] = []any{local(inner)}
			}
			aux[ap]["definitions"].(M)["sibInner"] = M{"type": "object", "properties": M{"p": in}}
			paths["/scn/remote-siblings-inner"] = M{"get": resp(refTo("sibInner"))}
			g.hit("scenario:remote-ref-siblings-in-import")
		}
		g.hit("scenario:remote-ref-siblings")
	case "empty-mangled-names":
		// names made of punctuation only (inside the alphabet of W) mangle to the empty string: an imported definition
		// then gets the fall-back name oaiGen - flagged as generated although nothing collides -, an inline schema under
		// such names has only empty candidate names
		en := g.pick([]string{"{}", "?#", "[]", "~ ~"})
		esc := urlFragEscape(jsonPtrEscape(en))
		if len(b.auxPaths) > 0 && g.p(0.7) {
			ap := b.auxPaths[0]
			self := func() M { return M{"$ref": "#/definitions/" + esc} }
			var sch M
			switch g.n(3) {
			case 0:
				sch = M{"type": "object", "properties": M{"next": self(), "v": M{"type": "string"}}}
			case 1:
				sch = M{"type": "object", "properties": M{"list": M{"type": "array", "items": self()}}}
			default:
				sch = M{"type": "object", "properties": M{"v": M{"type": "string"}}}
			}
			aux[ap]["definitions"].(M)[en] = sch
			rootDefs["emptyHolder"] = M{"type": "object", "properties": M{"b": M{"$ref": relRef("", ap) + "#/definitions/" + esc}, "n": M{"type": "integer"}}}
			paths["/scn/empty"] = M{"get": resp(M{"$ref": "#/definitions/emptyHolder"})}
			if g.p(0.7) {
				// … referred to from an operation as well (a second parent for the definition imported as oaiGen)
				paths["/scn/empty-direct"] = M{"get": resp(M{"$ref": relRef("", ap) + "#/definitions/" + esc})}
				g.hit("scenario:empty-mangled-names-import-two-parents")
			}
			g.hit("scenario:empty-mangled-names-import")
		}
		if g.p(0.6) {
			en = g.pick([]string{"{ }", "??", "[ ]"})
			esc = urlFragEscape(jsonPtrEscape(en))
			en2 := g.pick([]string{"[]", "~/", "? ?"})
			rootDefs[en] = M{"type": "object", "properties": M{en2: M{"type": "object", "properties": M{"z": M{"type": "string"}}}, "w": M{"type": "integer"}}}
			paths["/scn/empty-inline"] = M{"get": resp(M{"$ref": "#/definitions/" + esc})}
			g.hit("scenario:empty-mangled-names-inline")
		}
	case "relative-path-two-bases":
		// the same relative $ref string means two documents, depending on the document it is written in
		aux["sub/aux.json"] = M{"definitions": M{"viaSub": M{"type": "object", "properties": M{"leaf": M{"$ref": "deeper/b.json#/definitions/leaf"}}}}}
		aux["sub/deeper/b.json"] = M{"definitions": M{"leaf": M{"type": "object", "properties": M{"inSub": M{"type": "string"}}}}}
		aux["deeper/b.json"] = M{"definitions": M{"leaf": M{"type": "object", "properties": M{"atRoot": M{"type": "integer"}}}}}
		rootDefs["twoBases"] = M{"type": "object", "properties": M{
			"direct": M{"$ref": "deeper/b.json#/definitions/leaf"},
			"via":    M{"$ref": "sub/aux.json#/definitions/viaSub"}}}
		paths["/scn/two-bases"] = M{"get": resp(M{"$ref": "#/definitions/twoBases"})}
		g.hit("scenario:relative-path-two-bases")
	case "generated-name-equals-imported":
		// the name full flattening derives for an inline schema is the name of a definition imported in the same run
		if len(b.auxPaths) == 0 {
			return
		}
		ap := b.auxPaths[0]
		aux[ap]["definitions"].(M)["barBaz"] = M{"type": "object", "properties": M{"imported": M{"type": "string"}}}
		rootDefs["bar"] = M{"type": "object", "properties": M{"baz": M{"type": "object", "properties": M{"inline": M{"type": "integer"}}}}}
		paths["/scn/bar"] = M{"get": resp(M{"$ref": "#/definitions/bar"}), "put": resp(M{"$ref": relRef("", ap) + "#/definitions/barBaz"})}
		g.hit("scenario:generated-name-equals-imported")
	case "alias-to-pointer":
		// a top-level definition that is nothing but a $ref to an anonymous pointer into another root definition, the only
		// referrer of that sub-schema (one or two such aliases)
		rootDefs["aliasOwner"] = M{"type": "object", "properties": M{
			"detail": M{"type": "object", "properties": M{"d": M{"type": "string"}}},
			"count":  M{"type": "integer"}}}
		target := "#/definitions/aliasOwner/properties/" + g.pick([]string{"detail", "count"})
		rootDefs["aliasHolder"] = M{"$ref": target}
		paths["/scn/alias"] = M{"get": resp(M{"$ref": "#/definitions/aliasHolder"})}
		if g.p(0.4) {
			rootDefs["aliasHolder2"] = M{"$ref": target}
			paths["/scn/alias2"] = M{"get": resp(M{"$ref": "#/definitions/aliasHolder2"})}
		}
		if g.p(0.5) {
			paths["/scn/alias-owner"] = M{"get": resp(M{"$ref": "#/definitions/aliasOwner"})}
		}
		g.hit("scenario:alias-to-pointer")
	case "pointer-inside-moved":
		// an anonymous pointer to a sub-schema T of a root definition, T holding an anonymous pointer of its own (in its
		// items, additionalProperties or a property) to a sub-schema of another root definition: when T is moved to a new
		// definition (it is referred to twice, or complex), the inner pointer moves with it
		inner := g.pick([]string{"since", "detail"})
		rootDefs["ptrEntry"] = M{"type": "object", "properties": M{
			"since":  M{"type": "string", "format": "date"},
			"detail": M{"type": "object", "properties": M{"d": M{"type": "string"}}}}}
		innerRef := M{"$ref": "#/definitions/ptrEntry/properties/" + inner}
		var t M
		switch g.n(3) {
		case 0:
			t = M{"type": "array", "items": innerRef}
		case 1:
			t = M{"type": "object", "additionalProperties": innerRef}
		default:
			t = M{"type": "object", "properties": M{"one": innerRef, "n": M{"type": "integer"}}}
		}
		rootDefs["ptrCatalog"] = M{"type": "object", "properties": M{"entries": t, "total": M{"type": "integer"}}}
		outer := M{"$ref": "#/definitions/ptrCatalog/properties/entries"}
		pi := M{"get": resp(outer)}
		if g.p(0.7) {
			pi["put"] = resp(M{"$ref": "#/definitions/ptrCatalog/properties/entries"})
		}
		paths["/scn/ptr-inside"] = pi
		if g.p(0.5) {
			paths["/scn/ptr-owners"] = M{"get": resp(M{"$ref": "#/definitions/ptrCatalog"}), "put": resp(M{"$ref": "#/definitions/ptrEntry"})}
		}
		g.hit("scenario:pointer-inside-moved")
	case "collide-sibling-refs":
		// two imported, $ref-free definitions collide with root definitions; the $ref to the first one has a schema-bearing
		// sibling that holds the $ref to the second one: re-inlining the first overwrites the holder of the second
		if len(b.auxPaths) == 0 {
			return
		}
		ap := b.auxPaths[0]
		rootDefs["sibX"] = M{"type": "string"}
		rootDefs["sibY"] = M{"type": "integer"}
		aux[ap]["definitions"].(M)["sibX"] = M{"type": "object", "properties": M{"vx": M{"type": "string"}}}
		aux[ap]["definitions"].(M)["sibY"] = M{"type": "object", "properties": M{"wy": M{"type": "integer"}}}
		refTo := func(n string) M { return M{"$ref": relRef("", ap) + "#/definitions/" + n} }
		holder := refTo("sibX")
		switch g.n(3) {
		case 0:
			holder["properties"] = M{"q": refTo("sibY")}
		case 1:
			holder["items"] = refTo("sibY")
		default:
			holder["allOf"] = []any{refTo("sibY")}
		}
		rootDefs["sibCollide"] = M{"type": "object", "properties": M{"p": holder}}
		paths["/scn/sib-collide"] = M{"get": resp(M{"$ref": "#/definitions/sibCollide"})}
		if g.p(0.5) {
			paths["/scn/sib-roots"] = M{"get": resp(M{"$ref": "#/definitions/sibX"}), "put": resp(M{"$ref": "#/definitions/sibY"})}
		}
		g.hit("scenario:collide-sibling-refs")
	case "root-named-aux":
		// an auxiliary document that has the file name of the root document, in a nested directory, with a $ref-free
		// definition that collides by name with a root definition; reached from a definition on a cycle of another
		// auxiliary document (so that the $ref survives Expand)
		rn := b.rootDefs[g.n(len(b.rootDefs))]
		frag := "#/definitions/" + urlFragEscape(jsonPtrEscape(rn))
		aux["sub/deep/root.json"] = M{"definitions": M{rn: M{"type": "object", "properties": M{"fromNestedRoot": M{"type": "string"}}}}}
		aux["sub/loop.json"] = M{"definitions": M{"loopR": M{"type": "object", "properties": M{
			"again": M{"$ref": "#/definitions/loopR"}, "leaf": M{"$ref": "deep/root.json" + frag}}}}}
		paths["/scn/root-named"] = M{"get": resp(M{"$ref": "sub/loop.json#/definitions/loopR"}), "put": resp(M{"$ref": "#/definitions/" + jsonPtrEscape(rn)})}
		g.hit("scenario:root-named-aux")
	case "two-spellings":
		// the same auxiliary definition is referred to under two spellings of its relative path; another document defines a
		// definition of the same name ($ref-free, both), whose path sorts between the two spellings
		aux["parts/m.json"] = M{"definitions": M{"thing": M{"type": "object", "properties": M{"fromM": M{"type": "string"}}}}}
		aux["parts/k.json"] = M{"definitions": M{"thing": M{"type": "object", "properties": M{"fromK": M{"type": "integer"}}}}}
		paths["/scn/spell"] = M{
			"get":  resp(M{"$ref": "./parts/m.json#/definitions/thing"}),
			"put":  resp(M{"$ref": "parts/m.json#/definitions/thing"}),
			"post": resp(M{"$ref": "parts/k.json#/definitions/thing"})}
		if g.p(0.5) {
			rootDefs["spellHolder"] = M{"type": "object", "properties": M{"a": M{"$ref": "parts/../parts/m.json#/definitions/thing"}}}
			paths["/scn/spell2"] = M{"get": resp(M{"$ref": "#/definitions/spellHolder"})}
		}
		g.hit("scenario:two-spellings")
	case "alias-named-like-generated":
		// a root definition whose *name* reads like a generated one (it contains "OAIGen") and which is nothing but a $ref to a
		// definition of an auxiliary document: it must survive under its own name
		if len(b.auxPaths) == 0 {
			return
		}
		ap := b.auxPaths[0]
		aux[ap]["definitions"].(M)["aliasTarget"] = M{"type": "object", "properties": M{"v": M{"type": "string"}}}
		an := g.pick([]string{"myOAIGen", "OAIGenThing", "pet OAIGen 2"})
		rootDefs[an] = M{"$ref": relRef("", ap) + "#/definitions/aliasTarget"}
		paths["/scn/alias-gen"] = M{"get": resp(M{"$ref": "#/definitions/" + urlFragEscape(jsonPtrEscape(an))})}
		if g.p(0.5) {
			rootDefs["aliasUser"] = M{"type": "object", "properties": M{"a": M{"$ref": "#/definitions/" + urlFragEscape(jsonPtrEscape(an))}}}
			paths["/scn/alias-gen-user"] = M{"get": resp(M{"$ref": "#/definitions/aliasUser"})}
		}
		if g.p(0.4) {
			// a definition whose name contains "OAIGen" holds a remote $ref in a property named like another root definition
			rootDefs["aliasTag"] = M{"type": "object", "properties": M{"own": M{"type": "boolean"}}}
			rootDefs["petOAIGen"] = M{"type": "object", "properties": M{"aliasTag": M{"$ref": relRef("", ap) + "#/definitions/aliasTarget"}, "k": M{"type": "integer"}}}
			paths["/scn/alias-gen-tag"] = M{"get": resp(M{"$ref": "#/definitions/aliasTag"}), "put": resp(M{"$ref": "#/definitions/petOAIGen"})}
			g.hit("scenario:named-like-generated-holds-remote-ref")
		}
		g.hit("scenario:alias-named-like-generated")
	case "pattern-properties-complex":
		// several patternProperties entries (and nested definitions) that hold complex inline schemas of different shapes:
		// each is indexed, and under full flattening named, with its own content
		rootDefs["registry"] = M{"type": "object",
			"patternProperties": M{
				"^a": M{"type": "object", "properties": M{"first": M{"type": "string"}}},
				"^b": M{"type": "object", "properties": M{"second": M{"type": "integer"}}},
				"^c": M{"type": "array", "items": []any{M{"type": "string"}, M{"type": "boolean"}}}},
			"properties": M{"plain": M{"type": "string"}}}
		paths["/scn/registry"] = M{"get": resp(M{"$ref": "#/definitions/registry"})}
		g.hit("scenario:pattern-properties-complex")
	case "root-alias-of-same-name":
		// a root definition that is a plain alias of the same-named definition of an auxiliary document; operations refer
		// to the auxiliary definition directly, and (sometimes) nothing refers to the alias
		ap := "aux/scn.json"
		if len(b.auxPaths) > 0 {
			ap = b.auxPaths[0]
		} else if _, ok := aux[ap]; !ok {
			aux[ap] = M{"definitions": M{}}
		}
		// two such aliases: nothing refers to the first one, an operation refers to the second one
		for k, nm := range []string{g.pick([]string{"foo", "fooBar", "Foo bar"}), g.pick([]string{"qux", "quxBaz", "q~ux"})} {
			var body M
			if g.p(0.5) {
				body = M{"type": "object", "properties": M{"v": M{"type": "string"}}}
			} else {
				body = M{"type": "string", "enum": []any{"x", "y"}}
			}
			aux[ap]["definitions"].(M)[nm] = body
			auxRef := relRef("", ap) + "#/definitions/" + urlFragEscape(jsonPtrEscape(nm))
			rootDefs[nm] = M{"$ref": auxRef}
			paths[fmt.Sprintf("/scn/same-name%d", k)] = M{"get": resp(M{"$ref": auxRef})}
			if k == 1 {
				paths["/scn/same-name-alias"] = M{"get": resp(M{"$ref": "#/definitions/" + urlFragEscape(jsonPtrEscape(nm))})}
			}
		}
		g.hit("scenario:root-alias-of-same-name")
	case "mangled-sibling-of-recursive":
		// a recursive definition of an auxiliary document refers to a $ref-free sibling whose name mangles like its own
		// ("tree node" / "tree_node"): the recursive one is imported first, the sibling collides with it
		ap := "aux/scn.json"
		if len(b.auxPaths) > 0 {
			ap = b.auxPaths[0]
		} else if _, ok := aux[ap]; !ok {
			aux[ap] = M{"definitions": M{}}
		}
		n1, n2 := "tree node", "tree_node"
		if g.p(0.5) {
			n1, n2 = "my item", "my-item"
		}
		local := func(n string) M { return M{"$ref": "#/definitions/" + urlFragEscape(jsonPtrEscape(n))} }
		aux[ap]["definitions"].(M)[n1] = M{"type": "object", "properties": M{"next": local(n1), "leaf": local(n2)}}
		aux[ap]["definitions"].(M)[n2] = M{"type": "string", "enum": []any{"l"}}
		paths["/scn/mangled-sibling"] = M{"get": resp(M{"$ref": relRef("", ap) + "#/definitions/" + urlFragEscape(jsonPtrEscape(n1))})}
		g.hit("scenario:mangled-sibling-of-recursive")
	case "two-oaigen-kinds":
		// two name conflicts of different kinds in one run: an inline complex schema whose generated name is taken (it is
		// re-inlined as complex: another naming round is due) and a colliding import of a simple schema (no round due)
		ap := "aux/scn.json"
		if len(b.auxPaths) > 0 {
			ap = b.auxPaths[0]
		} else if _, ok := aux[ap]; !ok {
			aux[ap] = M{"definitions": M{}}
		}
		owner := g.pick([]string{"zoo", "ant"})
		rootDefs[owner] = M{"type": "object", "properties": M{"keeper": M{"type": "object", "properties": M{"name": M{"type": "string"}}}, "n": M{"type": "integer"}}}
		rootDefs[swag.ToGoName(owner+" keeper")] = M{"type": "object", "properties": M{"taken": M{"type": "boolean"}}}
		tn := g.pick([]string{"tag", "yak"})
		rootDefs[tn] = M{"type": "object", "properties": M{"id": M{"type": "integer"}}}
		aux[ap]["definitions"].(M)[tn] = M{"type": "string", "format": "uuid"}
		rootDefs["kindsUser"] = M{"type": "object", "properties": M{"t": M{"$ref": relRef("", ap) + "#/definitions/" + tn}}}
		paths["/scn/kinds"] = M{"get": resp(M{"$ref": "#/definitions/" + owner}), "put": resp(M{"$ref": "#/definitions/kindsUser"}),
			"post": resp(M{"$ref": "#/definitions/" + swag.ToGoName(owner+" keeper")}), "delete": resp(M{"$ref": "#/definitions/" + tn})}
		g.hit("scenario:two-oaigen-kinds")
	case "unused-chain":
		// definitions that become unused only after another one is removed, through names that need escaping
		if g.p(0.5) {
			// isolated: nothing else is unused, so that the chain alone drives the removal fixpoint
			for _, m := range []M{rootDefs, paths, params, resps} {
				for k := range m {
					delete(m, k)
				}
			}
			for k := range aux {
				delete(aux, k)
			}
			rootDefs["used"] = M{"type": "object", "properties": M{"v": M{"type": "string"}}}
			paths["/scn/used"] = M{"get": resp(M{"$ref": "#/definitions/used"})}
			g.hit("scenario:unused-chain-isolated")
		}
		a, c := g.pick([]string{"legacy/item", "old~v1", "dead code", "zz"}), g.pick([]string{"leaf", "Leaf node", "l/2"})
		rootDefs[a] = M{"type": "object", "properties": M{"next": M{"$ref": "#/definitions/" + jsonPtrEscape(c)}}}
		rootDefs[c] = M{"type": "string"}
		g.hit("scenario:unused-chain")
	}
}

// injectPlus adds constructs of the wider class W+ (C09): anonymous pointers to arbitrary positions, pointers nested in
// pointer targets, references from auxiliary documents back to the root, non-$ref-free name collisions, dangling $refs.
// It reports whether some planted $ref cannot be resolved (then Flatten must return an error).
func (b *bgen) injectPlus(rootDefs, paths M, aux map[string]M, params, resps M) (mustFail bool, what []string) {
	g := b.Gen
	n := 0
	resp := func(schema M) M {
		n++
		return M{"operationId": fmt.Sprintf("plusOp%d", n), "responses": M{"200": M{"description": "plus", "schema": schema}}}
	}
	addPath := func(schema M) {
		paths[fmt.Sprintf("/plus/%d", len(paths))] = M{g.pick(allMethods): resp(schema)}
	}
	for i, k := 0, 1+g.n(2); i < k; i++ {
		switch g.n(12) {
		case 11:
			// an anonymous pointer to the complex schema of a body parameter declared at the level of a path item that has no
			// operation: no name can be derived for it
			paths["/plus/orphan"] = M{"parameters": []any{M{"name": "b", "in": "body", "schema": M{"type": "object", "properties": M{"o": M{"type": "string"}}}}}}
			addPath(M{"$ref": "#/paths/~1plus~1orphan/parameters/0/schema"})
			if g.p(0.5) {
				addPath(M{"type": "array", "items": M{"$ref": "#/paths/~1plus~1orphan/parameters/0/schema"}})
			}
			what = append(what, "pointer-to-orphan-path-parameter-schema")
		case 10:
			// the schema of a shared response / shared body parameter that is an array or a map of itself through an anonymous
			// pointer to that very schema, and is pointed at from an operation: expanded in place, it must not become a cyclic
			// structure
			var target string
			var sch M
			mk := func(self string) M {
				switch g.n(3) {
				case 0:
					return M{"type": "array", "items": M{"$ref": self}}
				case 1:
					return M{"type": "object", "additionalProperties": M{"$ref": self}}
				default:
					return M{"type": "object", "properties": M{"again": M{"$ref": self}, "v": M{"type": "string"}}}
				}
			}
			if g.p(0.5) {
				target = "#/responses/plusSelfResp/schema"
				sch = mk(target)
				resps["plusSelfResp"] = M{"description": "self", "schema": sch}
			} else {
				target = "#/parameters/plusSelfParam/schema"
				sch = mk(target)
				params["plusSelfParam"] = M{"name": "plusSelf", "in": "body", "schema": sch}
			}
			addPath(M{"$ref": target})
			if g.p(0.5) {
				addPath(M{"type": "array", "items": M{"$ref": target}})
			}
			what = append(what, "shared-schema-of-itself")
		case 9:
			// a sub-schema that contains itself through an anonymous pointer (map / array / property of itself), with one
			// to three callers of that pointer: once the holder has been named, the keys below it are stale
			self := "#/definitions/plusTree/properties/children"
			var kids M
			switch g.n(4) {
			case 0:
				kids = M{"type": "object", "additionalProperties": M{"$ref": self}}
			case 1:
				kids = M{"type": "array", "items": M{"$ref": self}}
			case 2:
				kids = M{"type": "object", "properties": M{"next": M{"$ref": self}, "v": M{"type": "string"}}}
			default:
				kids = M{"type": "array", "items": []any{M{"type": "string"}, M{"$ref": self}}, "additionalItems": M{"$ref": self}}
			}
			rootDefs["plusTree"] = M{"type": "object", "properties": M{"label": M{"type": "string"}, "children": kids}}
			addPath(M{"$ref": "#/definitions/plusTree"})
			for j, c := 0, g.n(3); j < c; j++ {
				if g.p(0.5) {
					addPath(M{"$ref": self})
				} else {
					addPath(M{"type": "array", "items": M{"$ref": self}})
				}
			}
			what = append(what, "self-containing-pointer-target")
		case 7:
			// a path-level parameter that is not in: body yet carries a schema (loadable, invalid Swagger) whose $ref cannot
			// be resolved: Flatten must not report success
			r := g.pick([]string{"#/definitions/plusMissing", "aux/missing.json#/definitions/x"})
			paths[fmt.Sprintf("/plus/np%d", len(paths))] = M{
				"parameters": []any{M{"in": g.pick([]string{"formData", "query"}), "name": "f", "type": "string", "schema": M{"$ref": r}}},
				"get":        M{"operationId": fmt.Sprintf("plusNp%d", len(paths)), "responses": M{"200": M{"description": "ok"}}}}
			mustFail = true
			what = append(what, "dangling-in-nonbody-path-parameter")
		case 8:
			// an anonymous pointer to a non-schema part of an operation, used from two places (so that it gets named)
			var ps []string
			for p := range paths {
				ps = append(ps, p)
			}
			sort.Strings(ps)
			if len(ps) > 0 {
				p := ps[g.n(len(ps))]
				for _, m := range allMethods {
					if _, ok := paths[p].(M)[m]; ok {
						ref := M{"$ref": "#/paths/" + jsonPtrEscape(p) + "/" + m + g.pick([]string{"/responses", "/parameters", "/responses/200"})}
						addPath(ref)
						addPath(M{"type": "array", "items": ref})
						break
					}
				}
			}
			what = append(what, "pointer-to-operation-part-twice")
		case 0:
			rootDefs["plusOdd"] = M{"type": "object", "additionalProperties": g.p(0.5), "properties": M{"t": M{"type": "array", "items": []any{M{"type": "string"}, M{"type": "integer"}}, "additionalItems": g.p(0.5)}}}
			addPath(M{"$ref": g.pick([]string{"#/definitions/plusOdd/additionalProperties", "#/definitions/plusOdd/properties/t/items", "#/definitions/plusOdd/properties/t/additionalItems", "#/definitions/plusOdd/properties/t/items/1"})})
			what = append(what, "pointer-to-bool-or-tuple")
		case 1:
			addPath(M{"$ref": g.pick([]string{"#/info", "#/paths", "#/swagger", "#/definitions"})})
			what = append(what, "pointer-to-non-schema")
		case 2:
			var ps []string
			for p := range paths {
				ps = append(ps, p)
			}
			sort.Strings(ps)
			if len(ps) > 0 {
				p := ps[g.n(len(ps))]
				for _, m := range allMethods {
					if _, ok := paths[p].(M)[m]; ok {
						addPath(M{"$ref": "#/paths/" + jsonPtrEscape(p) + "/" + m + g.pick([]string{"", "/responses/200", "/responses/200/schema"})})
						break
					}
				}
			}
			what = append(what, "pointer-to-operation")
		case 3:
			r := g.pick([]string{"#/definitions/plusMissing", "aux/missing.json#/definitions/x", "#/definitions/plusMissing/properties/p"})
			if len(b.auxPaths) > 0 && g.p(0.4) {
				r = b.auxPaths[0] + "#/definitions/plusMissing"
			} else if g.p(0.3) {
				// a name that exists only with another letter case
				rootDefs["PlusCased"] = M{"type": "object", "properties": M{"c": M{"type": "string"}}}
				addPath(M{"$ref": "#/definitions/PlusCased"})
				r = g.pick([]string{"#/definitions/plusCased", "#/definitions/PLUSCASED"})
			}
			if g.p(0.3) {
				// held by a definition nothing refers to: RemoveUnused must not make the unresolvable $ref go unnoticed
				rootDefs["plusOrphan"] = M{"type": "object", "properties": M{"p": M{"$ref": r}}}
				what = append(what, "dangling-in-orphan")
			} else {
				addPath(M{"$ref": r})
			}
			mustFail = true
			what = append(what, "dangling")
		case 4:
			if len(b.auxPaths) > 0 {
				ap := b.auxPaths[g.n(len(b.auxPaths))]
				back := relRef(ap, "root.json") + "#/definitions/" + jsonPtrEscape(b.rootDefs[0])
				aux[ap]["definitions"].(M)["plusBack"] = M{"type": "object", "properties": M{"up": M{"$ref": back}}}
				addPath(M{"$ref": relRef("", ap) + "#/definitions/plusBack"})
				what = append(what, "aux-back-to-root")
			}
		case 5:
			rootDefs["plusChainA"] = M{"type": "object", "properties": M{"p": M{"$ref": "#/definitions/plusChainB/properties/q"}}}
			rootDefs["plusChainB"] = M{"type": "object", "properties": M{"q": M{"type": "object", "properties": M{"deep": M{"type": "string"}}}}}
			addPath(M{"$ref": "#/definitions/plusChainA/properties/p"})
			if g.p(0.3) {
				rootDefs["plusChainB"].(M)["properties"].(M)["q"] = M{"$ref": "#/definitions/plusChainA/properties/p"} // a cycle of pointers
				what = append(what, "pointer-cycle")
				if g.p(0.6) {
					// … entered from outside: a chain of pointers that leads into the cycle without being on it
					rootDefs["plusChainC"] = M{"type": "object", "properties": M{"r": M{"$ref": "#/definitions/plusChainA/properties/p"}, "s": M{"$ref": "#/definitions/plusChainC/properties/r"}}}
					addPath(M{"$ref": "#/definitions/plusChainC/properties/s"})
					addPath(M{"type": "array", "items": M{"$ref": "#/definitions/plusChainC/properties/r"}})
					what = append(what, "pointer-lasso")
				}
			}
			what = append(what, "pointer-in-pointer-target")
		default:
			if len(b.auxPaths) > 0 {
				ap := b.auxPaths[0]
				rn := b.rootDefs[g.n(len(b.rootDefs))]
				self := M{"$ref": "#/definitions/" + jsonPtrEscape(rn)}
				switch g.n(3) {
				case 0:
					aux[ap]["definitions"].(M)[rn] = M{"type": "object", "properties": M{"self": self, "other": b.bschema(ap, 1, 0.6)}}
				case 1:
					// the colliding import is an array of itself: re-inlined by stripOAIGen, it becomes a cyclic Go structure
					aux[ap]["definitions"].(M)[rn] = M{"type": "array", "items": self}
					what = append(what, "collision-array-of-itself")
				default:
					aux[ap]["definitions"].(M)[rn] = M{"type": "object", "additionalProperties": self}
					what = append(what, "collision-map-of-itself")
				}
				addPath(M{"$ref": relRef("", ap) + "#/definitions/" + urlFragEscape(jsonPtrEscape(rn))})
				what = append(what, "collision-with-refs")
			}
		}
	}
	return mustFail, what
}
