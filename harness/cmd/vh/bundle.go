package main

// Generator of well-formed bundles W (and the wider class W+) for the Flatten properties C01–C10.

import (
	"fmt"
	"path"
	"sort"
	"strings"
)

// Bundle is a root document plus auxiliary JSON documents at relative paths.
type Bundle struct {
	Root M            `json:"root"`
	Aux  map[string]M `json:"aux"` // relative path (from the root's directory) -> document
	Feat map[string]int
}

type bgen struct {
	*Gen
	plus        bool // W+: constructs outside W
	auxPaths    []string
	auxDefs     map[string][]string // aux path -> definition names
	rootDefs    []string
	anonOK      bool                // anonymous pointers allowed (Minimal / full only)
	sharedOK    bool                // anonymous pointers into shared parameters/responses (without RemoveUnused only)
	rootProps   map[string][]string // root definition -> its direct property names (targets of anonymous pointers)
	bodyParams  []string            // shared body parameters
	schemaResps []string            // shared responses with a schema
	scnOps      int
}

var auxPathPool = []string{"aux/a.json", "aux/deep/b.json", "other/c.json"}

// names for auxiliary definitions: disjoint (also case-insensitively and after name mangling) from the root pool
var auxNamePool = []string{"user", "Order Line", "geo/point", "t~ag", "日本語", "x?y", "h#v", "arr[]", "cu{r}ly", "Money", "line item", "ns.item"}
var rootNamePool = []string{"pet", "owner", "my def", "a/b", "t~x", "q?x", "br[0]", "cu{id}", "שלום", "x y z", "tagValue", "n-1", "Record"}

func relRef(fromDoc, toDoc string) string {
	// relative file reference from the directory of fromDoc ("" = root) to toDoc
	fromDir := path.Dir(fromDoc)
	if fromDoc == "" {
		fromDir = "."
	}
	if fromDoc == toDoc {
		return ""
	}
	// compute a relative path
	f := strings.Split(path.Clean(fromDir), "/")
	if len(f) == 1 && f[0] == "." {
		f = nil
	}
	t := strings.Split(toDoc, "/")
	i := 0
	for i < len(f) && i < len(t)-1 && f[i] == t[i] {
		i++
	}
	var parts []string
	for j := i; j < len(f); j++ {
		parts = append(parts, "..")
	}
	parts = append(parts, t[i:]...)
	return strings.Join(parts, "/")
}

// schemaRefFrom picks a $ref valid from document `from` ("" = root): local definition, cross-file definition, or
// (root only, when allowed) an anonymous pointer.
func (b *bgen) schemaRefFrom(from string) (string, bool) {
	type cand struct{ ref, feat string }
	var cs []cand
	local := b.rootDefs
	if from != "" {
		local = b.auxDefs[from]
	}
	for _, n := range local {
		cs = append(cs, cand{"#/definitions/" + jsonPtrEscape(n), "ref:local"})
	}
	for _, ap := range b.auxPaths {
		if ap == from {
			continue
		}
		for _, n := range b.auxDefs[ap] {
			cs = append(cs, cand{relRef(from, ap) + "#/definitions/" + urlFragEscape(jsonPtrEscape(n)), "ref:cross-file"})
			if from != "" {
				b.hit("ref:aux-to-aux")
			}
		}
	}
	if from == "" && b.anonOK && b.p(0.25) {
		var as []cand
		for d, ps := range b.rootProps {
			for _, p := range ps {
				as = append(as, cand{"#/definitions/" + jsonPtrEscape(d) + "/properties/" + jsonPtrEscape(p), "ref:anon-subschema"})
			}
		}
		if b.sharedOK {
			for _, p := range b.bodyParams {
				as = append(as, cand{"#/parameters/" + jsonPtrEscape(p) + "/schema", "ref:anon-shared-param"})
			}
			for _, r := range b.schemaResps {
				as = append(as, cand{"#/responses/" + jsonPtrEscape(r) + "/schema", "ref:anon-shared-response"})
			}
		}
		sort.Slice(as, func(i, j int) bool { return as[i].ref < as[j].ref })
		if len(as) > 0 {
			c := as[b.n(len(as))]
			b.hit(c.feat)
			return c.ref, true
		}
	}
	if len(cs) == 0 {
		return "", false
	}
	// favour cross-file refs a little
	c := cs[b.n(len(cs))]
	b.hit(c.feat)
	return c.ref, true
}

// bschema generates a schema inside document `from`.
func (b *bgen) bschema(from string, depth int, refP float64) M {
	if b.p(refP) {
		if r, ok := b.schemaRefFrom(from); ok {
			return M{"$ref": r}
		}
	}
	kinds := []string{"prim", "prim", "object", "object", "map", "array", "allOf", "tuple", "emptyobj"}
	if depth <= 0 {
		kinds = []string{"prim", "emptyobj"}
	}
	k := b.pick(kinds)
	b.hit("schema:" + k)
	s := M{}
	switch k {
	case "prim":
		s["type"] = b.pick([]string{"string", "integer", "number", "boolean"})
		if b.p(0.2) {
			s["format"] = b.pick([]string{"date", "int64", "uuid"})
		}
		if b.p(0.15) {
			s["enum"] = []any{"a", "b"}
		}
	case "emptyobj":
		s["type"] = "object"
	case "object":
		s["type"] = "object"
		props := M{}
		for _, nm := range b.distinctNames(1 + b.n(3)) {
			props[nm] = b.bschema(from, depth-1, refP)
		}
		s["properties"] = props
		if b.p(0.2) {
			s["additionalProperties"] = b.bschema(from, depth-1, refP)
		}
	case "map":
		s["type"] = "object"
		s["additionalProperties"] = b.bschema(from, depth-1, refP)
	case "array":
		s["type"] = "array"
		s["items"] = b.bschema(from, depth-1, refP)
	case "tuple":
		s["type"] = "array"
		var its []any
		for i, n := 0, 1+b.n(2); i < n; i++ {
			its = append(its, b.bschema(from, depth-1, refP))
		}
		s["items"] = its
		if b.p(0.3) {
			s["additionalItems"] = b.bschema(from, depth-1, refP)
		}
	case "allOf":
		var mem []any
		for i, n := 0, 1+b.n(2); i < n; i++ {
			mem = append(mem, b.bschema(from, depth-1, refP))
		}
		s["allOf"] = mem
	}
	return s
}

// refFreeSchema: an imported definition that may collide by name must itself be $ref-free.
func (b *bgen) refFreeSchema(depth int) M { return b.bschema("", depth, 0) }

type BundleOpts struct {
	Scenario string // "" or a named interplay shape injected into the bundle (see injectScenario)
	Plain    bool   // only names that need neither JSON-pointer nor URL escaping
	Plus     bool
	AnonOK   bool
	SharedOK bool
	MaxAux   int
}

func genBundle(g *Gen, o BundleOpts) *Bundle {
	b := &bgen{Gen: g, plus: o.Plus, anonOK: o.AnonOK, sharedOK: o.SharedOK, auxDefs: map[string][]string{}, rootProps: map[string][]string{}}
	g.Names = []string{"name", "id", "owner", "a b", "x/y", "t~x", "q?x", "items", "properties", "日本", "tag", "value", "n_1", "Kind"}
	rootPool := rootNamePool
	if o.Plain {
		g.Names = []string{"name", "id", "owner", "items", "properties", "tag", "value", "n_1", "Kind", "petOwner"}
		rootPool = []string{"pet", "owner", "Record", "tagValue", "n-1", "PetOwner", "thing", "order"}
		g.hit("names:plain")
	}
	// layout
	nAux := g.n(o.MaxAux + 1)
	perm := g.r.Perm(len(auxPathPool))
	for i := 0; i < nAux; i++ {
		b.auxPaths = append(b.auxPaths, auxPathPool[perm[i]])
	}
	sort.Strings(b.auxPaths)
	pickNames := func(pool []string, k int) []string {
		p := g.r.Perm(len(pool))
		var out []string
		for i := 0; i < k && i < len(pool); i++ {
			out = append(out, pool[p[i]])
		}
		sort.Strings(out)
		return out
	}
	b.rootDefs = pickNames(rootPool, 1+g.n(5))
	used := map[string]bool{}
	for _, ap := range b.auxPaths {
		var names []string
		for _, n := range pickNames(auxNamePool, 1+g.n(3)) {
			if !used[n] {
				used[n] = true
				names = append(names, n)
			}
		}
		b.auxDefs[ap] = names
	}
	// name collisions of imported, $ref-free definitions with root definitions (exact / case-insensitive): decided before
	// anything is generated, so that the colliding definition can be referenced from everywhere (also from a direct
	// sub-schema of a root definition that is itself the target of an anonymous pointer)
	collider := ""
	colliderDoc := ""
	if nAux > 0 && g.p(0.45) {
		colliderDoc = b.auxPaths[0]
		rn := b.rootDefs[g.n(len(b.rootDefs))]
		collider = rn
		if g.p(0.5) && rn[0] >= 'a' && rn[0] <= 'z' {
			collider = strings.ToUpper(rn[:1]) + rn[1:]
			g.hit("collide:case")
		} else {
			g.hit("collide:exact")
		}
		dup := false
		for _, n := range b.auxDefs[colliderDoc] {
			if n == collider {
				dup = true
			}
		}
		if !dup {
			b.auxDefs[colliderDoc] = append(b.auxDefs[colliderDoc], collider)
		}
	}
	g.hit(fmt.Sprintf("aux:%d", nAux))
	// root definitions (placeholders first so that refs can target any of them, including themselves: recursion)
	rootDefs := M{}
	for _, n := range b.rootDefs {
		rootDefs[n] = M{}
	}
	for _, n := range b.rootDefs {
		s := b.bschema("", 3, 0.25)
		rootDefs[n] = s
	}
	// direct properties of root definitions: targets of anonymous pointers
	for _, n := range b.rootDefs {
		if props, ok := rootDefs[n].(M)["properties"].(M); ok {
			for p := range props {
				// the sub-schema may itself be a $ref (to a local or an imported definition)
				b.rootProps[n] = append(b.rootProps[n], p)
			}
			sort.Strings(b.rootProps[n])
		}
	}
	// recursion patterns inside W
	if g.p(0.3) {
		n := b.rootDefs[0]
		rootDefs[n] = M{"type": "object", "properties": M{"self": M{"$ref": "#/definitions/" + jsonPtrEscape(n)}, "v": M{"type": "string"}}}
		delete(b.rootProps, n)
		g.hit("rec:self-property")
	}
	if g.p(0.2) && len(b.rootDefs) > 1 {
		n := b.rootDefs[1]
		rootDefs[n] = M{"type": "array", "items": M{"$ref": "#/definitions/" + jsonPtrEscape(n)}}
		delete(b.rootProps, n)
		g.hit("rec:array-of-itself")
	}
	if g.p(0.2) && len(b.rootDefs) > 2 {
		n := b.rootDefs[2]
		rootDefs[n] = M{"type": "object", "additionalProperties": M{"$ref": "#/definitions/" + jsonPtrEscape(n)}}
		delete(b.rootProps, n)
		g.hit("rec:map-of-itself")
	}
	// auxiliary documents
	aux := map[string]M{}
	for _, ap := range b.auxPaths {
		defs := M{}
		for _, n := range b.auxDefs[ap] {
			if ap == colliderDoc && n == collider {
				defs[n] = b.refFreeSchema(2)
			} else {
				defs[n] = b.bschema(ap, 2, 0.3)
			}
		}
		if g.p(0.3) && len(b.auxDefs[ap]) > 0 {
			// recursion inside an auxiliary document
			n := b.auxDefs[ap][0]
			if ap == colliderDoc && n == collider {
				continue
			}
			defs[n] = M{"type": "object", "properties": M{"next": M{"$ref": "#/definitions/" + jsonPtrEscape(n)}, "v": M{"type": "integer"}}}
			g.hit("rec:aux-self")
		}
		aux[ap] = M{"definitions": defs}
	}
	// shared parameters / responses
	params := M{}
	resps := M{}
	for i, n := 0, g.n(3); i < n; i++ {
		nm := fmt.Sprintf("%s%d", g.pick([]string{"bodyP", "lim it", "p/q"}), i)
		if g.p(0.6) {
			params[nm] = M{"name": "body", "in": "body", "schema": b.bschema("", 2, 0.3)}
			if _, isRef := params[nm].(M)["schema"].(M)["$ref"]; !isRef {
				b.bodyParams = append(b.bodyParams, nm)
			}
		} else {
			params[nm] = M{"name": "limit", "in": "query", "type": "integer"}
		}
	}
	for i, n := 0, g.n(3); i < n; i++ {
		nm := fmt.Sprintf("%s%d", g.pick([]string{"okR", "err or", "r/s"}), i)
		r := M{"description": "shared"}
		if g.p(0.7) {
			r["schema"] = b.bschema("", 2, 0.3)
			if _, isRef := r["schema"].(M)["$ref"]; !isRef {
				b.schemaResps = append(b.schemaResps, nm)
			}
		}
		resps[nm] = r
	}
	sort.Strings(b.bodyParams)
	sort.Strings(b.schemaResps)
	// paths
	paths := M{}
	ids := &idPool{used: map[string]bool{}}
	pathPoolW := []string{"/pets", "/pets/{id}", "/a", "/users/{user id}/tags", "/x~y", "/q", "/a-b", "/a_b"}
	for i, n := 0, 1+g.n(3); i < n; i++ {
		pth := pathPoolW[g.n(len(pathPoolW))]
		if _, dup := paths[pth]; dup {
			continue
		}
		pi := M{}
		for _, m := range allMethods {
			if !g.p(0.3) {
				continue
			}
			op := M{}
			// ids: unique; id-less operations only on distinct derived keys (see D10)
			id := fmt.Sprintf("%s%s%d", g.pick([]string{"get", "list", "create"}), g.pick([]string{"Pet", "User", "Thing"}), ids.n)
			ids.n++
			if g.p(0.85) {
				op["operationId"] = id
			} else {
				g.hit("op:noid")
			}
			var ps []any
			if g.p(0.5) {
				if len(params) > 0 && g.p(0.4) {
					ps = append(ps, M{"$ref": "#/parameters/" + jsonPtrEscape(sortedMapKeys(params)[g.n(len(params))])})
					g.hit("op:paramref")
				} else {
					ps = append(ps, M{"name": "body", "in": "body", "schema": b.bschema("", 2, 0.35)})
				}
			}
			if g.p(0.3) {
				ps = append(ps, M{"name": "q", "in": "query", "type": "string"})
			}
			if ps != nil {
				op["parameters"] = ps
			}
			rs := M{}
			for _, code := range []string{"200", "404", "default"} {
				if !g.p(0.45) {
					continue
				}
				if len(resps) > 0 && g.p(0.3) {
					rs[code] = M{"$ref": "#/responses/" + jsonPtrEscape(sortedMapKeys(resps)[g.n(len(resps))])}
					g.hit("op:respref")
				} else {
					r := M{"description": "r"}
					if g.p(0.75) {
						r["schema"] = b.bschema("", 2, 0.35)
					}
					rs[code] = r
				}
			}
			if len(rs) == 0 {
				rs["200"] = M{"description": "ok"}
			}
			op["responses"] = rs
			pi[m] = op
			g.hit("method:" + m)
		}
		if g.p(0.3) {
			pi["parameters"] = []any{M{"name": "body", "in": "body", "schema": b.bschema("", 2, 0.3)}}
			g.hit("pathitem:params")
		}
		paths[pth] = pi
	}
	b.injectScenario(o.Scenario, rootDefs, paths, aux)
	root := M{"swagger": "2.0", "info": M{"title": "t", "version": "1"}, "paths": paths, "definitions": rootDefs}
	if len(params) > 0 {
		root["parameters"] = params
	}
	if len(resps) > 0 {
		root["responses"] = resps
	}
	return &Bundle{Root: root, Aux: aux, Feat: g.feat}
}

// injectScenario plants an interplay shape that W allows but that independent random choices rarely produce together.
func (b *bgen) injectScenario(name string, rootDefs, paths M, aux map[string]M) {
	g := b.Gen
	resp := func(schema M) M {
		b.scnOps++
		return M{"operationId": fmt.Sprintf("scenarioOp%d", b.scnOps), "responses": M{"200": M{"description": "scenario", "schema": schema}}}
	}
	switch name {
	case "collide-pointer":
		// an imported $ref-free definition collides by name with a root definition; the $ref to it is a direct sub-schema of
		// another root definition; an anonymous pointer designates that very sub-schema
		if len(b.auxPaths) == 0 {
			return
		}
		ap := b.auxPaths[0]
		rn := b.rootDefs[g.n(len(b.rootDefs))]
		cn := rn
		if g.p(0.4) && rn[0] >= 'a' && rn[0] <= 'z' {
			cn = strings.ToUpper(rn[:1]) + rn[1:]
		}
		aux[ap]["definitions"].(M)[cn] = b.refFreeSchema(1)
		holder := "holder" + fmt.Sprint(g.n(3))
		prop := g.pick([]string{"item", "a b", "x/y", "t~x"})
		auxRef := relRef("", ap) + "#/definitions/" + urlFragEscape(jsonPtrEscape(cn))
		rootDefs[holder] = M{"type": "object", "properties": M{prop: M{"$ref": auxRef}, "n": M{"type": "integer"}}}
		paths["/scn/pointer"] = M{"get": resp(M{"$ref": "#/definitions/" + jsonPtrEscape(holder) + "/properties/" + jsonPtrEscape(prop)})}
		if g.p(0.6) {
			paths["/scn/root"] = M{"get": resp(M{"$ref": "#/definitions/" + jsonPtrEscape(rn)})}
		}
		if g.p(0.4) {
			paths["/scn/direct"] = M{"post": resp(M{"type": "array", "items": M{"$ref": auxRef}})}
		}
		g.hit("scenario:collide-pointer")
	case "collide-many":
		// several imported definitions collide with the same root name (exactly and up to case), referenced from several places
		if len(b.auxPaths) == 0 {
			return
		}
		rn := b.rootDefs[g.n(len(b.rootDefs))]
		for i, ap := range b.auxPaths {
			cn := rn
			if i%2 == 1 && rn[0] >= 'a' && rn[0] <= 'z' {
				cn = strings.ToUpper(rn[:1]) + rn[1:]
			}
			aux[ap]["definitions"].(M)[cn] = b.refFreeSchema(1)
			auxRef := relRef("", ap) + "#/definitions/" + urlFragEscape(jsonPtrEscape(cn))
			paths[fmt.Sprintf("/scn/many%d", i)] = M{"get": resp(M{"$ref": auxRef}), "put": resp(M{"type": "object", "properties": M{"v": M{"$ref": auxRef}}})}
		}
		paths["/scn/root"] = M{"get": resp(M{"$ref": "#/definitions/" + jsonPtrEscape(rn)})}
		g.hit("scenario:collide-many")
	case "unused-chain":
		// definitions that become unused only after another one is removed, through names that need escaping
		a, c := g.pick([]string{"legacy/item", "old~v1", "dead code", "zz"}), g.pick([]string{"leaf", "Leaf node", "l/2"})
		rootDefs[a] = M{"type": "object", "properties": M{"next": M{"$ref": "#/definitions/" + jsonPtrEscape(c)}}}
		rootDefs[c] = M{"type": "string"}
		g.hit("scenario:unused-chain")
	}
}
