package main

import (
	"fmt"
	"net/url"
	"strconv"
	"strings"

	"github.com/go-openapi/swag"
	"time"
)

// stream `flatten`: one case = (bundle in W, option set); the implementation part runs in child processes.
var flattenStream = (&StreamSpec{
	Name:   "flatten",
	Op:     "flatten",
	N:      132, // bundles; each is run under the 6 option sets (+KeepNames on some single-document bundles)
	Stream: 1,
	Rule:   "bundles of W from the bundle generator (root + 0..3 auxiliary JSON files in nested directories; $refs local / cross-file / aux-to-aux / self- and mutually recursive / arrays and maps of themselves / anonymous pointers to sub-schemas of root definitions and to shared parameter/response schemas where W allows them; parameter and response $refs to shared objects; names over the alphabet; colliding imported $ref-free definitions) x option sets {Minimal, full, Expand} x {RemoveUnused}; per case: Flatten in a child process, 3 repeats + 2 loads with permuted key order, second Flatten on the output, analyzer digest vs fresh analysis, every k-th load failing; Lean validators on (input bundle, output); non-trivial = Flatten returned nil; distinct by canonical JSON",
	Gen:    nil,
	Corpus: flattenCorpus,
	ImplBatch: func(ins []any) []any {
		return runInChildren("flatten", ins, 25*time.Second, 14)
	},
	DriverIn:   flattenDriverIn,
	Nontrivial: func(c *Case) bool { return get(c.Impl, "ok", "out") != nil },
	Compare: func(c *Case, out any) []Finding {
		cyc, _ := get(out, "cyclicInput").(bool)
		fs := flattenFindings(c, cyc)
		fs = append(fs, flattenLeanFindings(c, out)...)
		// known cause (finding D12): with KeepNames, the names Flatten creates from keys are not mangled (segments joined
		// with spaces, property names kept as they are) while $refs and paths to them are built and compared without
		// JSON-pointer / URL escaping.  Applies when a definition had to be created (or Flatten failed trying).
		o := optsOf(get(c.In, "opts"))
		if o.KeepNames {
			created, _ := get(out, "newDefinitions").([]any)
			failed := get(c.Impl, "ok", "flattenErr") != nil
			if len(created) > 0 || failed || !o.Minimal || hasAnonymousPointer(get(c.In, "bundle", "root")) {
				for i := range fs {
					if fs[i].Kind == "property" && !strings.Contains(fs[i].Signature, ":hang:") && !strings.Contains(fs[i].Signature, ":crash:") && !strings.Contains(fs[i].Signature, ":panic:") {
						fs[i].Signature = "flatten:keepNames-created-names"
					}
				}
			}
		}
		// known cause (finding D16): an anonymous pointer to the schema of a shared parameter / response is sometimes left
		// in place by Minimal/full flattening (seen only with several such pointers, one of them held inside a shared section)
		if nc, _ := get(out, "nonCanonical").([]any); len(nc) > 0 {
			all := true
			for _, e := range nc {
				pair, _ := e.([]any)
				tgt, holder := "", ""
				if len(pair) == 2 {
					holder, _ = pair[0].(string)
					tgt, _ = pair[1].(string)
				}
				if !(strings.HasPrefix(tgt, "#/parameters/") || strings.HasPrefix(tgt, "#/responses/")) {
					all = false
				}
				// … and it got there as part of a copy: where it sits now, the input had another anonymous pointer, whose
				// target (a simple schema, inlined by Flatten) contains this pointer.  A pointer that Flatten simply did not
				// process where it stood is a different failure.
				if !copiedWithPointerTarget(get(c.In, "bundle", "root"), holder, tgt) {
					all = false
				}
			}
			if all {
				for i := range fs {
					for _, cl := range []string{":non-canonical-ref:", ":not-idempotent:", ":second-error:", ":dangling-ref:", ":not-normal-form:"} {
						if strings.Contains(fs[i].Signature, cl) {
							fs[i].Signature = "flatten:pointer-to-shared-schema-left-in-place"
						}
					}
				}
			}
		}
		// known cause (finding D10): two operations without operationId whose derived key ToGoName(method+" "+path) collides
		if idlessKeyCollision(get(c.In, "bundle", "root")) {
			for i := range fs {
				for _, cl := range []string{":inline-complex:", ":nondeterministic:", ":not-idempotent:", ":second-error:", ":not-normal-form:"} {
					if strings.Contains(fs[i].Signature, cl) {
						fs[i].Signature = "flatten:idless-operations-with-colliding-derived-key"
					}
				}
			}
		}
		// known cause (finding D18): an inline complex schema in a path-level body parameter gets one candidate name per
		// operation of the path; when two of those names are equal up to letter case the second one is an OAIGen name and
		// the follow-up rewriting fails on nested inline schemas
		if sharedParamNameTwins(get(c.In, "bundle", "root")) {
			for i := range fs {
				if strings.Contains(fs[i].Signature, ":error:") || strings.Contains(fs[i].Signature, ":error-on-repeat:") ||
					strings.Contains(fs[i].Signature, ":nondeterministic:") || strings.Contains(fs[i].Signature, ":second-error:") {
					fs[i].Signature = "flatten:path-level-body-schema-named-per-operation-with-case-twin-names"
				}
			}
		}
		// known cause (finding D17): an operation without operationId whose derived key equals the explicit id of another
		// operation: GatherOperations registers both under one name, one of them gets no candidate name (deterministically)
		if idlessKeyEqualsID(get(c.In, "bundle", "root")) {
			for i := range fs {
				for _, cl := range []string{":inline-complex:", ":not-normal-form:"} {
					if strings.Contains(fs[i].Signature, cl) {
						fs[i].Signature = "flatten:idless-operation-key-equals-another-operation-id"
					}
				}
			}
		}
		// known cause: a path item that has parameters but no operation gets no name for its inline schemas (finding D13)
		for i := range fs {
			if (strings.HasPrefix(fs[i].Signature, "flatten:inline-complex:") || strings.HasPrefix(fs[i].Signature, "flatten:not-normal-form:")) && onlyOperationlessPaths(c, out) {
				fs[i].Signature = "flatten:inline-complex:path-level-parameter-of-path-without-operation"
			}
		}
		return fs
	},
}).register()

func init() {
	// the generator yields 6 cases per bundle index: option set = index mod 6, bundle seed = index / 6
	flattenStream.Gen = func(g *Gen, i int) (any, string) {
		o := optionSets[i%len(optionSets)]
		gb := NewGen(g.seed, 1<<40|uint64(i/len(optionSets)))
		in := flattenCase(gb, o, false, 3, 2, true, i/len(optionSets))
		mergeFeat(g.feat, gb.feat)
		g.hit("opts:" + o.String())
		return in, o.String()
	}
	n := flattenStream.N
	flattenStream.N = n * len(optionSets)
}

// onlyOperationlessPaths: every inline complex schema reported lies under the parameters of a path item without operations.
func onlyOperationlessPaths(c *Case, out any) bool {
	ic, _ := get(out, "inlineComplex").([]any)
	if len(ic) == 0 {
		return false
	}
	paths, _ := get(c.In, "bundle", "root", "paths").(map[string]any)
	for _, k := range ic {
		key, _ := k.(string)
		ok := false
		for p, pi := range paths {
			prefix := "#/paths/" + jsonPtrEscape(p) + "/parameters/"
			if strings.HasPrefix(key, prefix) {
				hasOp := false
				for _, m := range allMethods {
					if _, has := pi.(map[string]any)[m]; has {
						hasOp = true
					}
				}
				ok = !hasOp
			}
		}
		if !ok {
			return false
		}
	}
	return true
}

// hasAnonymousPointer: some $ref of the document is not of the form #/definitions/<name>, #/parameters/<name>, #/responses/<name>.
func hasAnonymousPointer(doc any) bool {
	found := false
	var walk func(v any)
	walk = func(v any) {
		switch x := v.(type) {
		case map[string]any:
			if r, ok := x["$ref"].(string); ok && strings.HasPrefix(r, "#/") && strings.Count(r, "/") > 2 {
				found = true
			}
			for _, e := range x {
				walk(e)
			}
		case []any:
			for _, e := range x {
				walk(e)
			}
		}
	}
	walk(doc)
	return found
}

// idlessKeyCollision: two operations without operationId share the key GatherOperations derives for them.
func idlessKeyCollision(doc any) bool {
	seen := map[string]bool{}
	paths, _ := get(doc, "paths").(map[string]any)
	for p, pi := range paths {
		pm, _ := pi.(map[string]any)
		for _, m := range allMethods {
			op, ok := pm[m].(map[string]any)
			if !ok {
				continue
			}
			if id, _ := op["operationId"].(string); id != "" {
				continue
			}
			k := swag.ToGoName(m + " " + p)
			if seen[k] {
				return true
			}
			seen[k] = true
		}
	}
	return false
}

// sharedParamNameTwins: a path item with an inline complex body schema among its path-level parameters, nested one level
// at least, and two operations whose (mangled) ids are equal up to letter case.
func sharedParamNameTwins(doc any) bool { return sharedParamTwins(doc, true) }

// sharedParamTwins: … with requireNested = false, any inline object schema in a path-level body parameter counts.
func sharedParamTwins(doc any, requireNested bool) bool {
	paths, _ := get(doc, "paths").(map[string]any)
	for p, pi := range paths {
		pm, _ := pi.(map[string]any)
		nested := false
		if ps, ok := pm["parameters"].([]any); ok {
			for _, prm := range ps {
				sch, _ := get(prm, "schema").(map[string]any)
				props, _ := sch["properties"].(map[string]any)
				if !requireNested && len(props) > 0 {
					nested = true
				}
				for _, v := range props {
					if vm, ok := v.(map[string]any); ok {
						if _, has := vm["properties"]; has {
							nested = true
						}
					}
				}
			}
		}
		if !nested {
			continue
		}
		var names []string
		for _, m := range allMethods {
			op, ok := pm[m].(map[string]any)
			if !ok {
				continue
			}
			id, _ := op["operationId"].(string)
			if id == "" {
				id = swag.ToGoName(m + " " + p)
			}
			names = append(names, swag.ToJSONName(id+" params body"))
		}
		for i := range names {
			for j := i + 1; j < len(names); j++ {
				if strings.EqualFold(names[i], names[j]) {
					return true
				}
			}
		}
	}
	return false
}

// idlessKeyEqualsID: the key GatherOperations derives for an operation without operationId is the explicit id of another one.
func idlessKeyEqualsID(doc any) bool {
	keys := map[string]bool{}
	ids := map[string]bool{}
	paths, _ := get(doc, "paths").(map[string]any)
	for p, pi := range paths {
		pm, _ := pi.(map[string]any)
		for _, m := range allMethods {
			op, ok := pm[m].(map[string]any)
			if !ok {
				continue
			}
			if id, _ := op["operationId"].(string); id != "" {
				ids[id] = true
			} else {
				keys[swag.ToGoName(m+" "+p)] = true
			}
		}
	}
	for k := range keys {
		if ids[k] {
			return true
		}
	}
	return false
}

// copiedWithPointerTarget: in the input document, some prefix of the holder's position carries an anonymous pointer q != ref
// whose target contains {"$ref": ref} (D16: the target was inlined together with the pointer it holds).
func copiedWithPointerTarget(root any, holderKey, ref string) bool {
	toks := ptrTokens(strings.TrimPrefix(holderKey, "#"))
	cur := root
	for i := 0; i <= len(toks); i++ {
		if m, ok := cur.(map[string]any); ok {
			if q, ok := m["$ref"].(string); ok && q != ref && strings.HasPrefix(q, "#/") {
				if tgt, ok := ptrResolve(root, ptrTokens(strings.TrimPrefix(q, "#"))); ok && containsRef(tgt, ref) {
					return true
				}
			}
		}
		if i == len(toks) {
			break
		}
		next, ok := ptrStep(cur, toks[i])
		if !ok {
			break
		}
		cur = next
	}
	return false
}

func ptrTokens(p string) []string {
	if p == "" {
		return nil
	}
	if u, err := url.PathUnescape(p); err == nil {
		p = u
	}
	var out []string
	for _, t := range strings.Split(strings.TrimPrefix(p, "/"), "/") {
		out = append(out, strings.ReplaceAll(strings.ReplaceAll(t, "~1", "/"), "~0", "~"))
	}
	return out
}

func ptrStep(cur any, tok string) (any, bool) {
	switch v := cur.(type) {
	case map[string]any:
		n, ok := v[tok]
		return n, ok
	case []any:
		i, err := strconv.Atoi(tok)
		if err != nil || i < 0 || i >= len(v) {
			return nil, false
		}
		return v[i], true
	}
	return nil, false
}

func ptrResolve(root any, toks []string) (any, bool) {
	cur := root
	for _, t := range toks {
		n, ok := ptrStep(cur, t)
		if !ok {
			return nil, false
		}
		cur = n
	}
	return cur, true
}

func containsRef(node any, ref string) bool {
	switch v := node.(type) {
	case map[string]any:
		if r, ok := v["$ref"].(string); ok && r == ref {
			return true
		}
		for _, c := range v {
			if containsRef(c, ref) {
				return true
			}
		}
	case []any:
		for _, c := range v {
			if containsRef(c, ref) {
				return true
			}
		}
	}
	return false
}

// flattenCorpus: minimised past failures and hand-written edge cases, always run first (each under all option sets).
func flattenCorpus() []any {
	info := M{"title": "t", "version": "1"}
	okResp := func(schema M) M {
		return M{"200": M{"description": "x", "schema": schema}}
	}
	roots := []M{
		// D6: used definition whose name needs URL escaping; unused definitions whose names need pointer escaping
		{"swagger": "2.0", "info": info, "paths": M{"/a": M{"get": M{"operationId": "getA", "responses": okResp(M{"$ref": "#/definitions/my def"})}}},
			"definitions": M{"my def": M{"type": "string"}, "a/b": M{"type": "string"}, "til~de": M{"type": "integer"}, "chain1": M{"$ref": "#/definitions/chain2"}, "chain2": M{"type": "string"}}},
		// D7: property names with '/' and '~' under full flattening
		{"swagger": "2.0", "info": info, "paths": M{"/a": M{"get": M{"operationId": "getA", "responses": okResp(M{"$ref": "#/definitions/my def"})}}},
			"definitions": M{"my def": M{"type": "object", "properties": M{"a b": M{"type": "object", "properties": M{"x/y": M{"type": "object", "properties": M{"q": M{"type": "string"}}}, "t~x": M{"type": "object", "properties": M{"r": M{"type": "string"}}}}}}}}},
		// D8: existing names equal to generated ones up to case
		{"swagger": "2.0", "info": info, "paths": M{"/a": M{"get": M{"operationId": "getA", "responses": okResp(M{"$ref": "#/definitions/pet"})}}},
			"definitions": M{"pet": M{"type": "object", "properties": M{"owner": M{"type": "object", "properties": M{"n": M{"type": "string"}}}}}, "PetOwner": M{"type": "integer"}, "PETOWNEROAIGEN": M{"type": "integer"}}},
		// D10: id-less operations with colliding derived key
		{"swagger": "2.0", "info": info, "paths": M{
			"/a-b": M{"get": M{"responses": okResp(M{"type": "object", "properties": M{"p": M{"type": "string"}}})}},
			"/a_b": M{"get": M{"responses": okResp(M{"type": "object", "properties": M{"q": M{"type": "string"}}})}}}},
		// D9 inside W: nested map of itself
		{"swagger": "2.0", "info": info, "paths": M{"/a": M{"get": M{"operationId": "getA", "responses": okResp(M{"$ref": "#/definitions/my def"})}}},
			"definitions": M{"my def": M{"type": "object", "additionalProperties": M{"type": "object", "additionalProperties": M{"type": "object", "additionalProperties": M{"$ref": "#/definitions/my def"}}}}}},
	}
	var out []any
	for _, r := range roots {
		for _, o := range optionSets {
			out = append(out, M{"bundle": M{"root": r, "aux": M{}}, "opts": o.toJSON(), "repeats": 3, "permutes": 2, "faults": false, "plainNames": false})
		}
	}
	// D11: '#' in the name of an imported definition
	d11 := M{"root": M{"swagger": "2.0", "info": info, "paths": M{"/p": M{"get": M{"operationId": "g", "responses": okResp(M{"$ref": "aux/a.json#/definitions/user"})}}}},
		"aux": M{"aux/a.json": M{"definitions": M{"user": M{"type": "object", "properties": M{"v": M{"$ref": "deep/b.json#/definitions/a%23b"}}}}},
			"aux/deep/b.json": M{"definitions": M{"a#b": M{"type": "object", "properties": M{"k": M{"type": "string"}}}}}}}
	for _, o := range optionSets {
		out = append(out, M{"bundle": d11, "opts": o.toJSON(), "repeats": 3, "permutes": 2, "faults": true, "plainNames": false})
	}
	return out
}

// flattenPlusCorpus: the inputs of the repaired C09 defects, always run first (each under the six option sets).
func flattenPlusCorpus() []any {
	info := M{"title": "t", "version": "1"}
	resp := func(schemas ...M) M {
		rs := M{}
		for i, s := range schemas {
			rs[fmt.Sprint(200+i)] = M{"description": "x", "schema": s}
		}
		return rs
	}
	self := "#/definitions/tree/properties/children"
	bundles := []M{
		// fix 6dcc395: a sub-schema that contains itself through an anonymous pointer, with a second caller
		{"root": M{"swagger": "2.0", "info": info,
			"paths":       M{"/trees": M{"get": M{"operationId": "listTrees", "responses": resp(M{"$ref": "#/definitions/tree"}, M{"$ref": self})}}},
			"definitions": M{"tree": M{"type": "object", "properties": M{"label": M{"type": "string"}, "children": M{"type": "object", "additionalProperties": M{"$ref": self}}}}}},
			"aux": M{}, "what": "self-containing-pointer-target"},
		// fix 3893d90: an imported definition that collides by name and is an array / a map of itself
		{"root": M{"swagger": "2.0", "info": info,
			"paths":       M{"/a": M{"get": M{"operationId": "g", "responses": resp(M{"$ref": "aux/a.json#/definitions/thing"}, M{"$ref": "#/definitions/thing"})}}},
			"definitions": M{"thing": M{"type": "object", "properties": M{"v": M{"type": "string"}}}}},
			"aux": M{"aux/a.json": M{"definitions": M{"thing": M{"type": "array", "items": M{"$ref": "#/definitions/thing"}}}}}, "what": "collision-array-of-itself"},
		{"root": M{"swagger": "2.0", "info": info,
			"paths":       M{"/a": M{"get": M{"operationId": "g", "responses": resp(M{"$ref": "aux/a.json#/definitions/thing"}, M{"$ref": "#/definitions/thing"})}}},
			"definitions": M{"thing": M{"type": "object", "properties": M{"v": M{"type": "string"}}}}},
			"aux": M{"aux/a.json": M{"definitions": M{"thing": M{"type": "object", "additionalProperties": M{"$ref": "#/definitions/thing"}}}}}, "what": "collision-map-of-itself"},
	}
	var out []any
	for _, b := range bundles {
		for _, o := range optionSets {
			out = append(out, M{"bundle": M{"root": b["root"], "aux": b["aux"]}, "opts": o.toJSON(), "repeats": 0, "permutes": 0, "faults": true, "plainNames": false, "mustFail": false, "plus": true, "plusWhat": b["what"]})
		}
	}
	return out
}

// stream `flattenPlus` (C09): bundles of the wider class W+, only the fail-safe clauses are checked.
var flattenPlusStream = (&StreamSpec{
	Name:   "flattenPlus",
	Op:     "ping",
	N:      360,
	Stream: 9,
	Rule:   "bundles of W+ (a W bundle plus 1..2 of: anonymous pointer to a boolean additionalProperties / a tuple / an operation / a non-schema object, pointers nested in pointer targets and pointer cycles, references from auxiliary documents back to the root, collisions of imported definitions that contain $refs, dangling local / cross-file $refs, missing files) x the 6 option sets, each Flatten in a child process (25 s), every k-th load failing; checked: no panic, no crash, no hang, error when a planted $ref cannot be resolved; non-trivial = all; distinct by canonical JSON",
	ImplBatch: func(ins []any) []any {
		return runInChildren("flatten", ins, 25*time.Second, 14)
	},
	Corpus:     flattenPlusCorpus,
	Nontrivial: func(c *Case) bool { return true },
	Compare: func(c *Case, out any) []Finding {
		return flattenFindings(c, false)
	},
}).register()

func init() {
	flattenPlusStream.Gen = func(g *Gen, i int) (any, string) {
		o := optionSets[i%len(optionSets)]
		gb := NewGen(g.seed, 2<<40|uint64(i/len(optionSets)))
		in := flattenCase(gb, o, true, 0, 0, true, i/len(optionSets))
		mergeFeat(g.feat, gb.feat)
		return in, o.String()
	}
	replayers["flattenPlus"] = replayers["ping"]
}
