package main

import (
	"fmt"

	"github.com/go-openapi/analysis"
)

// stream `fix` (C19): FixEmptyResponseDescriptions vs Fixer.fix, with Spec.Fixer as oracle.
var fixStream = (&StreamSpec{
	Name:   "fix",
	Op:     "fix",
	N:      400,
	Stream: 19,
	Rule:   "documents from the type-directed generator (0-4 paths, any subset of the 7 methods, responses inline with/without/empty description or $ref, default and status-code, shared responses, operations without responses, documents without paths), in serialization normal form; non-trivial = has at least one response object; distinct by canonical JSON",
	Corpus: func() []any {
		return normalFormAll([]any{
			M{"swagger": "2.0", "info": M{"title": "t", "version": "1"}, "paths": M{"/a": M{"get": M{"operationId": "getA"}}}},
			M{"swagger": "2.0", "info": M{"title": "t", "version": "1"}},
			M{"swagger": "2.0", "info": M{"title": "t", "version": "1"}, "paths": M{}, "responses": M{"r": M{"description": ""}}},
			M{"swagger": "2.0", "info": M{"title": "t", "version": "1"}, "paths": M{"/a": M{"options": M{"responses": M{"200": M{"description": ""}, "default": M{"description": ""}}}, "head": M{"responses": M{"404": M{"$ref": "#/responses/r"}}}, "patch": M{"responses": M{"default": M{"description": "x"}}}}}},
		})
	},
	Gen: func(g *Gen, i int) (any, string) {
		g.MaxDepth = 2
		return normalFormDoc(g.Doc(DocOpts{NoPathsProb: 0.1})), ""
	},
	Impl: func(in any) any {
		sw, err := loadSwagger(in)
		if err != nil {
			return M{"err": "load: " + err.Error()}
		}
		return protect(func() any {
			analysis.FixEmptyResponseDescriptions(sw)
			return swaggerJSON(sw)
		})
	},
	Nontrivial: func(c *Case) bool { return true },
	Compare: func(c *Case, out any) []Finding {
		var fs []Finding
		switch outcomeTag(c.Impl) {
		case "panic":
			fs = append(fs, Finding{Kind: "property", Detail: "FixEmptyResponseDescriptions panics on a loadable document: " + fmt.Sprint(get(c.Impl, "panic")), Signature: "fix:panic"})
		case "ok":
			if post, ok := get(out, "spec", "implPost").(bool); ok && !post {
				fs = append(fs, Finding{Kind: "property", Detail: "after the call a non-$ref response still has an empty description", Signature: "fix:postcondition"})
			}
			if fr, ok := get(out, "spec", "implFrame").(bool); ok && !fr {
				fs = append(fs, Finding{Kind: "property", Detail: "the call changed something other than empty descriptions of non-$ref responses", Signature: "fix:frame"})
			}
		}
		fs = append(fs, cmpOutcomeDocs(c, out, "model")...)
		return fs
	},
}).register()
