package main

import (
	"encoding/json"
	"fmt"
	"reflect"
	"sort"
	"strings"

	"github.com/go-openapi/analysis"
	"github.com/go-openapi/spec"
)

// normRefs rewrites every string-valued "$ref" of a raw JSON document into the normal form spec.Ref.String() yields,
// so that the model can treat $ref values as opaque strings.  Returns nil when a $ref does not parse.
func normRefs(v any) any {
	switch x := v.(type) {
	case map[string]any:
		o := make(map[string]any, len(x))
		for k, e := range x {
			if k == "$ref" {
				if s, ok := e.(string); ok {
					r, err := spec.NewRef(s)
					if err != nil {
						return nil
					}
					o[k] = r.String()
					continue
				}
			}
			ne := normRefs(e)
			if ne == nil && e != nil {
				return nil
			}
			o[k] = ne
		}
		return o
	case []any:
		o := make([]any, len(x))
		for i, e := range x {
			ne := normRefs(e)
			if ne == nil && e != nil {
				return nil
			}
			o[i] = ne
		}
		return o
	}
	return v
}

func sortedStrings(xs []string) []any {
	s := append([]string{}, xs...)
	sort.Strings(s)
	out := make([]any, len(s))
	for i, x := range s {
		out[i] = x
	}
	return out
}

func toAny(v any) any {
	b, _ := json.Marshal(v)
	var out any
	_ = json.Unmarshal(b, &out)
	return out
}

// analyzeImpl runs analysis.New and renders every index in the shape of Index.toJson, plus the consistency of the
// public getters with the private maps and the resolution of every SchemaRef.Ref against the document.
func analyzeImpl(in any) any {
	sw, err := loadSwagger(in)
	if err != nil {
		return M{"err": "load: " + err.Error()}
	}
	return protect(func() any {
		an := analysis.New(sw)
		out := renderIndex(an, sw)
		// the analyzer is re-used after the document has been rewritten in place (what Flatten does after every step):
		// after reload() it must say about the rewritten document what a fresh analyzer says
		mutateForReload(sw)
		an.VerifReload()
		again, fresh := renderIndex(an, sw), renderIndex(analysis.New(sw), sw)
		stale := []any{}
		ai, fi := again["index"].(M), fresh["index"].(M)
		for _, k := range sortedKeysM(fi) {
			if !jsonEq(toAny(ai[k]), toAny(fi[k])) {
				stale = append(stale, k)
			}
		}
		for _, k := range []string{"unresolved", "getterMismatch"} {
			if !jsonEq(toAny(again[k]), toAny(fresh[k])) {
				stale = append(stale, k)
			}
		}
		out["reloadStale"] = stale
		return out
	})
}

func sortedKeysM(m M) []string {
	ks := make([]string, 0, len(m))
	for k := range m {
		ks = append(ks, k)
	}
	sort.Strings(ks)
	return ks
}

// mutateForReload rewrites the document in place: the first definition (in key order) goes, one is added which has
// a $ref, an allOf member, a pattern and an enum, and the first path goes.
func mutateForReload(sw *spec.Swagger) {
	names := make([]string, 0, len(sw.Definitions))
	for k := range sw.Definitions {
		names = append(names, k)
	}
	sort.Strings(names)
	if len(names) > 0 {
		delete(sw.Definitions, names[0])
	}
	if sw.Definitions == nil {
		sw.Definitions = spec.Definitions{}
	}
	added := spec.Schema{}
	added.AllOf = []spec.Schema{*spec.RefSchema("#/definitions/zz~1re loaded")}
	prop := spec.Schema{}
	prop.Type = spec.StringOrArray{"string"}
	prop.Pattern = "^z$"
	prop.Enum = []any{"z"}
	added.Properties = map[string]spec.Schema{"p/q": prop}
	sw.Definitions["zz/re loaded"] = added
	if sw.Paths != nil {
		paths := make([]string, 0, len(sw.Paths.Paths))
		for k := range sw.Paths.Paths {
			paths = append(paths, k)
		}
		sort.Strings(paths)
		if len(paths) > 0 {
			delete(sw.Paths.Paths, paths[0])
		}
	}
}

// renderIndex renders every index of an analyzer in the shape of Index.toJson, plus the consistency of the public
// getters with the private maps and the resolution of every SchemaRef.Ref against the document.
func renderIndex(an *analysis.Spec, sw *spec.Swagger) M {
	{
		d := an.VerifDump()
		schemas := M{}
		allOfs := d["allOfs"].(map[string]analysis.VerifSchemaRef)
		unresolved := []any{}
		for k, v := range d["schemas"].(map[string]analysis.VerifSchemaRef) {
			_, isAllOf := allOfs[k]
			schemas[k] = M{"name": v.Name, "top": v.TopLevel, "allOf": isAllOf, "ref": v.Schema.Ref.String()}
			// C12: the JSON-pointer reference resolves, against the document, to that very schema
			ref, err := spec.NewRef(v.Ref)
			ok := false
			if err == nil {
				got, _, err := ref.GetPointer().Get(sw)
				if err == nil {
					switch g := got.(type) {
					case *spec.Schema:
						ok = g == v.Schema || reflect.DeepEqual(g, v.Schema)
					case spec.Schema:
						ok = reflect.DeepEqual(&g, v.Schema)
					case *spec.SchemaOrArray:
						ok = g != nil && g.Schema != nil && reflect.DeepEqual(g.Schema, v.Schema)
					case *spec.SchemaOrBool:
						ok = g != nil && g.Schema != nil && reflect.DeepEqual(g.Schema, v.Schema)
					}
				}
			}
			if !ok || "#"+strings.TrimPrefix(k, "#") != k {
				unresolved = append(unresolved, k)
			}
		}
		// public getters vs private maps (values with multiplicity)
		vals := func(m map[string]string) []string {
			out := make([]string, 0, len(m))
			for _, v := range m {
				out = append(out, v)
			}
			return out
		}
		refs := d["refs"].(map[string]map[string]string)
		getterMismatch := []any{}
		cmp := func(name string, got []string, want []string) {
			if !jsonEq(sortedStrings(got), sortedStrings(want)) {
				getterMismatch = append(getterMismatch, name)
			}
		}
		cmp("AllDefinitionReferences", an.AllDefinitionReferences(), vals(refs["schema"]))
		cmp("AllParameterReferences", an.AllParameterReferences(), vals(refs["parameter"]))
		cmp("AllResponseReferences", an.AllResponseReferences(), vals(refs["response"]))
		cmp("AllPathItemReferences", an.AllPathItemReferences(), vals(refs["pathItem"]))
		cmp("AllItemsReferences", an.AllItemsReferences(), vals(d["itemsRefs"].(map[string]string)))
		cmp("AllReferences", an.AllReferences(), vals(d["allRefs"].(map[string]string)))
		uniq := map[string]bool{}
		for _, v := range d["allRefs"].(map[string]string) {
			if v != "" {
				uniq[v] = true
			}
		}
		var gotUniq []string
		for _, r := range an.AllRefs() {
			gotUniq = append(gotUniq, r.String())
		}
		var wantUniq []string
		for k := range uniq {
			wantUniq = append(wantUniq, k)
		}
		cmp("AllRefs", gotUniq, wantUniq)
		pubMaps := map[string]any{
			"ParameterPatterns": an.ParameterPatterns(), "HeaderPatterns": an.HeaderPatterns(), "ItemsPatterns": an.ItemsPatterns(),
			"SchemaPatterns": an.SchemaPatterns(), "AllPatterns": an.AllPatterns(),
			"ParameterEnums": an.ParameterEnums(), "HeaderEnums": an.HeaderEnums(), "ItemsEnums": an.ItemsEnums(),
			"SchemaEnums": an.SchemaEnums(), "AllEnums": an.AllEnums(),
		}
		pats := d["patterns"].(map[string]map[string]string)
		enums := d["enums"].(map[string]map[string][]interface{})
		privMaps := map[string]any{
			"ParameterPatterns": pats["parameter"], "HeaderPatterns": pats["header"], "ItemsPatterns": pats["items"],
			"SchemaPatterns": pats["schema"], "AllPatterns": d["allPatterns"],
			"ParameterEnums": enums["parameter"], "HeaderEnums": enums["header"], "ItemsEnums": enums["items"],
			"SchemaEnums": enums["schema"], "AllEnums": d["allEnums"],
		}
		for k, v := range pubMaps {
			if !jsonEq(toAny(v), toAny(privMaps[k])) {
				getterMismatch = append(getterMismatch, k)
			}
		}
		var defs, withAllOf []string
		for _, s := range an.AllDefinitions() {
			defs = append(defs, s.Ref.String())
		}
		for _, s := range an.SchemasWithAllOf() {
			withAllOf = append(withAllOf, s.Ref.String())
		}
		var wantDefs, wantAllOf []string
		for _, v := range d["schemas"].(map[string]analysis.VerifSchemaRef) {
			wantDefs = append(wantDefs, v.Ref)
		}
		for _, v := range allOfs {
			wantAllOf = append(wantAllOf, v.Ref)
		}
		cmp("AllDefinitions", defs, wantDefs)
		cmp("SchemasWithAllOf", withAllOf, wantAllOf)

		idx := M{
			"refs": toAny(d["refs"]), "itemsRefs": toAny(d["itemsRefs"]), "allRefs": toAny(d["allRefs"]),
			"patterns": toAny(d["patterns"]), "allPatterns": toAny(d["allPatterns"]),
			"enums": toAny(d["enums"]), "allEnums": toAny(d["allEnums"]),
			"schemas": schemas, "ops": toAny(d["ops"]),
			"consumes": sortedStrings(d["consumes"].([]string)), "produces": sortedStrings(d["produces"].([]string)), "auth": sortedStrings(d["auth"].([]string)),
		}
		return M{"index": idx, "unresolved": unresolved, "getterMismatch": getterMismatch}
	}
}

// normIndex puts a model/spec index in the comparison form (sets sorted, empty groups present).
func normIndex(v any) any {
	m, ok := clone(v).(map[string]any)
	if !ok {
		return v
	}
	for _, k := range []string{"consumes", "produces", "auth"} {
		if xs, ok := m[k].([]any); ok {
			ss := make([]string, 0, len(xs))
			for _, x := range xs {
				ss = append(ss, fmt.Sprint(x))
			}
			m[k] = sortedStrings(ss)
		}
	}
	return m
}

// indexSections lists which top-level parts of the index each property is about.
var indexSections = map[string][]string{
	"C11": {"refs", "itemsRefs", "allRefs"},
	"C12": {"schemas"},
	"C13": {"patterns", "allPatterns", "enums", "allEnums"},
	"C14": {"ops", "consumes", "produces", "auth"},
}

func analyzeGenDoc(g *Gen) any {
	g.MaxDepth = 3
	g.PlantRefs = 0.25
	// one document in eight is outside the domain of C11-C13 (a non-body parameter carrying a schema: loadable, invalid
	// Swagger): only the correspondence between model and implementation is decided on those
	ood := g.p(0.125)
	g.DeepChains = true
	g.PointerLikeNames = true
	raw := g.Doc(DocOpts{NoPathsProb: 0.05, NonBodySchema: ood})
	if ood {
		g.hit("doc:out-of-domain-stream")
	}
	return normRefs(raw)
}

// hasNonBodySchema: some parameter that is not in: body carries a schema (outside the domain of C11-C13).
func hasNonBodySchema(doc any) bool {
	found := false
	check := func(p any) {
		pm, ok := p.(map[string]any)
		if !ok {
			return
		}
		if _, has := pm["schema"]; has {
			if in, _ := pm["in"].(string); in != "body" {
				found = true
			}
		}
	}
	if ps, ok := get(doc, "parameters").(map[string]any); ok {
		for _, p := range ps {
			check(p)
		}
	}
	if paths, ok := get(doc, "paths").(map[string]any); ok {
		for _, pi := range paths {
			pm, _ := pi.(map[string]any)
			for _, p := range asList(pm["parameters"]) {
				check(p)
			}
			for _, m := range allMethods {
				for _, p := range asList(get(pm[m], "parameters")) {
					check(p)
				}
			}
		}
	}
	return found
}

var analyzeStream = (&StreamSpec{
	Name:   "analyze",
	Op:     "analyze",
	N:      400,
	Stream: 11,
	Rule:   "documents from the type-directed generator ($ref / pattern / enum planted with independent probabilities at every schema-bearing keyword incl. patternProperties, nested definitions, anyOf/oneOf/not, additionalItems, tuples; parameters shared / path-level / operation-level, inline or $ref; headers of default / status-code / shared responses; nested simple-schema items; names over the C01 alphabet), $ref strings pre-normalised by jsonreference; non-trivial = at least one schema; distinct by canonical JSON",
	Corpus: func() []any {
		hdr := M{"type": "string", "enum": []any{"a", "b"}, "pattern": "^a"}
		return []any{
			// D1: header enum under the default response
			M{"swagger": "2.0", "info": M{"title": "t", "version": "1"}, "paths": M{"/a": M{"get": M{"operationId": "getA", "responses": M{
				"default": M{"description": "d", "headers": M{"X-H": hdr}}, "200": M{"description": "d", "headers": M{"X-H": hdr}}}}}}},
			M{"swagger": "2.0", "info": M{"title": "t", "version": "1"}},
			M{"swagger": "2.0", "info": M{"title": "t", "version": "1"}, "paths": M{"/x~y/{id}": M{"options": M{"responses": M{"200": M{"description": "", "schema": M{"$ref": "#/definitions/a~1b"}}}}}},
				"definitions": M{"a/b": M{"type": "object", "properties": M{"t~x": M{"type": "array", "items": []any{M{"$ref": "#/definitions/a~1b"}, M{"pattern": "x"}}, "additionalItems": M{"enum": []any{1}}}}}}},
		}
	},
	Gen:  func(g *Gen, i int) (any, string) { return analyzeGenDoc(g), "" },
	Impl: analyzeImpl,
	Nontrivial: func(c *Case) bool {
		return len(mustJSON(get(c.Impl, "ok", "index", "schemas"))) > 2
	},
	Compare: func(c *Case, out any) []Finding {
		var fs []Finding
		if t := outcomeTag(c.Impl); t != "ok" {
			if t == "panic" {
				return []Finding{{Kind: "property", Detail: "analysis.New panics on a loadable document: " + fmt.Sprint(get(c.Impl, "panic")), Signature: "analyze:panic"}}
			}
			return nil // not loadable: outside every quantifier
		}
		impl := get(c.Impl, "ok", "index")
		model := normIndex(get(out, "model"))
		specx := normIndex(get(out, "spec"))
		secs := indexSections[ctxProp]
		if secs == nil {
			secs = []string{"refs", "itemsRefs", "allRefs", "schemas", "patterns", "allPatterns", "enums", "allEnums", "ops", "consumes", "produces", "auth"}
		}
		ood := hasNonBodySchema(c.In)
		for _, s := range secs {
			if ood {
				break // outside the quantifier of C11-C13: observation only
			}
			if !jsonEq(get(impl, s), get(specx, s)) {
				fs = append(fs, Finding{Kind: "property", Detail: fmt.Sprintf("index %q differs from what the document contains: %s (left: expected from the document, right: analyzer)", s, firstDiff(get(specx, s), get(impl, s))), Signature: "analyze:index:" + s})
			}
		}
		if ctxProp == "C12" || ctxProp == "" {
			if un, _ := get(c.Impl, "ok", "unresolved").([]any); len(un) > 0 {
				fs = append(fs, Finding{Kind: "property", Detail: fmt.Sprintf("SchemaRef.Ref does not resolve to its schema for %v", un), Signature: "analyze:unresolved"})
			}
		}
		if gm, _ := get(c.Impl, "ok", "getterMismatch").([]any); len(gm) > 0 {
			fs = append(fs, Finding{Kind: "property", Detail: fmt.Sprintf("public getters disagree with the indexes: %v", gm), Signature: "analyze:getters"})
		}
		// the same analyzer, reloaded after the document has been rewritten in place, against a fresh one
		if st, _ := get(c.Impl, "ok", "reloadStale").([]any); len(st) > 0 {
			var mine []string
			for _, x := range st {
				k := fmt.Sprint(x)
				if k == "getterMismatch" || (k == "unresolved" && (ctxProp == "C12" || ctxProp == "")) {
					mine = append(mine, k)
					continue
				}
				for _, s := range secs {
					if s == k {
						mine = append(mine, k)
					}
				}
			}
			if len(mine) > 0 {
				fs = append(fs, Finding{Kind: "property", Detail: fmt.Sprintf("after the document is rewritten in place and the analyzer reloaded (as Flatten does), the analyzer disagrees with a fresh analysis of the same document on %v", mine), Signature: "analyze:reload-stale"})
			}
		}
		// correspondence: the model must agree with the implementation on every index (all sections: the model is shared)
		if !jsonEq(impl, model) {
			fs = append(fs, Finding{Kind: "correspondence", Detail: "model and implementation indexes differ: " + firstDiff(model, impl) + " (left: model, right: implementation)", Signature: "analyze:model-differs"})
		}
		return fs
	},
}).register()
