package main

import (
	"fmt"
	"sort"
	"strings"

	"github.com/go-openapi/analysis"
	"github.com/go-openapi/spec"
	"github.com/go-openapi/swag"
)

// tagNodes gives every operation, parameter and shared parameter of a raw document a unique "x-vh-id" extension,
// so that answers can name objects by identity.  Returns the tags of the operations.
func tagNodes(doc M) (opTags []string) {
	n := 0
	tag := func(m M, prefix string) string {
		n++
		t := fmt.Sprintf("%s%d", prefix, n)
		m["x-vh-id"] = t
		return t
	}
	tagParams := func(holder M) {
		if ps, ok := holder["parameters"].([]any); ok {
			for _, p := range ps {
				if pm, ok := p.(M); ok {
					tag(pm, "p")
				}
			}
		}
	}
	if ps, ok := doc["parameters"].(M); ok {
		for _, k := range sortedMapKeys(ps) {
			if pm, ok := ps[k].(M); ok {
				tag(pm, "sp")
			}
		}
	}
	if paths, ok := doc["paths"].(M); ok {
		for _, pk := range sortedMapKeys(paths) {
			pi, ok := paths[pk].(M)
			if !ok {
				continue
			}
			tagParams(pi)
			for _, m := range allMethods {
				if op, ok := pi[m].(M); ok {
					opTags = append(opTags, tag(op, "op"))
					tagParams(op)
				}
			}
		}
	}
	return opTags
}

func sortedMapKeys(m M) []string {
	ks := make([]string, 0, len(m))
	for k := range m {
		ks = append(ks, k)
	}
	sort.Strings(ks)
	return ks
}

// collectExt computes the external-function tables of a document with the real libraries.
func collectExt(doc any) M {
	goNames := M{}
	refToks := M{}
	var walk func(v any)
	walk = func(v any) {
		switch x := v.(type) {
		case map[string]any:
			if nm, ok := x["name"].(string); ok {
				goNames[nm] = swag.ToGoName(nm)
			}
			if r, ok := x["$ref"].(string); ok {
				ref, err := spec.NewRef(r)
				if err == nil && ref.GetPointer() != nil {
					toks := ref.GetPointer().DecodedTokens()
					out := make([]any, len(toks))
					for i, t := range toks {
						out[i] = t
					}
					refToks[r] = out
				}
			}
			for _, e := range x {
				walk(e)
			}
		case []any:
			for _, e := range x {
				walk(e)
			}
		}
	}
	walk(doc)
	goNames[""] = swag.ToGoName("")
	return M{"goNames": goNames, "refTokens": refToks}
}

func tagOfExt(e spec.Extensions) any {
	if v, ok := e["x-vh-id"]; ok {
		return v
	}
	return nil
}

func opsGen(g *Gen) any {
	g.MaxDepth = 1
	g.PlantRefs = 0.1
	raw := g.Doc(DocOpts{NoPathsProb: 0.08})
	opTags := tagNodes(raw)
	doc := normRefs(raw)
	if doc == nil {
		return nil
	}
	// queries: every method spelling x every path (existing or not), every id (existing or not), every op
	var qs []any
	paths := []string{"/nope"}
	var ids []string
	if ps, ok := raw["paths"].(M); ok {
		for _, pk := range sortedMapKeys(ps) {
			paths = append(paths, pk)
			for _, m := range allMethods {
				if op, ok := ps[pk].(M)[m].(M); ok {
					if id, ok := op["operationId"].(string); ok {
						ids = append(ids, id)
					}
				}
			}
		}
	}
	methods := []string{"GET", "get", "Put", "POST", "delete", "oPtIoNs", "HEAD", "patch", "TRACE", ""}
	for _, p := range paths {
		for _, m := range methods {
			qs = append(qs, M{"kind": "opFor", "method": m, "path": p})
			script := []any{}
			for i, k := 0, g.n(3); i < k; i++ {
				script = append(script, g.p(0.6))
			}
			qs = append(qs, M{"kind": "paramsFor", "method": m, "path": p, "cb": true, "script": script})
			if g.p(0.3) {
				qs = append(qs, M{"kind": "paramsFor", "method": m, "path": p, "cb": false, "script": []any{}})
			}
		}
	}
	for _, id := range append(ids, "unknownId") {
		qs = append(qs, M{"kind": "opForName", "id": id})
		script := []any{}
		for i, k := 0, g.n(3); i < k; i++ {
			script = append(script, g.p(0.6))
		}
		qs = append(qs, M{"kind": "parametersFor", "id": id, "cb": true, "script": script})
		if g.p(0.3) {
			qs = append(qs, M{"kind": "parametersFor", "id": id, "cb": false, "script": []any{}})
		}
	}
	qs = append(qs, M{"kind": "ids"}, M{"kind": "methodPaths"}, M{"kind": "required"})
	for _, t := range opTags {
		for _, k := range []string{"consumesFor", "producesFor", "secReqFor", "secDefsFor"} {
			qs = append(qs, M{"kind": k, "op": t})
		}
	}
	qs = append(qs, M{"kind": "secDefsForReqs", "names": []any{"basic", "oauth", "undefinedScheme", "basic", ""}})
	return M{"doc": doc, "ext": collectExt(doc), "queries": qs}
}

func findOpByTag(sw *spec.Swagger, tag any) *spec.Operation {
	if sw.Paths == nil {
		return nil
	}
	for _, pi := range sw.Paths.Paths {
		for _, op := range []*spec.Operation{pi.Get, pi.Put, pi.Post, pi.Delete, pi.Options, pi.Head, pi.Patch} {
			if op != nil && tagOfExt(op.Extensions) == tag {
				return op
			}
		}
	}
	return nil
}

func errKindOf(err error) string {
	s := err.Error()
	switch {
	case strings.Contains(s, "invalid reference"):
		return "invalidRef"
	case strings.Contains(s, "resolved reference is not a parameter"):
		return "notAParameter"
	}
	return "other:" + s
}

func opsImpl(in any) any {
	sw, err := loadSwagger(get(in, "doc"))
	if err != nil {
		return M{"err": "load: " + err.Error()}
	}
	var an *analysis.Spec
	if r := protect(func() any { an = analysis.New(sw); return nil }); outcomeTag(r) != "ok" {
		return r
	}
	qs, _ := get(in, "queries").([]any)
	answers := make([]any, 0, len(qs))
	for _, q := range qs {
		kind, _ := get(q, "kind").(string)
		str := func(k string) string { s, _ := get(q, k).(string); return s }
		mkCb := func(calls *[]any) analysis.ErrorOnParamFunc {
			if b, ok := get(q, "cb").(bool); ok && !b {
				return nil
			}
			script, _ := get(q, "script").([]any)
			i := 0
			return func(p spec.Parameter, err error) bool {
				*calls = append(*calls, []any{p.Ref.String(), errKindOf(err)})
				ans := true
				if i < len(script) {
					ans, _ = script[i].(bool)
				}
				i++
				return ans
			}
		}
		var a any
		switch kind {
		case "opFor":
			a = protect(func() any {
				op, ok := an.OperationFor(str("method"), str("path"))
				if !ok || op == nil {
					return "<none>"
				}
				return tagOfExt(op.Extensions)
			})
		case "opForName":
			a = protect(func() any {
				m, p, op, ok := an.OperationForName(str("id"))
				if !ok {
					return "<none>"
				}
				return []any{m, p, tagOfExt(op.Extensions)}
			})
		case "ids":
			a = protect(func() any { return sortedStrings(an.OperationIDs()) })
		case "methodPaths":
			a = protect(func() any { return sortedStrings(an.OperationMethodPaths()) })
		case "required":
			// required media types and security schemes: the unions over the document and its operations
			a = protect(func() any {
				return []any{sortedStrings(an.RequiredConsumes()), sortedStrings(an.RequiredProduces()), sortedStrings(an.RequiredSecuritySchemes())}
			})
		case "consumesFor", "producesFor", "secReqFor", "secDefsFor":
			op := findOpByTag(sw, get(q, "op"))
			if op == nil {
				a = M{"err": "no such op"}
				break
			}
			a = protect(func() any {
				switch kind {
				case "consumesFor":
					return sortedStrings(an.ConsumesFor(op))
				case "producesFor":
					return sortedStrings(an.ProducesFor(op))
				case "secReqFor":
					reqs := an.SecurityRequirementsFor(op)
					out := []any{}
					for _, rs := range reqs {
						row := []any{}
						for _, r := range rs {
							sc := make([]any, 0, len(r.Scopes))
							for _, s := range r.Scopes {
								sc = append(sc, s)
							}
							row = append(row, M{"name": r.Name, "scopes": sc})
						}
						sort.Slice(row, func(i, j int) bool { return row[i].(M)["name"].(string) < row[j].(M)["name"].(string) })
						out = append(out, row)
					}
					return M{"nil": reqs == nil, "reqs": out}
				default:
					defs := an.SecurityDefinitionsFor(op)
					names := []string{}
					for k := range defs {
						names = append(names, k)
					}
					return M{"nil": defs == nil, "names": sortedStrings(names)}
				}
			})
		case "secDefsForReqs":
			a = protect(func() any {
				var reqs []analysis.SecurityRequirement
				for _, n := range get(q, "names").([]any) {
					reqs = append(reqs, analysis.SecurityRequirement{Name: n.(string)})
				}
				names := []string{}
				for k := range an.SecurityDefinitionsForRequirements(reqs) {
					names = append(names, k)
				}
				return sortedStrings(names)
			})
		case "paramsFor":
			a = protect(func() any {
				calls := []any{}
				res := an.SafeParamsFor(str("method"), str("path"), mkCb(&calls))
				out := M{}
				for k, p := range res {
					out[k] = M{"tag": tagOfExt(p.Extensions), "ref": p.Ref.String()}
				}
				return M{"res": out, "calls": calls}
			})
		case "parametersFor":
			a = protect(func() any {
				calls := []any{}
				res := an.SafeParametersFor(str("id"), mkCb(&calls))
				tags := []any{}
				refs := []any{}
				for _, p := range res {
					tags = append(tags, tagOfExt(p.Extensions))
					if p.Ref.String() != "" {
						refs = append(refs, p.Ref.String())
					}
				}
				return M{"tags": tags, "calls": calls, "placeholders": refs}
			})
		}
		answers = append(answers, a)
	}
	return M{"ok": answers}
}

var c14Kinds = map[string]bool{"required": true, "opFor": true, "opForName": true, "ids": true, "methodPaths": true, "consumesFor": true, "producesFor": true, "secReqFor": true, "secDefsFor": true, "secDefsForReqs": true}

func opsCompare(c *Case, out any) []Finding {
	var fs []Finding
	if t := outcomeTag(c.Impl); t != "ok" {
		if t == "panic" {
			return []Finding{{Kind: "property", Detail: "analysis.New panics: " + fmt.Sprint(get(c.Impl, "panic")), Signature: "ops:new-panic"}}
		}
		return nil
	}
	qs, _ := get(c.In, "queries").([]any)
	impl, _ := get(c.Impl, "ok").([]any)
	ans, _ := get(out, "answers").([]any)
	if len(ans) != len(qs) || len(impl) != len(qs) {
		return []Finding{{Kind: "correspondence", Detail: fmt.Sprintf("answer counts differ: %d queries, %d model, %d impl", len(qs), len(ans), len(impl)), Signature: "ops:count"}}
	}
	for i, q := range qs {
		kind, _ := get(q, "kind").(string)
		isC14 := c14Kinds[kind]
		if (ctxProp == "C14" && !isC14) || (ctxProp == "C15" && isC14) {
			continue
		}
		im := impl[i]
		model, specA := get(ans[i], "model"), get(ans[i], "spec")
		qd := truncate(string(mustJSON(q)), 200)
		if outcomeTag(im) == "panic" {
			plain := false
			if b, ok := get(q, "cb").(bool); ok && !b {
				plain = true
			}
			if !(plain && (kind == "paramsFor" || kind == "parametersFor")) {
				fs = append(fs, Finding{Kind: "property", Detail: fmt.Sprintf("query %s panics: %v", qd, get(im, "panic")), Signature: "ops:" + kind + ":panic"})
				continue
			}
		}
		switch kind {
		case "paramsFor", "parametersFor":
			// correspondence on outcome, result and callback log
			mt, it := outcomeTag(model), outcomeTag(im)
			if mt != it {
				fs = append(fs, Finding{Kind: "correspondence", Detail: fmt.Sprintf("query %s: model outcome %s, implementation %s", qd, mt, it), Signature: "ops:" + kind + ":outcome"})
				continue
			}
			designated, _ := get(specA, "designated").(bool)
			if it == "ok" {
				r := get(im, "ok")
				if kind == "paramsFor" {
					implRes := M{}
					placeholders := []string{}
					if rm, ok := get(r, "res").(map[string]any); ok {
						for k, v := range rm {
							implRes[k] = get(v, "tag")
							if s, _ := get(v, "ref").(string); s != "" {
								placeholders = append(placeholders, k)
							}
						}
					} else if rm, ok := get(r, "res").(M); ok {
						for k, v := range rm {
							implRes[k] = get(v, "tag")
							if s, _ := get(v, "ref").(string); s != "" {
								placeholders = append(placeholders, k)
							}
						}
					}
					if !designated && len(implRes) > 0 {
						fs = append(fs, Finding{Kind: "property", Detail: fmt.Sprintf("query %s designates no operation but yields %d parameters", qd, len(implRes)), Signature: "ops:paramsFor:nonempty-for-missing"})
					}
					if len(placeholders) > 0 {
						fs = append(fs, Finding{Kind: "property", Detail: fmt.Sprintf("query %s returns unresolved placeholders %v", qd, placeholders), Signature: "ops:paramsFor:placeholder"})
					}
					if ar, _ := get(specA, "allResolve").(bool); ar && designated && !jsonEq(implRes, get(specA, "effective")) {
						fs = append(fs, Finding{Kind: "property", Detail: fmt.Sprintf("query %s: effective parameters %s, but path-level parameters overridden by the operation's own (refs replaced by their targets) are %s", qd, canonStr(implRes), canonStr(get(specA, "effective"))), Signature: "ops:paramsFor:override"})
					}
					if !jsonEq(implRes, get(model, "ok", "res")) {
						fs = append(fs, Finding{Kind: "correspondence", Detail: fmt.Sprintf("query %s: results differ: model %s impl %s", qd, canonStr(get(model, "ok", "res")), canonStr(implRes)), Signature: "ops:paramsFor:res"})
					}
				} else {
					if !designated && len(get(r, "tags").([]any)) > 0 {
						fs = append(fs, Finding{Kind: "property", Detail: fmt.Sprintf("query %s designates no operation but yields parameters", qd), Signature: "ops:parametersFor:nonempty-for-missing"})
					}
					if ph, _ := get(r, "placeholders").([]any); len(ph) > 0 {
						fs = append(fs, Finding{Kind: "property", Detail: fmt.Sprintf("query %s returns unresolved placeholders %v", qd, ph), Signature: "ops:parametersFor:placeholder"})
					}
					if ar, _ := get(specA, "allResolve").(bool); ar && designated {
						var want []any
						if em, ok := get(specA, "effective").(map[string]any); ok {
							for _, v := range em {
								want = append(want, v)
							}
						}
						if want == nil {
							want = []any{}
						}
						if !jsonEq(sortArrays(get(r, "tags")), sortArrays(want)) {
							fs = append(fs, Finding{Kind: "property", Detail: fmt.Sprintf("query %s: effective parameters %s, but the override rule gives %s", qd, canonStr(get(r, "tags")), canonStr(want)), Signature: "ops:parametersFor:override"})
						}
					}
					if !jsonEq(sortArrays(get(r, "tags")), sortArrays(get(model, "ok", "tags"))) {
						fs = append(fs, Finding{Kind: "correspondence", Detail: fmt.Sprintf("query %s: results differ: model %s impl %s", qd, canonStr(get(model, "ok", "tags")), canonStr(get(r, "tags"))), Signature: "ops:parametersFor:res"})
					}
				}
				// C15: an unresolvable / non-parameter $ref is reported through the callback: the first one always, all of
				// them (in document order, path-level list first) when the callback never says stop
				if bad, _ := get(specA, "badRefs").([]any); designated && len(bad) > 0 {
					calls, _ := get(r, "calls").([]any)
					var got []any
					for _, c := range calls {
						if cl, ok := c.([]any); ok && len(cl) > 0 {
							got = append(got, cl[0])
						}
					}
					neverStops := true
					if sc, ok := get(q, "script").([]any); ok {
						for _, a := range sc {
							if b, ok := a.(bool); ok && !b {
								neverStops = false
							}
						}
					}
					plainVariant := false
					if b, ok := get(q, "cb").(bool); ok && !b {
						plainVariant = true
					}
					switch {
					case plainVariant:
						fs = append(fs, Finding{Kind: "property", Detail: fmt.Sprintf("query %s: the $ref %v designates no shared parameter but the plain variant returns normally", qd, bad[0]), Signature: "ops:" + kind + ":badref-no-panic"})
					case len(got) == 0 || !jsonEq(got[0], bad[0]):
						fs = append(fs, Finding{Kind: "property", Detail: fmt.Sprintf("query %s: the $ref %v designates no shared parameter but the callback was first told about %v", qd, bad[0], got), Signature: "ops:" + kind + ":badref-not-reported"})
					case neverStops && !jsonEq(got, bad):
						fs = append(fs, Finding{Kind: "property", Detail: fmt.Sprintf("query %s: the $refs %v designate no shared parameter but the callback was told about %v", qd, bad, got), Signature: "ops:" + kind + ":badref-not-reported"})
					}
				}
				if !jsonEq(get(r, "calls"), get(model, "ok", "calls")) {
					fs = append(fs, Finding{Kind: "correspondence", Detail: fmt.Sprintf("query %s: callback logs differ: model %s impl %s", qd, canonStr(get(model, "ok", "calls")), canonStr(get(r, "calls"))), Signature: "ops:" + kind + ":calls"})
				}
			}
		default:
			iv := get(im, "ok")
			if kind == "secDefsFor" {
				// spec gives names only
				if !jsonEq(get(iv, "names"), get(specA, "names")) {
					fs = append(fs, Finding{Kind: "property", Detail: fmt.Sprintf("query %s: implementation %s, document says %s", qd, canonStr(get(iv, "names")), canonStr(get(specA, "names"))), Signature: "ops:" + kind + ":spec"})
				}
			} else if !jsonEq(iv, specA) {
				fs = append(fs, Finding{Kind: "property", Detail: fmt.Sprintf("query %s: implementation %s, document says %s", qd, canonStr(iv), canonStr(specA)), Signature: "ops:" + kind + ":spec"})
			}
			if !jsonEq(iv, model) {
				fs = append(fs, Finding{Kind: "correspondence", Detail: fmt.Sprintf("query %s: implementation %s, model %s", qd, canonStr(iv), canonStr(model)), Signature: "ops:" + kind + ":model"})
			}
		}
	}
	return fs
}

var opsStream = (&StreamSpec{
	Name:   "ops",
	Op:     "ops",
	N:      250,
	Stream: 14,
	Rule:   "documents from the type-directed generator (with or without paths; any subset of the 7 methods per path; ids absent or unique; consumes/produces/security at both levels incl. explicitly empty; path-level and operation-level parameters inline or $ref valid / dangling / to a non-parameter, with (in,name) overlaps) x every (method spelling, path) combination existing or not, every id and an unknown id, every operation; Safe variants with scripted callbacks, plain variants; non-trivial = document with at least one operation; distinct by canonical JSON",
	Corpus: func() []any {
		mk := func(doc M, qs ...any) any {
			tagNodes(doc)
			d := normRefs(doc)
			return M{"doc": d, "ext": collectExt(d), "queries": qs}
		}
		return []any{
			// D2: path exists, method does not; document without paths
			mk(M{"swagger": "2.0", "info": M{"title": "t", "version": "1"}, "paths": M{"/a": M{"get": M{"operationId": "getA", "responses": M{"200": M{"description": "d"}}}, "parameters": []any{M{"name": "id", "in": "query", "type": "string"}}}}},
				M{"kind": "paramsFor", "method": "DELETE", "path": "/a", "cb": true, "script": []any{}},
				M{"kind": "paramsFor", "method": "GET", "path": "/a", "cb": true, "script": []any{}}),
			mk(M{"swagger": "2.0", "info": M{"title": "t", "version": "1"}},
				M{"kind": "paramsFor", "method": "GET", "path": "/a", "cb": true, "script": []any{}},
				M{"kind": "parametersFor", "id": "x", "cb": true, "script": []any{}},
				M{"kind": "opFor", "method": "GET", "path": "/a"}, M{"kind": "ids"}),
		}
	},
	Gen:  func(g *Gen, i int) (any, string) { return opsGen(g), "" },
	Impl: opsImpl,
	Nontrivial: func(c *Case) bool {
		return strings.Contains(string(mustJSON(get(c.In, "doc"))), `"x-vh-id":"op`)
	},
	Compare: opsCompare,
}).register()
