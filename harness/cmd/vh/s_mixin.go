package main

import (
	"fmt"
	"strings"

	"github.com/go-openapi/analysis"
	"github.com/go-openapi/spec"
)

// MixinDoc generates a primary or mixin document: every optional part independently present, overlapping key pools.
func (g *Gen) MixinDoc(ids *idPool) M {
	d := M{"swagger": "2.0"}
	g.RefValidOnly = false
	g.MaxDepth = 1
	if g.p(0.7) {
		info := M{}
		for _, k := range []string{"title", "version", "description", "termsOfService"} {
			if g.p(0.5) {
				info[k] = g.pick([]string{"A", "B", "C"})
			}
		}
		if g.p(0.5) {
			c := M{}
			for _, k := range []string{"name", "url", "email"} {
				if g.p(0.5) {
					c[k] = g.pick([]string{"x@y", "http://c", "n"})
				}
			}
			if g.p(0.4) {
				c[g.pick([]string{"x-c1", "x-c2", "X-C1", "x-Contact"})] = g.n(5)
			}
			info["contact"] = c
		}
		if g.p(0.5) {
			l := M{}
			for _, k := range []string{"name", "url"} {
				if g.p(0.5) {
					l[k] = g.pick([]string{"MIT", "http://l"})
				}
			}
			if g.p(0.4) {
				l[g.pick([]string{"x-l1", "x-l2", "X-L1", "x-License"})] = "v"
			}
			info["license"] = l
		}
		for _, k := range []string{"x-i1", "x-i2", "x-i3", "X-I1", "x-Info"} {
			if g.p(0.3) {
				info[k] = g.pick([]string{"u", "v"})
			}
		}
		d["info"] = info
	} else {
		g.hit("mixin:noinfo")
	}
	if g.p(0.4) {
		e := M{}
		if g.p(0.6) {
			e["url"] = g.pick([]string{"http://docs1", "http://docs2"})
		}
		if g.p(0.6) {
			e["description"] = g.pick([]string{"d1", "d2"})
		}
		d["externalDocs"] = e
		g.hit("mixin:externalDocs")
	}
	if g.p(0.4) {
		d["host"] = g.pick([]string{"h1", "h2", "localhost"})
	}
	if g.p(0.4) {
		d["basePath"] = g.pick([]string{"/v1", "/v2", "/"})
	}
	for _, k := range []string{"x-r1", "x-r2", "x-r3", "X-R1", "x-Rate-Limit", "X-Rate-Limit"} {
		if g.p(0.3) {
			d[k] = M{"v": g.n(3)}
			g.hit("mixin:rootext")
		}
	}
	if g.p(0.5) {
		d["consumes"] = g.strSubset(mediaTypes, 3, true)
	}
	if g.p(0.5) {
		d["produces"] = g.strSubset(mediaTypes, 3, true)
	}
	if g.p(0.5) {
		d["schemes"] = g.strSubset([]string{"http", "https", "ws"}, 3, true)
	}
	if g.p(0.5) {
		var tags []any
		for i, k := 0, g.n(4); i < k; i++ {
			t := M{"name": g.pick([]string{"pets", "users", "admin"})}
			if g.p(0.5) {
				t["description"] = g.pick([]string{"t1", "t2"})
			}
			tags = append(tags, t)
		}
		if tags != nil {
			d["tags"] = tags
		}
	}
	if g.p(0.5) {
		d["security"] = g.security()
	}
	if g.p(0.5) {
		sd := M{}
		for _, nm := range []string{"basic", "apiKey", "oauth"} {
			if g.p(0.5) {
				sd[nm] = M{"type": "basic", "description": g.pick([]string{"s1", "s2"})}
			}
		}
		d["securityDefinitions"] = sd
	}
	keyed := func(sect string, pool []string, mk func() M) {
		if g.p(0.6) {
			m := M{}
			for _, nm := range pool {
				if g.p(0.4) {
					m[nm] = mk()
				}
			}
			d[sect] = m
		}
	}
	keyed("definitions", []string{"pet", "Pet", "my def", "a/b", "tag"}, func() M { return g.Schema(1) })
	keyed("parameters", []string{"idParam", "lim it", "p/q"}, func() M { return g.Param() })
	keyed("responses", []string{"notFound", "err or"}, func() M { return g.Response() })
	switch {
	case g.p(0.12):
		g.hit("mixin:nopaths")
	default:
		paths := M{}
		for _, pth := range []string{"/a", "/b", "/c", "/pets/{id}", "/x~y"} {
			if !g.p(0.4) {
				continue
			}
			pi := M{}
			for _, m := range allMethods {
				if g.p(0.3) {
					op := M{"responses": M{"200": M{"description": "ok"}}}
					switch {
					case g.p(0.3):
						g.hit("mixin:op-noid")
					default:
						// ids: unique within the document, from a small pool so that documents collide
						for tries := 0; tries < 20; tries++ {
							// (ids that end in Mixin<N> while their stem "list" is no id anywhere: within the premise of C18)
							id := g.pick([]string{"getA", "getB", "listPets", "x", "delPet", "opt", "createThing", "listMixin0", "listMixin1", "get%dItems", "50%off", "GET /a", "POST /b"})
							if !ids.used[id] {
								ids.used[id] = true
								op["operationId"] = id
								break
							}
						}
					}
					pi[m] = op
					g.hit("mixin:method:" + m)
				}
			}
			paths[pth] = pi
		}
		if g.p(0.2) {
			paths["x-paths-ext"] = "v"
		}
		if g.p(0.08) {
			// a paths object that holds vendor extensions only
			paths = M{"x-paths-ext": "only", "x-Other": 1}
			g.hit("mixin:paths-extensions-only")
		}
		d["paths"] = paths
	}
	return d
}

func parseWarning(w string) []any {
	key := ""
	if i := strings.Index(w, "'"); i >= 0 {
		if j := strings.LastIndex(w, "' already"); j > i {
			key = w[i+1 : j]
		}
	}
	switch {
	case strings.HasPrefix(w, "SecurityDefinitions entry"):
		return []any{"securityDefinitions", key}
	case strings.HasPrefix(w, "Security requirement:"):
		return []any{"security", ""}
	case strings.HasPrefix(w, "definitions entry"):
		return []any{"definitions", key}
	case strings.HasPrefix(w, "paths entry"):
		return []any{"paths", key}
	case strings.HasPrefix(w, "top level parameters entry"):
		return []any{"parameters", key}
	case strings.HasPrefix(w, "top level responses entry"):
		return []any{"responses", key}
	case strings.HasPrefix(w, "top level tags entry"):
		return []any{"tags", key}
	}
	return []any{"extension", w}
}

var mixinStream = (&StreamSpec{
	Name:   "mixin",
	Op:     "mixin",
	N:      500,
	Stream: 17,
	Rule:   "primary + 0..3 mixins from the mixin generator (each optional part independently present; overlapping key pools in every keyed section, list field and extension bag; operation ids unique per document drawn from a shared pool so that documents collide, under all seven methods; id-less operations), in serialization normal form; non-trivial = at least one mixin; distinct by canonical JSON",
	Corpus: func() []any {
		base := func(extra M) M {
			d := M{"swagger": "2.0", "info": M{"title": "t", "version": "1"}, "paths": M{}}
			for k, v := range extra {
				d[k] = v
			}
			return d
		}
		opR := M{"responses": M{"200": M{"description": "ok"}}}
		withID := func(id string) M { return M{"operationId": id, "responses": M{"200": M{"description": "ok"}}} }
		cases := []any{
			// D4: externalDocs on the primary only
			M{"primary": base(M{"externalDocs": M{"url": "http://x"}}), "mixins": []any{base(nil)}},
			// D5: colliding id under options; several id-less operations
			M{"primary": base(M{"paths": M{"/a": M{"options": withID("x"), "get": opR}}}),
				"mixins": []any{base(M{"paths": M{"/b": M{"options": withID("x"), "get": opR, "put": opR, "post": opR}}})}},
			M{"primary": M{"swagger": "2.0"}, "mixins": []any{M{"swagger": "2.0"}}},
			M{"primary": base(nil), "mixins": []any{}},
		}
		var out []any
		for _, c := range cases {
			cm := c.(M)
			p := normalFormDoc(cm["primary"])
			var ms []any
			for _, m := range cm["mixins"].([]any) {
				ms = append(ms, normalFormDoc(m))
			}
			if ms == nil {
				ms = []any{}
			}
			out = append(out, M{"primary": p, "mixins": ms})
		}
		return out
	},
	Gen: func(g *Gen, i int) (any, string) {
		p := normalFormDoc(g.MixinDoc(&idPool{used: map[string]bool{}}))
		if p == nil {
			return nil, ""
		}
		ms := []any{}
		for k, n := 0, g.n(4); k < n; k++ {
			m := normalFormDoc(g.MixinDoc(&idPool{used: map[string]bool{}}))
			if m == nil {
				return nil, ""
			}
			ms = append(ms, m)
		}
		g.hit(fmt.Sprintf("mixins:%d", len(ms)))
		return M{"primary": p, "mixins": ms}, ""
	},
	Impl: func(in any) any {
		p, err := loadSwagger(get(in, "primary"))
		if err != nil {
			return M{"err": "load: " + err.Error()}
		}
		var ms []*spec.Swagger
		for _, m := range get(in, "mixins").([]any) {
			sw, err := loadSwagger(m)
			if err != nil {
				return M{"err": "load: " + err.Error()}
			}
			ms = append(ms, sw)
		}
		return protect(func() any {
			ws := analysis.Mixin(p, ms...)
			pw := make([]any, 0, len(ws))
			for _, w := range ws {
				pw = append(pw, parseWarning(w))
			}
			return M{"doc": swaggerJSON(p), "warnings": pw}
		})
	},
	Nontrivial: func(c *Case) bool { ms, _ := get(c.In, "mixins").([]any); return len(ms) > 0 },
	Compare: func(c *Case, out any) []Finding {
		var fs []Finding
		switch outcomeTag(c.Impl) {
		case "panic":
			fs = append(fs, Finding{Kind: "property", Detail: "Mixin panics: " + fmt.Sprint(get(c.Impl, "panic")), Signature: "mixin:panic"})
		case "ok":
			if failed, _ := get(out, "spec", "failed").([]any); len(failed) > 0 && ctxProp != "C18" {
				fs = append(fs, Finding{Kind: "property", Detail: fmt.Sprintf("merge result violates clause(s) %v", failed), Signature: "mixin:" + clauseClass(failed)})
			}
			if hyp, _ := get(out, "spec", "hyp18").(bool); hyp && ctxProp != "C17" {
				if failed, _ := get(out, "spec", "failedIds").([]any); len(failed) > 0 {
					fs = append(fs, Finding{Kind: "property", Detail: fmt.Sprintf("operation ids after Mixin violate clause(s) %v", failed), Signature: "mixin:" + clauseClass(failed)})
				}
			}
		}
		// correspondence
		model := get(out, "model")
		mt, it := outcomeTag(model), outcomeTag(c.Impl)
		if mt != it {
			fs = append(fs, Finding{Kind: "correspondence", Detail: fmt.Sprintf("model outcome %s, implementation outcome %s", mt, it), Signature: fmt.Sprintf("mixin:outcome:%s-vs-%s", mt, it)})
		} else if mt == "ok" {
			md, err := normDoc(get(model, "ok", "doc"))
			if err != nil {
				fs = append(fs, Finding{Kind: "correspondence", Detail: "model output does not load: " + err.Error(), Signature: "mixin:model-unloadable"})
			} else if !jsonEq(md, get(c.Impl, "ok", "doc")) {
				fs = append(fs, Finding{Kind: "correspondence", Detail: "model and implementation produce different documents: " + firstDiff(md, get(c.Impl, "ok", "doc")), Signature: "mixin:doc-differs"})
			}
			if !jsonEq(sortArrays(get(model, "ok", "warnings")), sortArrays(get(c.Impl, "ok", "warnings"))) {
				fs = append(fs, Finding{Kind: "correspondence", Detail: fmt.Sprintf("collision reports differ: model %s, implementation %s", canonStr(sortArrays(get(model, "ok", "warnings"))), canonStr(sortArrays(get(c.Impl, "ok", "warnings")))), Signature: "mixin:warnings-differ"})
			}
		}
		return fs
	},
}).register()

// ctxProp is the property currently being checked (streams shared by two properties filter their oracle on it).
var ctxProp string

func clauseClass(failed []any) string {
	if len(failed) == 0 {
		return ""
	}
	s := fmt.Sprint(failed[0])
	if i := strings.LastIndex(s, ":"); i > 0 && strings.Count(s, ":") > 1 {
		return s[:i]
	}
	return s
}
