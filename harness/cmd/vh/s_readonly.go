package main

import (
	"encoding/json"
	"fmt"
	"math/rand/v2"
	"os"
	"os/exec"
	"path/filepath"
	"sort"
	"strings"
	"sync"
	"time"

	"github.com/go-openapi/analysis"
	"github.com/go-openapi/spec"
)

// queryDigest calls every public query method of an analyzed Spec and renders the answers canonically.
func queryDigest(an *analysis.Spec, sw *spec.Swagger) string {
	out := M{}
	out["dump"] = sortArrays(toAny(an.VerifDump()))
	strs := func(xs []string) []any { return sortedStrings(xs) }
	out["OperationIDs"] = strs(an.OperationIDs())
	out["OperationMethodPaths"] = strs(an.OperationMethodPaths())
	out["RequiredConsumes"] = strs(an.RequiredConsumes())
	out["RequiredProduces"] = strs(an.RequiredProduces())
	out["RequiredSecuritySchemes"] = strs(an.RequiredSecuritySchemes())
	out["AllDefinitionReferences"] = strs(an.AllDefinitionReferences())
	out["AllParameterReferences"] = strs(an.AllParameterReferences())
	out["AllResponseReferences"] = strs(an.AllResponseReferences())
	out["AllPathItemReferences"] = strs(an.AllPathItemReferences())
	out["AllItemsReferences"] = strs(an.AllItemsReferences())
	out["AllReferences"] = strs(an.AllReferences())
	var refs []string
	for _, r := range an.AllRefs() {
		refs = append(refs, r.String())
	}
	out["AllRefs"] = strs(refs)
	var defs, allofs []string
	for _, s := range an.AllDefinitions() {
		defs = append(defs, s.Ref.String())
	}
	for _, s := range an.SchemasWithAllOf() {
		allofs = append(allofs, s.Ref.String())
	}
	out["AllDefinitions"] = strs(defs)
	out["SchemasWithAllOf"] = strs(allofs)
	out["patterns"] = toAny([]any{an.ParameterPatterns(), an.HeaderPatterns(), an.ItemsPatterns(), an.SchemaPatterns(), an.AllPatterns()})
	out["enums"] = toAny([]any{an.ParameterEnums(), an.HeaderEnums(), an.ItemsEnums(), an.SchemaEnums(), an.AllEnums()})
	paths := []string{"/nope"}
	for p := range an.AllPaths() {
		paths = append(paths, p)
	}
	sort.Strings(paths)
	// what the Safe variants tell their callback is part of the answer
	var told []string
	cb := func(p spec.Parameter, err error) bool {
		told = append(told, p.Ref.String()+" "+fmt.Sprint(err != nil))
		return true
	}
	per := M{}
	for _, p := range paths {
		for _, m := range []string{"GET", "put", "Post", "DELETE", "options", "HEAD", "PATCH", "TRACE"} {
			op, ok := an.OperationFor(m, p)
			if !ok || op == nil {
				per[m+" "+p] = nil
				continue
			}
			told = nil
			params := an.SafeParamsFor(m, p, cb)
			keys := make([]string, 0, len(params))
			for k, v := range params {
				keys = append(keys, k+"="+v.Name+"/"+v.In)
			}
			var byID []string
			if op.ID != "" {
				for _, v := range an.SafeParametersFor(op.ID, cb) {
					byID = append(byID, v.In+"#"+v.Name)
				}
				mm, pp, _, found := an.OperationForName(op.ID)
				byID = append(byID, fmt.Sprint("name:", mm, pp, found))
			}
			defs := an.SecurityDefinitionsFor(op)
			dn := make([]string, 0, len(defs))
			for k := range defs {
				dn = append(dn, k)
			}
			reqs := an.SecurityRequirementsFor(op)
			var rq []string
			for _, rs := range reqs {
				var row []string
				for _, r := range rs {
					row = append(row, r.Name+":"+strings.Join(r.Scopes, ","))
				}
				sort.Strings(row)
				rq = append(rq, strings.Join(row, "|"))
			}
			per[m+" "+p] = M{"id": op.ID, "params": strs(keys), "byID": strs(byID), "consumes": strs(an.ConsumesFor(op)), "produces": strs(an.ProducesFor(op)),
				"secDefs": strs(dn), "secReqs": rq, "secNil": reqs == nil, "told": strs(told)}
		}
	}
	out["per"] = per
	out["secForReqs"] = len(an.SecurityDefinitionsForRequirements([]analysis.SecurityRequirement{{Name: "basic"}, {Name: "nope"}}))
	return canonStr(out)
}

// clientAbuse mutates everything the public API hands out as a copy.
func clientAbuse(an *analysis.Spec, r *rand.Rand) {
	for _, m := range []map[string]string{an.ParameterPatterns(), an.HeaderPatterns(), an.ItemsPatterns(), an.SchemaPatterns(), an.AllPatterns()} {
		for k := range m {
			if r.IntN(2) == 0 {
				delete(m, k)
			} else {
				m[k] = "mutated"
			}
		}
		m["#/injected"] = "x"
	}
	for _, m := range []map[string][]interface{}{an.ParameterEnums(), an.HeaderEnums(), an.ItemsEnums(), an.SchemaEnums(), an.AllEnums()} {
		for k := range m {
			if r.IntN(2) == 0 {
				delete(m, k)
			} else {
				m[k] = []interface{}{"mutated"}
			}
		}
		m["#/injected"] = []interface{}{1}
	}
	for p := range an.AllPaths() {
		res := an.SafeParamsFor("GET", p, func(spec.Parameter, error) bool { return true })
		for k := range res {
			delete(res, k)
		}
		res["injected"] = spec.Parameter{}
	}
	for _, lst := range [][]string{an.OperationIDs(), an.RequiredConsumes(), an.AllReferences(), an.AllDefinitionReferences()} {
		for i := range lst {
			lst[i] = "mutated"
		}
	}
}

func readonlyImpl(in any) any {
	sw, err := loadSwagger(in)
	if err != nil {
		return M{"err": "load: " + err.Error()}
	}
	return protect(func() any {
		before := canonStr(swaggerJSON(sw))
		an := analysis.New(sw)
		problems := []any{}
		if canonStr(swaggerJSON(sw)) != before {
			problems = append(problems, "document-modified-by-New")
		}
		d0 := queryDigest(an, sw)
		r := rand.New(rand.NewPCG(7, uint64(len(before))))
		for i := 0; i < 3; i++ {
			clientAbuse(an, r)
			if d := queryDigest(an, sw); d != d0 {
				problems = append(problems, "answers-changed-after-client-mutation-or-queries")
				break
			}
		}
		if canonStr(swaggerJSON(sw)) != before {
			problems = append(problems, "document-modified-by-queries")
		}
		// concurrent readers: every goroutine must see the sequential answers
		var wg sync.WaitGroup
		var mu sync.Mutex
		bad := 0
		for g := 0; g < 8; g++ {
			wg.Add(1)
			go func(g int) {
				defer wg.Done()
				rr := rand.New(rand.NewPCG(uint64(g), 99))
				for k := 0; k < 3; k++ {
					if rr.IntN(2) == 0 {
						clientAbuse(an, rr)
					}
					if queryDigest(an, sw) != d0 {
						mu.Lock()
						bad++
						mu.Unlock()
					}
				}
			}(g)
		}
		wg.Wait()
		if bad > 0 {
			problems = append(problems, fmt.Sprintf("concurrent-readers-saw-different-answers(%d)", bad))
		}
		return M{"problems": problems}
	})
}

func init() { childOps["readonly"] = readonlyImpl }

var readonlyStream = (&StreamSpec{
	Name:   "readonly",
	Op:     "ping",
	N:      60,
	Stream: 16,
	Rule:   "documents from the type-directed generator; per document: serialization before/after New and after 3 rounds of (client mutation of every returned map/slice + every public query on every (method, path, id, operation)); then 8 goroutines x 3 rounds of the same on the shared Spec, answers compared with the sequential digest; non-trivial = document with at least one operation; distinct by canonical JSON",
	Gen: func(g *Gen, i int) (any, string) {
		g.MaxDepth = 2
		raw := g.Doc(DocOpts{NoPathsProb: 0.05})
		tagNodes(raw)
		return normRefs(raw), ""
	},
	ImplBatch: func(ins []any) []any {
		return runInChildren("readonly", ins, 60*time.Second, 8)
	},
	Nontrivial: func(c *Case) bool { return strings.Contains(string(mustJSON(c.In)), `"x-vh-id":"op`) },
	Compare: func(c *Case, out any) []Finding {
		switch outcomeTag(c.Impl) {
		case "crash", "timeout":
			return []Finding{{Kind: "property", Detail: "concurrent readers crashed or hung the process (fatal error such as concurrent map read and map write): " + canonStr(c.Impl), Signature: "readonly:crash"}}
		case "panic":
			return []Finding{{Kind: "property", Detail: "panic: " + fmt.Sprint(get(c.Impl, "panic")), Signature: "readonly:panic"}}
		case "ok":
			if ps, _ := get(c.Impl, "ok", "problems").([]any); len(ps) > 0 {
				return []Finding{{Kind: "property", Detail: fmt.Sprintf("analysis is not read-only / copy-safe: %v", ps), Signature: "readonly:" + fmt.Sprint(ps[0])}}
			}
		}
		return nil
	},
}).register()

// raceStream runs the race-detector build of the harness on the same documents.
func raceStream(ctx *Ctx) StreamResult {
	res := StreamResult{Name: "race", Rule: "race-detector build (go build -race -tags verif) of the harness: per seed, documents from the generator, 8..32 goroutines each issuing the full query mix (and mutating returned copies) on one shared Spec; a DATA RACE report is a violation", Features: map[string]int{}}
	bin := filepath.Join(verifDir, ".bin", "vh-race")
	if _, err := os.Stat(bin); err != nil {
		res.Findings = append(res.Findings, Finding{Kind: "obligation", Stream: "race", Detail: "race-detector build of the harness is missing: " + bin, Signature: "race:nobinary"})
		return res
	}
	docs, gor := 12, 8
	seeds := 1
	if ctx.Scale > 1 {
		docs, gor, seeds = 40, 32, 6
	}
	for s := 0; s < seeds; s++ {
		cmd := exec.Command(bin, "racerun", fmt.Sprint(ctx.Seed+uint64(s)), fmt.Sprint(docs), fmt.Sprint(gor))
		cmd.Env = append(os.Environ(), "GORACE=halt_on_error=0 exitcode=66")
		out, err := cmd.CombinedOutput()
		res.Evaluations += docs
		res.Nontrivial += docs
		if strings.Contains(string(out), "DATA RACE") || (err != nil && cmd.ProcessState != nil && cmd.ProcessState.ExitCode() == 66) {
			i := strings.Index(string(out), "WARNING: DATA RACE")
			if i < 0 {
				i = 0
			}
			res.Findings = append(res.Findings, Finding{Kind: "property", Stream: "race", Detail: "race detector: " + truncate(string(out)[i:], 1500), Signature: "race:data-race",
				Case: &Case{ID: s, Op: "racerun", In: M{"seed": ctx.Seed + uint64(s), "docs": docs, "goroutines": gor}}})
			break
		} else if err != nil {
			res.Findings = append(res.Findings, Finding{Kind: "property", Stream: "race", Detail: "concurrent run failed: " + truncate(string(out), 800), Signature: "race:failed",
				Case: &Case{ID: s, Op: "racerun", In: M{"seed": ctx.Seed + uint64(s), "docs": docs, "goroutines": gor}}})
			break
		}
	}
	res.Samples = []any{M{"cmd": bin + " racerun <seed> <docs> <goroutines>", "docs": docs, "goroutines": gor, "seeds": seeds}}
	res.Extra = M{"goroutines": gor, "seeds": seeds}
	return res
}

// raceRun is executed by the race-detector build.
func raceRun(seed uint64, docs, gor int) int {
	fail := 0
	for i := 0; i < docs; i++ {
		g := NewGen(seed, 16<<32|uint64(i))
		g.MaxDepth = 2
		raw := g.Doc(DocOpts{NoPathsProb: 0.05})
		tagNodes(raw)
		doc := normRefs(raw)
		sw, err := loadSwagger(doc)
		if err != nil {
			continue
		}
		an := analysis.New(sw)
		d0 := queryDigest(an, sw)
		var wg sync.WaitGroup
		var mu sync.Mutex
		for k := 0; k < gor; k++ {
			wg.Add(1)
			go func(k int) {
				defer wg.Done()
				rr := rand.New(rand.NewPCG(seed, uint64(k)))
				for j := 0; j < 2; j++ {
					if rr.IntN(2) == 0 {
						clientAbuse(an, rr)
					}
					if d := queryDigest(an, sw); d != d0 {
						mu.Lock()
						fail++
						if fail == 1 {
							var a, b any
							_ = json.Unmarshal([]byte(d0), &a)
							_ = json.Unmarshal([]byte(d), &b)
							fmt.Println("first difference:", firstDiff(a, b))
						}
						mu.Unlock()
					}
				}
			}(k)
		}
		wg.Wait()
	}
	if fail > 0 {
		fmt.Printf("concurrent readers saw answers different from the sequential ones in %d rounds\n", fail)
		return 1
	}
	fmt.Println("racerun ok")
	return 0
}
