package main

import (
	"encoding/json"
	"fmt"
	"sort"

	"github.com/go-openapi/analysis"
	"github.com/go-openapi/spec"
)

// stream `replace`: the rewrite primitives of internal/flatten/replace on every key the analyzer yields.
var replaceStream = (&StreamSpec{
	Name:   "replace",
	Op:     "replace",
	N:      120,
	Stream: 4,
	Rule:   "documents from the type-directed generator (names over the alphabet, every schema-bearing keyword); for every schema key the analyzer yields (and a few keys that designate no schema or nothing): UpdateRef, RewriteSchemaToRef and UpdateRefWithSchema, each on a fresh load; non-trivial = at least 5 keys; distinct by canonical JSON",
	Gen: func(g *Gen, i int) (any, string) {
		g.MaxDepth = 3
		g.SimpleRefs = false
		g.PathItemRefs = false
		doc := normalFormDoc(g.Doc(DocOpts{NoPathsProb: 0.05}))
		if doc == nil {
			return nil, ""
		}
		sw, err := loadSwagger(doc)
		if err != nil {
			return nil, ""
		}
		var keys []string
		func() {
			defer func() { _ = recover() }()
			for k := range analysis.New(sw).VerifDump()["schemas"].(map[string]analysis.VerifSchemaRef) {
				keys = append(keys, k)
			}
		}()
		sort.Strings(keys)
		if len(keys) > 40 {
			g.r.Shuffle(len(keys), func(a, b int) { keys[a], keys[b] = keys[b], keys[a] })
			keys = keys[:40]
		}
		keys = append(keys, "#/definitions/doesNotExist", "#/paths", "#/info/title")
		var ops []any
		for _, k := range keys {
			switch g.n(3) {
			case 0:
				ops = append(ops, M{"prim": "updateRef", "key": k, "ref": "#/definitions/target"})
			case 1:
				ops = append(ops, M{"prim": "rewriteSchemaToRef", "key": k, "ref": "#/definitions/target"})
			default:
				ops = append(ops, M{"prim": "updateRefWithSchema", "key": k, "schema": M{"type": "object", "properties": M{"moved": M{"type": "string"}}}})
			}
		}
		return M{"doc": doc, "ops": ops}, ""
	},
	Impl: func(in any) any {
		ops, _ := get(in, "ops").([]any)
		out := make([]any, 0, len(ops))
		for _, op := range ops {
			sw, err := loadSwagger(get(in, "doc"))
			if err != nil {
				return M{"err": "load: " + err.Error()}
			}
			key, _ := get(op, "key").(string)
			out = append(out, protect(func() any {
				var err error
				switch get(op, "prim") {
				case "updateRef":
					err = analysis.VerifUpdateRef(sw, key, spec.MustCreateRef(get(op, "ref").(string)))
				case "rewriteSchemaToRef":
					err = analysis.VerifRewriteSchemaToRef(sw, key, spec.MustCreateRef(get(op, "ref").(string)))
				default:
					var sch spec.Schema
					_ = json.Unmarshal(mustJSON(get(op, "schema")), &sch)
					err = analysis.VerifUpdateRefWithSchema(sw, key, &sch)
				}
				if err != nil {
					return M{"error": err.Error()}
				}
				return M{"doc": swaggerJSON(sw)}
			}))
		}
		return M{"ok": out}
	},
	Nontrivial: func(c *Case) bool { ops, _ := get(c.In, "ops").([]any); return len(ops) >= 5 },
	Compare: func(c *Case, out any) []Finding {
		var fs []Finding
		impl, _ := get(c.Impl, "ok").([]any)
		model, _ := out.([]any)
		ops, _ := get(c.In, "ops").([]any)
		if len(impl) != len(ops) || len(model) != len(ops) {
			return []Finding{{Kind: "correspondence", Detail: "answer counts differ", Signature: "replace:count"}}
		}
		for i, op := range ops {
			od := truncate(string(mustJSON(op)), 160)
			if outcomeTag(impl[i]) == "panic" {
				fs = append(fs, Finding{Kind: "property", Detail: fmt.Sprintf("%s panics: %v", od, get(impl[i], "panic")), Signature: "replace:panic"})
				continue
			}
			iv := get(impl[i], "ok")
			if e := get(iv, "error"); e != nil {
				if outcomeTag(model[i]) != "err" {
					fs = append(fs, Finding{Kind: "correspondence", Detail: fmt.Sprintf("%s: implementation fails (%v), model succeeds", od, e), Signature: "replace:err-vs-ok:" + fmt.Sprint(get(op, "prim"))})
				}
				continue
			}
			if outcomeTag(model[i]) != "ok" {
				fs = append(fs, Finding{Kind: "correspondence", Detail: fmt.Sprintf("%s: implementation succeeds, model %s", od, canonStr(model[i])), Signature: "replace:ok-vs-err:" + fmt.Sprint(get(op, "prim"))})
				continue
			}
			md, err := normDoc(get(model[i], "ok"))
			if err != nil {
				fs = append(fs, Finding{Kind: "correspondence", Detail: fmt.Sprintf("%s: model output does not load: %v", od, err), Signature: "replace:model-unloadable"})
				continue
			}
			if !jsonEq(md, get(iv, "doc")) {
				fs = append(fs, Finding{Kind: "correspondence", Detail: fmt.Sprintf("%s: documents differ: %s (left model, right implementation)", od, firstDiff(md, get(iv, "doc"))), Signature: "replace:doc-differs:" + fmt.Sprint(get(op, "prim"))})
			}
		}
		return fs
	},
}).register()
