package main

import (
	"fmt"
	"strings"
	"time"
)

var optionSets = []flatOpts{
	{Minimal: true}, {Minimal: true, RemoveUnused: true},
	{}, {RemoveUnused: true},
	{Expand: true}, {Expand: true, RemoveUnused: true},
}

// flattenCase builds the child request for one (bundle, option set).
func flattenCase(g *Gen, o flatOpts, plus bool, repeats, permutes int, faults bool) any {
	anon := !o.Expand
	b := genBundle(g, BundleOpts{Plus: plus, AnonOK: anon, SharedOK: anon && !o.RemoveUnused, MaxAux: 3})
	if len(b.Aux) == 0 && g.p(0.5) && !o.Expand {
		o.KeepNames = true
	}
	aux := M{}
	for k, v := range b.Aux {
		aux[k] = v
	}
	return M{"bundle": M{"root": b.Root, "aux": aux}, "opts": o.toJSON(), "repeats": repeats, "permutes": permutes, "faults": faults}
}

// which Go-side clauses each property looks at
func flattenFindings(c *Case) []Finding {
	var fs []Finding
	o := optsOf(get(c.In, "opts"))
	sig := func(s string) string { return "flatten:" + s + ":" + o.String() }
	switch outcomeTag(c.Impl) {
	case "timeout":
		if ctxProp == "C09" || ctxProp == "C04" || ctxProp == "" {
			fs = append(fs, Finding{Kind: "property", Detail: "Flatten (" + o.String() + ") did not return within the time limit (child process killed)", Signature: sig("hang")})
		}
		return fs
	case "crash":
		if ctxProp == "C09" || ctxProp == "C04" || ctxProp == "" {
			fs = append(fs, Finding{Kind: "property", Detail: "Flatten (" + o.String() + ") crashed the process: " + fmt.Sprint(get(c.Impl, "crash")), Signature: sig("crash")})
		}
		return fs
	case "err":
		return nil
	}
	r := get(c.Impl, "ok")
	if p := get(r, "panic"); p != nil {
		if ctxProp == "C09" || ctxProp == "C04" || ctxProp == "" {
			fs = append(fs, Finding{Kind: "property", Detail: fmt.Sprintf("Flatten (%s) panics: %v", o, p), Signature: sig("panic")})
		}
		return fs
	}
	if e := get(r, "flattenErr"); e != nil {
		if ctxProp == "C04" || ctxProp == "" {
			fs = append(fs, Finding{Kind: "property", Detail: fmt.Sprintf("Flatten (%s) rejects a well-formed bundle: %v", o, e), Signature: sig("error:" + errClass(fmt.Sprint(e)))})
		}
		return fs
	}
	if ctxProp == "C10" || ctxProp == "" {
		if p := get(r, "syncPanic"); p != nil {
			fs = append(fs, Finding{Kind: "property", Detail: fmt.Sprintf("querying the analyzer after Flatten (%s) panics: %v", o, p), Signature: sig("sync-panic")})
		} else if ok, _ := get(r, "inSync").(bool); !ok {
			fs = append(fs, Finding{Kind: "property", Detail: fmt.Sprintf("after Flatten (%s) the analyzer passed in answers differently from a fresh analysis: %v", o, get(r, "syncDiff")), Signature: sig("out-of-sync")})
		}
	}
	if ctxProp == "C08" || ctxProp == "" {
		if !o.Expand {
			sec := get(r, "second")
			switch {
			case get(sec, "panic") != nil:
				fs = append(fs, Finding{Kind: "property", Detail: fmt.Sprintf("second Flatten (%s) panics: %v", o, get(sec, "panic")), Signature: sig("second-panic")})
			case get(sec, "err") != nil:
				fs = append(fs, Finding{Kind: "property", Detail: fmt.Sprintf("second Flatten (%s) of the output fails: %v", o, get(sec, "err")), Signature: sig("second-error")})
			default:
				if same, _ := get(sec, "same").(bool); !same {
					fs = append(fs, Finding{Kind: "property", Detail: fmt.Sprintf("second Flatten (%s) changes the document: %v", o, get(sec, "diff")), Signature: sig("not-idempotent")})
				}
			}
		}
	}
	if ctxProp == "C07" || ctxProp == "C05" || ctxProp == "" {
		cyclic, _ := get(c.In, "cyclic").(bool)
		if !(o.Expand && cyclic) {
			reps, _ := get(r, "repeats").([]any)
			for _, e := range reps {
				if same, _ := get(e, "same").(bool); !same {
					kind := "repeat"
					if p, _ := get(e, "permuted").(bool); p {
						kind = "permuted-load"
					}
					fs = append(fs, Finding{Kind: "property", Detail: fmt.Sprintf("Flatten (%s) is not deterministic (%s): %v %v %v", o, kind, get(e, "diff"), get(e, "err"), get(e, "panic")), Signature: sig("nondeterministic")})
					break
				}
			}
		}
	}
	if ctxProp == "C09" || ctxProp == "" {
		faults, _ := get(r, "faults").([]any)
		for _, e := range faults {
			if p := get(e, "panic"); p != nil {
				fs = append(fs, Finding{Kind: "property", Detail: fmt.Sprintf("Flatten (%s) panics when document load #%v fails: %v", o, get(e, "k"), p), Signature: sig("fault-panic")})
				break
			}
			if s, _ := get(e, "reportedSuccess").(bool); s {
				fs = append(fs, Finding{Kind: "property", Detail: fmt.Sprintf("Flatten (%s) reports success although document load #%v failed", o, get(e, "k")), Signature: sig("fault-swallowed")})
				break
			}
		}
	}
	return fs
}

func errClass(e string) string {
	for _, k := range []string{"could not resolve schema", "nil value has no field", "object has no key", "no such file", "cannot rewrite", "no schema", "cyclic", "not a number"} {
		if strings.Contains(e, k) {
			return strings.ReplaceAll(k, " ", "-")
		}
	}
	return "other"
}

func flattenBatch(timeout time.Duration) func(ins []any) []any {
	return func(ins []any) []any { return runInChildren("flatten", ins, timeout, 14) }
}
