package main

import (
	"encoding/json"
	"fmt"
	"strings"
	"time"
)

var optionSets = []flatOpts{
	{Minimal: true}, {Minimal: true, RemoveUnused: true},
	{}, {RemoveUnused: true},
	{Expand: true}, {Expand: true, RemoveUnused: true},
}

// flattenCase builds the child request for one (bundle, option set).
func flattenCase(g *Gen, o flatOpts, plus bool, repeats, permutes int, faults bool, index int) any {
	anon := !o.Expand
	// KeepNames applies to single-document bundles: decided first, so that half of them use plain names only
	keep := !o.Expand && g.p(0.2)
	bo := BundleOpts{Plus: plus, AnonOK: anon, SharedOK: anon && !o.RemoveUnused, MaxAux: 3}
	scenarios := []string{"collide-pointer", "collide-many", "collide-nested", "unused-chain", "expand-via-response", "collide-simple-shared", "prefix-names", "ref-siblings", "generated-name-clash", "case-twins", "digit-siblings", "odd-status", "pointer-chain-sections", "hash-twins", "no-root-definitions", "pointer-in-simple-target", "shared-param-twins", "id-equals-derived-key", "cycle-collide-simple", "remote-ref-siblings", "empty-mangled-names", "relative-path-two-bases", "generated-name-equals-imported", "alias-to-pointer", "collide-sibling-refs", "root-named-aux", "two-spellings", "alias-named-like-generated", "pointer-inside-moved", "root-alias-of-same-name", "mangled-sibling-of-recursive", "two-oaigen-kinds", "pattern-properties-complex"}
	if !keep && !plus && index%3 != 0 {
		// two bundles in three carry a planted interplay shape, taken in turn
		bo.Scenario = scenarios[(index-index/3-1)%len(scenarios)]
		if !anon && bo.Scenario == "collide-pointer" {
			bo.Scenario = "collide-many"
		}
		if bo.Scenario == "pointer-chain-sections" && !bo.SharedOK {
			bo.Scenario = "case-twins"
		}
		if bo.Scenario == "pointer-in-simple-target" && !anon {
			bo.Scenario = "hash-twins"
		}
		if bo.Scenario == "alias-to-pointer" && !anon {
			bo.Scenario = "empty-mangled-names"
		}
		if bo.Scenario == "pointer-inside-moved" && !anon {
			bo.Scenario = "collide-nested"
		}
		if g.p(0.6) && bo.Scenario != "pointer-chain-sections" && bo.Scenario != "pointer-in-simple-target" {
			// focus: no other anonymous pointer competes with the planted shape
			bo.AnonOK, bo.SharedOK = false, false
		}
	}
	if keep {
		bo.MaxAux = 0
		bo.Plain = g.p(0.5)
		o.KeepNames = true
	}
	b := genBundle(g, bo)
	aux := M{}
	for k, v := range b.Aux {
		aux[k] = v
	}
	return M{"bundle": M{"root": b.Root, "aux": aux}, "opts": o.toJSON(), "repeats": repeats, "permutes": permutes, "faults": faults, "plainNames": bo.Plain, "mustFail": b.MustFail, "plus": plus, "plusWhat": strings.Join(b.Plus, "+")}
}

// which Go-side clauses each property looks at
func flattenFindings(c *Case, cyclic bool) []Finding {
	var fs []Finding
	o := optsOf(get(c.In, "opts"))
	sig := func(s string) string { return "flatten:" + s + ":" + o.String() }
	if plus, _ := get(c.In, "plus").(bool); plus {
		// W+: the signature names the planted constructs instead of the option set, so that a listed finding stays specific
		what, _ := get(c.In, "plusWhat").(string)
		sig = func(s string) string {
			class := s
			if i := strings.Index(s, ":"); i > 0 {
				class = s[:i]
			}
			switch {
			case o.KeepNames:
				return "flatten:keepNames-created-names"
			case (class == "crash" || class == "hang") && strings.Contains(what, "aux-back-to-root"):
				return "flattenPlus:crash:aux-back-to-root"
			case (class == "fault-swallowed" || class == "fault-panic") && strings.Contains(what, "aux-back-to-root"):
				return "flattenPlus:aux-back-to-root:" + class
			case o.Expand && strings.Contains(what, "pointer-") && (class == "fault-panic" || class == "fault-swallowed" || class == "unresolved-ref-swallowed" || class == "panic"):
				return "flattenPlus:expand-with-anonymous-pointers:" + class
			}
			return "flattenPlus:" + s + ":" + what
		}
	}
	switch outcomeTag(c.Impl) {
	case "timeout":
		if ctxProp == "C09" || ctxProp == "C04" || ctxProp == "" {
			fs = append(fs, Finding{Kind: "property", Detail: "Flatten (" + o.String() + ") did not return within the time limit (child process killed)", Signature: sig("hang")})
		}
		return fs
	case "crash":
		if ctxProp == "C09" || ctxProp == "C04" || ctxProp == "" {
			fs = append(fs, Finding{Kind: "property", Detail: "Flatten (" + o.String() + ") crashed the process: " + fmt.Sprint(get(c.Impl, "crash")), Signature: sig("crash")})
		}
		return fs
	case "err":
		return nil
	}
	r := get(c.Impl, "ok")
	if plus, _ := get(c.In, "plus").(bool); plus {
		if p := get(r, "panic"); p != nil {
			return []Finding{{Kind: "property", Detail: fmt.Sprintf("Flatten (%s) panics on a loadable bundle of W+: %v at %v", o, p, get(r, "panicStack")), Signature: sig("panic")}}
		}
		if mf, _ := get(c.In, "mustFail").(bool); mf && get(r, "flattenErr") == nil {
			return []Finding{{Kind: "property", Detail: fmt.Sprintf("Flatten (%s) reports success although a $ref of the bundle cannot be resolved", o), Signature: sig("unresolved-ref-swallowed")}}
		}
		for _, e := range asList(get(r, "faults")) {
			if p := get(e, "panic"); p != nil {
				return []Finding{{Kind: "property", Detail: fmt.Sprintf("Flatten (%s) panics when document load #%v fails: %v", o, get(e, "k"), p), Signature: sig("fault-panic")}}
			}
			if s, _ := get(e, "reportedSuccess").(bool); s {
				return []Finding{{Kind: "property", Detail: fmt.Sprintf("Flatten (%s) reports success although document load #%v failed", o, get(e, "k")), Signature: sig("fault-swallowed")}}
			}
		}
		return nil
	}
	if p := get(r, "panic"); p != nil {
		if ctxProp == "C09" || ctxProp == "C04" || ctxProp == "" {
			fs = append(fs, Finding{Kind: "property", Detail: fmt.Sprintf("Flatten (%s) panics: %v at %v", o, p, get(r, "panicStack")), Signature: sig("panic")})
		}
		return fs
	}
	if e := get(r, "flattenErr"); e != nil {
		if ctxProp == "C04" || ctxProp == "" {
			fs = append(fs, Finding{Kind: "property", Detail: fmt.Sprintf("Flatten (%s) rejects a well-formed bundle: %v", o, e), Signature: sig("error:" + errClass(fmt.Sprint(e)))})
		}
		return fs
	}
	if ctxProp == "C04" || ctxProp == "" {
		reps, _ := get(r, "repeats").([]any)
		for _, e := range reps {
			if msg := get(e, "err"); msg != nil {
				fs = append(fs, Finding{Kind: "property", Detail: fmt.Sprintf("Flatten (%s) rejects a well-formed bundle on a repeated run: %v", o, msg), Signature: sig("error-on-repeat:" + errClass(fmt.Sprint(msg)))})
				break
			}
		}
	}
	if ctxProp == "C10" || ctxProp == "" {
		if p := get(r, "syncPanic"); p != nil {
			fs = append(fs, Finding{Kind: "property", Detail: fmt.Sprintf("querying the analyzer after Flatten (%s) panics: %v", o, p), Signature: sig("sync-panic")})
		} else if ok, _ := get(r, "inSync").(bool); !ok {
			fs = append(fs, Finding{Kind: "property", Detail: fmt.Sprintf("after Flatten (%s) the analyzer passed in answers differently from a fresh analysis: %v", o, get(r, "syncDiff")), Signature: sig("out-of-sync")})
		}
	}
	if ctxProp == "C08" || ctxProp == "" {
		if !o.Expand {
			sec := get(r, "second")
			switch {
			case get(sec, "panic") != nil:
				fs = append(fs, Finding{Kind: "property", Detail: fmt.Sprintf("second Flatten (%s) panics: %v", o, get(sec, "panic")), Signature: sig("second-panic")})
			case get(sec, "err") != nil:
				fs = append(fs, Finding{Kind: "property", Detail: fmt.Sprintf("second Flatten (%s) of the output fails: %v", o, get(sec, "err")), Signature: sig("second-error")})
			default:
				if same, _ := get(sec, "same").(bool); !same {
					fs = append(fs, Finding{Kind: "property", Detail: fmt.Sprintf("second Flatten (%s) changes the document: %v", o, get(sec, "diff")), Signature: sig("not-idempotent")})
				}
			}
		}
	}
	if ctxProp == "C07" || (ctxProp == "C05" && o.Expand) || ctxProp == "" {
		if !(o.Expand && cyclic) {
			reps, _ := get(r, "repeats").([]any)
			for _, e := range reps {
				if same, _ := get(e, "same").(bool); !same {
					kind := "repeat"
					if p, _ := get(e, "permuted").(bool); p {
						kind = "permuted-load"
					}
					fs = append(fs, Finding{Kind: "property", Detail: fmt.Sprintf("Flatten (%s) is not deterministic (%s): %v %v %v", o, kind, get(e, "diff"), get(e, "err"), get(e, "panic")), Signature: sig("nondeterministic")})
					break
				}
			}
		}
	}
	if ctxProp == "C09" || ctxProp == "" {
		faults, _ := get(r, "faults").([]any)
		for _, e := range faults {
			if p := get(e, "panic"); p != nil {
				fs = append(fs, Finding{Kind: "property", Detail: fmt.Sprintf("Flatten (%s) panics when document load #%v fails: %v", o, get(e, "k"), p), Signature: sig("fault-panic")})
				break
			}
			if s, _ := get(e, "reportedSuccess").(bool); s {
				fs = append(fs, Finding{Kind: "property", Detail: fmt.Sprintf("Flatten (%s) reports success although document load #%v failed", o, get(e, "k")), Signature: sig("fault-swallowed")})
				break
			}
		}
	}
	return fs
}

func errClass(e string) string {
	for _, k := range []string{"could not resolve schema", "nil value has no field", "object has no key", "no such file", "cannot rewrite", "no schema", "cyclic", "not a number"} {
		if strings.Contains(e, k) {
			return strings.ReplaceAll(k, " ", "-")
		}
	}
	return "other"
}

func flattenBatch(timeout time.Duration) func(ins []any) []any {
	return func(ins []any) []any { return runInChildren("flatten", ins, timeout, 14) }
}

// flattenDriverIn builds what the Lean validators need: input and output bundles in serialization normal form, with the
// tables of external functions ($ref resolution, canonical spellings, format registry).
func flattenDriverIn(c *Case) any {
	out := get(c.Impl, "ok", "out")
	if out == nil {
		return M{"skip": true}
	}
	root, err := normDoc(get(c.In, "bundle", "root"))
	if err != nil {
		return M{"skip": true}
	}
	// the shared path items live in a vendor extension of the root (Swagger 2.0 has no section for them): extensions
	// are opaque to the analysis, and a $ref-shaped value inside one is not a $ref of the API — the validators look at the
	// documents without it (the path items that refer to it are compared after expansion, where they are in `paths`)
	// (done on the Lean side: FlatDriver leaves the key "x-path-items" out of the compared top-level parts and out of the
	// $ref scans of the output, and keeps it for resolving the path-item $refs of the input)
	inDocs := M{"": root}
	inRefs := M{"": refTargets(root, "")}
	outDocs := M{"": out}
	outRefs := M{"": refTargets(out, "")}
	for p, d := range auxOf(get(c.In, "bundle", "aux")) {
		n := normAux(d)
		if n == nil {
			return M{"skip": true}
		}
		inDocs[p] = n
		inRefs[p] = refTargets(n, p)
		outDocs[p] = n
		outRefs[p] = inRefs[p]
	}
	refToks := M{}
	for r, t := range outRefs[""].(M) {
		refToks[r] = get(t, "tokens")
	}
	// what the operations index of the namer asks about the output document (C08: Flatten.isNF)
	xt := newExtTables()
	if paths, ok := get(out, "paths").(map[string]any); ok {
		for p, pi := range paths {
			xt.answer("mkRef", "#/paths/"+jsonPtrEscape(p))
			if pim, ok := pi.(map[string]any); ok {
				for _, m := range allMethods {
					if _, has := pim[m]; has {
						xt.answer("goName", m+" "+p)
						xt.answer("mkRef", "#/paths/"+jsonPtrEscape(p)+"/"+strings.ToUpper(m))
					}
				}
			}
		}
	}
	return M{
		"in":    M{"docs": inDocs, "refs": inRefs},
		"out":   M{"docs": outDocs, "refs": outRefs},
		"opts":  get(c.In, "opts"),
		"canon": canonicalDefRefs(out),
		"ext":   M{"knownFormats": knownFormatsIn(out), "refTokens": refToks, "mkRef": xt.mkRef, "goName": xt.goName, "statusText": xt.statusText},
	}
}

func withoutKey(doc any, k string) any {
	m, ok := doc.(map[string]any)
	if !ok {
		return doc
	}
	if _, has := m[k]; !has {
		return doc
	}
	cp := make(map[string]any, len(m))
	for kk, v := range m {
		if kk != k {
			cp[kk] = v
		}
	}
	return cp
}

// flattenLeanFindings: the clauses decided by the Lean validators.
func flattenLeanFindings(c *Case, v any) []Finding {
	var fs []Finding
	if get(c.Impl, "ok", "out") == nil || v == nil {
		return nil
	}
	if s, _ := get(v, "skip").(bool); s {
		return nil
	}
	o := optsOf(get(c.In, "opts"))
	sig := func(s string) string { return "flatten:" + s + ":" + o.String() }
	want := func(ps ...string) bool {
		if ctxProp == "" {
			return true
		}
		for _, p := range ps {
			if p == ctxProp {
				return true
			}
		}
		return false
	}
	if want("C01", "C04") || (want("C05") && o.Expand) || (want("C06") && o.RemoveUnused) {
		if ok, _ := get(v, "meaning", "ok").(bool); !ok {
			sg := sig("meaning")
			// known cause (finding D19): the only difference is that root definitions are gone which are nothing but a $ref to
			// another document and whose *name* contains "OAIGen": the flatten context takes such a holder for a definition
			// it generated itself (strings.Contains(key, "OAIGen")), re-inlines it into its referrers and deletes it
			if get(v, "meaning", "firstDifference") == nil && aliasNamedLikeGeneratedOnly(get(c.In, "bundle", "root"), get(v, "meaning", "missingDefinitions")) {
				sg = "flatten:root-alias-definition-named-like-generated-is-dropped"
			}
			fs = append(fs, Finding{Kind: "property", Detail: fmt.Sprintf("Flatten (%s) changed the meaning of the API: first difference %s, missing definitions %s, top-level keys equal: %v", o, canonStr(get(v, "meaning", "firstDifference")), canonStr(get(v, "meaning", "missingDefinitions")), get(v, "meaning", "topKeysEqual")), Signature: sg})
		}
	}
	if !o.Expand && want("C02", "C04") {
		if nc, _ := get(v, "nonCanonical").([]any); len(nc) > 0 {
			fs = append(fs, Finding{Kind: "property", Detail: fmt.Sprintf("after Flatten (%s) some $ref is not a canonical reference to a present definition held by a schema: %s", o, truncate(canonStr(nc), 300)), Signature: sig("non-canonical-ref")})
		}
	}
	if !o.Expand && !o.Minimal && want("C03", "C04") {
		if ic, _ := get(v, "inlineComplex").([]any); len(ic) > 0 {
			fs = append(fs, Finding{Kind: "property", Detail: fmt.Sprintf("after full Flatten (%s) a complex schema remains inline at %s", o, truncate(canonStr(ic), 300)), Signature: sig("inline-complex")})
		}
		olds, _ := get(v, "oldDefinitions").([]any)
		news, _ := get(v, "newDefinitions").([]any)
		for _, n := range news {
			for _, old := range olds {
				if strings.EqualFold(fmt.Sprint(n), fmt.Sprint(old)) {
					fs = append(fs, Finding{Kind: "property", Detail: fmt.Sprintf("Flatten (%s) created definition %q which equals the existing %q up to letter case", o, n, old), Signature: sig("name-clash")})
				}
			}
		}
	}
	if !o.Expand && want("C08") {
		// the output must be a normal form of the phase model: on those, the pipeline is proved to be the identity
		if nf, ok := get(v, "isNF").(bool); ok && !nf {
			fs = append(fs, Finding{Kind: "property", Detail: fmt.Sprintf("the output of Flatten (%s) is not a normal form (Flatten.isNF): a second Flatten has something left to do", o), Signature: sig("not-normal-form")})
		}
	}
	if o.Expand && want("C05") {
		if nl, _ := get(v, "nonLocal").([]any); len(nl) > 0 {
			fs = append(fs, Finding{Kind: "property", Detail: fmt.Sprintf("after Flatten (%s) a remaining $ref does not target an existing local definition: %s", o, truncate(canonStr(nl), 300)), Signature: sig("expand-nonlocal-ref")})
		}
		cyc, _ := get(v, "cyclicInput").(bool)
		if n, _ := get(v, "refCount").(json.Number); !cyc && n.String() != "0" {
			fs = append(fs, Finding{Kind: "property", Detail: fmt.Sprintf("the bundle has no $ref cycle but Flatten (%s) left %s $ref(s)", o, n), Signature: sig("expand-leftover-ref")})
		}
	}
	if o.RemoveUnused && want("C06") {
		if e, _ := get(v, "sharedSectionsEmpty").(bool); !e {
			fs = append(fs, Finding{Kind: "property", Detail: fmt.Sprintf("after Flatten (%s) shared parameters/responses remain", o), Signature: sig("shared-remains")})
		}
		if u, _ := get(v, "unreferenced").([]any); len(u) > 0 {
			fs = append(fs, Finding{Kind: "property", Detail: fmt.Sprintf("after Flatten (%s) definitions %s are referred to by nothing", o, canonStr(u)), Signature: sig("unused-remains")})
		}
		if nl, _ := get(v, "nonLocal").([]any); len(nl) > 0 {
			fs = append(fs, Finding{Kind: "property", Detail: fmt.Sprintf("after Flatten (%s) a $ref dangles: %s", o, truncate(canonStr(nl), 300)), Signature: sig("dangling-ref")})
		}
	}
	return fs
}

func asList(v any) []any { l, _ := v.([]any); return l }

// aliasNamedLikeGeneratedOnly: every missing definition is, in the input root, a bare $ref to another document under a name
// that contains "OAIGen" (the shape of finding D19), and there is at least one.
func aliasNamedLikeGeneratedOnly(root any, missing any) bool {
	ms, _ := missing.([]any)
	if len(ms) == 0 {
		return false
	}
	defs, _ := get(root, "definitions").(map[string]any)
	for _, m := range ms {
		name, _ := m.(string)
		if !strings.Contains(name, "OAIGen") {
			return false
		}
		d, _ := defs[name].(map[string]any)
		r, _ := d["$ref"].(string)
		if len(d) != 1 || r == "" || strings.HasPrefix(r, "#") {
			return false
		}
	}
	return true
}
