package main

// vh — the correspondence / validation harness.  See /verif/DESIGN.md §3.
//
//   vh check <Cnn> --tier quick|thorough      run the whole check of one property
//   vh replay <file>                          re-run the case stored in a replay file
//   vh child                                  worker: runs hazardous implementation calls, one JSON line each

import (
	"bufio"
	"bytes"
	"encoding/json"
	"flag"
	"fmt"
	"os"
	"os/exec"
	"path/filepath"
	"reflect"
	"runtime"
	"sort"
	"strconv"
	"strings"
	"sync"
	"time"
)

const verifDir = "/verif"

var (
	leanDir   = filepath.Join(verifDir, "lean")
	driverBin = filepath.Join(leanDir, ".lake", "build", "bin", "driver")
)

// Case is one line of the protocol.
type Case struct {
	ID   int            `json:"id"`
	Op   string         `json:"op"`
	In   any            `json:"in"`
	Impl any            `json:"impl,omitempty"`
	Feat map[string]int `json:"-"`
	Note string         `json:"-"`
}

// Finding is something a stream wants reported.
type Finding struct {
	Kind      string `json:"kind"` // "property": the implementation breaks the property on this input; "correspondence": model and implementation differ; "obligation": a proof obligation no longer checks
	Stream    string `json:"stream"`
	Detail    string `json:"detail"`
	Signature string `json:"signature"` // structural description, matched against known_findings.jsonl
	Case      *Case  `json:"case,omitempty"`
	Model     any    `json:"model,omitempty"`
}

// StreamResult is what a stream reports back for the evidence file.
type StreamResult struct {
	Name        string
	Evaluations int
	Nontrivial  int // distinct and non-trivial by the stream's rule
	Rule        string
	Samples     []any
	Features    map[string]int
	Findings    []Finding
	Extra       map[string]any
}

type Ctx struct {
	Prop  string
	Tier  string
	Seed  uint64
	Scale int // 1 quick, >1 thorough
}

func (c *Ctx) N(quick int) int { return quick * c.Scale }

// ---- driver -------------------------------------------------------------------------------------

func runDriverChunk(cases []*Case) (map[int]any, error) {
	var in bytes.Buffer
	enc := json.NewEncoder(&in)
	enc.SetEscapeHTML(false)
	for _, c := range cases {
		if err := enc.Encode(c); err != nil {
			return nil, err
		}
	}
	cmd := exec.Command(driverBin)
	cmd.Stdin = &in
	var out, errb bytes.Buffer
	cmd.Stdout = &out
	cmd.Stderr = &errb
	if err := cmd.Run(); err != nil {
		return nil, fmt.Errorf("driver: %v: %s", err, errb.String())
	}
	res := map[int]any{}
	sc := bufio.NewScanner(&out)
	sc.Buffer(make([]byte, 1<<20), 1<<28)
	for sc.Scan() {
		var line struct {
			ID  *int   `json:"id"`
			Out any    `json:"out"`
			Err string `json:"error"`
		}
		dec := json.NewDecoder(bytes.NewReader(sc.Bytes()))
		dec.UseNumber()
		if err := dec.Decode(&line); err != nil {
			return nil, fmt.Errorf("driver output: %v: %.200s", err, sc.Text())
		}
		if line.ID == nil {
			return nil, fmt.Errorf("driver rejected a line: %s", line.Err)
		}
		res[*line.ID] = line.Out
	}
	return res, nil
}

// runDriver pipes the cases through the Lean model (in parallel chunks) and returns out by case id.
func runDriver(cases []*Case) (map[int]any, error) {
	workers := runtime.NumCPU()
	if workers > 12 {
		workers = 12
	}
	if len(cases) < 4*workers {
		workers = 1
	}
	chunks := make([][]*Case, workers)
	for i, c := range cases {
		chunks[i%workers] = append(chunks[i%workers], c)
	}
	res := map[int]any{}
	var mu sync.Mutex
	var wg sync.WaitGroup
	var firstErr error
	for _, ch := range chunks {
		if len(ch) == 0 {
			continue
		}
		wg.Add(1)
		go func(ch []*Case) {
			defer wg.Done()
			r, err := runDriverChunk(ch)
			mu.Lock()
			defer mu.Unlock()
			if err != nil && firstErr == nil {
				firstErr = err
			}
			for k, v := range r {
				res[k] = v
			}
		}(ch)
	}
	wg.Wait()
	return res, firstErr
}

// ---- canonical comparison -------------------------------------------------------------------------

// canon normalises a JSON-like value: numbers to json.Number strings, maps as-is (marshal sorts keys).
func canon(v any) any {
	b, err := json.Marshal(v)
	if err != nil {
		return fmt.Sprintf("<unmarshalable %v>", err)
	}
	var out any
	dec := json.NewDecoder(bytes.NewReader(b))
	dec.UseNumber()
	_ = dec.Decode(&out)
	return normNumbers(out)
}

func normNumbers(v any) any {
	switch x := v.(type) {
	case json.Number:
		s := x.String()
		if f, err := strconv.ParseFloat(s, 64); err == nil && f == float64(int64(f)) && !strings.ContainsAny(s, "eE") {
			return json.Number(strconv.FormatInt(int64(f), 10))
		}
		return x
	case map[string]any:
		for k, e := range x {
			x[k] = normNumbers(e)
		}
		return x
	case []any:
		for i, e := range x {
			x[i] = normNumbers(e)
		}
		return x
	}
	return v
}

func canonStr(v any) string {
	b, _ := json.Marshal(canon(v))
	return string(b)
}

func jsonEq(a, b any) bool { return reflect.DeepEqual(canon(a), canon(b)) }

// sortArrays sorts every array found under v (recursively) by canonical string: used where the API documents no order.
func sortArrays(v any) any {
	switch x := v.(type) {
	case map[string]any:
		o := map[string]any{}
		for k, e := range x {
			o[k] = sortArrays(e)
		}
		return o
	case []any:
		o := make([]any, len(x))
		for i, e := range x {
			o[i] = sortArrays(e)
		}
		sort.SliceStable(o, func(i, j int) bool { return canonStr(o[i]) < canonStr(o[j]) })
		return o
	}
	return v
}

// outcomeTag maps an outcome object {"ok":..}|{"err":..}|{"panic":..}|{"timeout":..} to its tag.
func outcomeTag(v any) string {
	m, ok := v.(map[string]any)
	if !ok {
		return "?"
	}
	for _, t := range []string{"ok", "err", "panic", "timeout", "crash"} {
		if _, has := m[t]; has {
			return t
		}
	}
	return "?"
}

func get(v any, path ...string) any {
	for _, k := range path {
		m, ok := v.(map[string]any)
		if !ok {
			return nil
		}
		v = m[k]
	}
	return v
}

// protect runs f, turning a panic into an outcome.
func protect(f func() any) (res any) {
	defer func() {
		if r := recover(); r != nil {
			res = M{"panic": fmt.Sprint(r)}
		}
	}()
	return M{"ok": f()}
}

func mustJSON(v any) []byte {
	var buf bytes.Buffer
	enc := json.NewEncoder(&buf)
	enc.SetEscapeHTML(false)
	if err := enc.Encode(v); err != nil {
		panic(err)
	}
	return bytes.TrimRight(buf.Bytes(), "\n")
}

func clone(v any) any {
	var out any
	dec := json.NewDecoder(bytes.NewReader(mustJSON(v)))
	dec.UseNumber()
	if err := dec.Decode(&out); err != nil {
		panic(err)
	}
	return out
}

func truncate(s string, n int) string {
	if len(s) > n {
		return s[:n] + "…"
	}
	return s
}

// ---- main -----------------------------------------------------------------------------------------

func main() {
	if d := os.Getenv("VH_DRIVER"); d != "" { // development: another build of the model driver
		driverBin = d
	}
	if len(os.Args) < 2 {
		fmt.Fprintln(os.Stderr, "usage: vh check <Cnn> --tier quick|thorough | vh replay <file> | vh child")
		os.Exit(2)
	}
	switch os.Args[1] {
	case "check":
		fs := flag.NewFlagSet("check", flag.ExitOnError)
		tier := fs.String("tier", "quick", "quick|thorough")
		skipLean := fs.Bool("skip-lean", false, "skip the Lean build/audit (development only; evidence says so)")
		if len(os.Args) < 3 {
			os.Exit(2)
		}
		prop := os.Args[2]
		_ = fs.Parse(os.Args[3:])
		seed := uint64(1)
		if s := os.Getenv("VERIF_SEED"); s != "" {
			if v, err := strconv.ParseUint(s, 10, 64); err == nil {
				seed = v
			}
		}
		if t := os.Getenv("VERIF_TIER"); t == "quick" || t == "thorough" {
			if !isFlagSet(fs, "tier") {
				*tier = t
			}
		}
		os.Exit(runCheck(prop, *tier, seed, *skipLean))
	case "replay":
		if len(os.Args) < 3 {
			os.Exit(2)
		}
		os.Exit(runReplay(os.Args[2]))
	case "child":
		childMain()
	case "explore-flatten":
		seed, _ := strconv.ParseUint(os.Args[2], 10, 64)
		n, _ := strconv.Atoi(os.Args[3])
		exploreFlatten(seed, n)
	case "gen-flatten":
		// development aid: print the child request of the flatten stream for (seed, index)
		seed, _ := strconv.ParseUint(os.Args[2], 10, 64)
		idx, _ := strconv.Atoi(os.Args[3])
		g := NewGen(seed, flattenStream.Stream<<32|uint64(idx))
		in, _ := flattenStream.Gen(g, idx)
		os.Stdout.Write(mustJSON(childReq{Op: "flatten", In: in}))
		fmt.Println()
	case "explore-phases":
		seed, _ := strconv.ParseUint(os.Args[2], 10, 64)
		scale, _ := strconv.Atoi(os.Args[3])
		res := phasesStreamRun(&Ctx{Prop: "", Tier: "quick", Seed: seed, Scale: scale})
		for _, f := range res.Findings {
			fmt.Printf("--- %s %s\n    %s\n    opts: %s\n    bundle: %s\n    model: %s\n", f.Kind, f.Signature, truncate(f.Detail, 700), canonStr(get(f.Case.In, "opts")), truncate(string(mustJSON(get(f.Case.In, "bundle"))), 1500), truncate(string(mustJSON(f.Model)), 600))
		}
		for _, k := range sortedKeys(res.Features) {
			if strings.HasPrefix(k, "steps:") || strings.HasPrefix(k, "phase:") || strings.HasPrefix(k, "changed:") || strings.HasPrefix(k, "driver:") || strings.HasPrefix(k, "impl:") {
				fmt.Printf("%6d  %s\n", res.Features[k], k)
			}
		}
		fmt.Println("evaluations", res.Evaluations, "nontrivial", res.Nontrivial, "findings", len(res.Findings))
	case "racerun":
		seed, _ := strconv.ParseUint(os.Args[2], 10, 64)
		docs, _ := strconv.Atoi(os.Args[3])
		gor, _ := strconv.Atoi(os.Args[4])
		os.Exit(raceRun(seed, docs, gor))
	default:
		fmt.Fprintln(os.Stderr, "unknown command", os.Args[1])
		os.Exit(2)
	}
}

func isFlagSet(fs *flag.FlagSet, name string) bool {
	set := false
	fs.Visit(func(f *flag.Flag) {
		if f.Name == name {
			set = true
		}
	})
	return set
}

var startTime = time.Now()

func bytesReader(b []byte) *bytes.Reader { return bytes.NewReader(b) }

// exploreFlatten: development aid — runs the flatten stream over generated bundles and prints a histogram of findings.
func exploreFlatten(seed uint64, n int) {
	ctx := &Ctx{Prop: "", Tier: "quick", Seed: seed, Scale: 1}
	st := *flattenStream
	st.N = n
	res := st.Run(ctx)
	hist := map[string]int{}
	for _, f := range res.Findings {
		hist[f.Kind+" "+f.Signature]++
		fmt.Printf("--- %s %s\n    %s\n    bundle: %s\n", f.Kind, f.Signature, truncate(f.Detail, 500), truncate(string(mustJSON(get(f.Case.In, "bundle"))), 1200))
	}
	for _, k := range sortedKeys(res.Features) {
		fmt.Printf("%6d  %s\n", res.Features[k], k)
	}
	fmt.Println("evaluations", res.Evaluations, "findings", len(res.Findings))
}
