package main

import (
	"fmt"
	"sort"
	"strings"
	"time"
	"unicode"

	"github.com/go-openapi/analysis"
	"github.com/go-openapi/spec"
)

// foldKey: a canonical key with strings.EqualFold(a, b) <=> foldKey(a) == foldKey(b) (minimum of each rune's SimpleFold orbit).
func foldKey(s string) string {
	var b strings.Builder
	for _, r := range s {
		min := r
		for f := unicode.SimpleFold(r); f != r; f = unicode.SimpleFold(f) {
			if f < min {
				min = f
			}
		}
		b.WriteRune(min)
	}
	return b.String()
}

var uniqifyStream = (&StreamSpec{
	Name:   "uniqify",
	Op:     "uniqify",
	N:      1500,
	Stream: 3,
	Rule:   "uniqifyName on definition sets drawn from case variants of a small pool (pet / Pet / PET / petOAIGen / PETOAIGEN1 ..., non-ASCII cased and caseless names) and candidate names incl. the empty name; non-trivial = the name collides with an existing one up to case; distinct by canonical JSON",
	Corpus: func() []any {
		mk := func(name string, defs ...string) any {
			fk := M{}
			all := append([]string{name, "oaiGen"}, defs...)
			for i := 0; i <= len(defs)+2; i++ {
				for _, base := range []string{name + "OAIGen", "oaiGenOAIGen"} {
					c := base
					if i > 0 {
						c = fmt.Sprintf("%s%d", base, i)
					}
					all = append(all, c)
				}
			}
			for _, n := range all {
				fk[n] = foldKey(n)
			}
			d := []any{}
			for _, x := range defs {
				d = append(d, x)
			}
			return M{"defs": d, "name": name, "foldKeys": fk}
		}
		return []any{
			mk("petOwner", "pet", "PetOwner", "PETOWNEROAIGEN"),
			mk("a", "a", "AOAIGEN", "aoaigen1"),
			mk("", "OAIGEN"),
			mk("x"),
		}
	},
	Gen: func(g *Gen, i int) (any, string) {
		bases := []string{"pet", "owner", "é", "ǆ", "日本", "a b", "x", "οδος", "maſs", "µm"} // incl. letters whose simple folding is not ToLower/ToUpper (ς, ſ, µ)
		variant := func(s string) string {
			switch g.n(4) {
			case 0:
				return strings.ToUpper(s)
			case 1:
				return strings.ToLower(s)
			case 2:
				return strings.Title(s) //nolint
			}
			return s
		}
		var defs []string
		seen := map[string]bool{}
		for k, n := 0, g.n(7); k < n; k++ {
			d := variant(g.pick(bases))
			switch g.n(4) {
			case 0:
				d += variant("OAIGen")
			case 1:
				d += variant("OAIGen") + fmt.Sprint(1+g.n(3))
			}
			if !seen[d] {
				seen[d] = true
				defs = append(defs, d)
			}
		}
		name := variant(g.pick(bases))
		if g.p(0.08) {
			name = ""
		}
		fk := M{}
		all := append([]string{name, "oaiGen"}, defs...)
		for k := 0; k <= len(defs)+2; k++ {
			for _, base := range []string{name + "OAIGen", "oaiGenOAIGen"} {
				c := base
				if k > 0 {
					c = fmt.Sprintf("%s%d", base, k)
				}
				all = append(all, c)
			}
		}
		for _, n := range all {
			fk[n] = foldKey(n)
		}
		d := []any{}
		for _, x := range defs {
			d = append(d, x)
		}
		return M{"defs": d, "name": name, "foldKeys": fk}, ""
	},
	Impl: func(in any) any {
		defs := spec.Definitions{}
		for _, d := range get(in, "defs").([]any) {
			defs[d.(string)] = spec.Schema{}
		}
		name, _ := get(in, "name").(string)
		return protect(func() any {
			n, gen := analysis.VerifUniqifyName(defs, name)
			return []any{n, gen}
		})
	},
	Nontrivial: func(c *Case) bool {
		name, _ := get(c.In, "name").(string)
		for _, d := range get(c.In, "defs").([]any) {
			if strings.EqualFold(d.(string), name) {
				return true
			}
		}
		return false
	},
	Compare: func(c *Case, out any) []Finding {
		var fs []Finding
		if outcomeTag(c.Impl) != "ok" {
			return []Finding{{Kind: "property", Detail: "uniqifyName panics: " + canonStr(c.Impl), Signature: "uniqify:panic"}}
		}
		res := get(c.Impl, "ok").([]any)
		got := res[0].(string)
		for _, d := range get(c.In, "defs").([]any) {
			if strings.EqualFold(d.(string), got) {
				fs = append(fs, Finding{Kind: "property", Detail: fmt.Sprintf("uniqifyName(%v, %q) = %q which equals the existing %q up to letter case", get(c.In, "defs"), get(c.In, "name"), got, d), Signature: "uniqify:not-fresh"})
			}
		}
		if !jsonEq(get(out, "model", "ok"), get(c.Impl, "ok")) {
			fs = append(fs, Finding{Kind: "correspondence", Detail: fmt.Sprintf("uniqifyName(%v, %q): implementation %s, model %s", get(c.In, "defs"), get(c.In, "name"), canonStr(get(c.Impl, "ok")), canonStr(get(out, "model"))), Signature: "uniqify:model-differs"})
		}
		return fs
	},
}).register()

// ---- removeUnused -----------------------------------------------------------------------------------------------------

func init() {
	childOps["removeUnused"] = func(in any) any {
		sw, err := loadSwagger(get(in, "doc"))
		if err != nil {
			return M{"err": "load: " + err.Error()}
		}
		return protect(func() any {
			analysis.VerifRemoveUnused(sw)
			return swaggerJSON(sw)
		})
	}
}

func removeUnusedGen(g *Gen) any {
	names := []string{"pet", "my def", "a/b", "til~de", "日本", "q?x", "cu{id}", "br[0]", "h#v", "x y z", "Owner", "n-1"}
	k := 1 + g.n(7)
	perm := g.r.Perm(len(names))
	var defs []string
	for i := 0; i < k; i++ {
		defs = append(defs, names[perm[i]])
	}
	sort.Strings(defs)
	ref := func() M { return M{"$ref": "#/definitions/" + jsonPtrEscape(g.pick(defs))} }
	var sch func(d int) M
	sch = func(d int) M {
		if g.p(0.3) {
			return ref()
		}
		if d <= 0 || g.p(0.3) {
			return M{"type": g.pick([]string{"string", "integer"})}
		}
		switch g.n(4) {
		case 0:
			return M{"type": "object", "properties": M{g.pick([]string{"a", "x/y", "t~x", "b c"}): sch(d - 1), "z": sch(d - 1)}}
		case 1:
			return M{"type": "array", "items": sch(d - 1)}
		case 2:
			return M{"allOf": []any{sch(d - 1), sch(d - 1)}}
		}
		return M{"type": "object", "additionalProperties": sch(d - 1)}
	}
	dm := M{}
	for _, n := range defs {
		dm[n] = sch(2)
	}
	// chains that become unused only after another definition is removed
	if len(defs) >= 3 && g.p(0.5) {
		dm[defs[0]] = M{"type": "object", "properties": M{"next": M{"$ref": "#/definitions/" + jsonPtrEscape(defs[1])}}}
		dm[defs[1]] = M{"type": "array", "items": M{"$ref": "#/definitions/" + jsonPtrEscape(defs[2])}}
		g.hit("chain")
	}
	paths := M{}
	for i, n := 0, g.n(3); i < n; i++ {
		op := M{"operationId": fmt.Sprintf("op%d", i), "responses": M{"200": M{"description": "r", "schema": sch(2)}}}
		if g.p(0.5) {
			op["parameters"] = []any{M{"name": "body", "in": "body", "schema": sch(2)}}
		}
		paths[fmt.Sprintf("/p%d", i)] = M{g.pick(allMethods): op}
	}
	doc := M{"swagger": "2.0", "info": M{"title": "t", "version": "1"}, "paths": paths, "definitions": dm}
	if g.p(0.5) {
		doc["parameters"] = M{"bp": M{"name": "body", "in": "body", "schema": sch(1)}}
		doc["responses"] = M{"r": M{"description": "d", "schema": sch(1)}}
		g.hit("shared-sections")
	}
	n := normalFormDoc(doc)
	if n == nil {
		return nil
	}
	refNames := M{}
	for r, t := range refTargets(n, "") {
		toks, _ := get(t, "tokens").([]any)
		if d, _ := get(t, "doc").(string); d == "" && len(toks) == 2 && toks[0] == "definitions" {
			refNames[r] = toks[1]
		}
	}
	canon := canonicalDefRefs(n)
	return M{"doc": n, "refNames": refNames, "canon": canon}
}

var removeUnusedStream = (&StreamSpec{
	Name:   "removeUnused",
	Op:     "removeUnused",
	N:      300,
	Stream: 6,
	Rule:   "single documents (as after the expansion phase: no parameter/response $refs) with 1..8 definitions whose names need JSON-pointer or URL escaping or neither, used / unused / in chains that become unused only after another definition is removed, referenced from operations, shared sections and each other; removeUnusedShared + removeUnused run in a child process (10 s); non-trivial = at least one definition removed; distinct by canonical JSON",
	Gen:    func(g *Gen, i int) (any, string) { return removeUnusedGen(g), "" },
	ImplBatch: func(ins []any) []any {
		return runInChildren("removeUnused", ins, 10*time.Second, 12)
	},
	Nontrivial: func(c *Case) bool {
		a, _ := get(c.In, "doc", "definitions").(map[string]any)
		b, _ := get(c.Impl, "ok", "definitions").(map[string]any)
		return len(b) < len(a)
	},
	Compare: func(c *Case, out any) []Finding {
		var fs []Finding
		switch outcomeTag(c.Impl) {
		case "timeout":
			return []Finding{{Kind: "property", Detail: "removeUnused did not terminate within 10 s", Signature: "removeUnused:hang"}}
		case "crash", "panic":
			return []Finding{{Kind: "property", Detail: "removeUnused crashed: " + canonStr(c.Impl), Signature: "removeUnused:crash"}}
		case "err":
			return nil
		}
		if e, ok := get(out, "spec", "sharedSectionsEmpty").(bool); ok && !e {
			fs = append(fs, Finding{Kind: "property", Detail: "shared parameters/responses remain after removeUnusedShared", Signature: "removeUnused:shared-remains"})
		}
		if u, _ := get(out, "spec", "unreferenced").([]any); len(u) > 0 {
			fs = append(fs, Finding{Kind: "property", Detail: fmt.Sprintf("definitions %s remain although nothing refers to them", canonStr(u)), Signature: "removeUnused:unused-remains"})
		}
		before, _ := get(out, "danglingBefore").([]any)
		if d, _ := get(out, "spec", "dangling").([]any); len(d) > 0 && len(before) == 0 {
			fs = append(fs, Finding{Kind: "property", Detail: fmt.Sprintf("a used definition was removed: %s now dangle", canonStr(d)), Signature: "removeUnused:new-dangling"})
		}
		fs = append(fs, cmpOutcomeDocs(c, out, "model")...)
		return fs
	},
}).register()

// ---- sort --------------------------------------------------------------------------------------------------------------

var sortStream = (&StreamSpec{
	Name:   "sort",
	Op:     "sort",
	N:      300,
	Stream: 7,
	Rule:   "DepthFirst / TopmostFirst on key sets: all analyzer keys (schemas and references) of generated documents plus synthetic keys (signed status codes, unknown sections, escaped segments, numeral siblings of different lengths / with leading zeros, keys differing by letter case); the implementation is called on the keys in two different orders; non-trivial = at least 3 keys; distinct by canonical JSON",
	Gen: func(g *Gen, i int) (any, string) {
		g.MaxDepth = 2
		doc := normRefs(g.Doc(DocOpts{NoPathsProb: 0.05}))
		sw, err := loadSwagger(doc)
		if err != nil {
			return nil, ""
		}
		var keys []string
		func() {
			defer func() { _ = recover() }()
			d := analysis.New(sw).VerifDump()
			for k := range d["schemas"].(map[string]analysis.VerifSchemaRef) {
				keys = append(keys, k)
			}
			for k := range d["allRefs"].(map[string]string) {
				keys = append(keys, k)
			}
		}()
		keys = append(keys, "#/paths/~1a/get/responses/+200/schema", "#/paths/~1a/get/responses/-1/schema", "#/x-ext/foo/bar", "#/definitions", "#/", "#/paths/~1a//get/responses/default", "#/responses/r/schema/items", "#/parameters/p/schema")
		// sibling keys whose last segments are numerals of different lengths / with leading zeros, and keys that differ by
		// letter case only: ties and numeric orders in a comparison function show up here
		base := g.pick([]string{"#/definitions/holder/properties", "#/definitions/holder/allOf", "#/paths/~1a/get/responses/200/schema/properties", "#/definitions/holder/properties/t/items"})
		for _, n := range [][]string{{"7", "07"}, {"2", "10"}, {"1", "01", "001", "11"}, {"9", "10", "100"}}[g.n(4)] {
			keys = append(keys, base+"/"+n)
		}
		if g.p(0.5) {
			keys = append(keys, "#/definitions/Item", "#/definitions/item", "#/definitions/holder/properties/Name", "#/definitions/holder/properties/name")
		}
		seen := map[string]bool{}
		var ks []any
		sort.Strings(keys)
		for _, k := range keys {
			if !seen[k] {
				seen[k] = true
				ks = append(ks, k)
			}
		}
		return M{"keys": ks}, ""
	},
	Impl: func(in any) any {
		var keys []string
		for _, k := range get(in, "keys").([]any) {
			keys = append(keys, k.(string))
		}
		return protect(func() any {
			rev := make([]string, len(keys))
			for i, k := range keys {
				rev[len(keys)-1-i] = k
			}
			toAnyL := func(xs []string) []any {
				o := make([]any, len(xs))
				for i, x := range xs {
					o[i] = x
				}
				return o
			}
			return M{"depthFirst": toAnyL(analysis.VerifDepthFirst(keys)), "depthFirstRev": toAnyL(analysis.VerifDepthFirst(rev)),
				"topmostFirst": toAnyL(analysis.VerifTopmostFirst(keys)), "topmostFirstRev": toAnyL(analysis.VerifTopmostFirst(rev))}
		})
	},
	Nontrivial: func(c *Case) bool { ks, _ := get(c.In, "keys").([]any); return len(ks) >= 3 },
	Compare: func(c *Case, out any) []Finding {
		var fs []Finding
		if outcomeTag(c.Impl) != "ok" {
			return []Finding{{Kind: "property", Detail: "sort panics: " + canonStr(c.Impl), Signature: "sort:panic"}}
		}
		r := get(c.Impl, "ok")
		if !jsonEq(get(r, "depthFirst"), get(r, "depthFirstRev")) || !jsonEq(get(r, "topmostFirst"), get(r, "topmostFirstRev")) {
			fs = append(fs, Finding{Kind: "property", Detail: "the sorted order depends on the order in which the keys are supplied", Signature: "sort:order-dependent"})
		}
		if !jsonEq(get(r, "depthFirst"), get(out, "depthFirst")) {
			fs = append(fs, Finding{Kind: "correspondence", Detail: "DepthFirst differs: " + firstDiff(get(out, "depthFirst"), get(r, "depthFirst")) + " (left model, right implementation)", Signature: "sort:depthFirst"})
		}
		if !jsonEq(get(r, "topmostFirst"), get(out, "topmostFirst")) {
			fs = append(fs, Finding{Kind: "correspondence", Detail: "TopmostFirst differs: " + firstDiff(get(out, "topmostFirst"), get(r, "topmostFirst")) + " (left model, right implementation)", Signature: "sort:topmostFirst"})
		}
		return fs
	},
}).register()
