-- feasibility: nested inductive schema with explicit fields, structural mutual recursion, a walk and a spec walk
structure Attrs where
  ref : String := ""
  pattern : String := ""
  deriving Repr, DecidableEq

inductive Schema where
  | mk (a : Attrs)
       (props : List (String × Schema))
       (allOf : List Schema)
       (items : Option Schema)
       (not : Option Schema)
  deriving Repr

namespace Schema
def attrs : Schema → Attrs | mk a .. => a
def props : Schema → List (String × Schema) | mk _ p .. => p
def allOf : Schema → List Schema | mk _ _ l .. => l
def items : Schema → Option Schema | mk _ _ _ i _ => i
def not : Schema → Option Schema | mk _ _ _ _ n => n
end Schema

def esc (s : String) : String := (s.replace "~" "~0").replace "/" "~1"

-- Go-like analyzer walk: returns list of (key, ref)
mutual
def walk (pfx : String) (name : String) : Schema → List (String × String)
  | .mk a ps ao it nt =>
    let key := pfx ++ "/" ++ esc name
    (if a.ref ≠ "" then [(key, a.ref)] else [])
      ++ walkProps (key ++ "/properties") ps
      ++ walkList (key ++ "/allOf") 0 ao
      ++ walkOpt key "items" it
      ++ walkOpt key "not" nt
def walkProps (pfx : String) : List (String × Schema) → List (String × String)
  | [] => []
  | (n, s) :: rest => walk pfx n s ++ walkProps pfx rest
def walkList (pfx : String) (i : Nat) : List Schema → List (String × String)
  | [] => []
  | s :: rest => walk pfx (toString i) s ++ walkList pfx (i+1) rest
def walkOpt (pfx : String) (name : String) : Option Schema → List (String × String)
  | none => []
  | some s => walk pfx name s
end

#eval walk "/definitions" "a/b" (.mk {ref := ""} [("x", .mk {ref := "#/definitions/q"} [] [] none none)] [.mk {ref := "r2"} [] [] none none] none none)

-- count of refs (spec)
mutual
def countRefs : Schema → Nat
  | .mk a ps ao it nt => (if a.ref ≠ "" then 1 else 0) + countProps ps + countList ao + countOpt it + countOpt nt
def countProps : List (String × Schema) → Nat
  | [] => 0
  | (_, s) :: rest => countRefs s + countProps rest
def countList : List Schema → Nat
  | [] => 0
  | s :: rest => countRefs s + countList rest
def countOpt : Option Schema → Nat
  | none => 0
  | some s => countRefs s
end

mutual
theorem walk_len (pfx name : String) : (s : Schema) → (walk pfx name s).length = countRefs s
  | .mk a ps ao it nt => by
    simp only [walk, countRefs, List.length_append]
    rw [walkProps_len, walkList_len, walkOpt_len, walkOpt_len]
    split <;> simp
theorem walkProps_len (pfx : String) : (l : List (String × Schema)) → (walkProps pfx l).length = countProps l
  | [] => by simp [walkProps, countProps]
  | (n, s) :: rest => by simp only [walkProps, countProps, List.length_append]; rw [walk_len, walkProps_len]
theorem walkList_len (pfx : String) (i : Nat) : (l : List Schema) → (walkList pfx i l).length = countList l
  | [] => by simp [walkList, countList]
  | s :: rest => by simp only [walkList, countList, List.length_append]; rw [walk_len, walkList_len]
theorem walkOpt_len (pfx name : String) : (o : Option Schema) → (walkOpt pfx name o).length = countOpt o
  | none => by simp [walkOpt, countOpt]
  | some s => by simp only [walkOpt, countOpt]; rw [walk_len]
end

#print axioms walk_len
