def esc : List Char → List Char
  | [] => []
  | '~' :: r => '~' :: '0' :: esc r
  | '/' :: r => '~' :: '1' :: esc r
  | c :: r => c :: esc r

def dec : List Char → List Char
  | '~' :: '0' :: r => '~' :: dec r
  | '~' :: '1' :: r => '/' :: dec r
  | c :: r => c :: dec r
  | [] => []

theorem esc_cons_other (c : Char) (r : List Char) (h1 : c ≠ '~') (h2 : c ≠ '/') : esc (c :: r) = c :: esc r := by
  rw [esc]
  · exact h1
  · exact h2

theorem dec_cons_other (c : Char) (r : List Char) (h1 : c ≠ '~') : dec (c :: r) = c :: dec r := by
  cases r with
  | nil => rw [dec] <;> simp_all
  | cons d r' => rw [dec] <;> simp_all

theorem dec_esc (s : List Char) : dec (esc s) = s := by
  induction s with
  | nil => simp [esc, dec]
  | cons c r ih =>
    by_cases h1 : c = '~'
    · subst h1; simp [esc, dec, ih]
    · by_cases h2 : c = '/'
      · subst h2; simp [esc, dec, ih]
      · rw [esc_cons_other c r h1 h2, dec_cons_other c _ h1, ih]
#print axioms dec_esc
