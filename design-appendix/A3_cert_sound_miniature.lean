/-! miniature of Cert.lean: schemas = (label, ref?, children by edge name), defs table, unfold with fuel,
    certificate = list of pairs of "locations"; soundness by induction on depth. -/

inductive Sch where
  | node (label : String) (kids : List (String × Sch))
  | ref  (target : String)
  deriving Repr

abbrev Defs := List (String × Sch)

def lookup (d : Defs) (n : String) : Option Sch :=
  match d with
  | [] => none
  | (k, v) :: r => if k = n then some v else lookup r n

/-- follow a chain of refs, at most `fuel` hops -/
def chase (d : Defs) : Nat → Sch → Option Sch
  | _, .node l ks => some (.node l ks)
  | 0, .ref _ => none
  | n+1, .ref t => match lookup d t with
      | none => none
      | some s => chase d n s

inductive Tree where
  | bot
  | cut
  | node (label : String) (kids : List (String × Tree))
  deriving Repr

/-- depth-n unfolding; `hops` bounds each ref chain (a pure ref cycle denotes bot) -/
def unfold (d : Defs) (hops : Nat) : Nat → Sch → Tree
  | 0, _ => .cut
  | n+1, s => match chase d hops s with
      | none => .bot
      | some (.ref _) => .bot
      | some (.node l ks) => .node l (unfoldKids d hops n ks)
where
  unfoldKids (d : Defs) (hops : Nat) (n : Nat) : List (String × Sch) → List (String × Tree)
    | [] => []
    | (e, c) :: r => (e, unfold d hops n c) :: unfoldKids d hops n r

/-- a certificate relates schema terms of side 1 with schema terms of side 2 -/
abbrev Rel := List (Sch × Sch)

def Sch.beq : Sch → Sch → Bool
  | .ref a, .ref b => a == b
  | .node l ks, .node l' ks' => l == l' && kidsBeq ks ks'
  | _, _ => false
where kidsBeq : List (String × Sch) → List (String × Sch) → Bool
  | [], [] => true
  | (e, c) :: r, (e', c') :: r' => e == e' && Sch.beq c c' && kidsBeq r r'
  | _, _ => false

def Rel.mem (R : Rel) (a b : Sch) : Bool := R.any fun (x, y) => x.beq a && y.beq b

/-- kids lists agree edge by edge and each child pair is in R -/
def kidsOK (R : Rel) : List (String × Sch) → List (String × Sch) → Bool
  | [], [] => true
  | (e, c) :: r, (e', c') :: r' => e == e' && R.mem c c' && kidsOK R r r'
  | _, _ => false

def pairOK (d1 d2 : Defs) (hops : Nat) (R : Rel) (a b : Sch) : Bool :=
  match chase d1 hops a, chase d2 hops b with
  | none, none => true
  | some (.node l ks), some (.node l' ks') => l == l' && kidsOK R ks ks'
  | _, _ => false

def checkCert (d1 d2 : Defs) (hops : Nat) (R : Rel) : Bool :=
  R.all fun (a, b) => pairOK d1 d2 hops R a b

-- soundness needs: R.mem a b = true → ∃ (x,y) ∈ R with x = a, y = b (beq sound)
mutual
theorem Sch.beq_eq : (a b : Sch) → Sch.beq a b = true → a = b
  | .ref x, .ref y, h => by simp [Sch.beq] at h; simp [h]
  | .node l ks, .node l' ks', h => by
      simp [Sch.beq] at h
      have := kidsBeq_eq ks ks' h.2
      simp [h.1, this]
  | .ref _, .node _ _, h => by simp [Sch.beq] at h
  | .node _ _, .ref _, h => by simp [Sch.beq] at h
theorem kidsBeq_eq : (a b : List (String × Sch)) → Sch.beq.kidsBeq a b = true → a = b
  | [], [], _ => rfl
  | (e, c) :: r, (e', c') :: r', h => by
      simp [Sch.beq.kidsBeq] at h
      have h1 := Sch.beq_eq c c' h.1.2
      have h2 := kidsBeq_eq r r' h.2
      simp [h.1.1, h1, h2]
  | [], _ :: _, h => by simp [Sch.beq.kidsBeq] at h
  | _ :: _, [], h => by simp [Sch.beq.kidsBeq] at h
end

theorem mem_sound {R : Rel} {a b : Sch} (h : R.mem a b = true) : (a, b) ∈ R := by
  unfold Rel.mem at h
  rw [List.any_eq_true] at h
  obtain ⟨⟨x, y⟩, hm, hxy⟩ := h
  simp at hxy
  have hx := Sch.beq_eq x a hxy.1
  have hy := Sch.beq_eq y b hxy.2
  subst hx; subst hy; exact hm

theorem cert_sound (d1 d2 : Defs) (hops : Nat) (R : Rel) (hc : checkCert d1 d2 hops R = true) :
    ∀ n a b, (a, b) ∈ R → unfold d1 hops n a = unfold d2 hops n b := by
  intro n
  induction n with
  | zero => intro a b _; simp [unfold]
  | succ n ih =>
    intro a b hab
    have hp : pairOK d1 d2 hops R a b = true := by
      unfold checkCert at hc
      rw [List.all_eq_true] at hc
      exact hc (a, b) hab
    unfold pairOK at hp
    simp only [unfold]
    -- kids lemma
    have kids : ∀ ks ks', kidsOK R ks ks' = true →
        unfold.unfoldKids d1 hops n ks = unfold.unfoldKids d2 hops n ks' := by
      intro ks
      induction ks with
      | nil => intro ks' h; cases ks' with
        | nil => simp [unfold.unfoldKids]
        | cons _ _ => simp [kidsOK] at h
      | cons k r ihr => intro ks' h; cases ks' with
        | nil => obtain ⟨e, c⟩ := k; simp [kidsOK] at h
        | cons k' r' =>
          obtain ⟨e, c⟩ := k; obtain ⟨e', c'⟩ := k'
          simp [kidsOK] at h
          obtain ⟨⟨he, hm⟩, hr⟩ := h
          simp [unfold.unfoldKids, he, ih c c' (mem_sound hm), ihr r' hr]
    cases h1 : chase d1 hops a with
    | none =>
      cases h2 : chase d2 hops b with
      | none => simp
      | some s2 => simp [h1, h2] at hp
    | some s1 =>
      cases h2 : chase d2 hops b with
      | none => cases s1 <;> simp [h1, h2] at hp
      | some s2 =>
        cases s1 with
        | ref t => simp [h1, h2] at hp
        | node l ks =>
          cases s2 with
          | ref t => simp [h1, h2] at hp
          | node l' ks' =>
            simp [h1, h2] at hp
            simp [hp.1, kids _ _ hp.2]

#print axioms cert_sound

-- non-vacuity: recursive def A = node "obj" [p: ref A]; B = node "obj" [p: node "obj" [p: ref B]]  are bisimilar
def dA : Defs := [("A", .node "obj" [("p", .ref "A")])]
def dB : Defs := [("B", .node "obj" [("p", .node "obj" [("p", .ref "B")])])]
def RAB : Rel := [(.ref "A", .ref "B"), (.ref "A", .node "obj" [("p", .ref "B")])]
example : checkCert dA dB 4 RAB = true := by decide
#eval checkCert dA dB 4 RAB
