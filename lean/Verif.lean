import Verif.Model.Json
import Verif.Model.Str
import Verif.Model.Doc
import Verif.Model.Facts
import Verif.Model.Fixer
import Verif.Spec.Fixer
import Verif.Generated.Facts
