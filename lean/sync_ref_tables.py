#!/usr/bin/env python3
"""Bring a reference skeleton table of Verif/Model/Facts.lean in line with what the translator prints today
(Verif/Generated/Facts.lean).  Run by hand after a `fix:` commit in /repo or when a model has been re-read against a
changed source: usage  sync_ref_tables.py <generatedField>=<refDef> ...   e.g.  phaseSkeletons=flattenPhaseSkeletons
The checks never run this: a table that no longer matches is a broken obligation, not something to refresh silently."""
import re, sys
gen = open('Verif/Generated/Facts.lean').read()
mod = open('Verif/Model/Facts.lean').read()
for arg in sys.argv[1:]:
    field, ref = arg.split('=')
    m = re.search(r'^  %s := \[\n(.*?)^  \]\n' % re.escape(field), gen, re.S | re.M)
    if not m:
        sys.exit('no field %s in Generated/Facts.lean' % field)
    body = m.group(1)
    pat = re.compile(r'^def %s : List \(String × List String\) := \[\n.*?^  \]\n' % re.escape(ref), re.S | re.M)
    new = 'def %s : List (String × List String) := [\n%s  ]\n' % (ref, body)
    if not pat.search(mod):
        sys.exit('no def %s in Model/Facts.lean' % ref)
    mod = pat.sub(lambda _: new, mod)
open('Verif/Model/Facts.lean', 'w').write(mod)
