import Verif.Model.JsonIO
import Verif.Model.Fixer
import Verif.Spec.Fixer
import Verif.Model.Mixin
import Verif.Spec.Mixin
import Verif.Model.Index
import Verif.Spec.Index
import Verif.Model.OpsDriver
import Verif.Spec.Classify
import Verif.Model.FlatDriver
import Verif.Model.UnitsDriver
import Verif.Model.PhasesDriver
import Verif.Generated.Facts

open Lean

def facts : Facts := Generated.facts

/-- one request: operation name, input, and (when given) the implementation's answer -/
def dispatch (op : String) (inp : J) (impl : Option J) : J :=
  match op with
  | "ping" => .obj [("pong", inp)]
  | "fix" =>
    let m := Fixer.fix facts inp
    let implDoc := impl.bind (·.get? "ok")
    .obj [("model", JsonIO.outcome id m),
          ("spec", .obj [
            ("inputResponses", .num (Spec.Fixer.allResponses inp).length),
            ("implPost", match implDoc with | some d => .bool (Spec.Fixer.postcondition d) | none => .null),
            ("implFrame", match implDoc with | some d => .bool (Spec.Fixer.sameFrame d inp) | none => .null),
            ("implExpected", match implDoc with | some d => .bool (d == Spec.Fixer.expected inp) | none => .null)])]
  | "analyze" =>
    .obj [("model", Index.toJson (Analyzer.analyze facts inp)), ("spec", Spec.Index.expected inp)]
  | "classify" =>
    let root := (inp.get? "root").getD .null
    let e := (inp.get? "ext").getD .null
    let x : Classify.Ext := {
      knownFormat := fun fm => (e.getStrs "knownFormats").contains fm
      refTokens := fun r => match J.lookup r (e.getObj "refTokens") with
        | some (.arr xs) => some (J.strs xs)
        | _ => none }
    let encF := fun (f : Classify.Flags) => J.obj [
      ("IsKnownType", .bool f.isKnownType), ("IsSimpleSchema", .bool f.isSimpleSchema), ("IsArray", .bool f.isArray),
      ("IsSimpleArray", .bool f.isSimpleArray), ("IsMap", .bool f.isMap), ("IsSimpleMap", .bool f.isSimpleMap),
      ("IsExtendedObject", .bool f.isExtendedObject), ("IsTuple", .bool f.isTuple), ("IsTupleWithExtra", .bool f.isTupleWithExtra),
      ("IsBaseType", .bool f.isBaseType), ("IsEnum", .bool f.isEnum)]
    .arr ((inp.getArr "schemas").map fun s =>
      let m := Classify.classify facts x root 4000 [] s
      let shape := Spec.Classify.shapeOf s
      .obj [("model", JsonIO.outcome encF m),
            ("spec", .obj [
              ("shape", .str (reprStr shape)),
              ("expectedComplex", match Spec.Classify.expectedComplex shape with
                | some b => .bool b
                | none => if Spec.Classify.isEmptyObject s then .bool false else .null),
              ("modelCoherent", match m with | .ok f => .bool (Spec.Classify.coherent f) | _ => .null)])])
  | "uniqify" => UnitsDriver.uniqify facts inp
  | "removeUnused" => UnitsDriver.removeUnused facts (match impl.bind (·.get? "ok") with | some o => inp.set "implDoc" o | none => inp)
  | "sort" => UnitsDriver.sort inp
  | "replace" => UnitsDriver.replace inp
  | "flatten" => FlatDriver.run facts inp
  | "phases" => PhasesDriver.run facts inp
  | "ops" => .obj [("answers", OpsDriver.run facts inp)]
  | "mixin" =>
    let primary := (inp.get? "primary").getD .null
    let mixins := inp.getArr "mixins"
    let docs := primary :: mixins
    let encW := fun (ws : List Mixin.Warn) => J.arr (ws.map fun w => .arr [.str w.1, .str w.2])
    let m := Mixin.mixin facts primary mixins
    let implOk := impl.bind (·.get? "ok")
    let spec := match implOk with
      | some r =>
        let doc := (r.get? "doc").getD .null
        let wc := (r.getArr "warnings").length
        [("failed", J.mkStrs (Spec.Mixin.failedClauses docs doc wc)),
         ("failedIds", J.mkStrs (Spec.Mixin.failedIdClauses docs doc))]
      | none => []
    .obj [("model", JsonIO.outcome (fun (r : J × List Mixin.Warn) => .obj [("doc", r.1), ("warnings", encW r.2)]) m),
          ("spec", .obj (spec ++ [
            ("hyp18", .bool (docs.all Spec.Mixin.uniqueIds && Spec.Mixin.noSuffixClash docs)),
            ("expectedWarnings", .num (Spec.Mixin.expectedWarnings docs))]))]
  | _ => .obj [("unsupported", .str op)]

partial def loop (h : IO.FS.Stream) (out : IO.FS.Stream) : IO Unit := do
  let line ← h.getLine
  if line.isEmpty then return ()
  let line := line.trimAscii.toString
  if line.isEmpty then loop h out else
  match Json.parse line with
  | .error e =>
    out.putStrLn (Json.mkObj [("error", .str e)]).compress
    loop h out
  | .ok j =>
    let id := (j.getObjVal? "id").toOption.getD .null
    let op := ((j.getObjVal? "op").toOption.bind (·.getStr?.toOption)).getD ""
    let inp := JsonIO.ofJson ((j.getObjVal? "in").toOption.getD .null)
    let impl := (j.getObjVal? "impl").toOption.map JsonIO.ofJson
    let res := dispatch op inp impl
    out.putStrLn (Json.mkObj [("id", id), ("out", JsonIO.toJson res)]).compress
    out.flush
    loop h out

def main : IO Unit := do
  loop (← IO.getStdin) (← IO.getStdout)
