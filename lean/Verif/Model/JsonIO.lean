import Lean.Data.Json
import Verif.Model.Json

/-  I/O boundary of the driver: Lean.Json <-> J.  Not used by any theorem. -/

open Lean

namespace JsonIO

partial def ofJson : Json → J
  | .null => .null
  | .bool b => .bool b
  | .num n => if n.exponent = 0 then .num n.mantissa else .str s!"<float {n}>"
  | .str s => .str s
  | .arr xs => .arr (xs.toList.map ofJson)
  | .obj kvs => .obj (kvs.foldl (fun acc k v => (k, ofJson v) :: acc) []).reverse

partial def toJson : J → Json
  | .null => .null
  | .bool b => .bool b
  | .num n => .num (JsonNumber.fromInt n)
  | .str s => .str s
  | .arr xs => .arr (xs.map toJson).toArray
  | .obj kvs => Json.mkObj (kvs.map fun (k, v) => (k, toJson v))

def outcome {α} (enc : α → J) : Outcome α → J
  | .ok a => .obj [("ok", enc a)]
  | .err e => .obj [("err", .str e)]
  | .panic w => .obj [("panic", .str w)]
  | .outOfFuel => .obj [("timeout", .bool true)]

end JsonIO
