import Verif.Model.Replace

/-
  Executable form of the hypothesis of the order-independence theorems of C07 (`Proofs/UpdateComm.lean`):
  the keys of a reference map designate positions that differ in every document.  Evaluated by the driver on
  the analyzer index each phase ranges over.
-/

namespace Replace

def aliasNum (t u : String) : Bool :=
  match Spec.Pointer.natOfDigits t.toList, Spec.Pointer.natOfDigits u.toList with
  | some i, some i' => i == i'
  | _, _ => false

/-- executable form of `Proofs.UpdateComm.PosDistinct` -/
def posDistinctB : List String → List String → Bool
  | [], [] => false
  | [], _ :: _ => true
  | _ :: _, [] => true
  | t :: ts, u :: us => if t = u then posDistinctB ts us else !aliasNum t u

/-- are the keys of a reference map pairwise apart? (evaluated by the driver on the analyzer's index of
    every generated document: the measured coverage of the hypothesis of `updateRefs_perm`) -/
def keysApartB (l : List (String × String)) : Bool :=
  match l with
  | [] => true
  | a :: rest => rest.all (fun b => posDistinctB (keyTokens a.1) (keyTokens b.1)) && keysApartB rest

end Replace
