import Verif.Model.Cert
import Verif.Spec.Flat
import Verif.Model.Flatten

/- driver-side evaluation of the Flatten validators (I/O glue; no theorem depends on it) -/

namespace FlatDriver
open J Spec.Meaning

def posOfJson (j : J) : Pos := (j.getStr "doc", j.getStrs "tokens")

def bundleOfJson (j : J) : Bundle where
  docs := j.getObj "docs"
  refs := (j.getObj "refs").map fun dr => (dr.1, match dr.2 with
    | .obj kvs => kvs.map fun kv => (kv.1, posOfJson kv.2)
    | _ => [])

def encPos (p : Pos) : J := .str (p.1 ++ "#/" ++ String.intercalate "/" p.2)

def hops : Nat := 64

/-- the external functions `Flatten.isNF` looks at: `$ref` decoding, the format registry and — for the
    operations index behind the names of inline schemas — `swag.ToGoName`, the spelling of `$ref`s to
    operations and `http.StatusText`, as tables computed by the real libraries on the output document -/
def nfExt (x : Classify.Ext) (e : J) : Flatten.Ext where
  mkRef := fun k => match lookup k (e.getObj "mkRef") with | some (.str v) => some v | _ => none
  jsonName := fun _ => none
  goName := fun k => match lookup k (e.getObj "goName") with | some (.str v) => some v | _ => none
  fold := fun _ => none
  refTokens := x.refTokens
  knownFormat := x.knownFormat
  statusText := fun k => match lookup k (e.getObj "statusText") with | some (.str v) => some v | _ => none

def nfOpts (opts : J) : Flatten.Opts :=
  let flag := fun k => match opts.get? k with | some (.bool true) => true | _ => false
  { minimal := flag "minimal", expand := flag "expand", removeUnused := flag "removeUnused",
    keepNames := flag "keepNames", basePath := "$DIR/root.json" }

/-- input: {in: bundle, out: bundle, opts, canon: {name: ref}, ext: {knownFormats, refTokens}} -/
def run (fc : Facts) (inp : J) : J :=
  let b1 := bundleOfJson ((inp.get? "in").getD .null)
  let b2 := bundleOfJson ((inp.get? "out").getD .null)
  let opts := (inp.get? "opts").getD .null
  let flag := fun k => match opts.get? k with | some (.bool true) => true | _ => false
  let removeUnused := flag "removeUnused"
  let root1 := (b1.docs.lookup "").getD .null
  let root2 := (b2.docs.lookup "").getD .null
  let canonTbl := inp.getObj "canon"
  let canon : String → String := fun n => match lookup n canonTbl with | some (.str r) => r | _ => "<no canonical ref for " ++ n ++ ">"
  -- C01: start pairs
  -- "x-path-items": the vendor extension in which the generator keeps shared path items (Swagger 2.0 has no
  -- section for them).  Extensions are opaque to the analysis: the part is not compared and a `$ref`-shaped
  -- value inside it is not a `$ref` of the API; it stays in `b1` so that the path-item `$ref`s resolve.
  let sharedKeys := ["definitions", "parameters", "responses", "x-path-items"]
  let topKeys : J → List String := fun r => match r with
    | .obj kvs => (kvs.map fun kv => kv.1).filter (fun k => !sharedKeys.contains k)
    | _ => []
  let top1 := topKeys root1
  let top2 := topKeys root2
  let defs1 := (root1.getObj "definitions").map (·.1)
  let defs2 := (root2.getObj "definitions").map (·.1)
  let missingDefs := if removeUnused then [] else defs1.filter fun n => !defs2.contains n
  let keptDefs := defs1.filter defs2.contains
  let sharedPairs := if removeUnused then [] else
    ((root1.getObj "parameters").map fun kv => ["parameters", kv.1]) ++ ((root1.getObj "responses").map fun kv => ["responses", kv.1])
  let start : List (Pos × Pos) :=
    (top1.map fun k => (("", [k]), ("", [k]))) ++
    (keptDefs.map fun n => (("", ["definitions", n]), ("", ["definitions", n]))) ++
    (sharedPairs.map fun t => (("", t), ("", t)))
  let (certOK, certFail, relSize) := match Cert.search b1 b2 hops 200000 [] start with
    | .ok R => (Cert.checkCert b1 b2 hops R && start.all (fun pq => R.has pq.1 pq.2), J.null, R.length)
    | .error pq => (false, J.arr [encPos pq.1, encPos pq.2], 0)
  let x : Classify.Ext := {
    knownFormat := fun fm => ((inp.get? "ext").getD .null |>.getStrs "knownFormats").contains fm
    refTokens := fun r => match lookup r (((inp.get? "ext").getD .null).getObj "refTokens") with
      | some (.arr xs) => some (strs xs)
      | _ => none }
  let encRefs := fun (l : List (List String × String)) => J.arr (l.map fun tr => .arr [.str (Spec.Index.key tr.1), .str tr.2])
  let root2 := root2.erase "x-path-items"
  .obj [
    ("meaning", .obj [
      ("ok", .bool (certOK && top1 == top2 && missingDefs.isEmpty)),
      ("topKeysEqual", .bool (top1 == top2)),
      ("missingDefinitions", mkStrs missingDefs),
      ("firstDifference", certFail),
      ("relationSize", .num relSize),
      ("startPairs", .num start.length)]),
    ("newDefinitions", mkStrs (defs2.filter fun n => !defs1.contains n)),
    ("oldDefinitions", mkStrs defs1),
    ("nonCanonical", encRefs (Spec.Flat.nonCanonical canon root2)),
    ("nonLocal", encRefs (Spec.Flat.nonLocal canon root2)),
    ("refCount", .num (Spec.Flat.allRefs root2).length),
    ("sharedSectionsEmpty", .bool (Spec.Flat.sharedSectionsEmpty root2)),
    ("unreferenced", mkStrs (Spec.Flat.unreferenced canon root2)),
    ("inlineComplex", .arr ((Spec.Flat.inlineComplex fc x root2).map fun t => .str (Spec.Index.key t))),
    ("cyclicInput", .bool (Spec.Flat.cyclic b1)),
    -- C08: is the output a normal form of the phase model (Flatten.isNF; theorem C08.identity_on_normal_forms)?
    ("isNF", .bool (Flatten.isNF fc (nfExt x ((inp.get? "ext").getD .null)) (nfOpts opts) root2))]

end FlatDriver
