import Verif.Model.Index
import Verif.Model.Classify
import Verif.Model.Names
import Verif.Model.Replace
import Verif.Model.SortRef
import Verif.Model.RemoveUnused

/-
  Model of the phases of `Flatten` (flatten.go, flatten_name.go, internal/flatten/operations,
  internal/flatten/sortref/keys.go, internal/flatten/replace.DeepestRef), phase by phase, on JSON
  documents in the serialization normal form of the spec model.

  State: the document being rewritten, the analyzer index *as of the last `reload()`* (the code
  works on a stale index between two reloads, and so does the model) and the flatten context
  (`newRefs`, `resolved`).

  External functions (values supplied by the real libraries; a request the table cannot answer
  makes the model stop with `err "need:<function>:<argument>"`, which the harness answers and
  retries): `spec.MustCreateRef(s).String()`, `swag.ToJSONName`, `swag.ToGoName`, the key function of
  `strings.EqualFold`, the decoded pointer tokens of a local `$ref`, the strfmt registry,
  `http.StatusText`.

  What is modelled here: `normalizeRef`, `removeUnusedShared`, `nameInlinedSchemas` with
  `InlineSchemaNamer.Name`, `namesFromKey` and its helpers, `GatherOperations` / `AllOpRefsByRef`,
  `DeepestRef`, `namePointers` with `flattenAnonPointer`, `stripOAIGen` with `updateRefParents` and
  `stripOAIGenForRef`, `removeUnused`.  Go map iteration is modelled by the order of the association
  lists (the driver receives them sorted by key).
-/

namespace Flatten
open J Analyzer

structure Ext where
  /-- `spec.ResolveRefWithBase(root, ref, opts)` for a `$ref` into another document: the schema found
      there, as the library unmarshals it (one resolution step, no expansion) -/
  resolveRemote : String → Option J := fun _ => none
  mkRef : String → Option String
  jsonName : String → Option String
  goName : String → Option String
  fold : String → Option String
  refTokens : String → Option (List String)
  knownFormat : String → Bool
  statusText : String → Option String

structure Opts where
  minimal : Bool := false
  expand : Bool := false
  removeUnused : Bool := false
  keepNames : Bool := false
  basePath : String := ""

/-- `newRef` of flatten.go -/
structure NewRef where
  key : String
  newName : String
  path : String
  isOAIGen : Bool
  resolved : Bool
  schema : J
  parents : List String
  deriving Inhabited

/-- the flatten context: `newRefs` (a Go map) and `resolved` -/
structure Ctx where
  newRefs : List (String × NewRef) := []
  resolved : List (String × String) := []

structure St where
  doc : J
  /-- insertion log of the analyzer at the last `reload()` -/
  idx : List Ent
  ctx : Ctx := {}

def need {α : Type} (fn arg : String) : Outcome α := .err ("need:" ++ fn ++ ":" ++ arg)

def ask (fn : String) (f : String → Option String) (arg : String) : Outcome String :=
  match f arg with
  | some v => .ok v
  | none => need fn arg

/-- `opts.Spec.reload()` -/
def reload (fc : Facts) (s : St) : St := { s with idx := Analyzer.analyze fc s.doc }

def initial (fc : Facts) (d : J) : St := reload fc { doc := d, idx := [] }

/-- a reference map of the analyzer (`allRefs`, `references.schemas`, …) as key ↦ `$ref` string -/
def refMap (p : String → Bool) (idx : List Ent) : List (String × String) :=
  (Index.mapOf (Index.refsWhere p idx)).filterMap fun kv =>
    match kv.2 with
    | .str r => some (kv.1, r)
    | _ => none

def allRefs (idx : List Ent) : List (String × String) := refMap (fun _ => true) idx

/-- Go-map assignment / lookup on `newRefs` -/
def setNR (k : String) (v : NewRef) : List (String × NewRef) → List (String × NewRef)
  | [] => [(k, v)]
  | (k', v') :: rest => if k' = k then (k, v) :: rest else (k', v') :: setNR k v rest

def getNR (k : String) : List (String × NewRef) → Option NewRef
  | [] => none
  | (k', v) :: rest => if k' = k then some v else getNR k rest

/-- Go aliasing: `newRef.schema` points to a schema whose nested containers (properties map, items,
    allOf slice, …) are shared with the definition saved under `newName`; rewrites inside that
    definition are therefore visible through it.  The model reads such a schema through the document:
    while the definition exists, the schema of the entry is the definition's current value. -/
def syncNewRef (defs : List (String × J)) (r : NewRef) : NewRef :=
  match lookup r.newName defs with
  | some v => if r.path = Str.join ["#/definitions", r.newName] then { r with schema := v } else r
  | none => r

def syncNewRefs (s : St) : St :=
  let defs := s.doc.getObj "definitions"
  let nrs := s.ctx.newRefs.map fun kv => (kv.1, syncNewRef defs kv.2)
  { s with ctx := { s.ctx with newRefs := nrs } }

/-- error conversion of the primitives: any failure of a replace primitive is an error of the phase -/
def liftO {α : Type} (o : Outcome α) : Outcome α := o

/-! ### DeepestRef -/

/-- `DeepestRef(sp, opts, ref)`: the first `$ref` to a top-level definition in a cascade of
    anonymous pointers, or the deepest pointer with the schema it designates -/
def deepestRefLoop (x : Ext) (d : J) : Nat → List String → String → Outcome (String × Option J)
  | 0, _, _ => .outOfFuel
  | fuel + 1, visited, cur =>
    if Str.dir cur = "#/definitions" then .ok (cur, none)
    else if visited.contains cur then .err "cyclic chain of $refs"
    else
      match x.refTokens cur with
      | none => need "refTokens" cur
      | some toks =>
        match Replace.walk .swagger d toks with
        | none => .err "pointer does not resolve"
        | some (node, _) =>
          let next := Doc.refStr node
          if next = "" then
            -- `spec.ResolveRefWithBase(sp, &currentRef, opts)`: the node must unmarshal as a schema
            (match node with
             | .obj kvs => .ok (cur, some (.obj kvs))
             | _ => .err "pointer does not designate a schema")
          else deepestRefLoop x d fuel (cur :: visited) next

def hasFragmentOnly (ref : String) : Bool := Str.hasPrefix "#" ref

/-- `url.PathUnescape` with the error ignored, as the callers do (`x, _ := url.PathUnescape(s)`) -/
def unescOrEmpty (s : String) : String := (Str.pathUnescape s).getD ""

def deepestRef (x : Ext) (d : J) (fuel : Nat) (ref : String) : Outcome (String × Option J) :=
  if !hasFragmentOnly ref then .ok (ref, none) else deepestRefLoop x d fuel [] ref

/-! ### operations index (internal/flatten/operations) -/

structure OpRef where
  method : String
  path : String
  key : String
  id : String
  ref : String

def strLe (a b : String) : Bool := a ≤ b

/-- the body of `GatherOperations` once the operations of the analyzer have been listed: one `OpRef` per
    operation, sorted by key, then registered by name (operation id, or the derived key) -/
def gatherFrom (x : Ext) (ops : List (String × String × J)) : Outcome (List (String × OpRef)) := do
  let oprefs ← ops.mapM fun o => do
    let key ← ask "goName" x.goName (Str.toLowerAscii o.1 ++ " " ++ o.2.1)
    let ref ← ask "mkRef" x.mkRef ("#" ++ Str.join ["/paths", Str.esc o.2.1, o.1])
    pure ({ method := o.1, path := o.2.1, key := key, id := o.2.2.getStr "operationId", ref := ref } : OpRef)
  let sorted := oprefs.mergeSort fun a b => strLe a.key b.key
  pure <| sorted.foldl (fun (acc : List (String × OpRef)) opr =>
    let nm := if opr.id = "" then opr.key else opr.id
    let nm := match acc.lookup nm with
      | some oo => if oo.method ≠ opr.method ∧ oo.path ≠ opr.path then opr.key else nm
      | none => nm
    let opr := { opr with id := nm }
    (acc.filter fun p => p.1 ≠ nm) ++ [(nm, opr)]) []

/-- `GatherOperations(specDoc, nil)`: operations by name (operation id, or the derived key) -/
def gatherOperations (x : Ext) (idx : List Ent) : Outcome (List (String × OpRef)) :=
  let ops := Index.ops idx
  -- the analyzer keeps one operation per (METHOD, path): last insertion wins
  let ops := ops.foldl (fun acc o => (acc.filter fun p => !(p.1 == o.1 && p.2.1 == o.2.1)) ++ [o]) []
  gatherFrom x ops

/-- `AllOpRefsByRef`: the same operations indexed by their `$ref` string -/
def opRefsByRef (x : Ext) (idx : List Ent) : Outcome (List (String × OpRef)) := do
  let ops ← gatherOperations x idx
  pure <| ops.foldl (fun acc p => (acc.filter fun q => q.1 ≠ p.2.ref) ++ [(p.2.ref, p.2)]) []

/-! ### names from keys (flatten_name.go, sortref/keys.go) -/

def ignoredKeys : List String := ["schema", "properties", "not", "anyOf", "oneOf"]
def validMethods : List String := ["GET", "HEAD", "OPTIONS", "PATCH", "POST", "PUT", "DELETE"]

/-- `SplitKey.isKeyName(i)`: an odd number of "properties" segments right before position `i` -/
def isKeyName (s : List String) (i : Nat) : Bool :=
  if i = 0 then false
  else
    -- idx runs from i-1 down to 1
    let before := ((s.take i).drop 1).reverse
    (before.takeWhile (· = "properties")).length % 2 ≠ 0

/-- `partAdder(aschema)` -/
def partAdder (fl : Classify.Flags) (part : String) : List String :=
  if part = "items" ∨ part = "additionalItems" then
    (if fl.isTuple || fl.isTupleWithExtra then ["tuple"] else ["items"]) ++
    (if part = "additionalItems" then [part] else [])
  else [part]

/-- `SplitKey.BuildName(segments, startIndex, adder)` -/
def buildName (s : List String) (segments : List String) (startIndex : Nat) (fl : Classify.Flags) : String :=
  let start := if startIndex > s.length then s.length else startIndex
  let extra := ((s.drop start).zipIdx).flatMap fun pi =>
    if !ignoredKeys.contains pi.1 || isKeyName s (start + pi.2) then partAdder fl pi.1 else []
  String.intercalate " " (segments ++ extra)

/-- `SplitKey.PathItemRef()`; "" stands for the empty `spec.Ref` -/
def pathItemRef (x : Ext) (s : List String) : Outcome String :=
  match s with
  | _ :: pth :: method :: _ =>
    let m := Str.toUpperAscii method
    if !validMethods.contains m && !Str.hasPrefix "x-" method then .ok ""
    else ask "mkRef" x.mkRef ("#" ++ Str.join ["/", "paths", Str.esc pth, m])
  | _ => .ok ""

/-- `SplitKey.PathRef()` -/
def pathRef (x : Ext) (s : List String) : Outcome String :=
  match s with
  | "paths" :: pth :: _ => ask "mkRef" x.mkRef ("#" ++ Str.join ["/", "paths", Str.esc pth])
  | _ => .ok ""

def isOperation (s : List String) : Bool := s.length > 1 && s[0]? = some "paths"
def isOperationResponse (s : List String) : Bool := s.length > 3 && s[0]? = some "paths" && s[3]? = some "responses"

/-- `SplitKey.ResponseName()` -/
def responseName (x : Ext) (s : List String) : Outcome String :=
  if SortRef.isStatusCodeResponse s then ask "statusText" x.statusText (s[4]?.getD "")
  else if SortRef.isDefaultResponse s then .ok "Default"
  else .ok ""

/-- `namesForParam` -/
def namesForParam (x : Ext) (s : List String) (ops : List (String × OpRef)) : Outcome (List (List String) × Nat) := do
  let piref ← pathItemRef x s
  if piref ≠ "" ∧ SortRef.isOperationParam s then
    match ops.lookup piref with
    | some op => pure ([[op.id, "params", "body"]], 5)
    | none => pure ([], 0)
  else if SortRef.isSharedOperationParam s then
    let pref ← pathRef x s
    let hits := ops.filter fun p => Str.hasPrefix pref p.1
    pure (hits.map (fun p => [p.2.id, "params", "body"]), if hits.isEmpty then 0 else 4)
  else pure ([], 0)

/-- `namesForOperation` -/
def namesForOperation (x : Ext) (s : List String) (ops : List (String × OpRef)) : Outcome (List (List String) × Nat) := do
  let r ← (if SortRef.isOperationParam s || SortRef.isSharedOperationParam s then namesForParam x s ops else pure ([], 0))
  if isOperationResponse s then
    let piref ← pathItemRef x s
    if piref ≠ "" then
      match ops.lookup piref with
      | some op =>
        let rn ← responseName x s
        pure (r.1 ++ [[op.id, rn, "body"]], 6)
      | none => pure r
    else pure r
  else pure r

/-- `namesFromKey(parts, aschema, operations)` -/
def namesFromKey (x : Ext) (s : List String) (fl : Classify.Flags) (ops : List (String × OpRef)) : Outcome (List String) := do
  let r ← (if isOperation s then namesForOperation x s ops
           else if SortRef.isDefinition s then
             pure (if (s[1]?.getD "") ≠ "" then ([[s[1]?.getD ""]], 2) else ([], 0))
           else pure ([s], 2))
  let names := (r.1.map fun segs => buildName s segs r.2 fl).filter (· ≠ "")
  pure (names.mergeSort strLe)

/-- `GenLocation(parts)` -/
def genLocation (s : List String) : String :=
  if isOperation s then "operations" else if SortRef.isDefinition s then "models" else ""

/-! ### uniqifyName with partial tables -/

/-- `uniqifyName(definitions, name)` through `Names.uniqifyName`, after making sure the fold-key
    table covers every string the search can look at -/
def uniqify (fc : Facts) (x : Ext) (defs : List String) (name : String) : Outcome (String × Bool) :=
  let start := if name = "" then "oaiGen" else name
  let cands := start :: (List.range (defs.length + 2)).map fun i => Names.candidate (start ++ "OAIGen") i
  match (defs ++ cands).find? fun s => (x.fold s).isNone with
  | some s => need "fold" s
  | none =>
    Names.uniqifyName fc { fold := fun s => (x.fold s).getD "" } defs name (defs.length + 2)

/-! ### InlineSchemaNamer.Name -/

def classifyExt (x : Ext) : Classify.Ext := { knownFormat := x.knownFormat, refTokens := x.refTokens }

def defNames (d : J) : List String := (d.getObj "definitions").map (·.1)

/-- `schutils.Save(sp, name, schema)` -/
def save (d : J) (name : String) (sch : J) : J :=
  d.set "definitions" (.obj (setKv name sch (d.getObj "definitions")))

def fuelFor (d : J) : Nat := 64 + (allRefs (Analyzer.analyze Facts.reference d)).length

/-- one iteration of the loop of `Name`: create the definition `newName`, leave a `$ref` at `key`,
    redirect the `$ref`s that pointed (through anonymous pointers) at `key` -/
def nameWith (fc : Facts) (x : Ext) (o : Opts) (st : St) (key : String) (schema : J) (parts : List String)
    (name : String) : Outcome St := do
  let mangled ← (if o.keepNames then pure name else ask "jsonName" x.jsonName name)
  let (newName, isOAIGen) ← uniqify fc x (defNames st.doc) mangled
  let target := Str.join ["#/definitions", newName]
  let ref ← ask "mkRef" x.mkRef target
  let d0 ← Replace.rewriteSchemaToRef st.doc key ref
  -- the clone is saved first: the `$ref`s it holds to the place it comes from are dependents like the others
  let sch := schema.set "x-go-gen-location" (.str (genLocation parts))
  let d1 := save d0 newName sch
  -- dependents: `an := New(isn.Spec)`
  let refs := allRefs (Analyzer.analyze fc d1)
  let fuel := 64 + refs.length
  let d3 ← refs.foldlM (fun d kv => do
    let r ← deepestRef x d fuel kv.2
    if r.1 ≠ key ∧ (r.1 ≠ target ∨ Str.dir kv.2 = "#/definitions") then pure d
    else Replace.updateRef d kv.1 ref) d1
  let resolved := match getNR key st.ctx.newRefs with
    | some r => r.resolved
    | none => false
  let nr : NewRef := { key := key, newName := newName, path := target, isOAIGen := isOAIGen,
                       resolved := resolved, schema := sch, parents := [] }
  pure { st with doc := d3, ctx := { st.ctx with newRefs := setNR key nr st.ctx.newRefs } }

/-- the schema the stale `SchemaRef` of the index lets the code see: nested containers are shared
    with the live document, so this is the node now found at the key (the node recorded at analysis
    time when the position no longer exists) -/
def liveNode (d : J) (key : String) (recorded : J) : J :=
  match Replace.walk .swagger d (Replace.keyTokens key) with
  | some (n, _) => n
  | none => recorded

/-- is the schema at `key` an element of a Go slice (`allOf`/`anyOf`/`oneOf`, tuple `items`)?  The
    analyzer then holds a pointer into the slice's backing array, through which the replacement of
    the element by a `$ref` is visible; for map entries it holds a copy, and for schemas behind a
    pointer field the pointer is replaced in the holder, not the pointee. -/
def heldInSlice (d : J) (key : String) : Bool :=
  match Replace.walk .swagger d (Replace.keyTokens key).dropLast with
  | some (_, k) => k = .schemaArr
  | none => false

/-- `InlineSchemaNamer.Name(key, schema, aschema)` -/
def nameSchema (fc : Facts) (x : Ext) (o : Opts) (ops : List (String × OpRef)) (st : St) (key : String)
    (schema : J) (fl : Classify.Flags) : Outcome St := do
  let parts := SortRef.keyParts key
  let names ← namesFromKey x parts fl ops
  let slice := heldInSlice st.doc key
  names.foldlM (fun st name =>
    if name = "" then pure st
    else
      -- what `schema` (a Go pointer) designates when this name is processed
      let cur := if slice then liveNode st.doc key schema else schema
      nameWith fc x o st key cur parts name) st

/-! ### nameInlinedSchemas -/

def schemaEntries (idx : List Ent) : List (String × Bool × J) :=
  idx.filterMap fun e => match e with
    | .schema key _ top node => some ("#" ++ key, top, node)
    | _ => none

def classifyFuel : Nat := 4000

def nameInlinedSchemas (fc : Facts) (x : Ext) (o : Opts) (s : St) : Outcome St := do
  let ops ← opRefsByRef x s.idx
  let entries := schemaEntries s.idx
  let keys := SortRef.depthFirst ((Index.mapOf (Index.schemas s.idx)).map (·.1))
  let s' ← keys.foldlM (fun st key => do
    -- last insertion under a key wins, as in the Go map
    match (entries.filter fun e => e.1 = key).getLast? with
    | none => pure st
    | some e =>
      let node := liveNode st.doc key e.2.2
      if Doc.refStr node ≠ "" ∨ e.2.1 then pure st
      else
        let fl ← Classify.classify fc (classifyExt x) st.doc classifyFuel [] node
        if Classify.isComplex fl then nameSchema fc x o ops st key node fl else pure st) s
  pure (syncNewRefs (reload fc s'))

/-! ### normalizeRef, removeUnusedShared, removeUnused -/

def normalizeRef (fc : Facts) (x : Ext) (o : Opts) (s : St) : Outcome St := do
  let hits := (allRefs s.idx).filter fun kv => Str.hasPrefix (o.basePath ++ "#/definitions") kv.2
  let d ← hits.foldlM (fun d kv => do
    let r ← ask "mkRef" x.mkRef (Str.join ["#/definitions", Str.base kv.2])
    Replace.updateRef d kv.1 r) s.doc
  pure (if hits.isEmpty then s else reload fc { s with doc := d })

def removeUnusedShared (fc : Facts) (s : St) : St := reload fc { s with doc := RemoveUnused.removeShared s.doc }

/-- `definitionNameFromRef` through the token table -/
def refName (x : Ext) (r : String) : Option String :=
  if !hasFragmentOnly r then none
  else match x.refTokens r with
    | some ["definitions", n] => some n
    | _ => none

def removeUnused (fc : Facts) (x : Ext) (s : St) : Outcome St := do
  let d ← RemoveUnused.removeUnused fc { refName := refName x } ((s.doc.getObj "definitions").length + 2) s.doc
  pure (reload fc { s with doc := d })

/-! ### namePointers -/

/-- `SchemaRef` entries of `refsToReplace`: caller key ↦ (called ref, schema, top-level) -/
structure PtrPlan where
  ref : String
  schema : Option J
  top : Bool

def setPlan (k : String) (v : PtrPlan) : List (String × PtrPlan) → List (String × PtrPlan)
  | [] => [(k, v)]
  | (k', v') :: rest => if k' = k then (k, v) :: rest else (k', v') :: setPlan k v rest

/-- `flattenAnonPointer(key, v, refsToReplace, namer, opts)` -/
def flattenAnonPointer (fc : Facts) (x : Ext) (o : Opts) (ops : List (String × OpRef)) (st : St)
    (plans : List (String × PtrPlan)) (key : String) (v : PtrPlan) : Outcome (St × List (String × PtrPlan)) := do
  let schema ← (match v.schema with
    | some sc => pure sc
    | none => Outcome.err "no schema to qualify")
  let fl ← Classify.classify fc (classifyExt x) st.doc classifyFuel [] schema
  let refs := allRefs (Analyzer.analyze fc st.doc)
  let fuel := 64 + refs.length
  let callers ← refs.foldlM (fun (acc : List String) kv => do
    let r ← deepestRef x st.doc fuel kv.2
    pure (if r.1 = v.ref then acc ++ [kv.1] else acc)) []
  if callers.isEmpty then pure (st, plans)
  else
    let parts := SortRef.keyParts v.ref
    if (!fl.isSimpleSchema || callers.length > 1) && !SortRef.isSharedParam parts && !SortRef.isSharedResponse parts then do
      let st' ← nameSchema fc x o ops st v.ref schema fl
      -- a caller held by the schema that has just been moved to a definition moved with it (the namer has rewritten
      -- it there): its key is gone, it leaves the plan
      let moved := unescOrEmpty v.ref
      -- so does every planned pointer held by that schema: it now lives under the new definition
      let plans0 := plans.filter (fun p => p.1 = key || !Str.hasPrefix (moved ++ "/") p.1)
      let plans' := callers.foldl (fun ps caller =>
        if caller = key then ps
        else if Str.hasPrefix (moved ++ "/") caller then ps.filter (fun p => p.1 ≠ caller)
        else match ps.lookup caller with
          | some c => setPlan caller { c with ref := v.ref } ps
          -- `c := refsToReplace[caller]` on an absent key is the zero SchemaRef, stored back with the new Ref
          | none => setPlan caller { ref := v.ref, schema := none, top := false } ps) plans0
      pure (st', plans')
    else do
      let d ← Replace.updateRefWithSchema st.doc key schema
      pure ({ st with doc := d }, plans)

/-- one pass of `namePointers`: plan, visit the plan deepest keys first, re-analyze; the flag tells that a planned key
    was found gone (its holder moved to a new definition) -/
def namePointersPass (fc : Facts) (x : Ext) (o : Opts) (s : St) : Outcome (St × Bool) := do
  -- plan: every `$ref` that is not a reference to a top-level definition
  let refs := allRefs s.idx
  let fuel := 64 + refs.length
  let plans ← refs.foldlM (fun (acc : List (String × PtrPlan)) kv => do
    if Str.dir kv.2 = "#/definitions" then
      -- the definition must exist (`ref.GetPointer().Get(opts.Swagger())`)
      match x.refTokens kv.2 with
      | none => need "refTokens" kv.2
      | some toks =>
        match Spec.Pointer.get s.doc toks with
        | some _ => pure acc
        | none => Outcome.err "object has no key"
    else
      let r ← deepestRef x s.doc fuel kv.2
      pure (acc ++ [(kv.1, { ref := r.1, schema := r.2, top := Str.dir r.1 = "#/definitions" })])) []
  let ops ← opRefsByRef x s.idx
  let order := SortRef.depthFirst (plans.map (·.1))
  let (sp, replan) ← order.foldlM (fun (acc : (St × List (String × PtrPlan)) × Bool) key => do
    match acc.1.2.lookup key with
    | none => pure (acc.1, true)
    | some v =>
      let r ← deepestRef x acc.1.1.doc (64 + refs.length + acc.1.2.length) v.ref
      let v' : PtrPlan := { ref := r.1, schema := r.2, top := Str.dir r.1 = "#/definitions" }
      if v'.top then do
        let d ← Replace.updateRef acc.1.1.doc key v'.ref
        pure (({ acc.1.1 with doc := d }, acc.1.2), acc.2)
      else do
        let r ← flattenAnonPointer fc x o ops acc.1.1 acc.1.2 key v'
        pure (r, acc.2)) ((s, plans), false)
  pure (syncNewRefs (reload fc sp.1), replan)

/-- `namePointers` runs again while a pass has skipped a pointer that moved with its holder -/
def namePointersLoop (fc : Facts) (x : Ext) (o : Opts) : Nat → St → Outcome St
  | 0, _ => .outOfFuel
  | fuel + 1, s => do
    let (s1, replan) ← namePointersPass fc x o s
    if replan then namePointersLoop fc x o fuel s1 else pure s1

def namePointers (fc : Facts) (x : Ext) (o : Opts) (s : St) : Outcome St :=
  namePointersLoop fc x o (8 + (allRefs s.idx).length) s

/-! ### stripOAIGen -/

/-- `updateRefParents(allRefs, r)` -/
def updateRefParents (refs : List (String × String)) (r : NewRef) : NewRef :=
  if !r.isOAIGen || r.resolved then r
  else
    { r with parents := refs.foldl (fun ps kv =>
        if r.path ≠ kv.2 then ps else if ps.contains kv.1 then ps else ps ++ [kv.1]) r.parents }

def modifyNR (k : String) (f : NewRef → NewRef) (m : List (String × NewRef)) : List (String × NewRef) :=
  m.map fun kv => if kv.1 = k then (kv.1, f kv.2) else kv

/-- `strings.TrimPrefix` -/
def trimPrefix (p s : String) : String :=
  if Str.hasPrefix p s then String.ofList (s.toList.drop p.toList.length) else s

/-- `stripOAIGenForRef(opts, k, r)`: merge the OAIGen definition into its first parent, point the
    other parents at the first one, drop the definition, propagate to the entries that had it as a
    parent -/
def stripOAIGenForRef (fc : Facts) (x : Ext) (st : St) (k : String) (r : NewRef) : Outcome (St × Bool) := do
  let pr := SortRef.topmostFirst r.parents
  -- a `$ref` held by the definition itself cannot receive the definition's schema: the first parent is the
  -- topmost one outside of the definition; the others keep their order
  let isOuter := fun (p : String) => p ≠ r.path && !Str.hasPrefix (r.path ++ "/") p
  match pr.findIdx? isOuter with
  | none => pure (st, false)   -- only self-references (or no parent at all): nothing to re-inline into
  | some i =>
    let p0 := pr[i]?.getD ""
    let others := pr.take i ++ pr.drop (i + 1)
    let d1 ← Replace.updateRefWithSchema st.doc p0 r.schema
    let adopt := fun (key : String) (acc : List (String × NewRef) × Bool) =>
      match getNR key acc.1 with
      | some pa => if pa.isOAIGen then (modifyNR key (fun pa => { pa with schema := r.schema, resolved := false }) acc.1, true) else acc
      | none => acc
    let (nrs1, rep1) := adopt p0 (st.ctx.newRefs, false)
    let replacingRef ← (if others.isEmpty then pure "" else ask "mkRef" x.mkRef p0)
    let (d2, nrs2, rep2) ← others.foldlM (fun (acc : J × List (String × NewRef) × Bool) p => do
      let d ← Replace.updateRef acc.1 p replacingRef
      -- Go aliasing: `UpdateRefWithSchema` copied the definition's schema struct into the first parent, so every nested
      -- container is shared between the definition and the re-inlined copy: a `$ref` rewritten *inside* the
      -- definition (a parent that is a self-reference) is rewritten in the copy as well
      let d := if Str.hasPrefix (r.path ++ "/") p then
          (match Replace.updateRef d (Str.join [p0, trimPrefix r.path p]) replacingRef with
           | .ok d' => d'
           | _ => d)
        else d
      let (nrs, rep) := adopt p (acc.2.1, acc.2.2 || Str.dir replacingRef ≠ "#/definitions")
      pure (d, nrs, rep)) (d1, nrs1, rep1)
    -- `delete(opts.Swagger().Definitions, path.Base(r.path))`
    let d3 := match d2.get? "definitions" with
      | some (.obj defs) => d2.set "definitions" (.obj (eraseKv (Str.base r.path) defs))
      | _ => d2
    let reparent := fun (parent : String) =>
      if parent = r.path then p0
      else if Str.hasPrefix (r.path ++ "/") parent then Str.join [p0, trimPrefix r.path parent]
      else parent
    let nrs3 := nrs2.map fun kv =>
      if kv.1 = k || !kv.2.isOAIGen || kv.2.resolved then kv
      else (kv.1, { kv.2 with parents := kv.2.parents.map reparent })
    let nrs4 := modifyNR r.key (fun e => { e with isOAIGen := false, resolved := true }) nrs3
    let st' : St := { st with doc := d3, ctx := { st.ctx with newRefs := nrs4 } }
    let rep3 ← (match r.schema with
      | .obj kvs =>
        if Doc.refStr (.obj kvs) = "" then do
          let fl ← Classify.classify fc (classifyExt x) d3 classifyFuel [] (.obj kvs)
          pure (rep2 || (Str.dir p0 ≠ "#/definitions" && Classify.isComplex fl))
        else pure rep2
      | _ => pure rep2)
    pure (st', rep3)

/-- first half of `stripOAIGen`: every unresolved OAIGen entry learns which `$ref`s point at it -/
def stripPrepare (s : St) : St :=
  let refs := allRefs s.idx
  { s with ctx := { s.ctx with newRefs := s.ctx.newRefs.map fun kv => (kv.1, updateRefParents refs kv.2) } }

/-- the entries the second loop of `stripOAIGen` does something with -/
def stripCandidates (s : St) : List String :=
  (s.ctx.newRefs.filter fun kv => kv.2.isOAIGen && !kv.2.parents.isEmpty).map (·.1)

/-- second half of `stripOAIGen`, visiting the entries of the `newRefs` map in the given order
    (the Go code ranges over the map: any order is possible) -/
def stripInOrder (fc : Facts) (x : Ext) (s1 : St) (order : List String) : Outcome (St × Bool) := do
  let (s2, rep) ← order.foldlM (fun (acc : St × Bool) k => do
    match getNR k acc.1.ctx.newRefs with
    | none => pure acc
    | some r =>
      -- `r.schema` shares its nested containers with the OAIGen definition (see `syncNewRefs`)
      let r := syncNewRef (acc.1.doc.getObj "definitions") r
      if !r.isOAIGen || r.parents.isEmpty then pure acc
      else
        let (st', rep) ← stripOAIGenForRef fc x acc.1 k r
        pure (st', acc.2 || rep)) (s1, false)
  pure (reload fc s2, rep)

/-- the order in which `stripOAIGen` visits the entries of `newRefs`: the keys sorted in descending order
    (`sort.Sort(sort.Reverse(sort.StringSlice(keys)))`), so that a key nested in another one comes first -/
def stripOrder (s : St) : List String :=
  (s.ctx.newRefs.map (·.1)).mergeSort fun a b => strLe b a

/-- `stripOAIGen(opts)`: the state after it and whether a pointer or a complex inline schema was (re)introduced -/
def stripOAIGen (fc : Facts) (x : Ext) (s : St) : Outcome (St × Bool) :=
  let s1 := stripPrepare s
  stripInOrder fc x s1 (stripOrder s1)

/-! ### importReferences (file references; URLs with a host are not modelled) -/

def hasHost (uri : String) : Bool := Str.containsSub "://" uri

/-- `normalize.Path(ref, basePath)` -/
def normPath (o : Opts) (ref : String) : Outcome String :=
  let uri := unescOrEmpty ref
  if hasFragmentOnly ref || Str.hasPrefix "/" uri then .ok uri
  else if hasHost uri then .err "not modelled: $ref with a host"
  else
    match (Str.splitCharL '#' uri.toList).map String.ofList with
    | [] => .ok uri
    | p0 :: rest => .ok (String.intercalate "#" (Str.join [Str.dir o.basePath, p0] :: rest))

/-- `normalize.RebaseRef(baseRef, ref)` -/
def rebaseRef (baseRef ref : String) : Outcome String :=
  let baseRef := unescOrEmpty baseRef
  let ref := unescOrEmpty ref
  if baseRef = "" ∨ baseRef = "." ∨ Str.hasPrefix "#" baseRef then .ok ref
  else
    let parts := Str.cutHash ref
    let baseParts := Str.cutHash baseRef
    if Str.hasPrefix "#" ref then .ok (baseParts.1 ++ "#" ++ parts.2.getD "")
    else if hasHost parts.1 || hasHost baseParts.1 then .err "not modelled: $ref with a host"
    else if Str.hasPrefix "/" parts.1 then .ok ref
    else
      let relPath := Str.join [Str.dir baseParts.1, "/" ++ parts.1]
      match parts.2 with
      | some frag => .ok (relPath ++ "#" ++ frag)
      | none => .ok relPath

/-- `nameFromRef(ref, opts)` before mangling -/
def rawNameFromRef (ref : String) : Outcome String :=
  let parts := Str.cutHash ref
  let frag := match parts.2 with | some f => unescOrEmpty f | none => ""
  if frag ≠ "" then .ok (Str.base frag)
  else
    let pth := unescOrEmpty parts.1
    if hasHost pth then .err "not modelled: $ref with a host"
    else if pth ≠ "" then
      let bn := Str.base pth
      if bn ≠ "" ∧ bn ≠ "/" then
        let e := Str.ext bn
        .ok (if e ≠ "" then String.ofList (bn.toList.take (bn.toList.length - e.toList.length)) else bn)
      else .ok ""
    else .ok ""

/-- `replace.UpdateRef(sch, key, ref)` on a schema root (`*spec.Schema`): keys are those of
    `analyzeSchema("", sch, "/")` -/
def updateRefInSchema (sch : J) (key ref : String) : Outcome J :=
  if key = "#/" then .ok (sch.set "$ref" (.str ref))
  else
    let toks := Replace.keyTokens key
    match Replace.walk .schemaPtr sch toks with
    | none => .err "pointer does not resolve"
    | some (node, kind) =>
      match kind with
      | .schemaVal | .schemaPtr | .notPtr | .schemaOrArray | .schemaOrBool =>
        (match Replace.setAt sch toks (node.set "$ref" (.str ref)) with | some d' => .ok d' | none => .err "no parent")
      | _ => .err "no schema with ref"

structure RevIdx where
  ref : String
  keys : List String

/-- `sortref.ReverseIndex(schemas, basePath)`: schema `$ref`s grouped by normalised target -/
def reverseIndex (o : Opts) (schemas : List (String × String)) : Outcome (List (String × RevIdx)) :=
  schemas.foldlM (fun (acc : List (String × RevIdx)) kv => do
    let np ← normPath o kv.2
    match acc.lookup np with
    | some _ => pure (acc.map fun p => if p.1 = np then (p.1, { p.2 with keys := p.2.keys ++ [kv.1] }) else p)
    | none => pure (acc ++ [(np, { ref := kv.2, keys := [kv.1] })])) []

def setResolved (k v : String) : List (String × String) → List (String × String)
  | [] => [(k, v)]
  | (k', v') :: rest => if k' = k then (k, v) :: rest else (k', v') :: setResolved k v rest

/-- `importNewRef(entry, refStr, opts)` -/
def importNewRef (fc : Facts) (x : Ext) (o : Opts) (st : St) (refStr : String) (entry : RevIdx) : Outcome St := do
  let sch ← (match x.resolveRemote entry.ref with
    | some sc => pure sc
    | none => need "resolve" entry.ref)
  let inner := allRefs (Analyzer.analyzeSchema "" sch "/")
  let sch ← inner.foldlM (fun s kv => do
    let rb ← rebaseRef entry.ref kv.2
    let r ← ask "mkRef" x.mkRef rb
    match updateRefInSchema s kv.1 r with
    | .ok s' => pure s'
    | _ => Outcome.err "cannot rewrite ref") sch
  let raw ← rawNameFromRef entry.ref
  let nm ← (if o.keepNames then pure raw else ask "jsonName" x.jsonName raw)
  let (newName, isOAIGen) ← uniqify fc x (defNames st.doc) nm
  let target := Str.join ["#/definitions", newName]
  let ref ← ask "mkRef" x.mkRef target
  let st1 : St := { st with ctx := { st.ctx with resolved := setResolved refStr newName st.ctx.resolved } }
  let st2 ← entry.keys.foldlM (fun (s : St) key => do
    let d ← Replace.updateRef s.doc key ref
    let resolved := match getNR key s.ctx.newRefs with
      | some r => r.resolved
      | none => false
    let nr : NewRef := { key := key, newName := newName, path := target, isOAIGen := isOAIGen,
                         resolved := resolved, schema := sch, parents := [] }
    pure { s with doc := d, ctx := { s.ctx with newRefs := setNR key nr s.ctx.newRefs } }) st1
  pure { st2 with doc := save st2.doc newName sch }

/-- the bookkeeping loop at the end of `importExternalReferences` -/
def maintainNewRefs (x : Ext) (st : St) : Outcome St :=
  (st.ctx.newRefs.map (·.1)).foldlM (fun (s : St) k => do
    match getNR k s.ctx.newRefs with
    | none => pure s
    | some r =>
      let r ← (if Doc.refStr r.schema ≠ "" then
          match x.refTokens r.path with
          | none => need "refTokens" r.path
          | some toks =>
            match Spec.Pointer.get s.doc toks with
            | some (.obj kvs) => pure { r with schema := .obj kvs }
            | _ => Outcome.err "could not resolve schema"
        else pure r)
      if r.path = k then pure { s with ctx := { s.ctx with newRefs := setNR k r s.ctx.newRefs } }
      else do
        let renamed : NewRef := { r with key := r.path }
        let pref ← ask "mkRef" x.mkRef r.path
        let indirect : NewRef := { r with newName := Str.base k, schema := Replace.refNode pref, path := k,
                                          isOAIGen := Str.containsSub "OAIGen" k }
        pure { s with ctx := { s.ctx with newRefs := setNR k indirect (setNR r.path renamed s.ctx.newRefs) } }) st

/-- `importExternalReferences(opts)`: the state after one round and whether nothing was left to import -/
def importExternalReferences (fc : Facts) (x : Ext) (o : Opts) (s : St) : Outcome (St × Bool) := do
  let grouped ← reverseIndex o (refMap (· = "schema") s.idx)
  let sorted := (grouped.map (·.1)).mergeSort strLe
  let (s1, complete) ← sorted.foldlM (fun (acc : St × Bool) refStr => do
    match grouped.lookup refStr with
    | none => pure acc
    | some entry =>
      if hasFragmentOnly entry.ref then pure acc
      else
        match (acc.1.ctx.resolved.lookup refStr) with
        | some newName =>
          if newName ≠ "" then do
            -- `importKnownRef`
            let ref ← ask "mkRef" x.mkRef (Str.join ["#/definitions", newName])
            let d ← entry.keys.foldlM (fun d key => Replace.updateRef d key ref) acc.1.doc
            pure ({ acc.1 with doc := d }, false)
          else do
            let st ← importNewRef fc x o acc.1 refStr entry
            pure (st, false)
        | none => do
          let st ← importNewRef fc x o acc.1 refStr entry
          pure (st, false)) (s, true)
  let s2 ← maintainNewRefs x s1
  pure (s2, complete)

/-- `importReferences(opts)` -/
def importReferences (fc : Facts) (x : Ext) (o : Opts) : Nat → St → Outcome St
  | 0, _ => .outOfFuel
  | fuel + 1, s => do
    let (s1, complete) ← importExternalReferences fc x o s
    let s2 := reload fc s1
    if complete then pure s2 else importReferences fc x o fuel s2

/-! ### the pipeline after `expand`, for documents whose schema `$ref`s are all local -/

/-- `importReferences` when no schema `$ref` is remote: one round of `importExternalReferences`
    finds nothing to import (`complete = true`), the `newRefs` maintenance loop has nothing to do on
    an empty context, and the spec is re-analyzed.  Remote references are outside this model. -/
def importReferencesLocal (fc : Facts) (s : St) : Outcome St :=
  if (refMap (· = "schema") s.idx).all (fun kv => hasFragmentOnly kv.2) && s.ctx.newRefs.isEmpty
  then .ok (reload fc s)
  else .err "not modelled: remote schema references"

/-- the loop of `stripPointersAndOAIGen` -/
def stripLoop (fc : Facts) (x : Ext) (o : Opts) : Nat → St → Bool → Outcome St
  | 0, _, _ => .outOfFuel
  | fuel + 1, s, again =>
    if !again then .ok s
    else do
      let s1 ← (if !o.minimal then nameInlinedSchemas fc x o (reload fc s) else pure s)
      let s2 ← namePointers fc x o s1
      let (s3, again') ← stripOAIGen fc x s2
      stripLoop fc x o fuel s3 again'

/-- `stripPointersAndOAIGen(opts)` -/
def stripPointersAndOAIGen (fc : Facts) (x : Ext) (o : Opts) (fuel : Nat) (s : St) : Outcome St := do
  let s1 ← namePointers fc x o s
  let (s2, again) ← stripOAIGen fc x s1
  stripLoop fc x o fuel s2 again

/-- `Flatten(opts)` from the state reached after `expand` (phase 1 is `spec.ExpandSpec`, a library
    call) to the end, in Minimal or full mode, for documents without remote schema references -/
def flattenLocal (fc : Facts) (x : Ext) (o : Opts) (fuel : Nat) (s : St) : Outcome St := do
  let s1 ← normalizeRef fc x o s
  let s2 := if o.removeUnused then removeUnusedShared fc s1 else s1
  let s3 ← importReferencesLocal fc s2
  let s4 ← (if !o.minimal && !o.expand then nameInlinedSchemas fc x o s3 else pure s3)
  let s5 ← stripPointersAndOAIGen fc x o fuel s4
  if o.removeUnused then removeUnused fc x s5 else pure s5

/-- `Flatten(opts)` from the state reached after `expand` to the end, in Minimal or full mode, remote
    (file) schema references included: `flattenLocal` with the real `importReferences` loop -/
def flatten (fc : Facts) (x : Ext) (o : Opts) (fuel : Nat) (s : St) : Outcome St := do
  let s1 ← normalizeRef fc x o s
  let s2 := if o.removeUnused then removeUnusedShared fc s1 else s1
  let s3 ← importReferences fc x o fuel s2
  let s4 ← (if !o.minimal && !o.expand then nameInlinedSchemas fc x o s3 else pure s3)
  let s5 ← stripPointersAndOAIGen fc x o fuel s4
  if o.removeUnused then removeUnused fc x s5 else pure s5

/-! ### normal forms: nothing left to do -/

/-- no `$ref` carries the absolute path of the root document (`normalizeRef` selects nothing) -/
def nfNormalize (o : Opts) (s : St) : Bool :=
  (allRefs s.idx).all fun kv => !Str.hasPrefix (o.basePath ++ "#/definitions") kv.2

/-- every schema `$ref` is local (`importReferences` finds nothing to import) -/
def nfLocal (s : St) : Bool := (refMap (· = "schema") s.idx).all fun kv => hasFragmentOnly kv.2

/-- the loop body of `nameInlinedSchemas` does nothing at this key: a `$ref`, a top-level definition,
    a schema that is not complex, or a complex schema for which no name can be derived (`Name` then
    does nothing either: e.g. the body parameter of a path item without operation — known finding D13
    of C03; a second Flatten finds the same nothing to do, which is all C08 asks for) -/
def nameStepIdle (fc : Facts) (x : Ext) (d : J) (entries : List (String × Bool × J)) (ops : List (String × OpRef))
    (key : String) : Bool :=
  match (entries.filter fun e => e.1 = key).getLast? with
  | none => true
  | some e =>
    let node := liveNode d key e.2.2
    if Doc.refStr node ≠ "" ∨ e.2.1 then true
    else match Classify.classify fc (classifyExt x) d classifyFuel [] node with
      | .ok fl =>
        !Classify.isComplex fl ||
          (match namesFromKey x (SortRef.keyParts key) fl ops with
           | .ok names => names.all (· = "")
           | _ => false)
      | _ => false

/-- no complex schema that can be named is inline (`nameInlinedSchemas` does nothing) -/
def nfNaming (fc : Facts) (x : Ext) (s : St) : Bool :=
  match opRefsByRef x s.idx with
  | .ok ops =>
    (SortRef.depthFirst ((Index.mapOf (Index.schemas s.idx)).map (·.1))).all
      (nameStepIdle fc x s.doc (schemaEntries s.idx) ops)
  | _ => false

/-- every `$ref` is of the form `#/definitions/<name>` and designates something in the document
    (`namePointers` plans nothing) -/
def nfPointers (x : Ext) (s : St) : Bool :=
  (allRefs s.idx).all fun kv =>
    Str.dir kv.2 = "#/definitions" &&
    (match x.refTokens kv.2 with
     | some toks => (Spec.Pointer.get s.doc toks).isSome
     | none => false)

/-- the shared sections are absent -/
def nfShared (d : J) : Bool := (d.get? "parameters").isNone && (d.get? "responses").isNone

/-- every definition is designated by a schema `$ref` (a removal pass removes nothing) -/
def nfUnused (fc : Facts) (x : Ext) (d : J) : Bool :=
  !(RemoveUnused.singlePass fc { refName := refName x } d).2

/-- the normal form of Minimal / full flattening (with or without RemoveUnused), as the phases see it -/
def isNF (fc : Facts) (x : Ext) (o : Opts) (d : J) : Bool :=
  let s := initial fc d
  nfNormalize o s && nfLocal s && (o.minimal || o.expand || nfNaming fc x s) && nfPointers x s &&
  (!o.removeUnused || (nfShared d && nfUnused fc x d))

end Flatten
