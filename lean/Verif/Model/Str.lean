/-
  String functions of the Go standard library and of go-openapi/jsonpointer that the analysed code
  applies to keys and names.  Proof-facing definitions work on `List Char`; the `String` wrappers are
  used by the executable model.  All characters these functions test are ASCII, so working on code
  points instead of UTF-8 bytes is exact for valid UTF-8 (the only strings JSON can carry).
-/

namespace Str

/-- `strings.ReplaceAll(s, "~", "~0")` followed by `strings.ReplaceAll(s, "/", "~1")`
    = jsonpointer.Escape.  Done in one pass: the second replacement never touches what the first
    produced (it introduces no '/'). -/
def escL : List Char → List Char
  | [] => []
  | c :: r => if c = '~' then '~' :: '0' :: escL r
              else if c = '/' then '~' :: '1' :: escL r
              else c :: escL r

/-- first pass of jsonpointer.Unescape: `strings.ReplaceAll(s, "~1", "/")` (leftmost, non-overlapping) -/
def unesc1L : List Char → List Char
  | [] => []
  | '~' :: '1' :: r => '/' :: unesc1L r
  | c :: r => c :: unesc1L r

/-- second pass: `strings.ReplaceAll(s, "~0", "~")` -/
def unesc0L : List Char → List Char
  | [] => []
  | '~' :: '0' :: r => '~' :: unesc0L r
  | c :: r => c :: unesc0L r

def unescL (s : List Char) : List Char := unesc0L (unesc1L s)

/-- split on '/', like `strings.Split(s, "/")` (always at least one segment) -/
def splitSlashL : List Char → List (List Char)
  | [] => [[]]
  | c :: r =>
    match splitSlashL r with
    | [] => [[]]   -- unreachable
    | seg :: segs => if c = '/' then [] :: seg :: segs else (c :: seg) :: segs

def joinSlashL : List (List Char) → List Char
  | [] => []
  | [s] => s
  | s :: rest => s ++ '/' :: joinSlashL rest

/-- the segment stack of Go's `path.Clean`: "" and "." are dropped, ".." pops a real segment,
    is dropped at the root of a rooted path and is kept on a relative path.  The stack is kept
    reversed (top first). -/
def cleanStep (rooted : Bool) (stack : List (List Char)) (seg : List Char) : List (List Char) :=
  if seg = [] ∨ seg = ['.'] then stack
  else if seg = ['.', '.'] then
    match stack with
    | [] => if rooted then [] else [seg]
    | top :: rest => if top = ['.', '.'] then seg :: stack else rest
  else seg :: stack

/-- Go `path.Clean` -/
def cleanL (p : List Char) : List Char :=
  match p with
  | [] => ['.']
  | c :: _ =>
    let rooted := c = '/'
    let stack := (splitSlashL p).foldl (cleanStep rooted) []
    let body := joinSlashL stack.reverse
    if rooted then '/' :: body
    else if body = [] then ['.'] else body

/-- Go `path.Join` -/
def joinL (elems : List (List Char)) : List Char :=
  match elems.filter (· ≠ []) with
  | [] => []
  | es => cleanL (joinSlashL es)

/-- Go `path.Base` -/
def baseL (p : List Char) : List Char :=
  if p = [] then ['.'] else
  -- strip trailing slashes
  let p' := (p.reverse.dropWhile (· = '/')).reverse
  if p' = [] then ['/'] else
  (p'.reverse.takeWhile (· ≠ '/')).reverse

/-- Go `path.Dir` -/
def dirL (p : List Char) : List Char :=
  -- everything up to and including the last slash, cleaned
  let d := (p.reverse.dropWhile (· ≠ '/')).reverse
  cleanL d

/-- `strings.HasPrefix(s, p)`; on code points (kernel-reducible, unlike `String.startsWith`) -/
def hasPrefix (p s : String) : Bool := p.toList.isPrefixOf s.toList

def esc (s : String) : String := String.ofList (escL s.toList)
def unesc (s : String) : String := String.ofList (unescL s.toList)
def join (elems : List String) : String := String.ofList (joinL (elems.map String.toList))
def base (s : String) : String := String.ofList (baseL s.toList)
def dir (s : String) : String := String.ofList (dirL s.toList)
def clean (s : String) : String := String.ofList (cleanL s.toList)

/-- value of a hexadecimal digit (`net/url` `ishex` / `unhex`) -/
def hexVal (c : UInt8) : Option UInt8 :=
  if 48 ≤ c ∧ c ≤ 57 then some (c - 48)
  else if 97 ≤ c ∧ c ≤ 102 then some (c - 97 + 10)
  else if 65 ≤ c ∧ c ≤ 70 then some (c - 65 + 10)
  else none

/-- `net/url` `unescape(s, encodePathSegment)` on bytes: every `%XX` becomes the byte `XX`; a `%` not
    followed by two hexadecimal digits is an error.  (In path mode '+' is left alone.) -/
def unescBytes : List UInt8 → Option (List UInt8)
  | [] => some []
  | 37 :: a :: b :: rest =>
    match hexVal a, hexVal b with
    | some x, some y => (unescBytes rest).map fun r => (x * 16 + y) :: r
    | _, _ => none
  | 37 :: _ => none
  | c :: rest => (unescBytes rest).map fun r => c :: r

/-- `url.PathUnescape(s)`; `none` on a malformed escape (and on bytes that are not UTF-8, which JSON
    strings cannot carry) -/
def pathUnescape (s : String) : Option String :=
  (unescBytes s.toUTF8.toList).bind fun bs => String.fromUTF8? (ByteArray.mk bs.toArray)

/-- `strings.Split(s, string(c))` on code points -/
def splitCharL (c : Char) : List Char → List (List Char)
  | [] => [[]]
  | a :: r =>
    match splitCharL c r with
    | [] => [[]]   -- unreachable
    | seg :: segs => if a = c then [] :: seg :: segs else (a :: seg) :: segs

/-- `strings.SplitN(s, "#", 2)`: the part before the first '#', and the part after it when there is one -/
def cutHash (s : String) : String × Option String :=
  let cs := s.toList
  let before := cs.takeWhile (· ≠ '#')
  let rest := cs.dropWhile (· ≠ '#')
  (String.ofList before, match rest with | [] => none | _ :: after => some (String.ofList after))

/-- Go `path.Ext` -/
def ext (p : String) : String :=
  let lastElem := (p.toList.reverse.takeWhile (· ≠ '/')).reverse
  if lastElem.contains '.' then
    String.ofList ('.' :: (lastElem.reverse.takeWhile (· ≠ '.')).reverse)
  else ""

/-- `strings.Contains` -/
def containsSub (sub s : String) : Bool :=
  let n := sub.toList
  (List.range (s.toList.length + 1)).any fun i => n.isPrefixOf (s.toList.drop i)

/-- `strconv.Itoa` for naturals -/
def itoa (n : Nat) : String := toString n

def toUpperAscii (s : String) : String :=
  String.ofList (s.toList.map fun c => if 'a' ≤ c ∧ c ≤ 'z' then Char.ofNat (c.toNat - 32) else c)

def toLowerAscii (s : String) : String :=
  String.ofList (s.toList.map fun c => if 'A' ≤ c ∧ c ≤ 'Z' then Char.ofNat (c.toNat + 32) else c)

end Str
