import Verif.Model.Doc
import Verif.Model.Facts
import Verif.Spec.Pointer

/-
  Model of schema.go: `Schema(SchemaOpts)` — the nine inference passes, `inherits`, the recursion into
  `items` / `additionalProperties`, and `inferFromRef`.

  `spec.ExpandSchema({$ref: r}, root, nil)` is modelled *lazily* (DESIGN.md §4.7): the `$ref` is
  resolved to its target and classification goes on from there, resolving nested `$ref`s on demand;
  the library's eager expansion fails when any `$ref` reachable from the target dangles, which the
  model reproduces with `danglingFrom`.  External functions: the strfmt registry and the decoding of
  `$ref` strings into pointer tokens.
-/

namespace Classify
open J

structure Ext where
  knownFormat : String → Bool
  refTokens : String → Option (List String)

structure Flags where
  hasProps : Bool := false
  hasAllOf : Bool := false
  hasItems : Bool := false
  hasAdditionalProps : Bool := false
  hasAdditionalItems : Bool := false
  hasRef : Bool := false
  isKnownType : Bool := false
  isSimpleSchema : Bool := false
  isArray : Bool := false
  isSimpleArray : Bool := false
  isMap : Bool := false
  isSimpleMap : Bool := false
  isExtendedObject : Bool := false
  isTuple : Bool := false
  isTupleWithExtra : Bool := false
  isBaseType : Bool := false
  isEnum : Bool := false
  deriving Repr, DecidableEq, Inhabited

/-- `schema.Type`: a string or an array of strings; `none` = nil -/
def typeOf (s : J) : Option (List String) :=
  match s.get? "type" with
  | some (.str t) => some [t]
  | some (.arr xs) => some (strs xs)
  | _ => none

def typeContains (s : J) (t : String) : Bool := ((typeOf s).getD []).contains t

/-- `schema.Items`: `inl` a single schema, `inr` a tuple -/
def itemsOf (s : J) : Option (J ⊕ List J) :=
  match s.get? "items" with
  | some (.obj kvs) => some (.inl (.obj kvs))
  | some (.arr xs) => some (.inr xs)
  | _ => none

/-- `SchemaOrBool`: (schema, allows) -/
def schemaOrBool (s : J) (k : String) : Option (Option J × Bool) :=
  match s.get? k with
  | some (.obj kvs) => some (some (.obj kvs), true)
  | some (.bool b) => some (none, b)
  | _ => none

def nonEmptyObj (s : J) (k : String) : Bool := !(s.getObj k).isEmpty
def nonEmptyArr (s : J) (k : String) : Bool := !(s.getArr k).isEmpty

/-- `initializeFlags` -/
def initFlags (s : J) : Flags :=
  { hasProps := nonEmptyObj s "properties"
    hasAllOf := nonEmptyArr s "allOf"
    hasRef := Doc.refStr s ≠ ""
    hasItems := match itemsOf s with
      | some (.inl _) => true
      | some (.inr xs) => !xs.isEmpty
      | none => false
    hasAdditionalProps := match schemaOrBool s "additionalProperties" with
      | some (sch, allows) => sch.isSome || allows
      | none => false
    hasAdditionalItems := match schemaOrBool s "additionalItems" with
      | some (sch, allows) => sch.isSome || allows
      | none => false }

def isObjectType (s : J) (f : Flags) : Bool :=
  !f.hasRef && ((typeOf s).isNone || typeContains s "" || typeContains s "object")

def isArrayType (s : J) (f : Flags) : Bool :=
  !f.hasRef && ((typeOf s).isSome && typeContains s "array")

/-- `inferKnownType`, `inferEnum`, `inferBaseType` and the non-recursive parts of `inferMap`,
    `inferArray`, `inferTuple` -/
def shallow (x : Ext) (s : J) : Flags :=
  let f := initFlags s
  let obj := isObjectType s f
  let hasExtra := f.hasProps || f.hasAllOf
  let tupleItems := match itemsOf s with | some (.inr _) => true | _ => false
  let tuple := f.hasItems && tupleItems
  { f with
    isKnownType := typeContains s "boolean" || typeContains s "integer" || typeContains s "number" ||
      typeContains s "string" || (s.getStr "format" ≠ "" && x.knownFormat (s.getStr "format")) ||
      (obj && !f.hasProps && !f.hasAllOf && !f.hasAdditionalProps && !f.hasAdditionalItems)
    isEnum := nonEmptyArr s "enum"
    isBaseType := obj && s.getStr "discriminator" ≠ ""
    isMap := obj && f.hasAdditionalProps && !hasExtra
    isExtendedObject := obj && f.hasAdditionalProps && hasExtra
    isArray := isArrayType s f && !tupleItems
    isTuple := tuple && !f.hasAdditionalItems
    isTupleWithExtra := tuple && f.hasAdditionalItems }

def inferSimple (f : Flags) : Flags :=
  { f with isSimpleSchema := f.isKnownType || f.isSimpleArray || f.isSimpleMap }

-- `$ref`s inside one schema node, over every schema-bearing keyword (structural)
mutual
  def refsIn : J → List String
    | .obj kvs =>
      -- a node that carries a `$ref` is replaced by its target when expanded: its siblings are never visited
      (match lookup "$ref" kvs with
       | some (.str r) => if r ≠ "" then [r] else refsInFields kvs
       | _ => refsInFields kvs)
    | _ => []
  def refsInFields : List (String × J) → List String
    | [] => []
    | (k, v) :: rest =>
      (if k = "definitions" ∨ k = "properties" ∨ k = "patternProperties" then
         (match v with
          | .obj m => refsInMap m
          | _ => [])
       else if k = "allOf" ∨ k = "anyOf" ∨ k = "oneOf" then
         (match v with
          | .arr xs => refsInArr xs
          | _ => [])
       else if k = "not" ∨ k = "additionalProperties" ∨ k = "additionalItems" then refsIn v
       else if k = "items" then
         (match v with
          | .arr xs => refsInArr xs
          | _ => []) ++ refsIn v
       else []) ++ refsInFields rest
  def refsInMap : List (String × J) → List String
    | [] => []
    | (_, v) :: rest => refsIn v ++ refsInMap rest
  def refsInArr : List J → List String
    | [] => []
    | v :: rest => refsIn v ++ refsInArr rest
end

def resolve (x : Ext) (root : J) (ref : String) : Option J :=
  (x.refTokens ref).bind (Spec.Pointer.get root)

/-- does the eager expansion of `{$ref: ref}` hit a `$ref` that does not resolve?  Depth-first over
    the `$ref` graph with a visited set; `fuel` bounds the number of distinct refs followed. -/
def danglingFrom (x : Ext) (root : J) : Nat → List String → List String → Bool
  | 0, _, _ => false
  | _, _, [] => false
  | fuel + 1, seen, r :: todo =>
    if seen.contains r then danglingFrom x root fuel seen todo   -- already expanded
    else match resolve x root r with
      | none => true
      | some t => danglingFrom x root fuel (r :: seen) (refsIn t ++ todo)

/-- `Schema(SchemaOpts{Schema: s, Root: root})` with the stack of `$ref`s being resolved -/
def classify (fc : Facts) (x : Ext) (root : J) : Nat → List String → J → Outcome Flags
  | 0, _, _ => .outOfFuel
  | fuel + 1, visited, s =>
    let f := shallow x s
    -- inferMap
    let mapStep : Outcome Flags :=
      if f.isMap then
        match schemaOrBool s "additionalProperties" with
        | some (some sch, _) =>
          (classify fc x root fuel visited sch).bind fun m => .ok { f with isSimpleMap := m.isSimpleSchema }
        | some (none, allows) => .ok { f with isSimpleMap := allows }
        | none => .ok f
      else .ok f
    mapStep.bind fun f1 =>
    -- inferArray
    let arrStep : Outcome Flags :=
      if f1.isArray then
        match itemsOf s with
        | some (.inl it) =>
          (classify fc x root fuel visited it).bind fun a => .ok { f1 with isSimpleArray := a.isSimpleSchema }
        | _ => .ok { f1 with isSimpleArray := !f1.hasItems }
      else .ok f1
    arrStep.bind fun f2 =>
    -- inferFromRef
    if f2.hasRef then
      let r := Doc.refStr s
      if fc.schemaRefGuard && visited.contains r then .ok { hasRef := true }   -- `inherits(&AnalyzedSchema{hasRef: true})`
      else if danglingFrom x root (fuel + 1) [] [r] then .err "unresolved $ref"
      else match resolve x root r with
        | none => .err "unresolved $ref"
        | some target =>
          (classify fc x root fuel (r :: visited) target).bind fun t => .ok (inferSimple t)
    else .ok (inferSimple f2)

/-- `isAnalyzedAsComplex` -/
def isComplex (f : Flags) : Bool := !f.isSimpleSchema && !f.isArray && !f.isMap

end Classify
