import Verif.Model.Doc
import Verif.Model.Facts

/-
  Model of `uniqifyName` (flatten_name.go).  `strings.EqualFold` is an external function, given by a
  key function `fold` with `EqualFold a b ↔ fold a = fold b` (simple Unicode case folding; the
  harness ships the keys computed with the real library).
-/

namespace Names

structure Ext where
  fold : String → String

/-- the case-insensitive membership test `known(candidate)` -/
def knownFold (x : Ext) (defs : List String) (c : String) : Bool := defs.any fun k => x.fold k == x.fold c

/-- exact map membership `definitions[candidate]` (the test the second stage used before the repair) -/
def knownExact (defs : List String) (c : String) : Bool := defs.contains c

/-- the i-th candidate of the second stage: base, base1, base2, … -/
def candidate (base : String) (i : Nat) : String := if i = 0 then base else base ++ toString i

/-- `for known(unique) { idx++; unique = name + idx }` -/
def search (known : String → Bool) (base : String) : Nat → Nat → Option String
  | 0, _ => none
  | fuel + 1, idx =>
    if known (candidate base idx) then search known base fuel (idx + 1) else some (candidate base idx)

/-- `uniqifyName(definitions, name)`: the new name and whether a conflict had to be resolved -/
def uniqifyName (f : Facts) (x : Ext) (defs : List String) (name : String) (fuel : Nat) : Outcome (String × Bool) :=
  let start : String × Bool := if name = "" then ("oaiGen", true) else (name, false)
  if defs.isEmpty then .ok start
  else if !knownFold x defs start.1 then .ok start
  else
    match search (if f.uniqifyCaseInsensitive then knownFold x defs else knownExact defs) (start.1 ++ "OAIGen") fuel 0 with
    | some u => .ok (u, true)
    | none => .outOfFuel

end Names
