import Verif.Model.Json
import Verif.Model.Str

/-
  Shared vocabulary about Swagger 2.0 documents as `go-openapi/spec` loads them.
-/

namespace Doc

/-- the seven `*spec.Operation` fields of `spec.PathItem`, by JSON key -/
def methods : List String := ["get", "put", "post", "delete", "options", "head", "patch"]

/-- a JSON `$ref` key holding a string: what `spec.Ref.fromMap` turns into a non-nil URL -/
def hasRefKey (j : J) : Bool :=
  match j.get? "$ref" with
  | some (.str _) => true
  | _ => false

/-- `x.Ref.String()`: "" when absent -/
def refStr (j : J) : String := j.getStr "$ref"

def isDigit (c : Char) : Bool := '0' ≤ c ∧ c ≤ '9'

/-- keys of a responses object that `ResponsesProps.UnmarshalJSON` stores as status codes
    (`strconv.Atoi` succeeds).  Generators only emit canonical codes (no sign, no leading zero). -/
def isCodeKey (k : String) : Bool :=
  k ≠ "default" ∧ ¬ Str.hasPrefix "x-" k ∧ k.toList ≠ [] ∧ k.toList.all isDigit

/-- keys of the `paths` object that `spec.Paths.UnmarshalJSON` stores as path items -/
def isPathKey (k : String) : Bool := Str.hasPrefix "/" k

/-- JSON keys of a path item that hold an operation -/
def isMethodKey (k : String) : Bool := methods.contains k

/-- the paths map: `s.Paths.Paths` (keys starting with "x-" are extensions of `spec.Paths`) -/
def pathItems (d : J) : List (String × J) :=
  (d.getObj "paths").filter fun kv => isPathKey kv.1

end Doc
