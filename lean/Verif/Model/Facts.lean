/-
  Facts about /repo's source that the model is parameterised by.  The values are regenerated from the
  current working tree on every run by the Go extractor (harness/cmd/extract) into
  `Verif/Generated/Facts.lean`; `Verif/Generated/FactsOK.lean` proves that the regenerated values
  satisfy the hypotheses under which the property theorems are proved.
-/

structure Facts where
  /-- JSON keys of the `spec.PathItem` operation fields visited by `FixEmptyResponseDescriptions`, in source order -/
  fixerMethods : List String
  /-- `FixEmptyDescs` returns early on a nil `*spec.Responses` -/
  fixerNilGuard : Bool
  /-- (upper-case method literal, PathItem field) pairs passed to `analyzeOperation` by `analyzeOperations` -/
  analyzerMethods : List (String × String)
  /-- `analyzeDefaultResponse` registers header enums (as `analyzeResponse` does) -/
  defaultHeaderEnums : Bool
  /-- PathItem fields collected by mixin's `pathItemOps`, in source order -/
  mixinMethods : List String
  /-- `getOpIDs` / `mergePaths` ignore operations whose id is empty -/
  mixinSkipsEmptyIDs : Bool
  /-- `mergeSwaggerProps` merges external docs only when the mixin has some (`m.ExternalDocs != nil`) -/
  mixinExtDocsGuard : Bool
  /-- `inferFromRef` stops at a `$ref` that is already being resolved up the analysis stack -/
  schemaRefGuard : Bool
  /-- `SafeParamsFor` / `SafeParametersFor` reach the paths map and the operation only through
      nil-safe accessors (no `s.spec.Paths.Paths`, no `s.operations[..][..].Parameters`) -/
  paramsNilSafe : Bool
  /-- exported methods of `*Spec` that may write to state reachable from the receiver or a parameter
      (conservative syntactic effect analysis, transitive through same-package callees) -/
  getterWrites : List String
  /-- exported map-returning methods of `*Spec` that return a clone -/
  freshMapGetters : List String
  /-- exported map-returning methods of `*Spec` that return a field of the receiver itself -/
  aliasMapGetters : List String
  /-- functions of flatten.go that mutate the document (directly or through replace / schutils) but
      do not end every successful path with `opts.Spec.reload()` -/
  phasesWithoutReload : List String
  /-- `uniqifyName` tests every candidate case-insensitively (no exact map lookup of a candidate) -/
  uniqifyCaseInsensitive : Bool
  /-- `for … range` loops over maps in flatten*.go and internal/flatten/**: "function:ranged expression" -/
  mapRanges : List String
  /-- PathItem fields tested by `SafeParametersFor`, in source order -/
  paramsForMethods : List String
  deriving Repr

namespace Facts

/-- the values the theorems need; `FactsOK` shows the regenerated ones agree up to order -/
def reference : Facts where
  fixerMethods := ["get", "put", "post", "delete", "options", "head", "patch"]
  fixerNilGuard := true
  analyzerMethods := [("GET", "get"), ("PUT", "put"), ("POST", "post"), ("PATCH", "patch"),
                      ("DELETE", "delete"), ("HEAD", "head"), ("OPTIONS", "options")]
  defaultHeaderEnums := true
  mixinMethods := ["get", "put", "post", "delete", "head", "patch", "options"]
  mixinSkipsEmptyIDs := true
  mixinExtDocsGuard := true
  schemaRefGuard := true
  paramsNilSafe := true
  getterWrites := []
  freshMapGetters := ["AllEnums", "AllPatterns", "HeaderEnums", "HeaderPatterns", "ItemsEnums", "ItemsPatterns",
                      "ParameterEnums", "ParameterPatterns", "SchemaEnums", "SchemaPatterns"]
  aliasMapGetters := ["Operations"]
  phasesWithoutReload := []
  uniqifyCaseInsensitive := true
  mapRanges := []
  paramsForMethods := ["get", "head", "options", "post", "patch", "put", "delete"]

end Facts
