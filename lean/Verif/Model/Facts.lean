/-
  Facts about /repo's source that the model is parameterised by.  The values are regenerated from the
  current working tree on every run by the Go extractor (harness/cmd/extract) into
  `Verif/Generated/Facts.lean`; `Verif/Generated/FactsOK.lean` proves that the regenerated values
  satisfy the hypotheses under which the property theorems are proved.
-/

structure Facts where
  /-- JSON keys of the `spec.PathItem` operation fields visited by `FixEmptyResponseDescriptions`, in source order -/
  fixerMethods : List String
  /-- `FixEmptyDescs` returns early on a nil `*spec.Responses` -/
  fixerNilGuard : Bool
  /-- (upper-case method literal, PathItem field) pairs passed to `analyzeOperation` by `analyzeOperations` -/
  analyzerMethods : List (String × String)
  /-- `analyzeDefaultResponse` registers header enums (as `analyzeResponse` does) -/
  defaultHeaderEnums : Bool
  /-- PathItem fields collected by mixin's `pathItemOps`, in source order -/
  mixinMethods : List String
  /-- `getOpIDs` / `mergePaths` ignore operations whose id is empty -/
  mixinSkipsEmptyIDs : Bool
  /-- `mergeSwaggerProps` merges external docs only when the mixin has some (`m.ExternalDocs != nil`) -/
  mixinExtDocsGuard : Bool
  /-- `inferFromRef` stops at a `$ref` that is already being resolved up the analysis stack -/
  schemaRefGuard : Bool
  /-- `SafeParamsFor` / `SafeParametersFor` reach the paths map and the operation only through
      nil-safe accessors (no `s.spec.Paths.Paths`, no `s.operations[..][..].Parameters`) -/
  paramsNilSafe : Bool
  /-- exported methods of `*Spec` that may write to state reachable from the receiver or a parameter
      (conservative syntactic effect analysis, transitive through same-package callees) -/
  getterWrites : List String
  /-- exported map-returning methods of `*Spec` that return a clone -/
  freshMapGetters : List String
  /-- exported map-returning methods of `*Spec` that return a field of the receiver itself -/
  aliasMapGetters : List String
  /-- functions of flatten.go that mutate the document (directly or through replace / schutils) but
      do not end every successful path with `opts.Spec.reload()` -/
  phasesWithoutReload : List String
  /-- `uniqifyName` tests every candidate case-insensitively (no exact map lookup of a candidate) -/
  uniqifyCaseInsensitive : Bool
  /-- `for … range` loops over maps in flatten*.go and internal/flatten/**: "function:ranged expression" -/
  mapRanges : List String
  /-- PathItem fields tested by `SafeParametersFor`, in source order -/
  paramsForMethods : List String
  /-- control skeletons (calls, conditions, loops, returns; logging, verif hooks and the
      `if err != nil { return err }` plumbing normalised to a trailing `!`) of the functions that
      orchestrate Flatten, translated from the Go source by `harness/cmd/extract/skeleton.go` -/
  skeletons : List (String × List String) := []
  /-- index fields of the analyzed `Spec` (maps, slices, pointers other than the document) that
      `(*Spec).reset` does not replace by a fresh value: they would survive `reload()` -/
  resetStale : List String := []
  /-- control skeleton of `(*Spec).reload` -/
  reloadSkeleton : List String := ["s.reset()", "s.initialize()"]
  deriving Repr

namespace Facts

/-- The orchestration of Flatten as the Lean pipeline was written after it.  Line by line:
    `Flatten.flatten` = `Flatten` from `normalizeRef` on (`expand` is `spec.ExpandSpec` + `reload`, a
    library call whose result the model starts from; `croak` only logs);
    `Flatten.importReferences` = `importReferences` (one round, re-analysis, repeat until complete);
    `Flatten.stripPointersAndOAIGen` + `Flatten.stripLoop` = `stripPointersAndOAIGen`;
    `Flatten.removeUnused` = `removeUnused` (`RemoveUnused.removeUnused` iterates the single pass) followed
    by the re-analysis the last pass ends with; `Flatten.removeUnusedShared` = `removeUnusedShared`. -/
def flattenSkeletons : List (String × List String) := [
  ("Flatten", ["opts.flattenContext = newContext()", "expand(&opts) !", "normalizeRef(&opts) !",
               "if opts.RemoveUnused {", "  removeUnusedShared(&opts)", "}",
               "importReferences(&opts) !",
               "if !opts.Minimal && !opts.Expand {", "  nameInlinedSchemas(&opts) !", "}",
               "stripPointersAndOAIGen(&opts) !",
               "if opts.RemoveUnused {", "  removeUnused(&opts)", "}",
               "opts.croak()", "return nil"]),
  ("expand", ["spec.ExpandSpec(opts.Swagger(), opts.ExpandOpts(!opts.Expand)) !", "opts.Spec.reload()", "return nil"]),
  ("importReferences", ["var ( imported bool err error )", "for !imported && err == nil {",
                        "  imported, err = importExternalReferences(opts)", "  opts.Spec.reload()", "}", "return err"]),
  ("stripPointersAndOAIGen", ["namePointers(opts) !", "hasIntroducedPointerOrInline, ers := stripOAIGen(opts) !",
                              "for hasIntroducedPointerOrInline {",
                              "  if !opts.Minimal {", "    opts.Spec.reload()", "    nameInlinedSchemas(opts) !", "  }",
                              "  namePointers(opts) !", "  var err error",
                              "  hasIntroducedPointerOrInline, err = stripOAIGen(opts) !", "}", "return nil"]),
  ("removeUnused", ["for removeUnusedSinglePass(opts) {", "}"]),
  ("removeUnusedShared", ["opts.Swagger().Parameters = nil", "opts.Swagger().Responses = nil", "opts.Spec.reload()"])]

/-- the values the theorems need; `FactsOK` shows the regenerated ones agree up to order -/
def reference : Facts where
  fixerMethods := ["get", "put", "post", "delete", "options", "head", "patch"]
  fixerNilGuard := true
  analyzerMethods := [("GET", "get"), ("PUT", "put"), ("POST", "post"), ("PATCH", "patch"),
                      ("DELETE", "delete"), ("HEAD", "head"), ("OPTIONS", "options")]
  defaultHeaderEnums := true
  mixinMethods := ["get", "put", "post", "delete", "head", "patch", "options"]
  mixinSkipsEmptyIDs := true
  mixinExtDocsGuard := true
  schemaRefGuard := true
  paramsNilSafe := true
  getterWrites := []
  freshMapGetters := ["AllEnums", "AllPatterns", "HeaderEnums", "HeaderPatterns", "ItemsEnums", "ItemsPatterns",
                      "ParameterEnums", "ParameterPatterns", "SchemaEnums", "SchemaPatterns"]
  aliasMapGetters := ["Operations"]
  phasesWithoutReload := []
  uniqifyCaseInsensitive := true
  mapRanges := []
  paramsForMethods := ["get", "head", "options", "post", "patch", "put", "delete"]
  skeletons := flattenSkeletons

end Facts
