/-
  Facts about /repo's source that the model is parameterised by.  The values are regenerated from the
  current working tree on every run by the Go extractor (harness/cmd/extract) into
  `Verif/Generated/Facts.lean`; `Verif/Generated/FactsOK.lean` proves that the regenerated values
  satisfy the hypotheses under which the property theorems are proved.
-/

structure Facts where
  /-- JSON keys of the `spec.PathItem` operation fields visited by `FixEmptyResponseDescriptions`, in source order -/
  fixerMethods : List String
  /-- `FixEmptyDescs` returns early on a nil `*spec.Responses` -/
  fixerNilGuard : Bool
  /-- (upper-case method literal, PathItem field) pairs passed to `analyzeOperation` by `analyzeOperations` -/
  analyzerMethods : List (String × String)
  /-- `analyzeDefaultResponse` registers header enums (as `analyzeResponse` does) -/
  defaultHeaderEnums : Bool
  /-- PathItem fields collected by mixin's `pathItemOps`, in source order -/
  mixinMethods : List String
  /-- `getOpIDs` / `mergePaths` ignore operations whose id is empty -/
  mixinSkipsEmptyIDs : Bool
  /-- `mergeSwaggerProps` merges external docs only when the mixin has some (`m.ExternalDocs != nil`) -/
  mixinExtDocsGuard : Bool
  /-- `inferFromRef` stops at a `$ref` that is already being resolved up the analysis stack -/
  schemaRefGuard : Bool
  /-- `SafeParamsFor` / `SafeParametersFor` reach the paths map and the operation only through
      nil-safe accessors (no `s.spec.Paths.Paths`, no `s.operations[..][..].Parameters`) -/
  paramsNilSafe : Bool
  /-- exported methods of `*Spec` that may write to state reachable from the receiver or a parameter
      (conservative syntactic effect analysis, transitive through same-package callees) -/
  getterWrites : List String
  /-- exported map-returning methods of `*Spec` that return a clone -/
  freshMapGetters : List String
  /-- exported map-returning methods of `*Spec` that return a field of the receiver itself -/
  aliasMapGetters : List String
  /-- functions of flatten.go that mutate the document (directly or through replace / schutils) but
      do not end every successful path with `opts.Spec.reload()` -/
  phasesWithoutReload : List String
  /-- `uniqifyName` tests every candidate case-insensitively (no exact map lookup of a candidate) -/
  uniqifyCaseInsensitive : Bool
  /-- `for … range` loops over maps in flatten*.go and internal/flatten/**: "function:ranged expression" -/
  mapRanges : List String
  /-- PathItem fields tested by `SafeParametersFor`, in source order -/
  paramsForMethods : List String
  /-- control skeletons (calls, conditions, loops, returns; logging, verif hooks and the
      `if err != nil { return err }` plumbing normalised to a trailing `!`) of the functions that
      orchestrate Flatten, translated from the Go source by `harness/cmd/extract/skeleton.go` -/
  skeletons : List (String × List String) := []
  /-- control skeletons of the phase functions of flatten.go that `Verif/Model/Flatten.lean` transcribes
      function by function (same translator) -/
  phaseSkeletons : List (String × List String) := []
  /-- index fields of the analyzed `Spec` (maps, slices, pointers other than the document) that
      `(*Spec).reset` does not replace by a fresh value: they would survive `reload()` -/
  resetStale : List String := []
  /-- control skeleton of `(*Spec).reload` -/
  reloadSkeleton : List String := ["s.reset()", "s.initialize()"]
  deriving Repr

namespace Facts

/-- The orchestration of Flatten as the Lean pipeline was written after it.  Line by line:
    `Flatten.flatten` = `Flatten` from `normalizeRef` on (`expand` is `spec.ExpandSpec` + `reload`, a
    library call whose result the model starts from; `croak` only logs);
    `Flatten.importReferences` = `importReferences` (one round, re-analysis, repeat until complete);
    `Flatten.stripPointersAndOAIGen` + `Flatten.stripLoop` = `stripPointersAndOAIGen`;
    `Flatten.removeUnused` = `removeUnused` (`RemoveUnused.removeUnused` iterates the single pass) followed
    by the re-analysis the last pass ends with; `Flatten.removeUnusedShared` = `removeUnusedShared`. -/
def flattenSkeletons : List (String × List String) := [
  ("Flatten", ["opts.flattenContext = newContext()", "expand(&opts) !", "normalizeRef(&opts) !",
               "if opts.RemoveUnused {", "  removeUnusedShared(&opts)", "}",
               "importReferences(&opts) !",
               "if !opts.Minimal && !opts.Expand {", "  nameInlinedSchemas(&opts) !", "}",
               "stripPointersAndOAIGen(&opts) !",
               "if opts.RemoveUnused {", "  removeUnused(&opts)", "}",
               "opts.croak()", "return nil"]),
  ("expand", ["spec.ExpandSpec(opts.Swagger(), opts.ExpandOpts(!opts.Expand)) !", "opts.Spec.reload()", "return nil"]),
  ("importReferences", ["var ( imported bool err error )", "for !imported && err == nil {",
                        "  imported, err = importExternalReferences(opts)", "  opts.Spec.reload()", "}", "return err"]),
  ("stripPointersAndOAIGen", ["namePointers(opts) !", "hasIntroducedPointerOrInline, ers := stripOAIGen(opts) !",
                              "for hasIntroducedPointerOrInline {",
                              "  if !opts.Minimal {", "    opts.Spec.reload()", "    nameInlinedSchemas(opts) !", "  }",
                              "  namePointers(opts) !", "  var err error",
                              "  hasIntroducedPointerOrInline, err = stripOAIGen(opts) !", "}", "return nil"]),
  ("removeUnused", ["for removeUnusedSinglePass(opts) {", "}"]),
  ("removeUnusedShared", ["opts.Swagger().Parameters = nil", "opts.Swagger().Responses = nil", "opts.Spec.reload()"])]

/-- The phase functions of flatten.go as the Lean model was written after them (`Flatten.normalizeRef`,
    `RemoveUnused.singlePass`, `Flatten.importExternalReferences`, `importNewRef`, `nameInlinedSchemas`,
    `namePointers`, `flattenAnonPointer`, `stripOAIGen`, `updateRefParents`, `stripOAIGenForRef`,
    `InlineSchemaNamer.Name` = `nameSchema` / `nameWith`, `uniqifyName`, `namesFromKey`, `namesForParam`,
    `namesForOperation`, `nameFromRef` = `rawNameFromRef` + mangling): pasted
    from the translator's output at the commit the model was last brought in line with.  A change to one of
    these functions makes `Generated.flatten_phase_skeletons` fail: the model has to be re-read against the
    new source (and this table regenerated), whatever the correspondence streams say. -/
def flattenPhaseSkeletons : List (String × List String) := [
    ("normalizeRef", ["altered := false", "range opts.Spec.references.allRefs {", "  if !strings.HasPrefix(w.String(), opts.BasePath+definitionsPath) {", "    continue", "  }", "  altered = true", "  replace.UpdateRef(opts.Swagger(), k, spec.MustCreateRef(path.Join(definitionsPath, path.Base(w.String())))) !", "}", "if altered {", "  opts.Spec.reload()", "}", "return nil"]),
    ("removeUnusedSinglePass", ["unused := make(map[string]struct{}, len(opts.Swagger().Definitions))", "range opts.Swagger().Definitions {", "  unused[k] = struct{}{}", "}", "range opts.Spec.references.schemas {", "  if name, ok := definitionNameFromRef(ref); ok {", "    delete(unused, name)", "  }", "}", "range unused {", "  hasRemoved = true", "  if opts.Verbose {", "    log.Printf(\"info: removing unused definition: %s\", k)", "  }", "  delete(opts.Swagger().Definitions, k)", "}", "opts.Spec.reload()", "return hasRemoved"]),
    ("importExternalReferences", ["groupedRefs := sortref.ReverseIndex(opts.Spec.references.schemas, opts.BasePath)", "sortedRefStr := make([]string, 0, len(groupedRefs))", "if opts.flattenContext == nil {", "  opts.flattenContext = newContext()", "}", "range groupedRefs {", "  sortedRefStr = append(sortedRefStr, refStr)", "}", "sort.Strings(sortedRefStr)", "complete := true", "range sortedRefStr {", "  entry := groupedRefs[refStr]", "  if entry.Ref.HasFragmentOnly {", "    continue", "  }", "  complete = false", "  newName := opts.flattenContext.resolved[refStr]", "  if newName != \"\" {", "    importKnownRef(entry, refStr, newName, opts) !", "    continue", "  }", "  importNewRef(entry, refStr, opts) !", "}", "range opts.flattenContext.newRefs {", "  r := opts.flattenContext.newRefs[k]", "  if r.schema.Ref.String() != \"\" {", "    ref := spec.MustCreateRef(r.path)", "    sch, err := spec.ResolveRefWithBase(opts.Swagger(), &ref, opts.ExpandOpts(false)) ! via ErrResolveSchema(err)", "    r.schema = sch", "  }", "  if r.path == k {", "    continue", "  }", "  renamed := *r", "  renamed.key = r.path", "  opts.flattenContext.newRefs[renamed.path] = &renamed", "  r.newName = path.Base(k)", "  r.schema = spec.RefSchema(r.path)", "  r.path = k", "  r.isOAIGen = strings.Contains(k, \"OAIGen\")", "}", "return complete, nil"]),
    ("importNewRef", ["var ( isOAIGen bool newName string )", "sch, err := spec.ResolveRefWithBase(opts.Swagger(), &entry.Ref, opts.ExpandOpts(false)) ! via ErrResolveSchema(err)", "partialAnalyzer := &Spec{ references: referenceAnalysis{}, patterns: patternAnalysis{}, enums: enumAnalysis{}, }", "partialAnalyzer.reset()", "partialAnalyzer.analyzeSchema(\"\", sch, \"/\")", "range partialAnalyzer.references.allRefs {", "  replace.UpdateRef(sch, key, spec.MustCreateRef(normalize.RebaseRef(entry.Ref.String(), ref.String()))) ! via ErrRewriteRef(key, entry.Ref.String(), err)", "}", "newName, isOAIGen = uniqifyName(opts.Swagger().Definitions, nameFromRef(entry.Ref, opts))", "opts.flattenContext.resolved[refStr] = newName", "range entry.Keys {", "  replace.UpdateRef(opts.Swagger(), key, spec.MustCreateRef(path.Join(definitionsPath, newName))) !", "  resolved := false", "  if _, ok := opts.flattenContext.newRefs[key]; ok {", "    resolved = opts.flattenContext.newRefs[key].resolved", "  }", "  opts.flattenContext.newRefs[key] = &newRef{ key: key, newName: newName, path: path.Join(definitionsPath, newName), isOAIGen: isOAIGen, resolved: resolved, schema: sch, }", "}", "schutils.Save(opts.Swagger(), newName, sch)", "return nil"]),
    ("importKnownRef", ["range entry.Keys {", "  replace.UpdateRef(opts.Swagger(), key, spec.MustCreateRef(path.Join(definitionsPath, newName))) !", "}", "return nil"]),
    ("nameInlinedSchemas", ["namer := &InlineSchemaNamer{ Spec: opts.Swagger(), Operations: operations.AllOpRefsByRef(opts.Spec, nil), flattenContext: opts.flattenContext, opts: opts, }", "depthFirst := sortref.DepthFirst(opts.Spec.allSchemas)", "range depthFirst {", "  sch := opts.Spec.allSchemas[key]", "  if sch.Schema == nil || sch.Schema.Ref.String() != \"\" || sch.TopLevel {", "    continue", "  }", "  asch, err := Schema(SchemaOpts{Schema: sch.Schema, Root: opts.Swagger(), BasePath: opts.BasePath}) ! via ErrAtKey(key, err)", "  if asch.isAnalyzedAsComplex() {", "    namer.Name(key, sch.Schema, asch) !", "  }", "}", "opts.Spec.reload()", "return nil"]),
    ("namePointers", ["refsToReplace := make(map[string]SchemaRef, len(opts.Spec.references.schemas))", "range opts.Spec.references.allRefs {", "  if path.Dir(ref.String()) == definitionsPath {", "    if _, _, err := ref.GetPointer().Get(opts.Swagger()); err != nil && !opts.ContinueOnError {", "      return ErrAtKey(k, err)", "    }", "    continue", "  }", "  result, err := replace.DeepestRef(opts.Swagger(), opts.ExpandOpts(false), ref) ! via ErrAtKey(k, err)", "  replacingRef := result.Ref", "  sch := result.Schema", "  if opts.flattenContext != nil {", "    opts.flattenContext.warnings = append(opts.flattenContext.warnings, result.Warnings...)", "  }", "  refsToReplace[k] = SchemaRef{ Name: k, Ref: replacingRef, Schema: sch, TopLevel: path.Dir(replacingRef.String()) == definitionsPath, }", "}", "depthFirst := sortref.DepthFirst(refsToReplace)", "namer := &InlineSchemaNamer{ Spec: opts.Swagger(), Operations: operations.AllOpRefsByRef(opts.Spec, nil), flattenContext: opts.flattenContext, opts: opts, }", "range depthFirst {", "  v := refsToReplace[key]", "  result, erd := replace.DeepestRef(opts.Swagger(), opts.ExpandOpts(false), v.Ref) ! via ErrAtKey(key, erd)", "  if opts.flattenContext != nil {", "    opts.flattenContext.warnings = append(opts.flattenContext.warnings, result.Warnings...)", "  }", "  v.Ref = result.Ref", "  v.Schema = result.Schema", "  v.TopLevel = path.Dir(result.Ref.String()) == definitionsPath", "  if v.TopLevel {", "    replace.UpdateRef(opts.Swagger(), key, v.Ref) !", "    continue", "  }", "  flattenAnonPointer(key, v, refsToReplace, namer, opts) !", "}", "opts.Spec.reload()", "return nil"]),
    ("flattenAnonPointer", ["asch, ers := Schema(SchemaOpts{Schema: v.Schema, Root: opts.Swagger(), BasePath: opts.BasePath}) ! via ErrAtKey(key, ers)", "callers := make([]string, 0, allocMediumMap)", "an := New(opts.Swagger())", "range an.references.allRefs {", "  r, err := replace.DeepestRef(opts.Swagger(), opts.ExpandOpts(false), w) ! via ErrAtKey(key, err)", "  if opts.flattenContext != nil {", "    opts.flattenContext.warnings = append(opts.flattenContext.warnings, r.Warnings...)", "  }", "  if r.Ref.String() == v.Ref.String() {", "    callers = append(callers, k)", "  }", "}", "if len(callers) == 0 {", "  return nil", "}", "parts := sortref.KeyParts(v.Ref.String())", "if (!asch.IsSimpleSchema || len(callers) > 1) && !parts.IsSharedParam() && !parts.IsSharedResponse() {", "  namer.Name(v.Ref.String(), v.Schema, asch) !", "  range callers {", "    if caller == key {", "      continue", "    }", "    c := refsToReplace[caller]", "    c.Ref = v.Ref", "    refsToReplace[caller] = c", "  }", "  return nil", "}", "replace.UpdateRefWithSchema(opts.Swagger(), key, v.Schema) !", "return nil"]),
    ("stripOAIGen", ["replacedWithComplex := false", "range opts.flattenContext.newRefs {", "  updateRefParents(opts.Spec.references.allRefs, r)", "}", "range opts.flattenContext.newRefs {", "  r := opts.flattenContext.newRefs[k]", "  if !r.isOAIGen || len(r.parents) == 0 {", "    continue", "  }", "  hasReplacedWithComplex, err := stripOAIGenForRef(opts, k, r) !", "  replacedWithComplex = replacedWithComplex || hasReplacedWithComplex", "}", "opts.Spec.reload()", "return replacedWithComplex, nil"]),
    ("updateRefParents", ["if !r.isOAIGen || r.resolved {", "  return", "}", "range allRefs {", "  if r.path != v.String() {", "    continue", "  }", "  found := false", "  range r.parents {", "    if p == k {", "      found = true", "      break", "    }", "  }", "  if !found {", "    r.parents = append(r.parents, k)", "  }", "}"]),
    ("stripOAIGenForRef", ["replacedWithComplex := false", "pr := sortref.TopmostFirst(r.parents)", "outer := -1", "range pr {", "  if p != r.path && !strings.HasPrefix(p, r.path+\"/\") {", "    outer = i", "    break", "  }", "}", "switch { case outer < 0: return false, nil case outer > 0: reordered := make([]string, 0, len(pr)) reordered = append(reordered, pr[outer]) reordered = append(reordered, pr[:outer]...) reordered = append(reordered, pr[outer+1:]...) pr = reordered }", "replace.UpdateRefWithSchema(opts.Swagger(), pr[0], r.schema) !", "if pa, ok := opts.flattenContext.newRefs[pr[0]]; ok && pa.isOAIGen {", "  pa.schema = r.schema", "  pa.resolved = false", "  replacedWithComplex = true", "}", "if len(pr) > 1 {", "  range pr[1:] {", "    replacingRef := spec.MustCreateRef(pr[0])", "    replacedWithComplex = replacedWithComplex || path.Dir(replacingRef.String()) != definitionsPath", "    replace.UpdateRef(opts.Swagger(), p, replacingRef) !", "    if pa, ok := opts.flattenContext.newRefs[p]; ok && pa.isOAIGen {", "      pa.schema = r.schema", "      pa.resolved = false", "      replacedWithComplex = true", "    }", "  }", "}", "delete(opts.Swagger().Definitions, path.Base(r.path))", "range opts.flattenContext.newRefs {", "  if kk == k || !value.isOAIGen || value.resolved {", "    continue", "  }", "  found := false", "  newParents := make([]string, 0, len(value.parents))", "  range value.parents {", "    switch { case parent == r.path: found = true parent = pr[0] case strings.HasPrefix(parent, r.path+\"/\"): found = true parent = path.Join(pr[0], strings.TrimPrefix(parent, r.path)) }", "    newParents = append(newParents, parent)", "  }", "  if found {", "    value.parents = newParents", "  }", "}", "opts.flattenContext.newRefs[r.key].isOAIGen = false", "opts.flattenContext.newRefs[r.key].resolved = true", "if r.schema != nil && r.schema.Ref.String() == \"\" {", "  asch, err := Schema(SchemaOpts{Schema: r.schema, Root: opts.Swagger(), BasePath: opts.BasePath}) !", "  replacedWithComplex = replacedWithComplex || !(path.Dir(pr[0]) == definitionsPath) && asch.isAnalyzedAsComplex()", "}", "return replacedWithComplex, nil"]),
    ("Name", ["parts := sortref.KeyParts(key)", "range namesFromKey(parts, aschema, isn.Operations) {", "  if name == \"\" {", "    continue", "  }", "  mangle := mangler(isn.opts)", "  newName, isOAIGen := uniqifyName(isn.Spec.Definitions, mangle(name))", "  sch := schutils.Clone(schema)", "  replace.RewriteSchemaToRef(isn.Spec, key, spec.MustCreateRef(path.Join(definitionsPath, newName))) ! via ErrInlineDefinition(newName, err)", "  an := New(isn.Spec)", "  range an.references.allRefs {", "    r, erd := replace.DeepestRef(isn.opts.Swagger(), isn.opts.ExpandOpts(false), v) ! via ErrAtKey(k, erd)", "    if isn.opts.flattenContext != nil {", "      isn.opts.flattenContext.warnings = append(isn.opts.flattenContext.warnings, r.Warnings...)", "    }", "    if r.Ref.String() != key && (r.Ref.String() != path.Join(definitionsPath, newName) || path.Dir(v.String()) == definitionsPath) {", "      continue", "    }", "    replace.UpdateRef(isn.Spec, k, spec.MustCreateRef(path.Join(definitionsPath, newName))) !", "  }", "  sch.AddExtension(\"x-go-gen-location\", GenLocation(parts))", "  schutils.Save(isn.Spec, newName, sch)", "  if isn.flattenContext == nil {", "    continue", "  }", "  resolved := false", "  if _, ok := isn.flattenContext.newRefs[key]; ok {", "    resolved = isn.flattenContext.newRefs[key].resolved", "  }", "  isn.flattenContext.newRefs[key] = &newRef{ key: key, newName: newName, path: path.Join(definitionsPath, newName), isOAIGen: isOAIGen, resolved: resolved, schema: sch, }", "}", "return nil"]),
    ("uniqifyName", ["isOAIGen := false", "if name == \"\" {", "  name = \"oaiGen\"", "  isOAIGen = true", "}", "if len(definitions) == 0 {", "  return name, isOAIGen", "}", "known := func(candidate string) bool { for k := range definitions { if strings.EqualFold(k, candidate) { return true } } return false }", "if !known(name) {", "  return name, isOAIGen", "}", "name += \"OAIGen\"", "isOAIGen = true", "var idx int", "unique := name", "for known(unique) {", "  idx++", "  unique = fmt.Sprintf(\"%s%d\", name, idx)", "}", "return unique, isOAIGen"]),
    ("namesFromKey", ["var ( baseNames [][]string startIndex int )", "switch { case parts.IsOperation(): baseNames, startIndex = namesForOperation(parts, operations) case parts.IsDefinition(): baseNames, startIndex = namesForDefinition(parts) default: baseNames = [][]string{parts} startIndex = len(baseNames) + 1 }", "result := make([]string, 0, len(baseNames))", "range baseNames {", "  nm := parts.BuildName(segments, startIndex, partAdder(aschema))", "  if nm == \"\" {", "    continue", "  }", "  result = append(result, nm)", "}", "sort.Strings(result)", "return result"]),
    ("namesForParam", ["var ( baseNames [][]string startIndex int )", "piref := parts.PathItemRef()", "if piref.String() != \"\" && parts.IsOperationParam() {", "  if op, ok := operations[piref.String()]; ok {", "    startIndex = 5", "    baseNames = append(baseNames, []string{op.ID, \"params\", \"body\"})", "  }", "} else", "if parts.IsSharedOperationParam() {", "  pref := parts.PathRef()", "  range operations {", "    if strings.HasPrefix(k, pref.String()) {", "      startIndex = 4", "      baseNames = append(baseNames, []string{v.ID, \"params\", \"body\"})", "    }", "  }", "}", "return baseNames, startIndex"]),
    ("namesForOperation", ["var ( baseNames [][]string startIndex int )", "if parts.IsOperationParam() || parts.IsSharedOperationParam() {", "  baseNames, startIndex = namesForParam(parts, operations)", "}", "if parts.IsOperationResponse() {", "  piref := parts.PathItemRef()", "  if piref.String() != \"\" {", "    if op, ok := operations[piref.String()]; ok {", "      startIndex = 6", "      baseNames = append(baseNames, []string{op.ID, parts.ResponseName(), \"body\"})", "    }", "  }", "}", "return baseNames, startIndex"]),
    ("nameFromRef", ["mangle := mangler(o)", "u := ref.GetURL()", "if u.Fragment != \"\" {", "  return mangle(path.Base(u.Fragment))", "}", "if u.Path != \"\" {", "  bn := path.Base(u.Path)", "  if bn != \"\" && bn != \"/\" {", "    ext := path.Ext(bn)", "    if ext != \"\" {", "      return mangle(bn[:len(bn)-len(ext)])", "    }", "    return mangle(bn)", "  }", "}", "return mangle(strings.ReplaceAll(u.Host, \".\", \" \"))"])
  ]

/-- the values the theorems need; `FactsOK` shows the regenerated ones agree up to order -/
def reference : Facts where
  fixerMethods := ["get", "put", "post", "delete", "options", "head", "patch"]
  fixerNilGuard := true
  analyzerMethods := [("GET", "get"), ("PUT", "put"), ("POST", "post"), ("PATCH", "patch"),
                      ("DELETE", "delete"), ("HEAD", "head"), ("OPTIONS", "options")]
  defaultHeaderEnums := true
  mixinMethods := ["get", "put", "post", "delete", "head", "patch", "options"]
  mixinSkipsEmptyIDs := true
  mixinExtDocsGuard := true
  schemaRefGuard := true
  paramsNilSafe := true
  getterWrites := []
  freshMapGetters := ["AllEnums", "AllPatterns", "HeaderEnums", "HeaderPatterns", "ItemsEnums", "ItemsPatterns",
                      "ParameterEnums", "ParameterPatterns", "SchemaEnums", "SchemaPatterns"]
  aliasMapGetters := ["Operations"]
  phasesWithoutReload := []
  uniqifyCaseInsensitive := true
  mapRanges := []
  paramsForMethods := ["get", "head", "options", "post", "patch", "put", "delete"]
  skeletons := flattenSkeletons
  phaseSkeletons := flattenPhaseSkeletons

end Facts
