import Verif.Model.Doc
import Verif.Spec.Pointer

/-
  Model of internal/flatten/replace: `getPointerFromKey`, `getParentFromKey` and the three rewrite
  primitives `UpdateRef`, `RewriteSchemaToRef`, `UpdateRefWithSchema`, on JSON documents.

  The Go code resolves the key with `jsonpointer.Get` over the `spec` types and switches on the
  *dynamic Go type* of what it gets (`spec.Schema` value in a map or slice, `*spec.Schema`,
  `*spec.SchemaOrArray`, `*spec.SchemaOrBool`, …).  The model recovers that type from the position:
  `kindAt` walks the token path from the root keeping track of what kind of `spec` object each
  position is.  Keys are analyzer keys ("#" + JSON pointer); they contain no '%' (name alphabet), so
  `url.PathUnescape` is the identity on them.
-/

namespace Replace
open J

/-- the kind of `spec` object found at a position, as far as the primitives distinguish -/
inductive Kind where
  | swagger
  | schemaMap        -- Definitions / SchemaProperties (properties, patternProperties, nested definitions)
  | schemaVal        -- a `spec.Schema` value inside a map or slice: replaced wholesale through its parent
  | schemaArr        -- []spec.Schema (allOf, anyOf, oneOf) or SchemaOrArray.Schemas (tuple items)
  | schemaPtr        -- *spec.Schema held by a parameter or a response (`schema`)
  | notPtr           -- *spec.Schema held by a schema (`not`): no holder case in `rewriteParentRef`
  | schemaOrArray    -- *spec.SchemaOrArray holding a single schema (`items: {…}`)
  | schemaOrBool     -- *spec.SchemaOrBool holding a schema (additionalProperties / additionalItems)
  | paths | pathItem | operation | paramArr | param | paramMap | responses | response | respMap
  | other
  deriving Repr, DecidableEq, Inhabited

def isSchemaKind : Kind → Bool
  | .schemaVal | .schemaPtr | .notPtr | .schemaOrArray | .schemaOrBool => true
  | _ => false

/-- kind of the child `t` of a node `j` of kind `k` -/
def childKind (k : Kind) (j : J) (t : String) : Kind :=
  match k with
  | .swagger =>
    if t = "definitions" then .schemaMap else if t = "paths" then .paths
    else if t = "parameters" then .paramMap else if t = "responses" then .respMap else .other
  | .schemaMap => .schemaVal
  | .schemaArr => .schemaVal
  | .schemaVal | .schemaPtr | .notPtr | .schemaOrArray | .schemaOrBool =>
    if t = "properties" ∨ t = "patternProperties" ∨ t = "definitions" then .schemaMap
    else if t = "allOf" ∨ t = "anyOf" ∨ t = "oneOf" then .schemaArr
    else if t = "not" then .notPtr
    else if t = "additionalProperties" ∨ t = "additionalItems" then
      (match j.get? t with | some (.obj _) => .schemaOrBool | _ => .other)
    else if t = "items" then
      (match j.get? t with | some (.obj _) => .schemaOrArray | some (.arr _) => .schemaArr | _ => .other)
    else .other
  | .paths => if Doc.isPathKey t then .pathItem else .other
  | .pathItem => if Doc.isMethodKey t then .operation else if t = "parameters" then .paramArr else .other
  | .operation => if t = "parameters" then .paramArr else if t = "responses" then .responses else .other
  | .paramArr => .param
  | .paramMap => .param
  | .param => if t = "schema" then .schemaPtr else .other
  | .responses => if t = "default" ∨ Doc.isCodeKey t then .response else .other
  | .respMap => .response
  | .response => if t = "schema" then .schemaPtr else .other
  | .other => .other

/-- walk a token path from a node of kind `k`: the node reached and its kind -/
def walk (k : Kind) (j : J) : List String → Option (J × Kind)
  | [] => some (j, k)
  | t :: ts =>
    match Spec.Pointer.step j t with
    | some c => walk (childKind k j t) c ts
    | none => none

/-- tokens of a key "#/a/b~1c": `pth, _ := url.PathUnescape(key[1:])` then `jsonpointer.New(pth)`.
    Analyzer keys carry no '%' and pass unchanged; keys taken from `$ref` strings (namePointers) are
    URL-escaped and are decoded here.  A malformed escape leaves `pth` empty: the empty pointer. -/
def keyTokens (key : String) : List String :=
  match Str.pathUnescape (String.ofList (key.toList.drop 1)) with
  | some pth => Spec.Pointer.parse pth
  | none => []

/-- replace the node at a token path (objects by key, arrays by index); `none` when the path does not exist -/
def setAt (j : J) : List String → J → Option J
  | [], v => some v
  | t :: ts, v =>
    match j with
    | .obj kvs =>
      (match lookup t kvs with
       | some c => (setAt c ts v).map fun c' => .obj (setKv t c' kvs)
       | none => none)
    | .arr xs =>
      (match Spec.Pointer.natOfDigits t.toList with
       | some i => (match xs[i]? with
          | some c => (setAt c ts v).map fun c' => .arr (xs.set i c')
          | none => none)
       | none => none)
    | _ => none

def refNode (ref : String) : J := .obj [("$ref", .str ref)]

/-- `UpdateRef(sp, key, ref)`: only `.Ref` is set and the other fields stay, behind a pointer (`*Schema`,
    `*SchemaOrArray`, `*SchemaOrBool`) as well as for a `spec.Schema` value (element of a map or slice), which
    is stored back into its container with the new `$ref` -/
def updateRef (d : J) (key ref : String) : Outcome J :=
  let toks := keyTokens key
  match walk .swagger d toks with
  | none => .err "pointer does not resolve"
  | some (node, kind) =>
    match kind with
    | .schemaVal | .schemaPtr | .notPtr | .schemaOrArray | .schemaOrBool =>
      (match setAt d toks (node.set "$ref" (.str ref)) with | some d' => .ok d' | none => .err "no parent")
    | _ => .err "no schema with ref"

/-- `RewriteSchemaToRef(sp, key, ref)`: the schema at `key` is replaced by `{$ref}` in its holder -/
def rewriteSchemaToRef (d : J) (key ref : String) : Outcome J :=
  let toks := keyTokens key
  match walk .swagger d toks with
  | none => .err "pointer does not resolve"
  | some (_, kind) =>
    if kind = .notPtr then .err "unhandled parent schema rewrite"   -- `rewriteParentRef` has no case for a schema holder
    else if isSchemaKind kind then
      (match setAt d toks (refNode ref) with | some d' => .ok d' | none => .err "no parent")
    else .err "no schema with ref"

/-- `UpdateRefWithSchema(sp, key, sch)`: the schema at `key` is overwritten by `sch` -/
def updateRefWithSchema (d : J) (key : String) (sch : J) : Outcome J :=
  let toks := keyTokens key
  match walk .swagger d toks with
  | none => .err "pointer does not resolve"
  | some (_, kind) =>
    if isSchemaKind kind then
      (match setAt d toks sch with | some d' => .ok d' | none => .err "no parent")
    else .err "no schema with ref"

end Replace
