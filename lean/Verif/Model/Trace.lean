import Verif.Model.Facts

/-
  C10: Flatten as a trace over (document, index, dirty).  A phase either mutates the document
  (the index is then stale) or re-analyzes (`opts.Spec.reload()`).  Which phases end with a reload is
  a fact extracted from flatten.go (`Facts.phasesWithoutReload` must be empty).
-/

namespace Trace

variable {δ ι : Type}

inductive Ev (δ : Type) where
  | mutate (f : δ → δ)
  | reload

structure St (δ ι : Type) where
  doc : δ
  idx : ι
  dirty : Bool

def step (analyze : δ → ι) (s : St δ ι) : Ev δ → St δ ι
  | .mutate f => { s with doc := f s.doc, dirty := true }
  | .reload => { doc := s.doc, idx := analyze s.doc, dirty := false }

def run (analyze : δ → ι) (s : St δ ι) (tr : List (Ev δ)) : St δ ι := tr.foldl (step analyze) s

/-- the invariant: a clean state carries the analysis of its own document -/
def InSync (analyze : δ → ι) (s : St δ ι) : Prop := s.dirty = false → s.idx = analyze s.doc

/-- a trace ends clean when its last mutation is followed by a reload -/
def endsClean : List (Ev δ) → Bool
  | [] => true
  | .reload :: rest => endsClean rest || rest.all (fun e => match e with | .reload => true | .mutate _ => false)
  | .mutate _ :: rest => endsClean rest && rest.any (fun e => match e with | .reload => true | .mutate _ => false)

/-- a phase: some mutations, then (if the phase is one that re-analyzes) a reload -/
def phase (muts : List (δ → δ)) (reloads : Bool) : List (Ev δ) :=
  muts.map Ev.mutate ++ (if reloads then [Ev.reload] else [])

end Trace
