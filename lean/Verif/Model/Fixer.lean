import Verif.Model.Doc
import Verif.Model.Facts

/-
  Model of fixer.go: FixEmptyResponseDescriptions / FixEmptyDescs / FixEmptyDesc.

  The Go code mutates in place; the model returns the new document.  The only way the Go code can
  fail is the nil dereference in `FixEmptyDescs(op.Responses)`; the model separates "does it panic"
  (`hitsNilResponses` without the guard) from "what is the result" (`fixDoc`).
-/

namespace Fixer
open J

/-- `FixEmptyDesc` on a non-nil response -/
def fixDesc (r : J) : J :=
  if r.getStr "description" ≠ "" || Doc.hasRefKey r then r
  else r.set "description" (.str "(empty)")

/-- the entries of a `responses` object that are `Default` / `StatusCodeResponses[..]` -/
def isResponseKey (k : String) : Bool := k = "default" || Doc.isCodeKey k

/-- `FixEmptyDescs` on a non-nil `*spec.Responses` -/
def fixResponses : J → J := mapObj (sel isResponseKey fixDesc)

/-- `FixEmptyDescs(op.Responses)` seen from the operation -/
def fixOp : J → J := mapObj (sel (· = "responses") fixResponses)

/-- the `if v.X != nil { FixEmptyDescs(v.X.Responses) }` chain over the methods `ms` -/
def fixPathItem (ms : List String) : J → J := mapObj (sel (fun k => ms.contains k) fixOp)

def fixPaths (ms : List String) : J → J := mapObj (sel Doc.isPathKey (fixPathItem ms))

def fixShared : J → J := mapObj (fun _ => fixDesc)

/-- the document after `FixEmptyResponseDescriptions` returns -/
def fixDoc (ms : List String) (d : J) : J :=
  mapObj (sel (· = "paths") (fixPaths ms)) (mapObj (sel (· = "responses") fixShared) d)

/-- `op.Responses == nil` -/
def nilResponses (op : J) : Bool :=
  match op.get? "responses" with
  | some (.obj _) => false
  | _ => true

/-- some visited operation has no `responses` object -/
def hitsNilResponses (ms : List String) (d : J) : Bool :=
  (Doc.pathItems d).any fun kv => ms.any fun m =>
    match kv.2.get? m with
    | some op => nilResponses op
    | none => false

/-- `FixEmptyResponseDescriptions` -/
def fix (f : Facts) (d : J) : Outcome J :=
  if !f.fixerNilGuard && hitsNilResponses f.fixerMethods d then
    .panic "nil *spec.Responses dereferenced in FixEmptyDescs"
  else .ok (fixDoc f.fixerMethods d)

end Fixer
