import Verif.Model.Analyzer

/-
  The maps of the analyzed `Spec` as views of the insertion log, and their JSON rendering for the
  correspondence check.  A Go map assignment is `setKv` (last insertion under a key wins).
-/

namespace Index
open J Analyzer

def mapOf (xs : List (String × J)) : List (String × J) := xs.foldl (fun acc kv => setKv kv.1 kv.2 acc) []

def refsWhere (p : String → Bool) (es : List Ent) : List (String × J) :=
  es.filterMap fun e => match e with
    | .ref kind key r => if p kind then some ("#" ++ key, .str r) else none
    | _ => none

def patternsWhere (p : String → Bool) (es : List Ent) : List (String × J) :=
  es.filterMap fun e => match e with
    | .pattern cat key v => if p cat then some ("#" ++ key, .str v) else none
    | _ => none

def enumsWhere (p : String → Bool) (es : List Ent) : List (String × J) :=
  es.filterMap fun e => match e with
    | .enum cat key v => if p cat then some ("#" ++ key, v) else none
    | _ => none

def hasAllOf (n : J) : Bool := match n.get? "allOf" with | some (.arr (_ :: _)) => true | _ => false

def schemas (es : List Ent) : List (String × J) :=
  es.filterMap fun e => match e with
    | .schema key name top node =>
      some ("#" ++ key, .obj [("name", .str name), ("top", .bool top), ("allOf", .bool (hasAllOf node)),
                               ("ref", .str (Doc.refStr node))])
    | _ => none

def ops (es : List Ent) : List (String × String × J) :=
  es.filterMap fun e => match e with
    | .op m p n => some (m, p, n)
    | _ => none

def opsJson (es : List Ent) : J :=
  let os := ops es
  let methods := (os.map (·.1)).eraseDups
  .obj (methods.map fun m =>
    (m, .obj (mapOf ((os.filter fun o => o.1 = m).map fun o => (o.2.1, .str (o.2.2.getStr "operationId"))))))

def strSet (sel : Ent → Option String) (es : List Ent) : J :=
  mkStrs ((es.filterMap sel).eraseDups)

def kinds : List String := ["schema", "response", "parameter", "pathItem", "items:header", "items:parameter"]
def cats : List String := ["parameter", "header", "items", "schema"]

def toJson (es : List Ent) : J :=
  .obj [
    ("refs", .obj (kinds.map fun k => (k, .obj (mapOf (refsWhere (· = k) es))))),
    ("itemsRefs", .obj (mapOf (refsWhere (fun k => k = "items:header" ∨ k = "items:parameter") es))),
    ("allRefs", .obj (mapOf (refsWhere (fun _ => true) es))),
    ("patterns", .obj (cats.map fun c => (c, .obj (mapOf (patternsWhere (· = c) es))))),
    ("allPatterns", .obj (mapOf (patternsWhere (fun _ => true) es))),
    ("enums", .obj (cats.map fun c => (c, .obj (mapOf (enumsWhere (· = c) es))))),
    ("allEnums", .obj (mapOf (enumsWhere (fun _ => true) es))),
    ("schemas", .obj (mapOf (schemas es))),
    ("ops", opsJson es),
    ("consumes", strSet (fun e => match e with | .consumes s => some s | _ => none) es),
    ("produces", strSet (fun e => match e with | .produces s => some s | _ => none) es),
    ("auth", strSet (fun e => match e with | .auth s => some s | _ => none) es)]

end Index
