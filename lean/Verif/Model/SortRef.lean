import Verif.Model.Doc

/-
  Model of internal/flatten/sortref: `KeyParts`, the `SplitKey` predicates, `DepthFirst`,
  `TopmostFirst`.  Go's `sort.Sort` is modelled by `List.mergeSort`: for the strict total orders used
  here (on distinct keys) every correct sort returns the same list.
-/

namespace SortRef

/-- `KeyParts(key)`: split `key[1:]` on '/', drop empty parts, unescape each -/
def keyParts (key : String) : List String :=
  ((Str.splitSlashL (key.toList.drop 1)).filter (· ≠ [])).map fun seg => String.ofList (Str.unescL seg)

/-- `strconv.Atoi(s)` succeeds: optional sign, then at least one digit -/
def isInt (s : String) : Bool :=
  let cs := s.toList
  let ds := match cs with
    | '+' :: r => r
    | '-' :: r => r
    | _ => cs
  ds ≠ [] && ds.all Doc.isDigit

def isDefinition (s : List String) : Bool := s.length > 1 && s[0]? = some "definitions"
def isSharedOperationParam (s : List String) : Bool := s.length > 2 && s[0]? = some "paths" && s[2]? = some "parameters"
def isSharedParam (s : List String) : Bool := s.length > 1 && s[0]? = some "parameters"
def isOperationParam (s : List String) : Bool := s.length > 3 && s[0]? = some "paths" && s[3]? = some "parameters"
def isSharedResponse (s : List String) : Bool := s.length > 1 && s[0]? = some "responses"
def isDefaultResponse (s : List String) : Bool :=
  s.length > 4 && s[0]? = some "paths" && s[3]? = some "responses" && s[4]? = some "default"
def isStatusCodeResponse (s : List String) : Bool :=
  s.length > 4 && s[0]? = some "paths" && s[3]? = some "responses" && isInt (s[4]?.getD "")

/-- the group of a key: the `if` chain of `DepthFirst` (later tests override earlier ones) -/
def groupOf (s : List String) : String :=
  let pk := ""
  let pk := if isSharedOperationParam s then "sharedOpParam" else pk
  let pk := if isOperationParam s then "opParam" else pk
  let pk := if isStatusCodeResponse s then "codeResponse" else pk
  let pk := if isDefaultResponse s then "defaultResponse" else pk
  let pk := if isDefinition s then "definition" else pk
  let pk := if isSharedParam s then "sharedParam" else pk
  let pk := if isSharedResponse s then "sharedResponse" else pk
  pk

def depthGroupOrder : List String :=
  ["sharedParam", "sharedResponse", "sharedOpParam", "opParam", "codeResponse", "defaultResponse", "definition"]

/-- `Keys.Less`: more segments first, then lexicographic -/
def keyLe (a b : String) : Bool :=
  let sa := (keyParts a).length
  let sb := (keyParts b).length
  sa > sb || (sa = sb && a ≤ b)

/-- `DepthFirst` on the keys of a map -/
def depthFirst (keys : List String) : List String :=
  depthGroupOrder.flatMap fun g => (keys.filter fun k => groupOf (keyParts k) = g).mergeSort keyLe

def slashCount (s : String) : Nat := (Str.splitSlashL s.toList).length

/-- `topmostRefs.Less`: fewer '/'-separated pieces first, then lexicographic -/
def topLe (a b : String) : Bool :=
  let la := slashCount a
  let lb := slashCount b
  la < lb || (la = lb && a ≤ b)

def topmostFirst (refs : List String) : List String := refs.mergeSort topLe

end SortRef
