import Verif.Model.Index

/-
  Model of the RemoveUnused phases of flatten.go: `removeUnusedShared`, `removeUnusedSinglePass`,
  `removeUnused`.  The set of used definitions is read from the analyzer's schema-reference index
  (`opts.Spec.references.schemas`); `definitionNameFromRef` is an external function (decoding of a
  `$ref` string: `some name` exactly for local two-token pointers `#/definitions/<name>`).
-/

namespace RemoveUnused
open J

structure Ext where
  refName : String → Option String

/-- `removeUnusedShared`: `Parameters = nil; Responses = nil` -/
def removeShared (d : J) : J := (d.erase "parameters").erase "responses"

/-- names designated by some schema `$ref` the analyzer has indexed -/
def usedNames (f : Facts) (x : Ext) (d : J) : List String :=
  (Index.refsWhere (· = "schema") (Analyzer.analyze f d)).filterMap fun kv =>
    match kv.2 with
    | .str r => x.refName r
    | _ => none

/-- `removeUnusedSinglePass`: the document after one pass, and whether something was removed -/
def singlePass (f : Facts) (x : Ext) (d : J) : J × Bool :=
  let used := usedNames f x d
  let defs := d.getObj "definitions"
  let keep := defs.filter fun kv => used.contains kv.1
  if keep.length = defs.length then (d, false) else (d.set "definitions" (.obj keep), true)

/-- `removeUnused`: iterate until a pass removes nothing -/
def removeUnused (f : Facts) (x : Ext) : Nat → J → Outcome J
  | 0, _ => .outOfFuel
  | fuel + 1, d =>
    let r := singlePass f x d
    if r.2 then removeUnused f x fuel r.1 else .ok r.1

end RemoveUnused
