import Verif.Model.Doc
import Verif.Model.Facts

/-
  Model of analyzer.go: `New` / `initialize` and the `analyze*` walk.

  The Go code fills ~25 maps; the model returns the *log of insertions* (`List Ent`), from which each
  map is a view (last insertion under a key wins, as in Go).  Keys are built exactly as the code
  builds them: `slashpath.Join`, `jsonpointer.Escape`, `strconv.Itoa`, `strings.ToLower`.
  `$ref` strings are opaque here: they are the normal form `spec.Ref.String()` yields.
-/

namespace Analyzer
open J

inductive Ent where
  /-- `references.<kind>["#"+key] = ref` and `allRefs["#"+key] = ref`;
      kinds: schema, response, parameter, pathItem, items:header, items:parameter -/
  | ref (kind key ref : String)
  /-- `patterns.<cat>` and `allPatterns`; cats: parameter, header, items, schema -/
  | pattern (cat key pat : String)
  /-- `enums.<cat>` and `allEnums` -/
  | enum (cat key : String) (vals : J)
  /-- `allSchemas["#"+key] = SchemaRef{Name, Schema, Ref: "#"+key, TopLevel}` -/
  | schema (key name : String) (top : Bool) (node : J)
  /-- `operations[METHOD][path] = op` -/
  | op (method path : String) (node : J)
  | consumes (s : String)
  | produces (s : String)
  | auth (s : String)
  deriving Inhabited

/-- `x.Pattern != ""` / `len(x.Enum) > 0` registrations shared by parameters, headers, items, schemas -/
def patEnum (cat key : String) (n : J) : List Ent :=
  (if n.getStr "pattern" ≠ "" then [Ent.pattern cat key (n.getStr "pattern")] else []) ++
  (match n.get? "enum" with
   | some (.arr (v :: vs)) => [Ent.enum cat key (.arr (v :: vs))]
   | _ => [])

def refEnt (kind key : String) (n : J) : List Ent :=
  if Doc.refStr n ≠ "" then [Ent.ref kind key (Doc.refStr n)] else []

mutual
  /-- `analyzeSchema(name, schema, prefix)`; `key` is `refURI = Join(prefix, Escape(name))` -/
  def aSchema (key name : String) (top : Bool) : J → List Ent
    | .obj kvs =>
      Ent.schema key name top (.obj kvs) ::
        (refEnt "schema" key (.obj kvs) ++ patEnum "schema" key (.obj kvs) ++ aSchemaFields key kvs)
    | _ => []
  /-- the schema-bearing keywords of one schema object -/
  def aSchemaFields (key : String) : List (String × J) → List Ent
    | [] => []
    | (k, v) :: rest =>
      (if k = "definitions" ∨ k = "properties" ∨ k = "patternProperties" then
         (match v with
          | .obj kvs => aSchemaMap (Str.join [key, k]) kvs
          | _ => [])
       else if k = "allOf" ∨ k = "anyOf" ∨ k = "oneOf" then
         (match v with
          | .arr xs => aSchemaArr (Str.join [key, k]) 0 xs
          | _ => [])
       else if k = "not" ∨ k = "additionalProperties" ∨ k = "additionalItems" then
         aSchema (Str.join [key, Str.esc k]) k false v
       else if k = "items" then
         -- `schema.Items`: a single schema under `items`, or a tuple under `items/<i>`
         -- (`aSchema` yields nothing on an array, `aSchemaArr` is only reached on an array)
         (match v with
          | .arr xs => aSchemaArr (Str.join [key, "items"]) 0 xs
          | _ => []) ++ aSchema (Str.join [key, Str.esc "items"]) "items" false v
       else []) ++ aSchemaFields key rest
  def aSchemaMap (pfx : String) : List (String × J) → List Ent
    | [] => []
    | (k, v) :: rest => aSchema (Str.join [pfx, Str.esc k]) k false v ++ aSchemaMap pfx rest
  def aSchemaArr (pfx : String) (i : Nat) : List J → List Ent
    | [] => []
    | v :: rest => aSchema (Str.join [pfx, Str.esc (Str.itoa i)]) (Str.itoa i) false v ++ aSchemaArr pfx (i + 1) rest
end

/-- `analyzeSchema(name, schema, prefix)` as the code calls it -/
def analyzeSchema (name : String) (schema : J) (pfx : String) : List Ent :=
  aSchema (Str.join [pfx, Str.esc name]) name (pfx = "/definitions") schema

mutual
  /-- `analyzeItems(name, items, prefix, location)` with `key = Join(prefix, name)` -/
  def aItems (key loc : String) : J → List Ent
    | .obj kvs =>
      aItemsFields key loc kvs ++
      refEnt ("items:" ++ loc) key (.obj kvs) ++ patEnum "items" key (.obj kvs)
    | _ => []
  def aItemsFields (key loc : String) : List (String × J) → List Ent
    | [] => []
    | (k, v) :: rest =>
      (if k = "items" then aItems (Str.join [key, "items"]) loc v else []) ++ aItemsFields key loc rest
end

/-- `analyzeItems("items", x.Items, prefix, location)`: nothing when `x.Items == nil` -/
def analyzeItems (holder : J) (pfx loc : String) : List Ent :=
  match holder.get? "items" with
  | some it => aItems (Str.join [pfx, "items"]) loc it
  | none => []

def schemaOf (holder : J) (pfx : String) : List Ent :=
  match holder.get? "schema" with
  | some s => analyzeSchema "schema" s pfx
  | none => []

/-- `analyzeParameter(prefix, i, param)` -/
def analyzeParameter (pfx : String) (i : Nat) (param : J) : List Ent :=
  let refPref := Str.join [pfx, "parameters", Str.itoa i]
  refEnt "parameter" refPref param ++ patEnum "parameter" refPref param ++
  analyzeItems param refPref "parameter" ++
  (if param.getStr "in" = "body" then schemaOf param refPref else [])

def indexed {α} (xs : List α) : List (Nat × α) := xs.zipIdx.map fun p => (p.2, p.1)

/-- headers of a response: items, pattern and (when `enums`) enum -/
def analyzeHeaders (refPref : String) (res : J) (enums : Bool) : List Ent :=
  (res.getObj "headers").flatMap fun kv =>
    let hRefPref := Str.join [refPref, "headers", kv.1]
    analyzeItems kv.2 hRefPref "header" ++
    (patEnum "header" hRefPref kv.2).filter fun e => match e with | .enum .. => enums | _ => true

/-- `analyzeDefaultResponse` / `analyzeResponse` (they differ in the key and, by the fact
    `defaultHeaderEnums`, in whether header enums are registered) -/
def analyzeResponse (pfx name : String) (res : J) (enums : Bool) : List Ent :=
  let refPref := Str.join [pfx, "responses", name]
  refEnt "response" refPref res ++ analyzeHeaders refPref res enums ++ schemaOf res refPref

/-- `analyzeOperation(method, path, op)` for a non-nil op -/
def analyzeOperation (f : Facts) (method path : String) (op : J) : List Ent :=
  let pfx := Str.join ["/paths", Str.esc path, Str.toLowerAscii method]
  (op.getStrs "consumes").map Ent.consumes ++ (op.getStrs "produces").map Ent.produces ++
  ((op.getArr "security").flatMap fun req => match req with | .obj kvs => kvs.map fun kv => Ent.auth kv.1 | _ => []) ++
  [Ent.op method path op] ++
  ((indexed (op.getArr "parameters")).flatMap fun ip => analyzeParameter pfx ip.1 ip.2) ++
  (match op.get? "responses" with
   | some (.obj rs) =>
     rs.flatMap fun kv =>
       if kv.1 = "default" then analyzeResponse pfx "default" kv.2 f.defaultHeaderEnums
       else if Doc.isCodeKey kv.1 then analyzeResponse pfx kv.1 kv.2 true
       else []
   | _ => [])

/-- `analyzeOperations(path, pi)` -/
def analyzeOperations (f : Facts) (path : String) (pi : J) : List Ent :=
  refEnt "pathItem" (Str.join ["/paths", Str.esc path]) pi ++
  (f.analyzerMethods.flatMap fun mf =>
    match pi.get? mf.2 with
    | some op => analyzeOperation f mf.1 path op
    | none => []) ++
  ((indexed (pi.getArr "parameters")).flatMap fun ip =>
    let refPref := Str.join ["/paths", Str.esc path, "parameters", Str.itoa ip.1]
    refEnt "parameter" refPref ip.2 ++ patEnum "parameter" refPref ip.2 ++
    analyzeItems ip.2 refPref "parameter" ++ schemaOf ip.2 refPref)

/-- `initialize` -/
def analyze (f : Facts) (d : J) : List Ent :=
  (d.getStrs "consumes").map Ent.consumes ++ (d.getStrs "produces").map Ent.produces ++
  ((d.getArr "security").flatMap fun req => match req with | .obj kvs => kvs.map fun kv => Ent.auth kv.1 | _ => []) ++
  ((Doc.pathItems d).flatMap fun kv => analyzeOperations f kv.1 kv.2) ++
  ((d.getObj "parameters").flatMap fun kv =>
    let refPref := Str.join ["/parameters", Str.esc kv.1]
    analyzeItems kv.2 refPref "parameter" ++
    (if kv.2.getStr "in" = "body" then schemaOf kv.2 refPref else []) ++
    patEnum "parameter" refPref kv.2) ++
  ((d.getObj "responses").flatMap fun kv =>
    let refPref := Str.join ["/responses", Str.esc kv.1]
    analyzeHeaders refPref kv.2 true ++ schemaOf kv.2 refPref) ++
  ((d.getObj "definitions").flatMap fun kv => analyzeSchema kv.1 kv.2 "/definitions")

end Analyzer
