import Verif.Model.Params
import Verif.Spec.Ops
import Verif.Model.Index
import Verif.Spec.Index

/- driver-side evaluation of `ops` / `params` queries (I/O glue; no theorem depends on it) -/

namespace OpsDriver
open J

def tagOf (n : J) : J := match n.get? "x-vh-id" with | some t => t | none => .null

def findOpByTag (d : J) (tag : J) : Option J :=
  ((Spec.Ops.allOps d).find? fun o => tagOf o.2.2 == tag).map (·.2.2)

def sortStrs (xs : List String) : List String := (xs.toArray.qsort (· < ·)).toList

def extOf (e : J) : Params.Ext where
  goName := fun n => (e.getObj "goNames" |> lookup n).map (fun v => match v with | .str s => s | _ => "") |>.getD ("<no goName for " ++ n ++ ">")
  refTokens := fun r => match lookup r (e.getObj "refTokens") with
    | some (.arr xs) => some (strs xs)
    | _ => none

def errKind : Params.RefErr → String
  | .invalidRef => "invalidRef"
  | .notAParameter => "notAParameter"

def encResult (r : Outcome Params.Result) (asList : Bool) : J :=
  match r with
  | .ok res =>
    let calls := J.arr (res.calls.map fun c => .arr [.str c.1, .str (errKind c.2)])
    if asList then .obj [("ok", .obj [("tags", .arr (res.res.map fun kv => tagOf kv.2)), ("calls", calls)])]
    else .obj [("ok", .obj [("res", .obj (res.res.map fun kv => (kv.1, tagOf kv.2))), ("calls", calls)])]
  | .panic w => .obj [("panic", .str w)]
  | .err e => .obj [("err", .str e)]
  | .outOfFuel => .obj [("timeout", .bool true)]

def encReqs (r : Option (List (List (String × List String)))) : J :=
  match r with
  | none => .obj [("nil", .bool true), ("reqs", .arr [])]
  | some reqs => .obj [("nil", .bool false), ("reqs", .arr (reqs.map fun rs =>
      .arr (rs.map fun nr => .obj [("name", .str nr.1), ("scopes", mkStrs nr.2)])))]

def script (q : J) : List Bool := (q.getArr "script").map fun b => match b with | .bool false => false | _ => true
def cb (q : J) : Bool := match q.get? "cb" with | some (.bool false) => false | _ => true

/-- the override rule of the Spec, when every parameter reference designates a shared parameter:
    key -> tag of the effective parameter; `allResolve` says whether the rule applies -/
def specParams (x : Params.Ext) (d pi : J) (op : Option J) : List (String × J) :=
  match op with
  | none => [("allResolve", .bool true), ("effective", .obj [])]
  | some o =>
    let ps := pi.getArr "parameters" ++ o.getArr "parameters"
    let tgt := Spec.Params.target x.refTokens d
    let allResolve := ps.all fun p => (tgt p).isSome
    let keys := ((ps.filterMap tgt).map (Spec.Params.keyOf x.goName)).eraseDups
    [("allResolve", .bool allResolve),
     -- the `$ref`s that designate no shared parameter, path-level list first, in document order
     ("badRefs", .arr ((ps.filter fun p => (tgt p).isNone).map fun p => .str (Doc.refStr p))),
     ("effective", .obj (keys.filterMap fun k =>
        (Spec.Params.effective x.goName x.refTokens d pi o k).map fun p => (k, tagOf p)))]

def evalQuery (f : Facts) (x : Params.Ext) (d q : J) : J :=
  let kind := q.getStr "kind"
  match kind with
  | "opFor" =>
    let m := Ops.operationFor f d (q.getStr "method") (q.getStr "path")
    let s := Spec.Ops.operationFor d (q.getStr "method") (q.getStr "path")
    .obj [("model", (m.map tagOf).getD (.str "<none>")), ("spec", (s.map tagOf).getD (.str "<none>"))]
  | "opForName" =>
    let enc := fun (o : Option (String × String × J)) => match o with
      | some o => J.arr [.str o.1, .str o.2.1, tagOf o.2.2]
      | none => .str "<none>"
    .obj [("model", enc (Ops.operationForName f d (q.getStr "id"))), ("spec", enc (Spec.Ops.operationForName d (q.getStr "id")))]
  | "ids" => .obj [("model", mkStrs (sortStrs (Ops.operationIDs f d))), ("spec", mkStrs (sortStrs (Spec.Ops.ids d)))]
  | "methodPaths" => .obj [("model", mkStrs (sortStrs (Ops.operationMethodPaths f d))), ("spec", mkStrs (sortStrs (Spec.Ops.methodPaths d)))]
  | "required" =>
    -- `RequiredConsumes` / `RequiredProduces` / `RequiredSecuritySchemes`: the analyzer's views vs the unions of the Spec
    let view := fun (j : J) (k : String) => mkStrs (sortStrs ((j.get? k).getD .null |> fun v => match v with | .arr xs => strs xs | _ => []))
    let m := Index.toJson (Analyzer.analyze f d)
    let s := Spec.Index.expected d
    .obj [("model", .arr [view m "consumes", view m "produces", view m "auth"]),
          ("spec", .arr [view s "consumes", view s "produces", view s "auth"])]
  | "consumesFor" | "producesFor" =>
    let k := if kind = "consumesFor" then "consumes" else "produces"
    match findOpByTag d ((q.get? "op").getD .null) with
    | some op => .obj [("model", mkStrs (sortStrs (Ops.mediaFor k d op))), ("spec", mkStrs (sortStrs (Spec.Ops.mediaFor k d op).eraseDups))]
    | none => .obj [("error", .str "no such op")]
  | "secReqFor" =>
    match findOpByTag d ((q.get? "op").getD .null) with
    | some op =>
      let s := match Spec.Ops.securityInForce d op with
        | none => none
        | some reqs => some (reqs.map Ops.reqsOf)
      .obj [("model", encReqs (Ops.securityRequirementsFor d op)), ("spec", encReqs s)]
    | none => .obj [("error", .str "no such op")]
  | "secDefsFor" =>
    match findOpByTag d ((q.get? "op").getD .null) with
    | some op =>
      let m := Ops.securityDefinitionsFor d op
      .obj [("model", .obj [("nil", .bool m.isNone), ("names", mkStrs (sortStrs ((m.getD []).map (·.1))))]),
            ("spec", .obj [("names", mkStrs (sortStrs (Spec.Ops.securityDefinitionNames d op)))])]
    | none => .obj [("error", .str "no such op")]
  | "secDefsForReqs" =>
    let names := q.getStrs "names"
    let m := Ops.securityDefinitionsForRequirements d names
    .obj [("model", mkStrs (sortStrs (m.map (·.1)))),
          ("spec", mkStrs (sortStrs (names.eraseDups.filter fun n => match lookup n (d.getObj "securityDefinitions") with | some (.obj _) => true | _ => false)))]
  | "paramsFor" =>
    let r := Params.safeParamsFor f x d (q.getStr "method") (q.getStr "path") (cb q) (script q)
    let sop := Spec.Ops.operationFor d (q.getStr "method") (q.getStr "path")
    let pi := (lookup (q.getStr "path") (Doc.pathItems d)).getD .null
    .obj [("model", encResult r false), ("spec", .obj ([("designated", .bool sop.isSome)] ++ specParams x d pi sop))]
  | "parametersFor" =>
    let r := Params.safeParametersFor f x d (q.getStr "id") (cb q) (script q)
    let sop := Spec.Ops.operationForName d (q.getStr "id")
    let pi := match sop with | some o => (lookup o.2.1 (Doc.pathItems d)).getD .null | none => .null
    .obj [("model", encResult r true), ("spec", .obj ([("designated", .bool sop.isSome)] ++ specParams x d pi (sop.map (·.2.2))))]
  | _ => .obj [("error", .str ("unknown query " ++ kind))]

def run (f : Facts) (inp : J) : J :=
  let d := (inp.get? "doc").getD .null
  let x := extOf ((inp.get? "ext").getD .null)
  .arr ((inp.getArr "queries").map (evalQuery f x d))

end OpsDriver
