import Verif.Model.Doc
import Verif.Model.Facts

/-
  Model of the operation-level queries of analyzer.go: OperationFor, OperationForName, OperationIDs,
  OperationMethodPaths, ConsumesFor, ProducesFor, SecurityRequirementsFor, SecurityDefinitionsFor,
  SecurityDefinitionsForRequirements.  `s.operations` is the index built by `analyzeOperation`.
-/

namespace Ops
open J

/-- `s.operations` flattened: (METHOD, path, op) in the order the analyzer inserts them -/
def operations (f : Facts) (d : J) : List (String × String × J) :=
  (Doc.pathItems d).flatMap fun kv =>
    f.analyzerMethods.filterMap fun mf => (kv.2.get? mf.2).map fun op => (mf.1, kv.1, op)

/-- `s.operations[strings.ToUpper(method)][path]` (ASCII methods) -/
def operationFor (f : Facts) (d : J) (method path : String) : Option J :=
  ((operations f d).find? fun o => o.1 = Str.toUpperAscii method ∧ o.2.1 = path).map (·.2.2)

/-- `OperationForName`: the first operation with that id in iteration order -/
def operationForName (f : Facts) (d : J) (id : String) : Option (String × String × J) :=
  (operations f d).find? fun o => o.2.2.getStr "operationId" = id

def methodPath (o : String × String × J) : String := Str.toUpperAscii o.1 ++ " " ++ o.2.1

/-- `OperationIDs`: the id, or "METHOD path" for an operation without id -/
def operationIDs (f : Facts) (d : J) : List String :=
  (operations f d).map fun o => if o.2.2.getStr "operationId" ≠ "" then o.2.2.getStr "operationId" else methodPath o

def operationMethodPaths (f : Facts) (d : J) : List String := (operations f d).map methodPath

/-- `ConsumesFor` / `ProducesFor`: the operation's own list when non-empty, else the document's; as a set -/
def mediaFor (k : String) (d op : J) : List String :=
  if (op.getStrs k).isEmpty then (d.getStrs k).eraseDups else (op.getStrs k).eraseDups

/-- one requirement object {name: scopes}: a list of (name, scopes); the empty object is the
    anonymous requirement `{Name: "", Scopes: nil}` -/
def reqsOf (scheme : J) : List (String × List String) :=
  match scheme with
  | .obj [] => [("", [])]
  | .obj kvs => kvs.map fun kv => (kv.1, match kv.2 with | .arr xs => strs xs | _ => [])
  | _ => [("", [])]

/-- `SecurityRequirementsFor`: `none` is the nil result -/
def securityRequirementsFor (d op : J) : Option (List (List (String × List String))) :=
  match d.get? "security", op.get? "security" with
  | _, some (.arr xs) => some (xs.map reqsOf)
  | some (.arr xs), _ => some (xs.map reqsOf)
  | _, _ => none

/-- `SecurityDefinitionsFor`: the definitions named by the requirements; `none` = nil map -/
def securityDefinitionsFor (d op : J) : Option (List (String × J)) :=
  match securityRequirementsFor d op with
  | none => none
  | some [] => none
  | some reqs =>
    some ((reqs.flatMap id).foldl (fun acc r =>
      if r.1 = "" ∨ (lookup r.1 acc).isSome then acc
      else match lookup r.1 (d.getObj "securityDefinitions") with
        | some (.obj def_) => acc ++ [(r.1, .obj def_)]
        | _ => acc) [])

/-- `SecurityDefinitionsForRequirements` -/
def securityDefinitionsForRequirements (d : J) (names : List String) : List (String × J) :=
  names.foldl (fun acc n =>
    match lookup n (d.getObj "securityDefinitions") with
    | some (.obj def_) => setKv n (.obj def_) acc
    | _ => acc) []

end Ops
