import Verif.Spec.Meaning

/-
  Translation validation for C01/C05: a *certificate* is a finite relation `R` between positions of
  the input bundle and positions of the output bundle.  `checkCert` verifies that every pair of `R`
  agrees locally (after following `$ref`s: same kind of node, same visible keys / same length / same
  scalar) and that `R` is closed under corresponding children.  Soundness — an accepted `R` only
  relates positions with the same meaning — is `C01.cert_sound`.  `search` computes a candidate `R`
  (untrusted: its output is always re-checked by `checkCert`).
-/

namespace Cert
open J Spec.Meaning

abbrev Rel := List (Pos × Pos)

def posEq (a b : Pos) : Bool := a.1 == b.1 && a.2 == b.2

def Rel.has (R : Rel) (p q : Pos) : Bool := R.any fun pq => posEq pq.1 p && posEq pq.2 q

def isScalar : J → Bool
  | .obj _ => false
  | .arr _ => false
  | _ => true

/-- the pairs of corresponding children of two chased nodes, or `none` when the nodes disagree locally -/
def kidsOf (b1 b2 : Bundle) (p q : Pos) : Option (List (Pos × Pos)) :=
  match b1.node p, b2.node q with
  | some (.obj k1), some (.obj k2) =>
    let v1 := (visible k1).map (·.1)
    let v2 := (visible k2).map (·.1)
    if v1 = v2 then some (v1.map fun k => (child p k, child q k)) else none
  | some (.arr x1), some (.arr x2) =>
    if x1.length = x2.length then some ((List.range x1.length).map fun i => (child p (toString i), child q (toString i)))
    else none
  | some a, some c => if isScalar a && isScalar c && a == c then some [] else none
  | _, _ => none

/-- local agreement of one pair and membership of its children pairs in `R` -/
def pairOK (b1 b2 : Bundle) (hops : Nat) (R : Rel) (p q : Pos) : Bool :=
  match chase b1 hops p, chase b2 hops q with
  | none, none => true
  | some p', some q' =>
    match kidsOf b1 b2 p' q' with
    | some kids => kids.all fun pq => R.has pq.1 pq.2
    | none => false
  | _, _ => false

def checkCert (b1 b2 : Bundle) (hops : Nat) (R : Rel) : Bool :=
  R.all fun pq => pairOK b1 b2 hops R pq.1 pq.2

/-- worklist search for a bisimulation containing the start pairs; `none` with the offending pair
    when two positions disagree -/
def search (b1 b2 : Bundle) (hops : Nat) : Nat → Rel → List (Pos × Pos) → Except (Pos × Pos) Rel
  | 0, R, _ => .ok R
  | _, R, [] => .ok R
  | fuel + 1, R, (p, q) :: todo =>
    if R.has p q then search b1 b2 hops fuel R todo
    else
      match chase b1 hops p, chase b2 hops q with
      | none, none => search b1 b2 hops fuel ((p, q) :: R) todo
      | some p', some q' =>
        match kidsOf b1 b2 p' q' with
        | some kids => search b1 b2 hops fuel ((p, q) :: R) (kids ++ todo)
        | none => .error (p, q)
      | _, _ => .error (p, q)

end Cert
