/-
  Core JSON tree used by every model.  Documents travel as JSON; the model functions are written
  over this tree following the way `go-openapi/spec` loads the same JSON (absent key = nil pointer /
  nil map / zero value; see DESIGN.md §4).

  Objects are association lists.  Go maps are modelled as association lists with distinct keys; the
  order of the list stands for *some* iteration order, and order-independence is a theorem, not an
  assumption (Verif/Proofs/*Perm*).
-/

inductive J where
  | null
  | bool (b : Bool)
  | num (n : Int)
  | str (s : String)
  | arr (xs : List J)
  | obj (kvs : List (String × J))
  deriving Repr, Inhabited

namespace J

mutual
  def beq : J → J → Bool
    | .null, .null => true
    | .bool a, .bool b => a == b
    | .num a, .num b => a == b
    | .str a, .str b => a == b
    | .arr a, .arr b => beqList a b
    | .obj a, .obj b => beqKvs a b
    | _, _ => false
  def beqList : List J → List J → Bool
    | [], [] => true
    | a :: as, b :: bs => beq a b && beqList as bs
    | _, _ => false
  def beqKvs : List (String × J) → List (String × J) → Bool
    | [], [] => true
    | (k, a) :: as, (l, b) :: bs => k == l && beq a b && beqKvs as bs
    | _, _ => false
end

instance : BEq J := ⟨beq⟩

/-- association-list lookup (first match, like a map with distinct keys) -/
def lookup (k : String) : List (String × J) → Option J
  | [] => none
  | (k', v) :: rest => if k' = k then some v else lookup k rest

/-- field access on an object; `none` on non-objects and absent keys (Go: nil / zero value) -/
def get? (j : J) (k : String) : Option J :=
  match j with
  | .obj kvs => lookup k kvs
  | _ => none

def has (j : J) (k : String) : Bool := (j.get? k).isSome

/-- string-valued field, "" when absent (Go zero value) -/
def getStr (j : J) (k : String) : String :=
  match j.get? k with
  | some (.str s) => s
  | _ => ""

/-- object-valued field as association list, [] when absent (ranging over a nil map) -/
def getObj (j : J) (k : String) : List (String × J) :=
  match j.get? k with
  | some (.obj kvs) => kvs
  | _ => []

/-- array-valued field, [] when absent (ranging over a nil slice) -/
def getArr (j : J) (k : String) : List J :=
  match j.get? k with
  | some (.arr xs) => xs
  | _ => []

def isObj : J → Bool
  | .obj _ => true
  | _ => false

def strs (xs : List J) : List String :=
  xs.filterMap fun | .str s => some s | _ => none

/-- list of strings field -/
def getStrs (j : J) (k : String) : List String := strs (j.getArr k)

/-- replace-or-append on an association list: Go `m[k] = v` -/
def setKv (k : String) (v : J) : List (String × J) → List (String × J)
  | [] => [(k, v)]
  | (k', v') :: rest => if k' = k then (k, v) :: rest else (k', v') :: setKv k v rest

/-- Go `delete(m, k)` -/
def eraseKv (k : String) : List (String × J) → List (String × J)
  | [] => []
  | (k', v') :: rest => if k' = k then eraseKv k rest else (k', v') :: eraseKv k rest

def set (j : J) (k : String) (v : J) : J :=
  match j with
  | .obj kvs => .obj (setKv k v kvs)
  | _ => j

def erase (j : J) (k : String) : J :=
  match j with
  | .obj kvs => .obj (eraseKv k kvs)
  | _ => j

def mkStrs (xs : List String) : J := .arr (xs.map .str)

/-- rewrite every entry of an object with a key-dependent function; non-objects are left alone.
    This is the shape of a Go loop `for k, v := range m { m[k] = f(k, v) }`. -/
def mapObj (f : String → J → J) : J → J
  | .obj kvs => .obj (kvs.map fun kv => (kv.1, f kv.1 kv.2))
  | j => j

/-- apply `g` only under the keys selected by `p` -/
def sel (p : String → Bool) (g : J → J) : String → J → J := fun k v => if p k then g v else v

end J

/-- Outcome of a modelled Go call: normal return, returned error, run-time panic, or fuel exhausted
    (the model's stand-in for "does not terminate"). -/
inductive Outcome (α : Type) where
  | ok (a : α)
  | err (e : String)
  | panic (why : String)
  | outOfFuel
  deriving Repr, Inhabited

namespace Outcome

def bind {α β} (x : Outcome α) (f : α → Outcome β) : Outcome β :=
  match x with
  | .ok a => f a
  | .err e => .err e
  | .panic w => .panic w
  | .outOfFuel => .outOfFuel

instance : Monad Outcome where
  pure := .ok
  bind := bind

def isOk {α} : Outcome α → Bool
  | .ok _ => true
  | _ => false

def isPanic {α} : Outcome α → Bool
  | .panic _ => true
  | _ => false

end Outcome
