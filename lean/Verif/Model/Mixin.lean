import Verif.Model.Doc
import Verif.Model.Facts

/-
  Model of mixin.go.  Documents are JSON in the serialization normal form of the spec model:
  an absent key is the Go zero value (nil pointer, nil map, nil slice, ""), so `initPrimary` is
  invisible except for `paths`, which it turns from null into an empty object.
-/

namespace Mixin
open J

/-- a collision report: (section, key) -/
abbrev Warn := String × String

def isExtKey (k : String) : Bool := Str.hasPrefix "x-" (Str.toLowerAscii k)

/-- `mergeExtensions(primary.Extensions, m.Extensions)` seen on the objects that carry them -/
def mergeExt (p m : J) : J × List Warn :=
  match p, m with
  | .obj pk, .obj mk =>
    let step := fun (acc : List (String × J) × List Warn) (kv : String × J) =>
      if isExtKey kv.1 then
        if (lookup kv.1 acc.1).isSome then (acc.1, acc.2 ++ [("extension", kv.1)])
        else (acc.1 ++ [kv], acc.2)
      else acc
    let r := mk.foldl step (pk, [])
    (.obj r.1, r.2)
  | _, _ => (p, [])

/-- `if primary.F == "" { primary.F = m.F }` -/
def fillStr (k : String) (p m : J) : J :=
  if p.getStr k = "" ∧ m.getStr k ≠ "" then p.set k (.str (m.getStr k)) else p

def fillStrs (ks : List String) (p m : J) : J := ks.foldl (fun acc k => fillStr k acc m) p

/-- a nil-able sub-object `k` (contact, license): taken from the mixin when the primary has none,
    otherwise extensions merged and empty strings filled -/
def mergePart (k : String) (fields : List String) (p m : J) : J × List Warn :=
  match p.get? k, m.get? k with
  | none, some mv => (p.set k mv, [])
  | some pv, some mv =>
    let (pv1, w) := mergeExt pv mv
    (p.set k (fillStrs fields pv1 mv), w)
  | _, none => (p, [])

/-- `mergeInfo` on two non-nil infos -/
def mergeInfo (p m : J) : J × List Warn :=
  let (p1, w1) := mergeExt p m
  let p2 := fillStrs ["description", "title", "termsOfService", "version"] p1 m
  let (p3, w3) := mergePart "contact" ["name", "url", "email"] p2 m
  let (p4, w4) := mergePart "license" ["name", "url"] p3 m
  (p4, w1 ++ w3 ++ w4)

/-- `mergeSwaggerProps`; `none` = the nil dereference of `mergeExternalDocs(primary.ExternalDocs, nil)` -/
def mergeSwaggerProps (f : Facts) (p m : J) : Option (J × List Warn) :=
  let (p1, w1) := mergeExt p m
  let p2 := fillStrs ["host", "basePath"] p1 m
  let (p3, w3) :=
    match p2.get? "info", m.get? "info" with
    | none, some mi => (p2.set "info" mi, [])
    | some pi, some mi => let (i, w) := mergeInfo pi mi; (p2.set "info" i, w)
    | _, none => (p2, [])
  match p3.get? "externalDocs", m.get? "externalDocs" with
  | none, some md => some (p3.set "externalDocs" md, w1 ++ w3)
  | none, none => some (p3, w1 ++ w3)
  | some pd, some md => some (p3.set "externalDocs" (fillStrs ["description", "url"] pd md), w1 ++ w3)
  | some _, none => if f.mixinExtDocsGuard then some (p3, w1 ++ w3) else none

/-- order-preserving de-duplicated append: consumes, produces, schemes (no report), tags and security
    requirements (one report per duplicate) -/
def appendNew (same : J → J → Bool) (ps ms : List J) : List J × List J :=
  ms.foldl (fun (acc : List J × List J) v =>
    if acc.1.any (same v) then (acc.1, acc.2 ++ [v]) else (acc.1 ++ [v], acc.2)) (ps, [])

def mergeList (k : String) (same : J → J → Bool) (p m : J) : J × List J :=
  let (xs, dups) := appendNew same (p.getArr k) (m.getArr k)
  (if xs.isEmpty then p else p.set k (.arr xs), dups)

def sameTag (a b : J) : Bool := a.getStr "name" = b.getStr "name"

/-- a keyed section: first wins, one report per colliding key -/
def mergeKeyedKvs (cat : String) (pk mk : List (String × J)) : List (String × J) × List Warn :=
  mk.foldl (fun (acc : List (String × J) × List Warn) kv =>
    if (lookup kv.1 acc.1).isSome then (acc.1, acc.2 ++ [(cat, kv.1)]) else (acc.1 ++ [kv], acc.2)) (pk, [])

def mergeKeyed (sect cat : String) (p m : J) : J × List Warn :=
  let (kvs, w) := mergeKeyedKvs cat (p.getObj sect) (m.getObj sect)
  (if kvs.isEmpty then p else p.set sect (.obj kvs), w)

/-- the operations `pathItemOps` collects, as JSON keys in source order -/
def opKeys (f : Facts) (pi : J) : List String := f.mixinMethods.filter fun m => (pi.get? m).isSome

/-- ids recorded by `getOpIDs` for one path item -/
def pathItemIDs (f : Facts) (pi : J) : List String :=
  ((opKeys f pi).filterMap fun m => (pi.get? m).map (·.getStr "operationId")).filter
    fun id => !(f.mixinSkipsEmptyIDs && id = "")

def getOpIDs (f : Facts) (d : J) : List String := (Doc.pathItems d).flatMap fun kv => pathItemIDs f kv.2

/-- the renaming loop of `mergePaths` over the operations of one added path item -/
def renameOps (f : Facts) (idx : Nat) (ids : List String) (pi : J) : J × List String :=
  (opKeys f pi).foldl (fun (acc : J × List String) m =>
    match acc.1.get? m with
    | some op =>
      let id := op.getStr "operationId"
      if f.mixinSkipsEmptyIDs && id = "" then acc
      else
        let id' := if acc.2.contains id then id ++ "Mixin" ++ toString idx else id
        (acc.1.set m (op.set "operationId" (.str id')), acc.2 ++ [id'])
    | none => acc) (pi, ids)

structure PathsAcc where
  paths : List (String × J)
  ids : List String
  warns : List Warn

def mergePaths (f : Facts) (idx : Nat) (ppaths : List (String × J)) (ids : List String)
    (mpaths : List (String × J)) : PathsAcc :=
  mpaths.foldl (fun acc kv =>
    if !Doc.isPathKey kv.1 then acc
    else if (lookup kv.1 acc.paths).isSome then { acc with warns := acc.warns ++ [("paths", kv.1)] }
    else
      let (pi', ids') := renameOps f idx acc.ids kv.2
      { acc with paths := acc.paths ++ [(kv.1, pi')], ids := ids' }) ⟨ppaths, ids, []⟩

structure St where
  doc : J
  ids : List String
  warns : List Warn

/-- `"paths": null` (nil `*spec.Paths`) becomes an empty object in `initPrimary` -/
def initPrimary (p : J) : J :=
  match p.get? "paths" with
  | some (.obj _) => p
  | _ => p.set "paths" (.obj [])

/-- one iteration of the loop over mixins -/
def step (f : Facts) (idx : Nat) (st : St) (m : J) : Option St := do
  let (p1, w1) ← mergeSwaggerProps f st.doc m
  let (p2, _) := mergeList "consumes" (· == ·) p1 m
  let (p3, _) := mergeList "produces" (· == ·) p2 m
  let (p4, dupTags) := mergeList "tags" sameTag p3 m
  let (p5, _) := mergeList "schemes" (· == ·) p4 m
  let (p6, w6) := mergeKeyed "securityDefinitions" "securityDefinitions" p5 m
  let (p7, dupSec) := mergeList "security" (· == ·) p6 m
  let (p8, w8) := mergeKeyed "definitions" "definitions" p7 m
  let pa := mergePaths f idx (p8.getObj "paths") st.ids (m.getObj "paths")
  let p9 := p8.set "paths" (.obj pa.paths)
  let (p10, w10) := mergeKeyed "parameters" "parameters" p9 m
  let (p11, w11) := mergeKeyed "responses" "responses" p10 m
  pure { doc := p11, ids := pa.ids,
         warns := st.warns ++ w1 ++ dupTags.map (fun t => ("tags", t.getStr "name")) ++ w6 ++
                  dupSec.map (fun _ => ("security", "")) ++ w8 ++ pa.warns ++ w10 ++ w11 }

def steps (f : Facts) : Nat → St → List J → Option St
  | _, st, [] => some st
  | i, st, m :: ms =>
    match step f i st m with
    | some st' => steps f (i + 1) st' ms
    | none => none

/-- `Mixin(primary, mixins...)`: the rewritten primary and the collision reports -/
def mixin (f : Facts) (primary : J) (mixins : List J) : Outcome (J × List Warn) :=
  match steps f 0 { doc := initPrimary primary, ids := getOpIDs f primary, warns := [] } mixins with
  | some st => .ok (st.doc, st.warns)
  | none => .panic "nil *spec.ExternalDocumentation dereferenced in mergeExternalDocs"

end Mixin
