import Verif.Model.Facts

/-
  C16: the analyzed `Spec` seen as a small heap.  A state holds the document and the analyzer's
  indexes (one value `σ`); a public query either only reads (`answer`) or — if the effect analysis of
  the Go source says the method may write (`Facts.getterWrites`) — may replace the state by an
  arbitrary other one (`clobber`: the model makes no assumption about what a writing getter does).
  Map-returning getters hand out either a fresh copy or an alias of an index (`Facts.freshMapGetters`
  / `aliasMapGetters`); a client may then mutate what it was given.
-/

namespace Heap

variable {σ α : Type}

/-- the semantics of the query methods: a pure function of the state, plus what a writing method
    would do to the state -/
structure Sem (σ α : Type) where
  answer : σ → String → α
  clobber : σ → String → σ
  /-- effect on the state of a client mutating the map returned by an aliasing getter -/
  clientWrite : σ → String → σ

/-- one query `q` (a method name) against state `s` -/
def step (f : Facts) (m : Sem σ α) (s : σ) (q : String) : σ × α :=
  (if f.getterWrites.contains ("Spec." ++ q) then m.clobber s q else s, m.answer s q)

/-- a client mutates the map it obtained from getter `g` -/
def mutateReturned (f : Facts) (m : Sem σ α) (s : σ) (g : String) : σ :=
  if f.freshMapGetters.contains g then s else m.clientWrite s g

/-- a sequential run: the answers to a list of queries -/
def run (f : Facts) (m : Sem σ α) : σ → List String → List α
  | _, [] => []
  | s, q :: qs => (step f m s q).2 :: run f m (step f m s q).1 qs

/-- a schedule is a list of (thread, query) events: an arbitrary interleaving of the threads'
    query sequences, each query being atomic -/
def runSched (f : Facts) (m : Sem σ α) : σ → List (Nat × String) → List (Nat × α)
  | _, [] => []
  | s, (t, q) :: evs => (t, (step f m s q).2) :: runSched f m (step f m s q).1 evs

/-- what thread `t` observes in a schedule -/
def observed (t : Nat) (out : List (Nat × α)) : List α := (out.filter fun e => e.1 = t).map (·.2)

/-- the queries thread `t` issues in a schedule -/
def issued (t : Nat) (evs : List (Nat × String)) : List String := (evs.filter fun e => e.1 = t).map (·.2)

end Heap
