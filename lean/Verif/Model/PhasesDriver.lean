import Verif.Model.Flatten
import Verif.Model.JsonIO
import Verif.Model.KeysApart

/- driver-side glue for the `phases` stream: runs the model of one Flatten phase on the state the
   implementation was in before that phase (I/O glue; no theorem depends on it) -/

namespace PhasesDriver
open J Flatten

def tableOpt (tbl : List (String × J)) : String → Option String :=
  fun k => match lookup k tbl with | some (.str v) => some v | _ => none

def extOf (e : J) : Ext where
  resolveRemote := fun r => lookup r (e.getObj "resolve")
  mkRef := tableOpt (e.getObj "mkRef")
  jsonName := tableOpt (e.getObj "jsonName")
  goName := tableOpt (e.getObj "goName")
  fold := tableOpt (e.getObj "fold")
  refTokens := fun r => match lookup r (e.getObj "refTokens") with
    | some (.arr xs) => some (strs xs)
    | _ => none
  knownFormat := fun fm => (e.getStrs "knownFormats").contains fm
  statusText := tableOpt (e.getObj "statusText")

def flag (o : J) (k : String) : Bool := match o.get? k with | some (.bool true) => true | _ => false

def optsOf (o : J) : Opts where
  minimal := flag o "minimal"
  expand := flag o "expand"
  removeUnused := flag o "removeUnused"
  keepNames := flag o "keepNames"
  basePath := o.getStr "basePath"

def newRefOf (j : J) : NewRef where
  key := j.getStr "key"
  newName := j.getStr "newName"
  path := j.getStr "path"
  isOAIGen := flag j "isOAIGen"
  resolved := flag j "resolved"
  schema := (j.get? "schema").getD .null
  parents := j.getStrs "parents"

def ctxOf (c : J) : Ctx where
  newRefs := (c.getObj "newRefs").map fun kv => (kv.1, newRefOf kv.2)
  resolved := (c.getObj "resolved").filterMap fun kv => match kv.2 with | .str v => some (kv.1, v) | _ => none

def encNewRef (r : NewRef) : J :=
  .obj [("key", .str r.key), ("newName", .str r.newName), ("path", .str r.path), ("isOAIGen", .bool r.isOAIGen),
        ("resolved", .bool r.resolved), ("schema", r.schema), ("parents", mkStrs r.parents)]

def encSt (s : St) : J :=
  .obj [("doc", s.doc),
        ("newRefs", .obj (s.ctx.newRefs.map fun kv => (kv.1, encNewRef kv.2))),
        ("resolved", .obj (s.ctx.resolved.map fun kv => (kv.1, .str kv.2)))]

/-- the model of one phase, by the name the verif sink reports it under; `none` = not modelled -/
def runPhase (fc : Facts) (x : Ext) (o : Opts) (name : String) (s : St) : Option (Outcome St) :=
  match name with
  | "normalizeRef" => some (normalizeRef fc x o s)
  | "removeUnusedShared" => some (.ok (removeUnusedShared fc s))
  | "nameInlinedSchemas" => some (nameInlinedSchemas fc x o s)
  | "namePointers" => some (namePointers fc x o s)
  | "removeUnused" => some (removeUnused fc x s)
  | "importReferences" => some ((importReferences fc x o 32 s).bind fun r => .ok (syncNewRefs r))
  | "stripOAIGen" => some ((stripOAIGen fc x s).bind fun r => .ok r.1)
  | _ => none

/-- insertions of `a` at every position -/
def insertions {α : Type} (a : α) : List α → List (List α)
  | [] => [[a]]
  | b :: bs => (a :: b :: bs) :: (insertions a bs).map (b :: ·)

def perms {α : Type} : List α → List (List α)
  | [] => [[]]
  | a :: as => (perms as).flatMap (insertions a)

/-- `stripOAIGen` ranges over a Go map: the model is run for the iteration orders of the entries it
    acts on (all of them up to 4 entries, the first 24 beyond), and the implementation must agree
    with one of them -/
def stripAlternatives (fc : Facts) (x : Ext) (s : St) : J :=
  let s1 := stripPrepare s
  -- since the repair of `stripOAIGen` (entries visited in descending key order) there is one order
  let orders := [stripOrder s1]
  let enc := fun (r : St × Bool) => match encSt r.1 with
    | .obj kvs => J.obj (kvs ++ [("again", .bool r.2)])
    | j => j
  .obj [("anyOf", .arr (orders.map fun o => JsonIO.outcome enc (stripInOrder fc x s1 o)))]

/-- input: {opts, ext, steps: [{name, doc, ctx}]}: each step is the state before the named phase -/
def run (fc : Facts) (inp : J) : J :=
  let x := extOf ((inp.get? "ext").getD .null)
  let o := optsOf ((inp.get? "opts").getD .null)
  .arr ((inp.getArr "steps").map fun st =>
    let s : St := { Flatten.initial fc ((st.get? "doc").getD .null) with ctx := ctxOf ((st.get? "ctx").getD .null) }
    if st.getStr "name" = "stripOAIGen" then stripAlternatives fc x s else
    if st.getStr "name" = "pipeline" then JsonIO.outcome encSt (flatten fc x o 32 s) else
    match runPhase fc x o (st.getStr "name") s with
    | some r =>
      -- hypothesis of the order-independence theorems of C07 (`keysApartB`), measured on the index the
      -- phase ranges over
      (match JsonIO.outcome encSt r with
       | .obj kvs => .obj (kvs ++ [("keysApart", .bool (Replace.keysApartB (allRefs s.idx)))])
       | j => j)
    | none => .obj [("notModelled", .str (st.getStr "name"))])

end PhasesDriver
