import Verif.Model.Ops
import Verif.Spec.Pointer

/-
  Model of paramsAsMap / SafeParamsFor / ParamsFor / SafeParametersFor / ParametersFor.

  External functions are parameters (`Ext`): `swag.ToGoName` and the decoding of a `$ref` string
  into JSON-pointer tokens (`jsonreference` + `net/url`); their values are supplied by the real code
  at run time (a table shipped with every case).
-/

namespace Params
open J

structure Ext where
  goName : String → String
  refTokens : String → Option (List String)

/-- `mapKeyFromParam`: in#fieldName.  `fieldNameFromParam` asks the extensions for "go-name", a key
    that `spec.Extensions` never holds (only "x-…" keys are stored), so the name is always
    `swag.ToGoName(param.Name)` -/
def mapKey (x : Ext) (p : J) : String :=
  p.getStr "in" ++ "#" ++ x.goName (p.getStr "name")

inductive RefErr where
  | invalidRef        -- the pointer does not resolve
  | notAParameter     -- resolves to something that is not a parameter
  deriving Repr, BEq, DecidableEq

/-- does a token path designate a `spec.Parameter` value of the document -/
def isParamPath (toks : List String) : Bool :=
  match toks with
  | ["parameters", _] => true
  | ["paths", _, "parameters", _] => true
  | ["paths", _, m, "parameters", _] => Doc.isMethodKey m
  | _ => false

/-- `pr.Ref.GetPointer().Get(s.spec)` followed by the `obj.(spec.Parameter)` assertion -/
def resolveParam (x : Ext) (d : J) (ref : String) : Except RefErr J :=
  match x.refTokens ref with
  | none => .error .invalidRef
  | some toks =>
    match Spec.Pointer.get d toks with
    | none => .error .invalidRef
    | some v => if isParamPath toks then .ok v else .error .notAParameter

structure Acc where
  res : List (String × J)                 -- the result map
  calls : List (String × RefErr)          -- callback invocations: ($ref of the parameter, error)
  script : List Bool                      -- answers the callback will give next (then `true`)
  panicked : Bool                         -- nil callback: panic(err)

/-- `paramsAsMap(parameters, res, callmeOnError)`; `cb = false` means a nil callback (panics) -/
def paramsAsMap (x : Ext) (d : J) (cb : Bool) : List J → Acc → Acc
  | [], acc => acc
  | p :: rest, acc =>
    if acc.panicked then acc else
    if Doc.refStr p = "" then paramsAsMap x d cb rest { acc with res := setKv (mapKey x p) p acc.res }
    else
      match resolveParam x d (Doc.refStr p) with
      | .ok target => paramsAsMap x d cb rest { acc with res := setKv (mapKey x target) target acc.res }
      | .error e =>
        if !cb then { acc with panicked := true, calls := acc.calls ++ [(Doc.refStr p, e)] }
        else
          let answer := acc.script.head?.getD true
          let acc' := { acc with calls := acc.calls ++ [(Doc.refStr p, e)], script := acc.script.tail }
          if answer then paramsAsMap x d cb rest acc' else acc'   -- `break`

structure Result where
  res : List (String × J)
  calls : List (String × RefErr)

def finish (a : Acc) : Outcome Result :=
  if a.panicked then .panic "paramsAsMap: panic(err) from the nil callback" else .ok ⟨a.res, a.calls⟩

/-- `SafeParamsFor(method, path, cb)` / `ParamsFor(method, path)` (cb = false) -/
def safeParamsFor (f : Facts) (x : Ext) (d : J) (method path : String) (cb : Bool) (script : List Bool) :
    Outcome Result :=
  match Ops.operationFor f d method path with
  | none =>
    if f.paramsNilSafe then .ok ⟨[], []⟩
    else if (lookup path (Doc.pathItems d)).isSome ∨ ¬ (d.get? "paths").isSome then
      .panic "nil dereference in SafeParamsFor" else .ok ⟨[], []⟩
  | some op =>
    let pi := (lookup path (Doc.pathItems d)).getD .null
    let a1 := paramsAsMap x d cb (pi.getArr "parameters") ⟨[], [], script, false⟩
    finish (paramsAsMap x d cb (op.getArr "parameters") a1)

/-- the operation `SafeParametersFor` selects: first path item (iteration order) that has the id
    under one of the methods, tested in source order -/
def findByID (f : Facts) (d : J) (id : String) : Option (J × J) :=
  (Doc.pathItems d).findSome? fun kv =>
    (f.paramsForMethods.findSome? fun m =>
      match kv.2.get? m with
      | some op => if op.getStr "operationId" = id then some op else none
      | none => none).map fun op => (kv.2, op)

/-- `SafeParametersFor(id, cb)` / `ParametersFor(id)`: the values of the bag -/
def safeParametersFor (f : Facts) (x : Ext) (d : J) (id : String) (cb : Bool) (script : List Bool) :
    Outcome Result :=
  match d.get? "paths" with
  | some (.obj _) =>
    (match findByID f d id with
     | none => .ok ⟨[], []⟩
     | some (pi, op) =>
       let a1 := paramsAsMap x d cb (pi.getArr "parameters") ⟨[], [], script, false⟩
       finish (paramsAsMap x d cb (op.getArr "parameters") a1))
  | _ => if f.paramsNilSafe then .ok ⟨[], []⟩ else .panic "nil *spec.Paths dereferenced in SafeParametersFor"

end Params
