import Verif.Model.Names
import Verif.Model.RemoveUnused
import Verif.Model.SortRef
import Verif.Spec.Flat
import Verif.Model.Replace

/- driver-side glue for the `uniqify`, `removeUnused` and `sort` streams (no theorem depends on it) -/

namespace UnitsDriver
open J

def tableFn (tbl : List (String × J)) (dflt : String → String) : String → String :=
  fun k => match lookup k tbl with | some (.str v) => v | _ => dflt k

def uniqify (fc : Facts) (inp : J) : J :=
  let defs := inp.getStrs "defs"
  let x : Names.Ext := { fold := tableFn (inp.getObj "foldKeys") (fun k => "<no fold key for " ++ k ++ ">") }
  let r := Names.uniqifyName fc x defs (inp.getStr "name") (defs.length + 2)
  let enc := fun (p : String × Bool) => J.arr [.str p.1, .bool p.2]
  .obj [("model", match r with
    | .ok p => .obj [("ok", enc p)]
    | .outOfFuel => .obj [("timeout", .bool true)]
    | .err e => .obj [("err", .str e)]
    | .panic w => .obj [("panic", .str w)]),
   ("spec", .obj [("foldOf", .obj ((defs.map fun d => (d, J.str (x.fold d)))))])]

def removeUnused (fc : Facts) (inp : J) : J :=
  let d := (inp.get? "doc").getD .null
  let tbl := inp.getObj "refNames"
  let x : RemoveUnused.Ext := { refName := fun r => match lookup r tbl with | some (.str n) => some n | _ => none }
  let canonTbl := inp.getObj "canon"
  let canon : String → String := tableFn canonTbl (fun n => "<no canonical ref for " ++ n ++ ">")
  let d1 := RemoveUnused.removeShared d
  let r := RemoveUnused.removeUnused fc x ((d1.getObj "definitions").length + 2) d1
  let post := fun (o : J) => J.obj [
    ("sharedSectionsEmpty", .bool (Spec.Flat.sharedSectionsEmpty o)),
    ("unreferenced", mkStrs (Spec.Flat.unreferenced canon o)),
    ("dangling", .arr ((Spec.Flat.nonLocal canon o).map fun tr => .str tr.2))]
  .obj [("model", match r with
    | .ok o => .obj [("ok", o)]
    | .outOfFuel => .obj [("timeout", .bool true)]
    | .err e => .obj [("err", .str e)]
    | .panic w => .obj [("panic", .str w)]),
   ("spec", match (inp.get? "implDoc") with | some o => post o | none => .null),
   ("danglingBefore", .arr ((Spec.Flat.nonLocal canon d1).map fun tr => .str tr.2))]

def sort (inp : J) : J :=
  let keys := inp.getStrs "keys"
  .obj [("depthFirst", mkStrs (SortRef.depthFirst keys)), ("topmostFirst", mkStrs (SortRef.topmostFirst keys)),
        ("parts", .arr (keys.map fun k => mkStrs (SortRef.keyParts k)))]

def replace (inp : J) : J :=
  let d := (inp.get? "doc").getD .null
  let enc := fun (o : Outcome J) => match o with
    | .ok v => J.obj [("ok", v)]
    | .err e => .obj [("err", .str e)]
    | .panic w => .obj [("panic", .str w)]
    | .outOfFuel => .obj [("timeout", .bool true)]
  .arr ((inp.getArr "ops").map fun op =>
    let key := op.getStr "key"
    match op.getStr "prim" with
    | "updateRef" => enc (Replace.updateRef d key (op.getStr "ref"))
    | "rewriteSchemaToRef" => enc (Replace.rewriteSchemaToRef d key (op.getStr "ref"))
    | "updateRefWithSchema" => enc (Replace.updateRefWithSchema d key ((op.get? "schema").getD .null))
    | _ => .obj [("err", .str "unknown primitive")])

end UnitsDriver
