import Verif.Generated.FactsOK.Common
import Verif.Generated.FactsOK.SrcAnalyzer
import Verif.Properties.C16

namespace Generated

theorem c16_facts : C16.FactsOK facts where
  readOnly := by decide
  copies := by decide

end Generated
