import Verif.Generated.FactsOK.Common

/-! the functions of fixer.go the model transcribes read, statement by statement, as they did when the model was
    last brought in line with them (control skeletons translated from the Go AST on every run; compared by `rfl`) -/

namespace Generated

theorem fixer_skeletons : facts.fixerSkeletons = Facts.refFixerSkeletons := by rfl

end Generated
