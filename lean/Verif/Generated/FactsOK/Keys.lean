import Verif.Generated.Keys
import Verif.Model.Flatten

/-!
  The `SplitKey` predicates of internal/flatten/sortref/keys.go and the grouping of `DepthFirst`,
  *translated from the Go source on every run* (`harness/cmd/extract/keysgen.go` →
  `Verif/Generated/Keys.lean`), are the definitions of the hand-written model
  (`Verif/Model/SortRef.lean`, `Verif/Model/Flatten.lean`) — by `rfl`: the translation of the current
  source and the model unfold to the same terms.  A change of an index, a bound, a constant, a
  conjunct, the order of the group chain or of `depthGroupOrder` makes this module fail to check.
-/

namespace Generated

theorem keys_isDefinition : Keys.isDefinition = SortRef.isDefinition := by funext s; rfl
theorem keys_isOperation : Keys.isOperation = Flatten.isOperation := by funext s; rfl
theorem keys_isSharedOperationParam : Keys.isSharedOperationParam = SortRef.isSharedOperationParam := by funext s; rfl
theorem keys_isSharedParam : Keys.isSharedParam = SortRef.isSharedParam := by funext s; rfl
theorem keys_isOperationParam : Keys.isOperationParam = SortRef.isOperationParam := by funext s; rfl
theorem keys_isOperationResponse : Keys.isOperationResponse = Flatten.isOperationResponse := by funext s; rfl
theorem keys_isSharedResponse : Keys.isSharedResponse = SortRef.isSharedResponse := by funext s; rfl
theorem keys_isDefaultResponse : Keys.isDefaultResponse = SortRef.isDefaultResponse := by funext s; rfl
theorem keys_isStatusCodeResponse : Keys.isStatusCodeResponse = SortRef.isStatusCodeResponse := by funext s; rfl

/-- the translated predicate behind a method name of the group chain -/
def predOf (name : String) : List String → Bool :=
  if name = "IsSharedOperationParam" then Keys.isSharedOperationParam
  else if name = "IsOperationParam" then Keys.isOperationParam
  else if name = "IsStatusCodeResponse" then Keys.isStatusCodeResponse
  else if name = "IsDefaultResponse" then Keys.isDefaultResponse
  else if name = "IsDefinition" then Keys.isDefinition
  else if name = "IsSharedParam" then Keys.isSharedParam
  else if name = "IsSharedResponse" then Keys.isSharedResponse
  else if name = "IsOperation" then Keys.isOperation
  else if name = "IsOperationResponse" then Keys.isOperationResponse
  else fun _ => Keys.unsupported name

/-- the group `DepthFirst` files a key under: the translated chain of `if`s (later tests override
    earlier ones) is the model's `groupOf` -/
theorem keys_groupOf (s : List String) :
    SortRef.groupOf s = Keys.groupChain.foldl (fun pk pg => if predOf pg.1 s then pg.2 else pk) "" := by
  rfl

theorem keys_depthGroupOrder : Keys.depthGroupOrder = SortRef.depthGroupOrder := rfl

/-- `GenLocation` of flatten_name.go, translated from its `switch`, is the model's `Flatten.genLocation` -/
theorem keys_genLocation : Keys.genLocation = Flatten.genLocation := by funext s; rfl

theorem keys_all_translated : Keys.untranslated = [] := rfl

end Generated
