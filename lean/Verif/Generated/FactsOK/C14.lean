import Verif.Generated.FactsOK.Common
import Verif.Properties.C14

namespace Generated

theorem c14_facts : C14.FactsOK facts where
  methods := by decide

/-- C14 for the code as it is now -/
theorem C14_current (d : J) (hn : C14.PathsNodup d) (method path : String) :
    Ops.operationFor facts d method path = Spec.Ops.operationFor d method path :=
  C14.operationFor_exact facts c14_facts d hn method path

end Generated
