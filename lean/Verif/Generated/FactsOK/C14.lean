import Verif.Generated.FactsOK.Common
import Verif.Generated.FactsOK.SrcAnalyzer
import Verif.Properties.C14
import Verif.Generated.FactsOK.C11

namespace Generated

theorem c14_facts : C14.FactsOK facts where
  methods := by decide

/-- C14 for the code as it is now -/
theorem C14_current (d : J) (hn : C14.PathsNodup d) (method path : String) :
    Ops.operationFor facts d method path = Spec.Ops.operationFor d method path :=
  C14.operationFor_exact facts c14_facts d hn method path

/-- the required unions for the code as it is now (they rest on the facts of C11) -/
theorem C14_required_current (d : J) (hwf : C11.WF d) (s : String) :
    s ∈ (Analyzer.analyze facts d).filterMap IndexProof.selConsumes ↔
      s ∈ d.getStrs "consumes" ∨ ∃ o ∈ Spec.Index.operations d, s ∈ o.2.2.2.getStrs "consumes" :=
  C14.required_consumes_union facts c11_facts d hwf s

end Generated
