import Verif.Generated.FactsOK.Flatten

/-! regenerated-facts obligations of C06: the orchestration of Flatten is the one the pipeline model follows -/

namespace Generated

theorem c06_facts : facts.skeletons = Facts.flattenSkeletons := flatten_skeletons

end Generated
