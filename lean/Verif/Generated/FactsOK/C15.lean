import Verif.Generated.FactsOK.Common
import Verif.Generated.FactsOK.SrcAnalyzer
import Verif.Properties.C15

namespace Generated

theorem c15_facts : C15.FactsOK facts where
  methods := by decide
  idMethods := by decide
  nilSafe := by decide

end Generated
