import Verif.Generated.FactsOK.Common
import Verif.Generated.FactsOK.SrcMixin
import Verif.Properties.C17

namespace Generated

theorem c17_facts : C17.FactsOK facts where
  extDocsGuard := by decide

/-- the extra hypothesis of `C17.paths_first_wins`: `pathItemOps` only collects operations -/
theorem c17_methods : ∀ m ∈ facts.mixinMethods, Doc.isMethodKey m = true := by decide

/-- Mixin never panics, for the code as it is now -/
theorem C17_never_panics_current (p : J) (ms : List J) : ∃ r, Mixin.mixin facts p ms = .ok r :=
  C17.never_panics facts c17_facts p ms

end Generated
