import Verif.Generated.FactsOK.Common
import Verif.Generated.FactsOK.SrcMixin
import Verif.Properties.C18

namespace Generated

theorem c18_facts : C18.FactsOK facts where
  methods := by decide
  skipsEmpty := by decide

end Generated
