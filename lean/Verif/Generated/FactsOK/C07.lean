import Verif.Generated.FactsOK.Common
import Verif.Generated.FactsOK.Flatten
import Verif.Properties.C07

namespace Generated

/-- every map-range loop of the Flatten code is in the table of discharged loops -/
theorem c07_facts : C07.FactsOK facts where
  ranges := by decide

end Generated
