import Verif.Generated.FactsOK.Common
import Verif.Generated.FactsOK.SrcAnalyzer
import Verif.Properties.C12

namespace Generated

/-- the analyzer visits the seven methods under their own names and registers header enums of default responses -/
theorem c12_facts : C11.FactsOK facts where
  methods := by decide
  defaultHeaderEnums := by decide
  resetComplete := by decide

end Generated
