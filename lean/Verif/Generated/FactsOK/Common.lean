import Verif.Generated.Facts
import Verif.Model.Doc

/-!
  Obligations on the facts regenerated from /repo's source (`Verif/Generated/Facts.lean`): they must
  satisfy the hypotheses under which the property theorems were proved.  One module per property,
  `Verif.Generated.FactsOK.Cnn`; a code change that alters a table makes the module fail to check.
-/

namespace Generated

theorem methods_iff (ms : List String) (h : ms.Perm Doc.methods) (k : String) :
    ms.contains k = Doc.isMethodKey k := by
  unfold Doc.isMethodKey
  rw [Bool.eq_iff_iff]
  simp only [List.contains_iff_mem]
  exact h.mem_iff

end Generated
