import Verif.Generated.FactsOK.Common
import Verif.Generated.FactsOK.Flatten
import Verif.Properties.C03

namespace Generated

/-- `uniqifyName` tests every candidate case-insensitively -/
theorem c03_facts : C03.FactsOK facts where
  caseInsensitive := by decide

end Generated
