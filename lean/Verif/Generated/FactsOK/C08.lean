import Verif.Generated.FactsOK.Flatten

/-! regenerated-facts obligations of C08: the orchestration of Flatten is the one the pipeline model follows -/

namespace Generated

theorem c08_facts : facts.skeletons = Facts.flattenSkeletons := flatten_skeletons

end Generated
