import Verif.Generated.FactsOK.Common
import Verif.Generated.FactsOK.SrcAnalyzer
import Verif.Generated.FactsOK.SrcClassify
import Verif.Generated.FactsOK.SrcInternal
import Verif.Generated.FactsOK.Keys

/-!
  The orchestration of Flatten in /repo's current source — the control skeletons of `Flatten`, `expand`,
  `importReferences`, `stripPointersAndOAIGen`, `removeUnused`, `removeUnusedShared`, translated from the
  Go AST on every run — is the orchestration the Lean pipeline (`Flatten.flatten` and the functions it
  is composed of) was written after.  A change of the order of the phases, of a guard, of a loop
  condition or of the error plumbing in those functions makes this module fail to check.
-/

namespace Generated

theorem flatten_skeletons : facts.skeletons = Facts.flattenSkeletons := by decide

/-- the phase functions the model transcribes read, statement by statement, as they did when the model
    was last brought in line with them -/
theorem flatten_phase_skeletons : facts.phaseSkeletons = Facts.flattenPhaseSkeletons := by rfl

end Generated
