import Verif.Generated.FactsOK.Common

/-! the functions of schema.go the model transcribes read, statement by statement, as they did when the model was
    last brought in line with them (control skeletons translated from the Go AST on every run; compared by `rfl`) -/

namespace Generated

theorem classify_skeletons : facts.classifySkeletons = Facts.refClassifySkeletons := by rfl

end Generated
