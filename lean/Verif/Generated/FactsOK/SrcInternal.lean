import Verif.Generated.FactsOK.Common

/-! the functions of internal/flatten/{replace,normalize,operations,sortref,schutils} that the models of Flatten transcribe
    (`Replace.updateRef` & co., `Flatten.deepestRef`, `normPath`, `rebaseRef`, `gatherFrom`, `reverseIndex`, `SortRef.*`,
    `Flatten.save`) read, statement by statement, as they did when the models were last brought in line with them (control
    skeletons translated from the Go AST on every run; compared by `rfl`) -/

namespace Generated

theorem internal_skeletons : facts.internalSkeletons = Facts.refInternalSkeletons := by rfl

end Generated
