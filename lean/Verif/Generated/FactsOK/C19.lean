import Verif.Generated.FactsOK.Common
import Verif.Generated.FactsOK.SrcFixer
import Verif.Properties.C19

namespace Generated

theorem c19_facts : C19.FactsOK facts where
  methods := methods_iff _ (by decide)
  guard := by decide

/-- C19 for the code as it is now -/
theorem C19_current (d : J) : Fixer.fix facts d = .ok (Spec.Fixer.expected d) :=
  C19.total_and_exact facts c19_facts d

end Generated
