import Verif.Generated.FactsOK.Common
import Verif.Generated.FactsOK.SrcClassify
import Verif.Properties.C20

namespace Generated

theorem c20_facts : C20.FactsOK facts where
  guard := by decide

/-- classification terminates for the code as it is now -/
theorem C20_terminates_current (x : Classify.Ext) (root : J) (visited : List String) (s : J) :
    ∃ B, ∀ fuel, fuel ≥ B → Classify.classify facts x root fuel visited s ≠ .outOfFuel :=
  C20.terminates facts c20_facts x root visited s

end Generated
