import Verif.Generated.FactsOK.Common
import Verif.Generated.FactsOK.Flatten
import Verif.Properties.C10

namespace Generated

/-- every mutating phase of Flatten ends with `opts.Spec.reload()` -/
theorem c10_facts : C10.FactsOK facts where
  allReload := by decide
  resetComplete := by decide
  reloadIsResetThenInit := by decide

end Generated
