import Verif.Generated.FactsOK.Common

/-! the functions of analyzer.go the model transcribes read, statement by statement, as they did when the model was
    last brought in line with them (control skeletons translated from the Go AST on every run; compared by `rfl`) -/

namespace Generated

theorem analyzer_skeletons : facts.analyzerSkeletons = Facts.refAnalyzerSkeletons := by rfl

end Generated
