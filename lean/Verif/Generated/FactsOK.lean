import Verif.Generated.Facts
import Verif.Properties.C19

/-!
  Obligations on the facts regenerated from /repo's source: they must satisfy the hypotheses under
  which the property theorems were proved.  A code change that alters a table makes this file fail.
-/

namespace Generated

theorem methods_iff (ms : List String) (h : ms.Perm Doc.methods) (k : String) :
    ms.contains k = Doc.isMethodKey k := by
  unfold Doc.isMethodKey
  rw [Bool.eq_iff_iff]
  simp only [List.contains_iff_mem]
  exact h.mem_iff

theorem c19_facts : C19.FactsOK facts where
  methods := methods_iff _ (by decide)
  guard := by decide

/-- C19 for the code as it is now -/
theorem C19_current (d : J) : Fixer.fix facts d = .ok (Spec.Fixer.expected d) :=
  C19.total_and_exact facts c19_facts d

end Generated
