import Verif.Proofs.Skeleton

/-!
# C01, first clause — every path, operation, parameter, response and header is unchanged (pipeline model)

For every document, option set, external-function table and fuel: when the modelled pipeline of
Flatten (every phase after `spec.ExpandSpec`, import loop included) returns normally, every top-level
part of the document other than `definitions` — and, with RemoveUnused, other than the shared
`parameters` / `responses` sections, which that option drops — is still there with the same
*skeleton*: same object keys in the same order, same array lengths, equal scalars, everywhere except
inside schemas, maps of schemas and lists of schemas (`Proofs.Skeleton.SkelRel`; the kinds are those
of `internal/flatten/replace`).  The phases write to the document only through the three replace
primitives, each of which is a write at the end of a walk that reaches a schema (`updateRef_setAt` …),
and through assignments to `definitions`.

Read along token paths (`reachesOther`): whatever a JSON pointer designates once it has left the way
to the schemas — an operation's `operationId`, `summary`, `tags`, `consumes`, `security`; a non-body
parameter entirely; the `name`, `in`, `required`, `description` of a body parameter; a response's
`description`, `headers`, `examples`; `info`, `host`, `basePath`, `securityDefinitions`, extensions —
is *equal* before and after.  What happens inside the schemas is the business of the other clauses of
C01 (`cert_sound` per run, `naming_move_preserves_meaning`).
-/

namespace C01
open J Replace Flatten Proofs.Skeleton

/-- the pipeline keeps the skeleton of every top-level part it does not own -/
theorem pipeline_keeps_skeleton (fc : Facts) (x : Ext) (o : Opts) (fuel : Nat) (s s' : St)
    (h : flatten fc x o fuel s = .ok s') : Keeps (excluded o) s.doc s'.doc :=
  flatten_keeps fc x o fuel s s' h

/-- top-level parts that are not on the way to a schema (`info`, `host`, `basePath`, `schemes`, `consumes`,
    `produces`, `tags`, `security`, `securityDefinitions`, `externalDocs`, `swagger`, extensions) are equal -/
theorem pipeline_keeps_plain_parts (fc : Facts) (x : Ext) (o : Opts) (fuel : Nat) (s s' : St)
    (h : flatten fc x o fuel s = .ok s') (key : String)
    (hk : key ≠ "definitions" ∧ key ≠ "paths" ∧ key ≠ "parameters" ∧ key ≠ "responses") :
    s'.doc.get? key = s.doc.get? key := by
  have hmem : key ∉ excluded o := by
    unfold excluded
    split <;> simp [hk.1, hk.2.2.1, hk.2.2.2]
  have hr := flatten_keeps fc x o fuel s s' h key hmem
  have hkind : memberKind .swagger key = .other := by
    simp [memberKind, childKind, hk.1, hk.2.1, hk.2.2.1, hk.2.2.2]
  rw [hkind] at hr
  generalize s.doc.get? key = a at hr
  generalize s'.doc.get? key = b at hr
  cases hr with
  | none => rfl
  | some a b hab => rw [SkelRel.eq_of_other hab]

/-- below `paths`, what a pointer designates after leaving the way to the schemas is equal: e.g. the
    description of a response, the whole of a non-body parameter, an operation id -/
theorem pipeline_keeps_paths (fc : Facts) (x : Ext) (o : Opts) (fuel : Nat) (s s' : St)
    (h : flatten fc x o fuel s = .ok s') (toks : List String) (hr : reachesOther .paths toks = true) :
    Spec.Pointer.get s'.doc ("paths" :: toks) = Spec.Pointer.get s.doc ("paths" :: toks) := by
  have hmem : "paths" ∉ excluded o := by unfold excluded; split <;> simp
  have hrel := flatten_keeps fc x o fuel s s' h "paths" hmem
  have hkind : memberKind .swagger "paths" = .paths := rfl
  rw [hkind] at hrel
  simp only [Spec.Pointer.get]
  have hnd : Spec.Pointer.natOfDigits ("paths" : String).toList = none := by decide
  have hstep : ∀ d : J, Spec.Pointer.step d "paths" = d.get? "paths" := by
    intro d
    cases d with
    | obj m => rfl
    | arr xs => simp only [Spec.Pointer.step, J.get?]; rw [hnd]; rfl
    | _ => rfl
  rw [hstep, hstep]
  generalize s.doc.get? "paths" = a at hrel
  generalize s'.doc.get? "paths" = b at hrel
  cases hrel with
  | none => rfl
  | some a b hab =>
    simp only [Option.bind_some]
    exact (SkelRel.get_eq toks hab hr).symm

/-- the paths and the methods of the document are the same, in the same order -/
theorem pipeline_keeps_path_keys (fc : Facts) (x : Ext) (o : Opts) (fuel : Nat) (s s' : St)
    (h : flatten fc x o fuel s = .ok s') :
    (s'.doc.getObj "paths").map (·.1) = (s.doc.getObj "paths").map (·.1) := by
  have hmem : "paths" ∉ excluded o := by unfold excluded; split <;> simp
  have hrel := flatten_keeps fc x o fuel s s' h "paths" hmem
  unfold J.getObj
  generalize s.doc.get? "paths" = a at hrel
  generalize s'.doc.get? "paths" = b at hrel
  cases hrel with
  | none => rfl
  | some a b hab =>
    cases hab with
    | opq _ _ _ ho => simp [isOpaque, isSchemaKind, memberKind, childKind] at ho
    | refl => rfl
    | obj _ m m' hm => exact SkelKvs.keys_eq hm
    | arr _ xs ys _ => rfl

/-- no top-level part appears or disappears, except `definitions` (where the new definitions go) and,
    with RemoveUnused, the shared sections that option drops: "the only additions are new definitions" -/
theorem pipeline_adds_no_top_level_part (fc : Facts) (x : Ext) (o : Opts) (fuel : Nat) (s s' : St)
    (h : flatten fc x o fuel s = .ok s') (key : String) (hk : key ∉ excluded o) :
    (s'.doc.get? key).isSome = (s.doc.get? key).isSome := by
  have hr := flatten_keeps fc x o fuel s s' h key hk
  generalize s.doc.get? key = a at hr
  generalize s'.doc.get? key = b at hr
  cases hr <;> rfl

/-! ### examples of paths that `reachesOther` accepts -/

example : reachesOther .paths ["/pets/{id}", "get", "responses", "200", "description"] = true := by decide
example : reachesOther .paths ["/pets/{id}", "get", "responses", "default", "headers", "X-Rate", "items", "pattern"] = true := by decide
example : reachesOther .paths ["/pets", "post", "operationId"] = true := by decide
example : reachesOther .paths ["/pets", "post", "parameters", "0", "name"] = true := by decide
example : reachesOther .paths ["/pets", "parameters", "1", "in"] = true := by decide
/-- … and one it refuses: the schema of a response is where the phases do write -/
example : reachesOther .paths ["/pets", "get", "responses", "200", "schema", "type"] = false := by decide

end C01
