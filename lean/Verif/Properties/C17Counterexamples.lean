import Verif.Properties.C17

/-!
# C17 — why three statements carry an added hypothesis

Each theorem below exhibits inputs for which the statement *without* the added hypothesis fails for
the model as written.  They are checked by evaluation in the kernel (`decide`).
-/

namespace C17.Counterexamples
open J Spec.Mixin

def f0 : Facts := Facts.reference

/-- the document and the number of reports the model returns (`null`, 0 on a panic) -/
def run (f : Facts) (p : J) (ms : List J) : J × Nat :=
  match Mixin.mixin f p ms with
  | .ok r => (r.1, r.2.length)
  | _ => (.null, 0)

/-! ### warnings_count without `DistinctKeys`: a key repeated inside one mixin -/

def pEmpty : J := .obj []
def mDup : J := .obj [("definitions", .obj [("a", .num 1), ("a", .num 2)])]

/-- the model reports 1 collision, the specification counts 0 -/
theorem warnings_needs_distinct_keys :
    (run f0 pEmpty [mDup]).2 = 1 ∧ expectedWarnings [pEmpty, mDup] = 0 ∧ ¬ DistinctKeys mDup := by
  decide

/-! ### warnings_count / scalars_filled_from_first without `objAlong`: `"info": 5` in the primary -/

def pInfo5 : J := .obj [("info", .num 5)]
def mExt : J := .obj [("info", .obj [("x-a", .num 1)])]
def mTitle : J := .obj [("info", .obj [("title", .str "t")])]

/-- the model reports 0 collisions, the specification counts 1 (between the two mixins) -/
theorem warnings_needs_objects :
    (run f0 pInfo5 [mExt, mExt]).2 = 0 ∧ expectedWarnings [pInfo5, mExt, mExt] = 1 ∧
    objAlong ["info", "contact"] (some pInfo5) = false := by
  decide

/-- the title stays empty although the mixin has one -/
theorem scalars_needs_objects :
    strAt ["info"] "title" (run f0 pInfo5 [mTitle]).1 = "" ∧
    firstNonEmpty ["info"] "title" [pInfo5, mTitle] = "t" ∧
    objAlong ["info"] (some pInfo5) = false := by
  decide

/-! ### paths_first_wins when `pathItemOps` collects a field that is not an operation -/

def fX : Facts := { f0 with mixinMethods := ["x"] }
def pA : J := .obj [("paths", .obj [("/p", .obj [("x", .obj [("operationId", .str "a")])])])]
def mA : J := .obj [("paths", .obj [("/a", .obj [("x", .obj [("operationId", .str "a")])])])]

/-- the id under "x" is renamed to "aMixin0", and `stripOpIds` does not look under "x" -/
theorem paths_needs_methods :
    ((lookup "/a" (Doc.pathItems (run fX pA [mA]).1)).map stripOpIds).map (fun pi => (pi.getObj "x").map (·.1))
      = some ["operationId"] ∧
    (((lookup "/a" (Doc.pathItems (run fX pA [mA]).1)).map stripOpIds).bind (·.get? "x")).map (·.getStr "operationId")
      = some "aMixin0" ∧
    (((firstWins [pA, mA] "paths" "/a").map stripOpIds).bind (·.get? "x")).map (·.getStr "operationId")
      = some "a" := by
  decide

/-! ### the added hypotheses are satisfiable (and hold for the reference facts) -/

def mGood : J :=
  .obj [("info", .obj [("title", .str "t"), ("x-a", .num 1), ("contact", .obj [("name", .str "n")])]),
        ("definitions", .obj [("a", .num 1), ("b", .num 2)]),
        ("paths", .obj [("/a", .obj [("get", .obj [("operationId", .str "a")])])]),
        ("x-b", .num 2)]

theorem hypotheses_satisfiable :
    (∀ m ∈ Facts.reference.mixinMethods, Doc.isMethodKey m = true) ∧
    (∀ pk ∈ scalarFields, objAlong pk.1 (some mGood) = true) ∧
    DistinctKeys mGood := by
  decide

end C17.Counterexamples
