import Verif.Model.SortRef
import Verif.Model.Facts
import Verif.Proofs.SortRef
import Verif.Proofs.GatherPerm

/-!
# C07 — the order-sensitive functions of Flatten are deterministic

`DepthFirst` and `TopmostFirst` return the same list for every order in which the (distinct) keys
of a Go map are supplied; and every `for … range` over a map in the Flatten code (regenerated from
the source, typed, on every run) is in the table `discharged` below, with the reason why its
iteration order cannot influence the output.
-/

namespace C07
open SortRef

/-- map-range loops of the Flatten code and why their order does not matter -/
def discharged : List (String × String) := [
  ("GatherOperations:pathItem", "results collected then sorted by key (sort.Sort): gatherOperations_order_independent; NOT discharged when two derived keys are equal: known finding D10"),
  ("GatherOperations:specDoc.Operations()", "same"),
  ("Name:an.references.allRefs", "each iteration is a membership test followed by UpdateRef at a distinct analyzer key: updates at distinct keys commute"),
  ("OpRefsByRef:oprefs", "re-indexing of a map by an injective key"),
  ("ReverseIndex:schemas", "grouping by normalised path; the Keys order of a group only feeds UpdateRef calls at distinct keys"),
  ("croak:f.Spec.references.allRefs", "logging only"),
  ("croak:f.flattenContext.newRefs", "logging only"),
  ("croak:reported", "logging only"),
  ("flattenAnonPointer:an.references.allRefs", "callers are collected, then used as a set"),
  ("importExternalReferences:groupedRefs", "keys collected then sort.Strings"),
  ("importExternalReferences:opts.flattenContext.newRefs", "sampled only: the body inserts entries while ranging"),
  ("importNewRef:partialAnalyzer.references.allRefs", "UpdateRef at distinct keys of the imported schema"),
  ("namePointers:opts.Spec.references.allRefs", "collected into a map, then ordered by DepthFirst (total order, depthFirst_perm)"),
  ("namesForParam:operations", "names collected then sort.Strings in namesFromKey"),
  ("normalizeRef:opts.Spec.references.allRefs", "UpdateRef at distinct analyzer keys"),
  ("removeUnusedSinglePass:opts.Spec.references.schemas", "set difference (C06.singlePass_keeps_used)"),
  ("removeUnusedSinglePass:opts.Swagger().Definitions", "set construction"),
  ("removeUnusedSinglePass:unused", "deletions of distinct keys commute"),
  ("stripOAIGen:opts.flattenContext.newRefs", "sampled only: the bodies mutate other entries"),
  ("stripOAIGenForRef:opts.flattenContext.newRefs", "sampled only"),
  ("uniqifyName:definitions", "existential test (C03.uniqify_fresh)"),
  ("updateRefParents:allRefs", "parents later sorted by TopmostFirst (total order, topmostFirst_perm)")]

structure FactsOK (f : Facts) : Prop where
  ranges : ∀ r ∈ f.mapRanges, r ∈ discharged.map (·.1)

/-- `DepthFirst` does not depend on the order in which the keys of the map are visited -/
theorem depthFirst_perm (ks ks' : List String) (hp : ks.Perm ks') (hn : ks.Nodup) :
    depthFirst ks = depthFirst ks' := by
  have _ := hn  -- not needed: the orders are antisymmetric on all strings, duplicates do no harm
  exact Proofs.SortRef.depthFirst_eq_of_perm hp

/-- `TopmostFirst` does not depend on the order of its input -/
theorem topmostFirst_perm (ks ks' : List String) (hp : ks.Perm ks') (hn : ks.Nodup) :
    topmostFirst ks = topmostFirst ks' := by
  have _ := hn  -- not needed: the orders are antisymmetric on all strings, duplicates do no harm
  exact Proofs.SortRef.mergeSort_topLe_perm hp

/-- `DepthFirst` returns its input keys (those that fall in one of the seven groups), each once -/
theorem depthFirst_perm_of_input (ks : List String) (hn : ks.Nodup) :
    (depthFirst ks).Perm (ks.filter fun k => depthGroupOrder.contains (groupOf (keyParts k))) := by
  have _ := hn  -- not needed: `List.Perm` counts multiplicities
  exact Proofs.SortRef.depthFirst_perm_filter ks

/-- `GatherOperations` ranges over the map of maps `specDoc.Operations()`: whatever the order in which the
    operations are met (any permutation of them), the registered operations are the same — provided
    the derived keys `ToGoName(method + " " + path)` tell the operations apart.  That proviso is
    exactly what fails in the open finding D10 (`/a-b` and `/a_b` under the same method), where the Go
    code is indeed not deterministic. -/
theorem gatherOperations_order_independent (x : Flatten.Ext) {ops ops' : List (String × String × J)}
    (hp : ops.Perm ops') (oprefs : List Flatten.OpRef)
    (hm : ops.mapM (Proofs.GatherPerm.mkOpRef x) = .ok oprefs)
    (hinj : ∀ a ∈ oprefs, ∀ b ∈ oprefs, a.key = b.key → a = b) :
    Flatten.gatherFrom x ops' = Flatten.gatherFrom x ops :=
  Proofs.GatherPerm.gatherFrom_perm x hp oprefs hm hinj

end C07
