import Verif.Model.SortRef
import Verif.Model.Facts
import Verif.Proofs.SortRef
import Verif.Proofs.GatherPerm
import Verif.Proofs.OrderIndep
import Verif.Proofs.NamesPerm
import Verif.Proofs.KeysApartCanon

/-!
# C07 — the order-sensitive functions of Flatten are deterministic

`DepthFirst` and `TopmostFirst` return the same list for every order in which the (distinct) keys
of a Go map are supplied; and every `for … range` over a map in the Flatten code (regenerated from
the source, typed, on every run) is in the table `discharged` below, with the reason why its
iteration order cannot influence the output.
-/

namespace C07
open SortRef

/-- map-range loops of the Flatten code and why their order does not matter -/
def discharged : List (String × String) := [
  ("GatherOperations:pathItem", "results collected then sorted by key (sort.Sort): gatherOperations_order_independent; NOT discharged when two derived keys are equal: known finding D10"),
  ("GatherOperations:specDoc.Operations()", "same"),
  ("Name:an.references.allRefs", "each iteration is a membership test followed by UpdateRef at a distinct analyzer key: updates at distinct keys commute (updateRef_commutes; the interleaved DeepestRef tests are not covered by a theorem)"),
  ("OpRefsByRef:oprefs", "re-indexing of a map by an injective key"),
  ("ReverseIndex:schemas", "grouping by normalised path; the Keys order of a group only feeds UpdateRef calls at distinct keys"),
  ("croak:f.Spec.references.allRefs", "logging only"),
  ("croak:f.flattenContext.newRefs", "logging only"),
  ("croak:reported", "logging only"),
  ("flattenAnonPointer:an.references.allRefs", "callers are collected, then used as a set"),
  ("flattenAnonPointer:refsToReplace", "deletes the planned keys that lie under the schema which has just been moved: the test looks at the key alone, a filter (stalePlans_order_independent)"),
  ("importExternalReferences:groupedRefs", "keys collected then sort.Strings"),
  ("importExternalReferences:opts.flattenContext.newRefs", "sampled only: the body inserts entries while ranging"),
  ("importNewRef:partialAnalyzer.references.allRefs", "UpdateRef at distinct keys of the imported schema: importRebase_order_independent"),
  ("namePointers:opts.Spec.references.allRefs", "collected into a map, then ordered by DepthFirst (total order, depthFirst_perm)"),
  ("namesForParam:operations", "names collected then sort.Strings in namesFromKey: namesFromKey_order_independent"),
  ("normalizeRef:opts.Spec.references.allRefs", "UpdateRef at distinct analyzer keys: normalizeRef_order_independent"),
  ("removeUnusedSinglePass:opts.Spec.references.schemas", "set difference (C06.singlePass_keeps_used): removalPass_order_independent"),
  ("removeUnusedSinglePass:opts.Swagger().Definitions", "set construction"),
  ("removeUnusedSinglePass:unused", "deletions of distinct keys commute"),
  ("stripOAIGen:opts.flattenContext.newRefs", "first loop: updateRefParents acts on each entry independently; second loop: the keys are collected, sorted in descending order, and the entries visited in that order (since the repair of the order-dependent failure: model Flatten.stripOrder)"),
  ("stripOAIGenForRef:opts.flattenContext.newRefs", "propagation: the parents of each other entry are mapped independently of the others"),
  ("uniqifyName:definitions", "existential test (C03.uniqify_fresh): uniqifyName_order_independent"),
  ("updateRefParents:allRefs", "parents later sorted by TopmostFirst (total order, topmostFirst_perm): sortedParents_order_independent")]

structure FactsOK (f : Facts) : Prop where
  ranges : ∀ r ∈ f.mapRanges, r ∈ discharged.map (·.1)

/-- dropping the planned pointers that moved with their holder (`flattenAnonPointer`, the loop over `refsToReplace`):
    whatever the order in which the map is visited, the same entries are left -/
theorem stalePlans_order_independent (moved key : String) (plans plans' : List (String × Flatten.PtrPlan))
    (hp : plans.Perm plans') :
    (plans.filter fun p => p.1 = key || !Str.hasPrefix (moved ++ "/") p.1).Perm
      (plans'.filter fun p => p.1 = key || !Str.hasPrefix (moved ++ "/") p.1) :=
  hp.filter _

/-- `DepthFirst` does not depend on the order in which the keys of the map are visited -/
theorem depthFirst_perm (ks ks' : List String) (hp : ks.Perm ks') (hn : ks.Nodup) :
    depthFirst ks = depthFirst ks' := by
  have _ := hn  -- not needed: the orders are antisymmetric on all strings, duplicates do no harm
  exact Proofs.SortRef.depthFirst_eq_of_perm hp

/-- `TopmostFirst` does not depend on the order of its input -/
theorem topmostFirst_perm (ks ks' : List String) (hp : ks.Perm ks') (hn : ks.Nodup) :
    topmostFirst ks = topmostFirst ks' := by
  have _ := hn  -- not needed: the orders are antisymmetric on all strings, duplicates do no harm
  exact Proofs.SortRef.mergeSort_topLe_perm hp

/-- `DepthFirst` returns its input keys (those that fall in one of the seven groups), each once -/
theorem depthFirst_perm_of_input (ks : List String) (hn : ks.Nodup) :
    (depthFirst ks).Perm (ks.filter fun k => depthGroupOrder.contains (groupOf (keyParts k))) := by
  have _ := hn  -- not needed: `List.Perm` counts multiplicities
  exact Proofs.SortRef.depthFirst_perm_filter ks

/-- `GatherOperations` ranges over the map of maps `specDoc.Operations()`: whatever the order in which the
    operations are met (any permutation of them), the registered operations are the same — provided
    the derived keys `ToGoName(method + " " + path)` tell the operations apart.  That proviso is
    exactly what fails in the open finding D10 (`/a-b` and `/a_b` under the same method), where the Go
    code is indeed not deterministic. -/
theorem gatherOperations_order_independent (x : Flatten.Ext) {ops ops' : List (String × String × J)}
    (hp : ops.Perm ops') (oprefs : List Flatten.OpRef)
    (hm : ops.mapM (Proofs.GatherPerm.mkOpRef x) = .ok oprefs)
    (hinj : ∀ a ∈ oprefs, ∀ b ∈ oprefs, a.key = b.key → a = b) :
    Flatten.gatherFrom x ops' = Flatten.gatherFrom x ops :=
  Proofs.GatherPerm.gatherFrom_perm x hp oprefs hm hinj

/-! ## the map-range loops of the phases, loop by loop

In the model a Go map is an association list and a `for … range` loop a fold over it; the list the model is
given stands for *one* iteration order.  The theorems below say that every permutation of that list gives
the same result.  The hypothesis `KeysApart` (the keys of the map designate different positions, also when
decimal tokens are read as numbers) is executable (`keysApartB`); the driver evaluates it on the analyzer's
reference index of every generated document and the evidence reports how often it held. -/

open Proofs.UpdateComm Proofs.OrderIndep Replace

/-- `replace.UpdateRef` at two different positions commutes: when one order succeeds, so does the other, and
    with the same document.  Also when one position lies inside the other (a `$ref` with siblings that hold
    `$ref`s): `UpdateRef` keeps the siblings since the repair `076e7ce`; before it, the outer update removed
    the inner position and the statement was false (the failing bundle is scenario `remote-ref-siblings`). -/
theorem updateRef_commutes (d : J) (k1 k2 r1 r2 : String) (d' : J)
    (hd : PosDistinct (Replace.keyTokens k1) (Replace.keyTokens k2))
    (h : (Replace.updateRef d k1 r1 >>= fun d1 => Replace.updateRef d1 k2 r2) = .ok d') :
    (Replace.updateRef d k2 r2 >>= fun d2 => Replace.updateRef d2 k1 r1) = .ok d' :=
  updateRef_comm d k1 k2 r1 r2 d' hd h

/-- `normalizeRef` ranges over `opts.Spec.references.allRefs`: every iteration order yields the same document -/
theorem normalizeRef_order_independent (x : Flatten.Ext) (o : Flatten.Opts) {refs refs' : List (String × String)}
    (hp : refs.Perm refs') (hk : keysApartB refs = true) (d d' : J)
    (h : normalizeFold x o refs d = .ok d') : normalizeFold x o refs' d = .ok d' :=
  normalizeFold_perm x o hp (keysApartB_sound refs hk) d d' h

/-- … and `Flatten.normalizeRef` is that loop over the analyzer's `allRefs` followed by `reload()` -/
theorem normalizeRef_is_the_loop (fc : Facts) (x : Flatten.Ext) (o : Flatten.Opts) (s : Flatten.St) :
    Flatten.normalizeRef fc x o s = (do
      let d ← normalizeFold x o (Flatten.allRefs s.idx) s.doc
      pure (if ((Flatten.allRefs s.idx).filter fun kv => Str.hasPrefix (o.basePath ++ "#/definitions") kv.2).isEmpty
            then s else Flatten.reload fc { s with doc := d })) :=
  normalizeRef_eq fc x o s

/-- `importKnownRef` (and the document part of `importNewRef`) re-targets the keys of one group of the reverse
    index, which `ReverseIndex` collected in map order: every order yields the same document -/
theorem reref_order_independent (ref : String) {keys keys' : List String} (hp : keys.Perm keys')
    (hk : keysApartB (keys.map fun k => (k, "")) = true) (d d' : J)
    (h : rerefFold ref keys d = .ok d') : rerefFold ref keys' d = .ok d' := by
  refine rerefFold_perm ref hp ?_ d d' h
  have := keysApartB_sound _ hk
  exact (List.pairwise_map.1 this : keys.Pairwise fun a b => KeysApart (a, "") (b, ""))

/-- `importNewRef` rebases the `$ref`s of the schema it imports, ranging over the `allRefs` map of a partial analyzer
    (`UpdateRef` on the schema itself): every iteration order yields the same schema.  (`rebaseStep g` is the loop body
    of `Flatten.importNewRef`: `Proofs.OrderIndep.importRebase_step_eq`.) -/
theorem importRebase_order_independent (g : String × String → Outcome String) {refs refs' : List (String × String)}
    (hp : refs.Perm refs') (hpw : refs.Pairwise SchemaKeysApart) (sch sch' : J)
    (h : refs.foldlM (rebaseStep g) sch = .ok sch') : refs'.foldlM (rebaseStep g) sch = .ok sch' :=
  rebaseFold_perm g hp hpw sch sch' h

/-- `uniqifyName` ranges over the definitions for its case-insensitive membership test: the order is irrelevant -/
theorem uniqifyName_order_independent (f : Facts) (x : Names.Ext) {defs defs' : List String} (hp : defs.Perm defs')
    (name : String) (fuel : Nat) :
    Names.uniqifyName f x defs name fuel = Names.uniqifyName f x defs' name fuel :=
  uniqifyName_perm f x hp name fuel

/-- `removeUnusedSinglePass` ranges over `references.schemas` to collect the used names: the pass depends on
    them as a set only (order and multiplicity of the schema references are irrelevant) -/
theorem removalPass_order_independent (f : Facts) (x : RemoveUnused.Ext) (d : J) {used' : List String}
    (h : ∀ n, n ∈ RemoveUnused.usedNames f x d ↔ n ∈ used') :
    RemoveUnused.singlePass f x d = singlePassWith used' d := by
  rw [singlePass_eq]; exact singlePassWith_congr h d

/-- `updateRefParents` ranges over `allRefs` and appends the keys it has not seen; `stripOAIGenForRef` then
    sorts them with `TopmostFirst`: the sorted parents do not depend on the iteration order -/
theorem sortedParents_order_independent {refs refs' : List (String × String)} (hp : refs.Perm refs')
    (r : Flatten.NewRef) :
    SortRef.topmostFirst (Flatten.updateRefParents refs r).parents =
      SortRef.topmostFirst (Flatten.updateRefParents refs' r).parents :=
  sortedParents_perm hp r

/-- `namesForParam` ranges over the operations map (keyed by the operation's `$ref`) and appends one candidate
    name per operation of the path; `namesFromKey` sorts the names: the names `InlineSchemaNamer.Name` tries
    for a key, and their order, do not depend on the iteration order of that map -/
theorem namesFromKey_order_independent (x : Flatten.Ext) (s : List String) (fl : Classify.Flags)
    {ops ops' : List (String × Flatten.OpRef)} (hp : ops.Perm ops') (hn : (ops.map (·.1)).Nodup)
    (names : List String) (h : Flatten.namesFromKey x s fl ops = .ok names) :
    Flatten.namesFromKey x s fl ops' = .ok names :=
  Proofs.NamesPerm.namesFromKey_perm x s fl hp hn names h

/-- the second loop of `stripOAIGen` visits the created refs in descending key order (since the repair `070f1bf`):
    the visit order is the same for every order in which the map `newRefs` is enumerated -/
theorem stripOAIGen_visit_order_independent {s s' : Flatten.St} (hp : s.ctx.newRefs.Perm s'.ctx.newRefs) :
    Flatten.stripOrder s = Flatten.stripOrder s' :=
  Proofs.NamesPerm.stripOrder_perm hp

/-- the hypothesis `KeysApart` of the theorems above is met by every reference map whose keys have pairwise
    different token paths that spell their numerals canonically (`"7"`, never `"07"`) — as the analyzer writes
    array indices; only property or definition *names* such as `07` next to `7` fall outside -/
theorem keysApart_of_canonical_tokens (l : List (String × String))
    (hd : l.Pairwise fun a b => Replace.keyTokens a.1 ≠ Replace.keyTokens b.1)
    (hc : ∀ a ∈ l, ∀ t ∈ Replace.keyTokens a.1, Proofs.MoveBase.CanonTok t) : l.Pairwise KeysApart :=
  Proofs.KeysApartCanon.keysApart_of_canon l hd hc

/-! non-vacuity: two keys one of which lies inside the other are apart, and the two orders of updating a `$ref`
    with a `$ref`-holding sibling agree on a concrete document -/

example : posDistinctB ["definitions", "A"] ["definitions", "A", "properties", "p"] = true := by decide

/-- `A = {$ref, properties: {p: {$ref}}}`: both `$ref`s updated, in either order, give the same document, and
    the sibling survives the outer update -/
def sibDoc : J := .obj [("definitions", .obj [("A", .obj [("$ref", .str "o#/definitions/X"),
  ("properties", .obj [("p", .obj [("$ref", .str "o#/definitions/X")])])])])]

def sibDocAfter : J := .obj [("definitions", .obj [("A", .obj [("$ref", .str "#/definitions/x"),
  ("properties", .obj [("p", .obj [("$ref", .str "#/definitions/x")])])])])]

example :
    (updR "#/definitions/x" .swagger sibDoc ["definitions", "A"]).bind
        (fun d => updR "#/definitions/x" .swagger d ["definitions", "A", "properties", "p"]) = some sibDocAfter ∧
    (updR "#/definitions/x" .swagger sibDoc ["definitions", "A", "properties", "p"]).bind
        (fun d => updR "#/definitions/x" .swagger d ["definitions", "A"]) = some sibDocAfter :=
  ⟨rfl, rfl⟩

end C07
