import Verif.Model.Heap

/-!
# C16 — analysis is read-only, copy-safe and safe for concurrent readers (logical part)

What is proved here is the logical half: *given* that the effect analysis of the Go source finds no
exported method of `*Spec` that writes to state reachable from the receiver or its arguments
(`FactsOK.readOnly`, re-extracted on every run), queries are functions of an unchanging state, so
every interleaving of atomic queries gives each thread the answers of a sequential caller, and
mutating a map handed out by a cloning getter affects nothing.  Data races below the granularity of
an atomic query are a property of the Go memory model that this model cannot exhibit; they are
explored with the race detector (DESIGN.md §7 C16).
-/

namespace C16
open Heap

variable {σ α : Type}

structure FactsOK (f : Facts) : Prop where
  readOnly : f.getterWrites = []
  copies : ∀ g ∈ ["ParameterPatterns", "HeaderPatterns", "ItemsPatterns", "SchemaPatterns", "AllPatterns",
                  "ParameterEnums", "HeaderEnums", "ItemsEnums", "SchemaEnums", "AllEnums"],
            f.freshMapGetters.contains g = true

/-- a query leaves the state (document and indexes) as it was -/
theorem query_readonly (f : Facts) (hf : FactsOK f) (m : Sem σ α) (s : σ) (q : String) :
    (step f m s q).1 = s := by
  simp [step, hf.readOnly]

/-- a sequential caller gets the pure answers -/
theorem run_eq_map (f : Facts) (hf : FactsOK f) (m : Sem σ α) (s : σ) (qs : List String) :
    run f m s qs = qs.map (m.answer s) := by
  induction qs with
  | nil => rfl
  | cons q qs ih =>
    simp only [run, List.map_cons]
    rw [query_readonly f hf, ih]
    rfl

/-- any interleaving: every event is answered as by the pure function of the initial state -/
theorem runSched_eq (f : Facts) (hf : FactsOK f) (m : Sem σ α) (s : σ) (evs : List (Nat × String)) :
    runSched f m s evs = evs.map fun e => (e.1, m.answer s e.2) := by
  induction evs with
  | nil => rfl
  | cons e evs ih =>
    obtain ⟨t, q⟩ := e
    simp only [runSched, List.map_cons]
    rw [query_readonly f hf, ih]
    rfl

/-- interleaving-irrelevance: in every schedule (any number of threads, any interleaving), each
    thread observes exactly what it would observe issuing its queries alone, sequentially -/
theorem interleaving_irrelevant (f : Facts) (hf : FactsOK f) (m : Sem σ α) (s : σ)
    (evs : List (Nat × String)) (t : Nat) :
    observed t (runSched f m s evs) = run f m s (issued t evs) := by
  rw [runSched_eq f hf, run_eq_map f hf]
  unfold observed issued
  induction evs with
  | nil => rfl
  | cons e evs ih =>
    by_cases h : e.1 = t <;> simp [h, ih]

/-- copy-safety: mutating a map returned by a pattern / enum getter does not change the state, hence
    no later answer -/
theorem copies_are_safe (f : Facts) (hf : FactsOK f) (m : Sem σ α) (s : σ) (g : String)
    (hg : g ∈ ["ParameterPatterns", "HeaderPatterns", "ItemsPatterns", "SchemaPatterns", "AllPatterns",
               "ParameterEnums", "HeaderEnums", "ItemsEnums", "SchemaEnums", "AllEnums"])
    (qs : List String) :
    run f m (mutateReturned f m s g) qs = run f m s qs := by
  unfold mutateReturned
  rw [hf.copies g hg]
  rfl

/-- the hypothesis matters: a getter listed as writing may change later answers -/
example :
    let f : Facts := { Facts.reference with getterWrites := ["Spec.ConsumesFor"] }
    let m : Sem Nat Nat := { answer := fun s _ => s, clobber := fun s _ => s + 1, clientWrite := fun s _ => s }
    run f m 0 ["ConsumesFor", "ConsumesFor"] = [0, 1] := by
  decide

/-- non-vacuity: the reference facts satisfy the hypotheses -/
theorem reference_ok : FactsOK Facts.reference where
  readOnly := rfl
  copies := by decide

end C16
