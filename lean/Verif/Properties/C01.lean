import Verif.Model.Cert
import Verif.Proofs.Cert
import Verif.Proofs.Bisim

/-!
# C01 — Flatten preserves the meaning of the API (verified validator)

`Spec.Meaning`: the meaning of a position of a bundle is the tree obtained by following every `$ref`
(`unfold n` = its depth-n approximation; `MeaningEq` = all approximations equal = bisimilarity of the
possibly infinite trees).  `Cert.checkCert` accepts a finite relation between positions of the
input bundle and positions of the output when every pair agrees locally and the relation is closed
under corresponding children.  `cert_sound`: every pair of an accepted relation has the same
meaning — for all bundles, relations, hop bounds (no bound on sizes or depths).
What is *not* proved: that Flatten's output always admits such a relation; that is decided per run.
-/

namespace C01
open J Spec.Meaning Cert

/-- soundness of the certificate checker -/
theorem cert_sound (b1 b2 : Bundle) (hops : Nat) (R : Rel) (h : checkCert b1 b2 hops R = true) :
    ∀ p q, R.has p q = true → MeaningEq b1 b2 hops p q := by
  intro p q hpq n
  exact Proofs.Cert.cert_sound_depth b1 b2 hops R h n p q hpq

/-- the relation `search` returns, once accepted by `checkCert`, relates every start pair it contains -/
theorem validated_start_pairs (b1 b2 : Bundle) (hops : Nat) (R : Rel) (start : List (Pos × Pos))
    (h : checkCert b1 b2 hops R = true) (hs : start.all (fun pq => R.has pq.1 pq.2) = true) :
    ∀ pq ∈ start, MeaningEq b1 b2 hops pq.1 pq.2 := by
  intro pq hpq
  rw [List.all_eq_true] at hs
  exact cert_sound b1 b2 hops R h pq.1 pq.2 (hs pq hpq)

/-- the same argument for a relation given as a predicate (possibly infinite), with separate bounds
    on the two sides for following `$ref` chains: if every related pair steps — after following
    `$ref`s — to nodes that agree locally and whose corresponding children are related again, related
    positions have the same unfolding at every depth.  This is the proof principle for meaning
    preservation of a single rewrite (a naming move adds one `$ref` hop on the rewritten side). -/
theorem bisim_sound (b1 b2 : Bundle) (h1 h2 : Nat) (R : Pos → Pos → Prop)
    (h : ∀ p q, R p q → Proofs.Bisim.StepOK b1 b2 h1 h2 R p q) :
    ∀ n p q, R p q → unfold b1 h1 n p = unfold b2 h2 n q :=
  Proofs.Bisim.bisim_sound b1 b2 h1 h2 R h

/-- non-vacuity: a recursive definition `A = {p: $ref A}` and its one-step unrolling
    `B = {p: {p: $ref B}}` are related by an accepted two-pair certificate -/
theorem example_accepts :
    let refA : J := .obj [("$ref", .str "#/definitions/A")]
    let refB : J := .obj [("$ref", .str "#/definitions/B")]
    let b1 : Bundle := {
      docs := [("", .obj [("definitions", .obj [("A", .obj [("p", refA)])])])]
      refs := [("", [("#/definitions/A", ("", ["definitions", "A"]))])] }
    let b2 : Bundle := {
      docs := [("", .obj [("definitions", .obj [("B", .obj [("p", .obj [("p", refB)])])])])]
      refs := [("", [("#/definitions/B", ("", ["definitions", "B"]))])] }
    let R : Rel := [((("", ["definitions", "A"]) : Pos), (("", ["definitions", "B"]) : Pos)),
                    ((("", ["definitions", "A", "p"]) : Pos), (("", ["definitions", "B", "p"]) : Pos)),
                    ((("", ["definitions", "A", "p"]) : Pos), (("", ["definitions", "B", "p", "p"]) : Pos))]
    checkCert b1 b2 8 R = true := by
  decide

/-- the checker is not vacuous the other way either: it rejects a relation pairing different scalars -/
theorem example_rejects :
    let b1 : Bundle := { docs := [("", .obj [("a", .str "x")])], refs := [] }
    let b2 : Bundle := { docs := [("", .obj [("a", .str "y")])], refs := [] }
    checkCert b1 b2 8 [((("", ["a"]) : Pos), (("", ["a"]) : Pos))] = false := by
  decide

end C01
