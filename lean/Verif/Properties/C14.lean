import Verif.Model.Ops
import Verif.Spec.Ops
import Verif.Proofs.Ops

import Verif.Proofs.RequiredUnions
import Verif.Properties.C11

/-!
# C14 — operation lookups agree with the document

Model: `Ops` (the index `s.operations` as `analyzeOperation` builds it from the methods extracted
from analyzer.go, and the query methods).  Spec: `Spec.Ops` (decision tables over the document).
-/

namespace C14
open J

structure FactsOK (f : Facts) : Prop where
  methods : f.analyzerMethods.Perm (Doc.methods.map fun m => (Str.toUpperAscii m, m))

/-- the paths object is a map: distinct keys -/
def PathsNodup (d : J) : Prop := ((Doc.pathItems d).map (·.1)).Nodup

/-- lookup by method (case-insensitive, ASCII) and path finds exactly the operation the document
    has there, for exactly the seven methods -/
theorem operationFor_exact (f : Facts) (hf : FactsOK f) (d : J) (hn : PathsNodup d) (method path : String) :
    Ops.operationFor f d method path = Spec.Ops.operationFor d method path :=
  Proofs.Ops.operationFor_exact f hf.methods d hn method path

/-- case-insensitivity said outright: two spellings of a method that agree after ASCII upper-casing designate the same
    operation (`GET`, `get`, `gEt`) -/
theorem operationFor_case_insensitive (f : Facts) (hf : FactsOK f) (d : J) (hn : PathsNodup d)
    (m₁ m₂ path : String) (h : Str.toUpperAscii m₁ = Str.toUpperAscii m₂) :
    Ops.operationFor f d m₁ path = Ops.operationFor f d m₂ path := by
  rw [operationFor_exact f hf d hn, operationFor_exact f hf d hn]
  unfold Spec.Ops.operationFor Spec.Ops.theMethod
  rw [h]

/-- a method name that is none of the seven designates no operation, whatever the document holds under that key -/
theorem operationFor_unknown_method (f : Facts) (hf : FactsOK f) (d : J) (hn : PathsNodup d)
    (method path : String) (h : Spec.Ops.theMethod method = none) :
    Ops.operationFor f d method path = none := by
  rw [operationFor_exact f hf d hn]
  unfold Spec.Ops.operationFor
  rw [h]; rfl

-- the hypotheses of the two theorems above are met (not vacuous)
example : Str.toUpperAscii "gEt" = Str.toUpperAscii "GET" := by decide
example : Spec.Ops.theMethod "TRACE" = none := by decide

/-- the operations the analyzer knows are those of the document, under all seven methods -/
theorem operations_perm (f : Facts) (hf : FactsOK f) (d : J) :
    (Ops.operations f d).Perm (Spec.Ops.allOps d) :=
  Proofs.Ops.operations_perm f hf.methods d

/-- lookup by id: for an id carried by exactly one operation the analyzer returns that operation
    with its method and path, whatever the iteration order -/
theorem operationForName_unique (f : Facts) (hf : FactsOK f) (d : J) (id : String)
    (hu : ((Spec.Ops.allOps d).filter fun o => Spec.Ops.idOf o = id).length = 1) :
    Ops.operationForName f d id = Spec.Ops.operationForName d id :=
  Proofs.Ops.operationForName_unique f hf.methods d id hu

theorem operationForName_unknown (f : Facts) (hf : FactsOK f) (d : J) (id : String)
    (hu : ((Spec.Ops.allOps d).filter fun o => Spec.Ops.idOf o = id) = []) :
    Ops.operationForName f d id = none :=
  Proofs.Ops.operationForName_unknown f hf.methods d id hu

/-- the id listing and the 'METHOD path' listing are those of the document, with multiplicity -/
theorem ids_perm (f : Facts) (hf : FactsOK f) (d : J) :
    (Ops.operationIDs f d).Perm (Spec.Ops.ids d) :=
  Proofs.Ops.ids_perm f hf.methods d

theorem methodPaths_perm (f : Facts) (hf : FactsOK f) (d : J) :
    (Ops.operationMethodPaths f d).Perm (Spec.Ops.methodPaths d) :=
  Proofs.Ops.methodPaths_perm f hf.methods d

/-- consumes / produces: the operation's own list when non-empty, the document's otherwise (as a set) -/
theorem mediaFor_rule (k : String) (d op : J) :
    (Ops.mediaFor k d op).Nodup ∧ ∀ x, x ∈ Ops.mediaFor k d op ↔ x ∈ Spec.Ops.mediaFor k d op :=
  Proofs.Ops.mediaFor_rule k d op

/-- security requirements: the operation's when it declares any (an empty list disables security),
    the document's otherwise -/
theorem securityRequirements_rule (d op : J) :
    Ops.securityRequirementsFor d op = (Spec.Ops.securityInForce d op).map fun reqs => reqs.map Ops.reqsOf :=
  Proofs.Ops.securityRequirements_rule d op

/-- an explicitly empty operation-level list yields no requirement at all -/
theorem empty_security_disables (d op : J) (h : op.get? "security" = some (.arr [])) :
    Ops.securityRequirementsFor d op = some [] ∧ Ops.securityDefinitionsFor d op = none :=
  Proofs.Ops.empty_security_disables d op h

/-! ### required media types and security schemes: the unions over the document and its operations -/

/-- `RequiredConsumes()` / `RequiredProduces()` / `RequiredSecuritySchemes()` read the string sets of the
    analyzer.  A media type is reported iff the document or one of its operations (under any of the seven
    methods) lists it; a security scheme is reported iff a requirement of the document or of an operation
    names it.  (C11's well-formedness of names is only needed to reuse the decomposition of the log.) -/
theorem required_consumes_union (f : Facts) (hf : C11.FactsOK f) (d : J) (hwf : C11.WF d) (s : String) :
    s ∈ (Analyzer.analyze f d).filterMap IndexProof.selConsumes ↔
      s ∈ d.getStrs "consumes" ∨ ∃ o ∈ Spec.Index.operations d, s ∈ o.2.2.2.getStrs "consumes" := by
  rw [(IndexProof.setView_perm IndexProof.selConsumes (by intro e he; cases e <;> simp_all [IndexProof.isSetEnt, IndexProof.selConsumes])
    f hf.methods hf.defaultHeaderEnums d hwf.toProof).mem_iff, IndexProof.junk_consumes]
  simp [List.mem_flatMap]

theorem required_produces_union (f : Facts) (hf : C11.FactsOK f) (d : J) (hwf : C11.WF d) (s : String) :
    s ∈ (Analyzer.analyze f d).filterMap IndexProof.selProduces ↔
      s ∈ d.getStrs "produces" ∨ ∃ o ∈ Spec.Index.operations d, s ∈ o.2.2.2.getStrs "produces" := by
  rw [(IndexProof.setView_perm IndexProof.selProduces (by intro e he; cases e <;> simp_all [IndexProof.isSetEnt, IndexProof.selProduces])
    f hf.methods hf.defaultHeaderEnums d hwf.toProof).mem_iff, IndexProof.junk_produces]
  simp [List.mem_flatMap]

theorem required_security_union (f : Facts) (hf : C11.FactsOK f) (d : J) (hwf : C11.WF d) (s : String) :
    s ∈ (Analyzer.analyze f d).filterMap IndexProof.selAuth ↔
      s ∈ IndexProof.authNames d ∨ ∃ o ∈ Spec.Index.operations d, s ∈ IndexProof.authNames o.2.2.2 := by
  rw [(IndexProof.setView_perm IndexProof.selAuth (by intro e he; cases e <;> simp_all [IndexProof.isSetEnt, IndexProof.selAuth])
    f hf.methods hf.defaultHeaderEnums d hwf.toProof).mem_iff, IndexProof.junk_auth]
  simp [List.mem_flatMap]

end C14
