import Verif.Properties.C11

/-!
# C13 — pattern and enum indexes are complete and correctly classified
-/

namespace C13
open J Spec.Index

theorem patterns_exact (f : Facts) (hf : C11.FactsOK f) (d : J) (hwf : C11.WF d)
    (cat : String) (ps : List Pos) (hk : (cat, ps) ∈ patCats d) :
    (Index.patternsWhere (· = cat) (Analyzer.analyze f d)).Perm (patternsOf ps) :=
  IndexProof.patterns_cat f hf.methods hf.defaultHeaderEnums d hwf.toProof cat ps hk

theorem enums_exact (f : Facts) (hf : C11.FactsOK f) (d : J) (hwf : C11.WF d)
    (cat : String) (ps : List Pos) (hk : (cat, ps) ∈ patCats d) :
    (Index.enumsWhere (· = cat) (Analyzer.analyze f d)).Perm (enumsOf ps) :=
  IndexProof.enums_cat f hf.methods hf.defaultHeaderEnums d hwf.toProof cat ps hk

theorem allPatterns_exact (f : Facts) (hf : C11.FactsOK f) (d : J) (hwf : C11.WF d) :
    (Index.patternsWhere (fun _ => true) (Analyzer.analyze f d)).Perm ((patCats d).flatMap fun cp => patternsOf cp.2) :=
  IndexProof.patterns_all f hf.methods hf.defaultHeaderEnums d hwf.toProof

theorem allEnums_exact (f : Facts) (hf : C11.FactsOK f) (d : J) (hwf : C11.WF d) :
    (Index.enumsWhere (fun _ => true) (Analyzer.analyze f d)).Perm ((patCats d).flatMap fun cp => enumsOf cp.2) :=
  IndexProof.enums_all f hf.methods hf.defaultHeaderEnums d hwf.toProof

/-- without the registration in `analyzeDefaultResponse` (defect D1) the enum of a header of a
    default response is missing: the hypothesis `defaultHeaderEnums` is necessary -/
theorem default_header_enum_needed :
    let d : J := .obj [("paths", .obj [("/a", .obj [("get", .obj [("responses", .obj [("default",
      .obj [("headers", .obj [("X-H", .obj [("enum", .arr [.str "a"])])])])])])])])]
    (Index.enumsWhere (· = "header") (Analyzer.analyze { Facts.reference with defaultHeaderEnums := false } d)) = [] ∧
    (enumsOf (headers d)).length = 1 := by
  decide

end C13
