import Verif.Model.Index
import Verif.Spec.Index
import Verif.Proofs.StrLemmas
import Verif.Proofs.IndexFinal

/-!
# C11 — the reference index is complete and sound

Model: `Analyzer.analyze` (keys built with `path.Join` / `jsonpointer.Escape` as analyzer.go does).
Spec: `Spec.Index` (one generic traversal in JSON-pointer token space).
"None missing, none invented, each with its multiplicity" is multiset equality (`List.Perm`) of the
(key, $ref) entries, per kind and for the `all` view.
-/

namespace C11
open J Spec.Index

/-- what the theorems need from the regenerated facts: `analyzeOperations` visits the seven methods,
    each under its own upper-case name -/
structure FactsOK (f : Facts) : Prop where
  methods : f.analyzerMethods.Perm (Doc.methods.map fun m => (Str.toUpperAscii m, m))
  defaultHeaderEnums : f.defaultHeaderEnums = true
  /-- `reset()` clears every field of `Spec` that an analysis fills: after a reload the indexes speak about the document
      as it is now (what the analyze stream observes through the hook `VerifReload`) -/
  resetComplete : f.resetStale = []

/-- every position the analyzer indexes -/
def positions (d : J) : List Pos :=
  allSchemas d ++ listedParams d ++ sharedParams d ++ opResponses d ++ sharedResponses d ++ headers d ++
  paramItems d ++ headerItems d ++ pathItemPositions d

/-- well-formed documents: every token on the way to an indexed position is neither "", "." nor ".."
    (what `path.Clean` would swallow), header names need no pointer escaping (the code joins them
    unescaped), and a parameter that is not `in: body` carries no schema -/
structure WF (d : J) : Prop where
  toks : ∀ p ∈ positions d, ∀ t ∈ p.1, Str.GoodTok t
  headerNames : ∀ h ∈ headers d, Str.esc (lastTok h.1) = lastTok h.1
  bodyOnly : ∀ p ∈ listedParams d ++ sharedParams d, p.2.getStr "in" ≠ "body" → p.2.get? "schema" = none

/-- `WF` in the form the proofs use -/
theorem WF.toProof {d : J} (h : WF d) : IndexProof.WF' d := ⟨h.toks, h.headerNames, h.bodyOnly⟩

/-- per kind (schema, response, parameter, pathItem, items:header, items:parameter): the indexed
    (key, $ref) pairs are exactly those of the document's positions of that kind -/
theorem refs_exact (f : Facts) (hf : FactsOK f) (d : J) (hwf : WF d)
    (kind : String) (ps : List Pos) (hk : (kind, ps) ∈ refKinds d) :
    (Index.refsWhere (· = kind) (Analyzer.analyze f d)).Perm (refsOf ps) :=
  IndexProof.refs_kind f hf.methods hf.defaultHeaderEnums d hwf.toProof kind ps hk

/-- the `all` view is the union of the kinds, with multiplicity -/
theorem allRefs_exact (f : Facts) (hf : FactsOK f) (d : J) (hwf : WF d) :
    (Index.refsWhere (fun _ => true) (Analyzer.analyze f d)).Perm ((refKinds d).flatMap fun kp => refsOf kp.2) :=
  IndexProof.refs_all f hf.methods hf.defaultHeaderEnums d hwf.toProof

/-- the `items` view (`AllItemsReferences`: header items and parameter items together) is the union of the two items
    kinds, with multiplicity — nothing of another kind enters it, and no items `$ref` is left out of it -/
theorem itemsRefs_exact (f : Facts) (hf : FactsOK f) (d : J) (hwf : WF d) :
    (Index.refsWhere (fun k => k = "items:header" ∨ k = "items:parameter") (Analyzer.analyze f d)).Perm
      (refsOf (headerItems d) ++ refsOf (paramItems d)) := by
  have := IndexProof.refsWhere_perm f hf.methods hf.defaultHeaderEnums d hwf.toProof
    (fun k => k = "items:header" ∨ k = "items:parameter")
  simpa [IndexProof.refsSpec] using this

/-- for any insertion log: every entry
    of the items view is an entry of the `all` view, in the same order and with at least its multiplicity -/
theorem itemsRefs_sub_all (es : List Analyzer.Ent) :
    (Index.refsWhere (fun k => k = "items:header" ∨ k = "items:parameter") es).Sublist
      (Index.refsWhere (fun _ => true) es) := by
  induction es with
  | nil => simp [Index.refsWhere]
  | cons e es ih =>
    unfold Index.refsWhere at ih ⊢
    cases e <;> simp only [List.filterMap_cons] <;> try exact ih
    split <;> simp_all

end C11
