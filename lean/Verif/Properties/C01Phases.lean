import Verif.Proofs.RetargetFold

/-!
# C01 — a whole phase preserves the meaning of the API: `normalizeRef`

The first statement of C01 about a *phase* of the pipeline model rather than about one rewrite: the loop of
`normalizeRef` (`Proofs.OrderIndep.normalizeFold`; `C07.normalizeRef_is_the_loop` shows that `Flatten.normalizeRef` is
this loop followed by `reload()`) is a sequence of re-targetings in which the old and the new `$ref` string designate
the same position.  Each step meets the hypotheses of `C01.retarget_preserves_meaning`, and the hypotheses of the next
step are re-established in the rewritten document (`Proofs.RetargetFold.applySteps_preserves`: canonical keys survive,
the hop bound stays adequate, the `$ref` of every other key is still where it was).
-/

namespace C01
open J Spec.Meaning Proofs.RetargetFold Proofs.RetargetModel Proofs.Retarget Proofs.MoveBase

theorem normalizeRef_preserves_meaning (x : Flatten.Ext) (o : Flatten.Opts) (refs : List (String × String)) (d dn : J)
    (h : Proofs.OrderIndep.normalizeFold x o refs d = .ok dn)
    (T : List (String × Pos)) (rest : Bundle) (hops : Nat) (hpos : 0 < hops)
    (hT : ∀ doc s q, (bundleWith d T rest).target doc s = some q → GoodAll q ∧ "$ref" ∉ q.2)
    (hsteps : ∀ kv ∈ refs.filter (fun kv => Str.hasPrefix (o.basePath ++ "#/definitions") kv.2), StepOK d T (normStep x kv))
    (hpw : ((refs.filter fun kv => Str.hasPrefix (o.basePath ++ "#/definitions") kv.2).map (normStep x)).Pairwise Apart)
    (hk : keysCanon d = true) (had : RSetting.AdequateOn GoodAll (bundleWith d T rest) hops) :
    ∀ n p, (∀ kv ∈ refs.filter (fun kv => Str.hasPrefix (o.basePath ++ "#/definitions") kv.2),
        Good (Replace.keyTokens kv.1) p) →
      GoodAll p → unfold (bundleWith d T rest) hops n p = unfold (bundleWith dn T rest) hops n p :=
  normalizeFold_preserves_meaning x o refs d dn h T rest hops hpos hT hsteps hpw hk had

/-- the general form: any sequence of re-targetings to the same position, on token paths -/
theorem retarget_sequence_preserves_meaning (T : List (String × Pos)) (rest : Bundle) (hops : Nat) (hpos : 0 < hops)
    (steps : List Step) (d0 dn : J) (h : applySteps steps d0 = some dn)
    (hT : ∀ doc s q, (bundleWith d0 T rest).target doc s = some q → GoodAll q ∧ "$ref" ∉ q.2)
    (hsteps : ∀ s ∈ steps, StepOK d0 T s) (hpw : steps.Pairwise Apart) (hk : keysCanon d0 = true)
    (had : RSetting.AdequateOn GoodAll (bundleWith d0 T rest) hops) :
    ∀ n p, (∀ s ∈ steps, Good s.toks p) → GoodAll p →
      unfold (bundleWith d0 T rest) hops n p = unfold (bundleWith dn T rest) hops n p :=
  applySteps_preserves T rest hops hpos steps d0 dn h hT hsteps hpw hk had

/-- the general composition: a run of re-targetings, each of which meets the hypotheses of
    `retarget_preserves_meaning` *in the document it is applied to* (what `DeepestRef` guarantees for the steps of
    `namePointers` and of `Name`: `Proofs.DeepestReaches.deepestRef_reaches`), preserves the meaning of every position
    that is good for all its keys.  What is threaded through the run by proof: canonical keys, adequacy of the hop
    bound. -/
theorem retarget_run_preserves_meaning (T : List (String × Pos)) (rest : Bundle) (hops : Nat) (hpos : 0 < hops)
    {d0 dn : J} {steps : List Step} (hrun : RetargetRun T rest d0 steps dn)
    (hT : ∀ doc s q, (bundleWith d0 T rest).target doc s = some q → GoodAll q ∧ "$ref" ∉ q.2)
    (hk : keysCanon d0 = true) (had : RSetting.AdequateOn GoodAll (bundleWith d0 T rest) hops) :
    ∀ n p, (∀ s ∈ steps, Good s.toks p) → GoodAll p →
      unfold (bundleWith d0 T rest) hops n p = unfold (bundleWith dn T rest) hops n p :=
  retargetRun_preserves T rest hops hpos hrun hT hk had

end C01
