import Verif.Proofs.Fixer

/-!
# C19 — FixEmptyResponseDescriptions fills exactly the empty descriptions

Model: `Fixer.fix` (Verif/Model/Fixer.lean), parameterised by the facts extracted from fixer.go
(which PathItem methods the function visits; whether `FixEmptyDescs` guards a nil `*Responses`).
Spec: `Spec.Fixer` (one generic traversal of every response position, all seven methods).
-/

namespace C19
open J Spec.Fixer

/-- what the theorems need from the regenerated facts -/
structure FactsOK (f : Facts) : Prop where
  methods : ∀ k, f.fixerMethods.contains k = Doc.isMethodKey k
  guard : f.fixerNilGuard = true

/-- the call never panics, and leaves exactly the expected document: every response position
    (shared, default, status-code; under all seven methods of every path) is replaced by its
    `describe`d version and nothing else is touched — for every JSON document. -/
theorem total_and_exact (f : Facts) (h : FactsOK f) (d : J) :
    Fixer.fix f d = .ok (expected d) := by
  unfold Fixer.fix
  simp [h.guard, Proofs.Fixer.fixDoc_eq_expected _ h.methods]

theorem never_panics (f : Facts) (h : FactsOK f) (d : J) : (Fixer.fix f d).isPanic = false := by
  rw [total_and_exact f h d]; rfl

/-- loadable documents have JSON objects at response positions -/
def ResponsesAreObjects (d : J) : Prop := ∀ r ∈ allResponses d, r.isObj = true

/-- every non-$ref response has a non-empty description afterwards -/
theorem all_nonref_described (d : J) (hw : ResponsesAreObjects d) :
    postcondition (expected d) = true := by
  unfold postcondition expected
  rw [Proofs.Fixer.allResponses_map, List.all_map]
  rw [List.all_eq_true]
  intro r hr
  exact Proofs.Fixer.described_describe r (hw r hr)

/-- frame: after blanking exactly what the call may touch (the description of a non-$ref response
    when it is empty or "(empty)"), before and after are the same document -/
theorem others_untouched (d : J) :
    mapResponses blank (expected d) = mapResponses blank d := by
  unfold expected
  rw [Proofs.Fixer.mapResponses_comp]
  apply Proofs.Fixer.mapResponses_congr
  intro r
  exact Proofs.Fixer.blank_describe r

theorem sameFrame_holds (d : J) : sameFrame (expected d) d = true := by
  unfold sameFrame
  rw [beq_iff]
  exact others_untouched d

/-- responses that already have a description, or are $refs, are left as they are -/
theorem described_untouched (r : J) (h : described r = true) : describe r = r := by
  simp [describe, h]

/-- a second call changes nothing -/
theorem idempotent (d : J) : expected (expected d) = expected d := by
  unfold expected
  rw [Proofs.Fixer.mapResponses_comp]
  apply Proofs.Fixer.mapResponses_congr
  intro r
  exact Proofs.Fixer.describe_idem r

theorem idempotent_model (f : Facts) (h : FactsOK f) (d d' : J) (h1 : Fixer.fix f d = .ok d') :
    Fixer.fix f d' = .ok d' := by
  rw [total_and_exact f h d] at h1
  cases h1
  rw [total_and_exact f h, idempotent]

/-- without the nil guard the model panics on an operation that has no `responses` (defect D3):
    the hypothesis `guard` is necessary -/
theorem panics_without_guard :
    (Fixer.fix { Facts.reference with fixerNilGuard := false }
      (.obj [("paths", .obj [("/a", .obj [("get", .obj [("operationId", .str "getA")])])])])).isPanic = true := by
  decide

/-- non-vacuity: a concrete document with an empty description under `options` meets the
    hypotheses and is changed by the call -/
example :
    let d : J := .obj [("paths", .obj [("/a", .obj [("options", .obj [("responses",
      .obj [("200", .obj [("description", .str "")])])])])])]
    (∀ r ∈ allResponses d, r.isObj = true) ∧ postcondition d = false ∧ postcondition (expected d) = true := by
  decide

end C19
