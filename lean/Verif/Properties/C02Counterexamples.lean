import Verif.Properties.C02

/-!
# C02 — why `allRefs_complete` carries an added hypothesis

The theorem below exhibits an input for which the statement *without* `CanonicalIndices` fails.
It is checked by evaluation in the kernel (`rfl`, `decide`).
-/

namespace C02.Counterexamples
open J Spec.Flat

/-! ### allRefs_complete without `CanonicalIndices`: the array index spelled `"00"` -/

def holder : J := .obj [("$ref", .str "x")]
def dArr : J := .arr [holder]

/-- the pointer `/00` resolves to the `$ref` holder (array indices are read with leading zeros),
    the document has distinct keys everywhere, yet the walk lists the holder under `/0` only -/
theorem complete_needs_canonical_indices :
    Spec.Pointer.get dArr ["00"] = some holder ∧ holder.get? "$ref" = some (.str "x") ∧ "x" ≠ "" ∧
    allRefs dArr = [(["0"], "x")] ∧ (["00"], "x") ∉ allRefs dArr ∧ ¬ CanonicalIndices dArr ["00"] := by
  refine ⟨?_, ?_, by decide, by decide, by decide, by decide⟩
  · rfl
  · rfl

theorem dArr_nodupKeys : C12.NodupKeys dArr :=
  .arr _ fun x hx => by
    rw [List.mem_singleton.1 hx]
    exact .obj _ (by simp) fun kv hkv => by rw [List.mem_singleton.1 hkv]; exact .str _

end C02.Counterexamples
