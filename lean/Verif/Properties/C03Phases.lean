import Verif.Proofs.FlattenNames
import Verif.Proofs.FlattenImport

/-!
# C03 — the phases that create definitions only append fresh names (model of the phases)

For the phase model of Flatten (`Verif/Model/Flatten.lean`, tied to flatten.go phase by phase by the
`phases` correspondence stream): `nameInlinedSchemas` and `namePointers` never drop or overwrite a
definition, and every definition they add carries a name that differs — up to letter case, as
`strings.EqualFold` sees it — from every definition present when it is added.  For all documents,
names, option sets and external functions.
-/

namespace C03
open Flatten Proofs.FlattenNames

/-- full flattening, naming phase -/
theorem nameInlinedSchemas_appends_fresh (fc : Facts) (hf : FactsOK fc) (x : Ext) (o : Opts) (s s' : St)
    (h : nameInlinedSchemas fc x o s = .ok s') :
    -- the definitions that existed are still there, first and in the same order
    Flatten.defNames s.doc <+: Flatten.defNames s'.doc ∧
    -- each added name is fresh, up to case, with respect to every pre-existing name
    (∀ n ∈ (Flatten.defNames s'.doc).drop (Flatten.defNames s.doc).length,
      ∀ k ∈ Flatten.defNames s.doc, foldOf x k ≠ foldOf x n) ∧
    -- and with respect to the names added before it
    FreshExt (foldOf x) (Flatten.defNames s.doc) (Flatten.defNames s'.doc) := by
  have hx := nameInlinedSchemas_fresh fc hf x o s s' h
  exact ⟨hx.prefix, hx.added_fresh, hx⟩

/-- Minimal and full flattening, pointer phase -/
theorem namePointers_appends_fresh (fc : Facts) (hf : FactsOK fc) (x : Ext) (o : Opts) (s s' : St)
    (h : namePointers fc x o s = .ok s') :
    Flatten.defNames s.doc <+: Flatten.defNames s'.doc ∧
    (∀ n ∈ (Flatten.defNames s'.doc).drop (Flatten.defNames s.doc).length,
      ∀ k ∈ Flatten.defNames s.doc, foldOf x k ≠ foldOf x n) ∧
    FreshExt (foldOf x) (Flatten.defNames s.doc) (Flatten.defNames s'.doc) := by
  have hx := namePointers_fresh fc hf x o s s' h
  exact ⟨hx.prefix, hx.added_fresh, hx⟩

/-- import phase (definitions brought in from auxiliary documents, renamed `…OAIGen` on conflict) -/
theorem importReferences_appends_fresh (fc : Facts) (hf : FactsOK fc) (x : Ext) (o : Opts) (fuel : Nat) (s s' : St)
    (h : importReferences fc x o fuel s = .ok s') :
    Flatten.defNames s.doc <+: Flatten.defNames s'.doc ∧
    (∀ n ∈ (Flatten.defNames s'.doc).drop (Flatten.defNames s.doc).length,
      ∀ k ∈ Flatten.defNames s.doc, foldOf x k ≠ foldOf x n) ∧
    FreshExt (foldOf x) (Flatten.defNames s.doc) (Flatten.defNames s'.doc) := by
  have hx := Proofs.FlattenImport.importReferences_fresh fc hf x o fuel s s' h
  exact ⟨hx.prefix, hx.added_fresh, hx⟩

/-- non-vacuity of `FreshExt`: `["pet"]` extended by `petOwner` (fresh) — and not by `PET` -/
example : FreshExt Str.toLowerAscii ["pet"] ["pet", "petOwner"] :=
  FreshExt.snoc (l' := ["pet"]) "petOwner" (FreshExt.refl _) (by decide)

example : ¬ (∀ k ∈ ["pet"], Str.toLowerAscii k ≠ Str.toLowerAscii "PET") := by decide

end C03
