import Verif.Model.Trace
import Verif.Proofs.FlattenPipeline
import Verif.Proofs.FlattenImport

/-!
# C10 — the analyzer handed to Flatten stays in sync with the document

Logical core: whatever the phases do to the document, if every mutating phase ends with a reload
(fact `phasesWithoutReload = []`, re-extracted from flatten.go on every run), then when Flatten
returns the index held by the caller's `Spec` is the analysis of the rewritten document.
-/

namespace C10
open Trace

variable {δ ι : Type}

structure FactsOK (f : Facts) : Prop where
  allReload : f.phasesWithoutReload = []
  /-- `reload()` is `reset(); initialize()` and `reset` replaces every index field by a fresh value:
      what the model writes as `reload s = { s with idx := analyze s.doc }` (nothing of the previous
      analysis survives) -/
  resetComplete : f.resetStale = []
  reloadIsResetThenInit : f.reloadSkeleton = ["s.reset()", "s.initialize()"]

theorem step_inSync (analyze : δ → ι) (s : St δ ι) (e : Ev δ) (_h : InSync analyze s) :
    InSync analyze (step analyze s e) := by
  cases e with
  | mutate f => intro hd; simp [step] at hd
  | reload => intro _; simp [step]

/-- the invariant holds along every trace -/
theorem in_sync (analyze : δ → ι) (s : St δ ι) (tr : List (Ev δ)) (h : InSync analyze s) :
    InSync analyze (run analyze s tr) := by
  induction tr generalizing s with
  | nil => exact h
  | cons e tr ih => exact ih (step analyze s e) (step_inSync analyze s e h)

/-- a run of phases each of which re-analyzes at its end finishes clean -/
theorem phases_end_clean (analyze : δ → ι) (s : St δ ι) (phases : List (List (δ → δ)))
    (hs : s.dirty = false) :
    (run analyze s (phases.flatMap fun muts => phase muts true)).dirty = false := by
  induction phases generalizing s with
  | nil => simpa [run] using hs
  | cons muts rest ih =>
    simp only [List.flatMap_cons, run, List.foldl_append]
    apply ih
    simp [phase, step]

/-- C10: after a run in which every phase reloads, the index is the analysis of the final document -/
theorem index_is_fresh_analysis (analyze : δ → ι) (d : δ) (phases : List (List (δ → δ))) :
    let s0 : St δ ι := { doc := d, idx := analyze d, dirty := false }
    let s := run analyze s0 (phases.flatMap fun muts => phase muts true)
    s.idx = analyze s.doc := by
  intro s0 s
  have h0 : InSync analyze s0 := fun _ => rfl
  exact in_sync analyze s0 _ h0 (phases_end_clean analyze s0 phases rfl)

/-- the hypothesis matters: a phase that mutates without reloading leaves a stale index -/
example :
    let analyze : Nat → Nat := fun d => d
    let s0 : St Nat Nat := { doc := 0, idx := 0, dirty := false }
    (run analyze s0 (phase [fun d => d + 1] false)).idx ≠ analyze (run analyze s0 (phase [fun d => d + 1] false)).doc := by
  decide

/-- C10 on the phase model of Flatten itself (`Flatten.flattenLocal`, where each phase works on the
    index of the last `reload()` exactly as the code does): when the pipeline returns normally, the
    index held by the caller's `Spec` is the analysis of the document it returns — for every
    document, option set, external function and number of loop iterations.  The model is tied to
    flatten.go phase by phase by the `phases` correspondence stream. -/
theorem pipeline_in_sync (fc : Facts) (x : Flatten.Ext) (o : Flatten.Opts) (fuel : Nat) (s s' : Flatten.St)
    (h : Flatten.flattenLocal fc x o fuel s = .ok s') :
    s'.idx = Analyzer.analyze fc s'.doc :=
  Proofs.FlattenPipeline.flattenLocal_inSync fc x o fuel s s' h

/-- the same for the pipeline with the real import loop (multi-document bundles) -/
theorem pipeline_in_sync_multi (fc : Facts) (x : Flatten.Ext) (o : Flatten.Opts) (fuel : Nat) (s s' : Flatten.St)
    (h : Flatten.flatten fc x o fuel s = .ok s') :
    s'.idx = Analyzer.analyze fc s'.doc :=
  Proofs.FlattenImport.flatten_inSync fc x o fuel s s' h

end C10
