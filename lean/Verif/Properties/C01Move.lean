import Verif.Proofs.Move
import Verif.Proofs.MoveModel
import Verif.Proofs.RetargetModel
import Verif.Proofs.InlineModel
import Verif.Proofs.DeepestReaches

/-!
# C01 — the naming move of Flatten preserves the meaning of the API (proved for all documents)

The rewrite at the heart of full flattening (`InlineSchemaNamer.Name`): an inline schema found at a
JSON pointer is saved as a new definition and a `$ref` to it is left in its place.
`Proofs.Move.Setting` spells the situation out; the theorem says that every position of the bundle
other than the root object, the `definitions` map itself and the inside of the moved schema
denotes the same possibly infinite tree as before, and that the positions inside the moved schema
denote what the corresponding positions under the new definition denote — at every unfolding depth.

Hypotheses (each is forced by the proof; the generator's bundles satisfy them):
* the new name is not a definition yet and the `$ref` string left behind is used nowhere in the root
  document (otherwise a dangling `$ref` would start to resolve);
* no `$ref` of the bundle designates the root, the definitions map, the inside of the new definition
  or a position *strictly inside* the moved schema (`TargetsOK`; the namer re-targets the `$ref`s that
  designate the moved schema itself, and W has no pointer below a nested inline schema);
* the moved schema is not itself a `$ref` (the namer skips those);
* object keys and array indices are canonical as tokens ("7", not "007": `Spec.Pointer.get` reads
  both as the same index);
* the hop bound is not what makes a `$ref` chain of the original bundle fail (`Stable`); the rewritten
  side gets one more hop, for the `$ref` left behind.
-/

namespace C01
open J Spec.Meaning Proofs.Move Proofs.MoveBase Replace

/-- the naming move preserves meaning -/
theorem naming_move_preserves_meaning (S : Setting) (ht : S.TargetsOK) (hr : S.r ≠ "") (hops : Nat)
    (hst : Setting.Stable S.b1 hops) :
    -- positions of auxiliary documents and allowed positions of the root keep their meaning
    (∀ n (p : Pos), (p.1 ≠ "" ∨ (p.1 = "" ∧ Allowed S.toks S.n p.2)) →
      unfold S.b1 hops n p = unfold S.b2 (hops + 1) n p) ∧
    -- what was inside the moved schema is now found under the new definition
    (∀ n (t : List String), AllCanon t → (∀ k t', t = k :: t' → k ≠ marker) →
      unfold S.b1 hops n ("", S.toks ++ t) = unfold S.b2 (hops + 1) n ("", defn S.n ++ t)) := by
  refine ⟨?_, ?_⟩
  · intro n p hp
    apply S.move_preserves ht hr hops hst n p p
    rcases hp with h | ⟨h1, h2⟩
    · exact Or.inl ⟨h, rfl⟩
    · exact Or.inr (Or.inl ⟨h1, h1, rfl, h2⟩)
  · intro n t hc hm
    apply S.move_preserves ht hr hops hst n
    exact Or.inr (Or.inr ⟨rfl, rfl, t, rfl, rfl, hc, hm⟩)

/-- **The move theorem speaks about the model of `InlineSchemaNamer.Name`.**  One iteration of `Name` in the phase
    model (`Flatten.nameWith`: unique name, `RewriteSchemaToRef`, save the clone, re-target the dependents, book-keeping),
    run on the schema of a setting, under the name and `$ref` string of that setting, in a document in which no `$ref`
    depends on the place being named (`NoDependents`: no anonymous pointer leads to it — the common case of full
    flattening), returns exactly the document `S.d2` of the move; hence it preserves the meaning of every allowed
    position and moves the meaning of the inside of the schema under the new definition.  What this does not cover:
    the re-targeting of dependents (a second kind of move, validated per run by the certificate checker). -/
theorem nameWith_preserves_meaning (S : Setting) (fc : Facts) (x : Flatten.Ext) (o : Flatten.Opts) (st st' : Flatten.St)
    (key : String) (parts : List String) (name : String)
    (h : Flatten.nameWith fc x o st key (.obj S.sch) parts name = .ok st')
    (hdoc : st.doc = .obj S.kvs) (hkey : Replace.keyTokens key = S.toks)
    (hloc : S.loc = .str (Flatten.genLocation parts))
    (hname : ∀ nr, Flatten.getNR key st'.ctx.newRefs = some nr →
      nr.newName = S.n ∧ nr.path = Str.join ["#/definitions", S.n])
    (href : x.mkRef (Str.join ["#/definitions", S.n]) = some S.r)
    (hnodep : Proofs.MoveModel.NoDependents fc x key (Str.join ["#/definitions", S.n]) S.d2)
    (ht : S.TargetsOK) (hr : S.r ≠ "") (hops : Nat) (hst : Setting.Stable S.b1 hops) :
    st'.doc = S.d2 ∧
    (∀ n (p : Pos), (p.1 ≠ "" ∨ (p.1 = "" ∧ Allowed S.toks S.n p.2)) →
      unfold S.b1 hops n p = unfold S.b2 (hops + 1) n p) ∧
    (∀ n (t : List String), AllCanon t → (∀ k t', t = k :: t' → k ≠ marker) →
      unfold S.b1 hops n ("", S.toks ++ t) = unfold S.b2 (hops + 1) n ("", defn S.n ++ t)) :=
  ⟨Proofs.MoveModel.nameWith_is_the_move S fc x o st st' key parts name h hdoc hkey hloc hname href hnodep,
   naming_move_preserves_meaning S ht hr hops hst⟩

/-- **The second kind of rewrite: re-targeting a `$ref` along its own chain.**  `Name` (and the `TopLevel` branch of
    `namePointers`) call `UpdateRef(k, #/definitions/newName)` on `$ref`s whose value leads, through anonymous pointers,
    to the place that now holds `$ref: #/definitions/newName`.  For every document `d`, key and new `$ref` string `v'`:
    if the position `q'` that `v'` designates lies on the chain of `$ref`s that starts at the old target `q0`
    (`Reaches`), then every position of the bundle denotes the same tree before and after `Replace.updateRef d key v'`
    (positions of the root spelled canonically and not inside the `$ref` member itself; all positions of auxiliary
    documents).  Hypotheses: object keys canonical as tokens, no `$ref` of the bundle designates a position inside the
    rewritten `$ref` member, and the hop bound is adequate (`Adequate`: every chain that ends at all ends within `hops`).
    Non-vacuity: `Properties/C01RetargetExample.lean` meets every hypothesis on the chain `K → P → N` (on token paths:
    `keyTokens` on a string literal does not reduce in the kernel), for this theorem and for `inline_preserves_meaning`. -/
theorem retarget_preserves_meaning (d d' : J) (key v' : String) (h : Replace.updateRef d key v' = .ok d')
    (T : List (String × Pos)) (rest : Bundle) (a1 : J)
    (hget : Spec.Pointer.get d (Replace.keyTokens key) = some a1) (hv1 : Doc.refStr a1 ≠ "") (hv2 : v' ≠ "")
    (q0 q' : Pos) (ht1 : T.lookup (Doc.refStr a1) = some q0) (ht2 : T.lookup v' = some q')
    (hreach : Proofs.Retarget.Reaches (Proofs.RetargetModel.bundleWith d T rest) q0 q')
    (hcanon : AllCanon (Replace.keyTokens key)) (hkeys : keysCanon d = true)
    (hgoodT : ∀ doc s q, (Proofs.RetargetModel.bundleWith d T rest).target doc s = some q →
      Proofs.RetargetModel.Good (Replace.keyTokens key) q)
    (hops : Nat) (had : Proofs.Retarget.RSetting.Adequate (Proofs.RetargetModel.bundleWith d T rest) hops) :
    ∀ n p, Proofs.RetargetModel.Good (Replace.keyTokens key) p →
      unfold (Proofs.RetargetModel.bundleWith d T rest) hops n p =
        unfold (Proofs.RetargetModel.bundleWith d' T rest) hops n p :=
  Proofs.RetargetModel.updateRef_retarget_preserves d d' key v' h T rest a1 hget hv1 hv2 q0 q' ht1 ht2 hreach hcanon hkeys
    hgoodT hops had

/-- **The third kind of rewrite: in-place expansion.**  `flattenAnonPointer` (for a simple schema with a single caller)
    and `stripOAIGenForRef` call `UpdateRefWithSchema(k, sch)` where `sch` is the schema the `$ref` at `k` leads to.  For
    every document: if `sch` is the (non-`$ref`, object) node at a position `e` of the root that lies at the end of the
    chain of `$ref`s starting at the old target of `k`, then after `Replace.updateRefWithSchema d key sch` every good
    position (canonically spelled, not at or below `k`; every position of auxiliary documents) and `k` itself denote the
    same tree as before, and `k ++ t` denotes what `e ++ t` denoted.  Same standing hypotheses as
    `retarget_preserves_meaning` (canonical keys, no `$ref` designates a position strictly below `k`, adequate hop
    bound).  Nothing is assumed about `e` and `k` being apart: when `k` lies inside `e` the statement still holds for
    the JSON documents (the cyclic *Go* structure that such a copy builds is the matter of finding-then-fix 3893d90). -/
theorem inline_preserves_meaning (d d' : J) (key : String) (sch : J)
    (h : Replace.updateRefWithSchema d key sch = .ok d')
    (T : List (String × Pos)) (rest : Bundle) (a1 : J)
    (hget : Spec.Pointer.get d (Replace.keyTokens key) = some a1) (hv1 : Doc.refStr a1 ≠ "")
    (etoks : List String) (hsch : Spec.Pointer.get d etoks = some sch) (hobj : ∃ m, sch = .obj m)
    (hne : Doc.refStr sch = "")
    (q0 : Pos) (ht1 : T.lookup (Doc.refStr a1) = some q0)
    (hreach : Proofs.Retarget.Reaches (Proofs.RetargetModel.bundleWith d T rest) q0 ("", etoks))
    (hcanon : AllCanon (Replace.keyTokens key)) (hkeys : keysCanon d = true)
    (hgoodT : ∀ doc s q, (Proofs.RetargetModel.bundleWith d T rest).target doc s = some q →
      Proofs.InlineModel.GoodI (Replace.keyTokens key) q ∨ q = ("", Replace.keyTokens key))
    (hops : Nat) (had : Proofs.Retarget.RSetting.Adequate (Proofs.RetargetModel.bundleWith d T rest) hops)
    (hpos : 0 < hops) :
    (∀ n p, Proofs.InlineModel.GoodI (Replace.keyTokens key) p ∨ p = ("", Replace.keyTokens key) →
      unfold (Proofs.RetargetModel.bundleWith d T rest) hops n p =
        unfold (Proofs.RetargetModel.bundleWith d' T rest) hops n p) ∧
    (∀ n t, unfold (Proofs.RetargetModel.bundleWith d T rest) hops n ("", etoks ++ t) =
      unfold (Proofs.RetargetModel.bundleWith d' T rest) hops n ("", Replace.keyTokens key ++ t)) :=
  Proofs.InlineModel.updateRefWithSchema_inline_preserves d d' key sch h T rest a1 hget hv1 etoks hsch hobj hne q0 ht1
    hreach hcanon hkeys hgoodT hops had hpos

/-! ### the rewrites as the phases issue them: what `DeepestRef` returns is on the chain

`namePointers` and `Name` decide what to write from the result of `replace.DeepestRef` (model: `Flatten.deepestRef`).
`Proofs.DeepestReaches.deepestRef_reaches` shows that this result lies on the chain of `$ref`s of the reference it was
asked about — the hypothesis `Reaches` of the two theorems above — so a step of the phases, as the model takes it,
preserves meaning (standing hypotheses as before; `TableOK`: the `$ref` table of the root agrees with the decoder). -/

/-- the `TopLevel` branch of `namePointers` (and the dependents loop of `Name`): `r := DeepestRef(v)`, then
    `UpdateRef(key, r)` -/
theorem pointer_retarget_step_preserves (x : Flatten.Ext) (d d' : J) (key : String) (fuel : Nat) (r : String)
    (sch : Option J) (T : List (String × Pos)) (rest : Bundle) (a1 : J)
    (hget : Spec.Pointer.get d (Replace.keyTokens key) = some a1) (hv1 : Doc.refStr a1 ≠ "")
    (hfrag : Flatten.hasFragmentOnly (Doc.refStr a1) = true)
    (hdeep : Flatten.deepestRef x d fuel (Doc.refStr a1) = .ok (r, sch)) (hr : r ≠ "")
    (hupd : Replace.updateRef d key r = .ok d')
    (hT : Proofs.DeepestReaches.TableOK x T)
    (q0 q' : Pos) (ht1 : T.lookup (Doc.refStr a1) = some q0) (ht2 : T.lookup r = some q')
    (hcanon : AllCanon (Replace.keyTokens key)) (hkeys : keysCanon d = true)
    (hgoodT : ∀ doc s q, (Proofs.RetargetModel.bundleWith d T rest).target doc s = some q →
      Proofs.RetargetModel.Good (Replace.keyTokens key) q)
    (hops : Nat) (had : Proofs.Retarget.RSetting.Adequate (Proofs.RetargetModel.bundleWith d T rest) hops) :
    ∀ n p, Proofs.RetargetModel.Good (Replace.keyTokens key) p →
      unfold (Proofs.RetargetModel.bundleWith d T rest) hops n p =
        unfold (Proofs.RetargetModel.bundleWith d' T rest) hops n p :=
  retarget_preserves_meaning d d' key r hupd T rest a1 hget hv1 hr q0 q' ht1 ht2
    (Proofs.DeepestReaches.deepestRef_reaches x d T rest hT fuel _ r sch hfrag hdeep q0 q' ht1 ht2).1
    hcanon hkeys hgoodT hops had

/-- the expansion branch of `flattenAnonPointer`: `(r, sch) := DeepestRef(v)`, then `UpdateRefWithSchema(key, sch)` -/
theorem pointer_expand_step_preserves (x : Flatten.Ext) (d d' : J) (key : String) (fuel : Nat) (r : String)
    (sch : J) (T : List (String × Pos)) (rest : Bundle) (a1 : J)
    (hget : Spec.Pointer.get d (Replace.keyTokens key) = some a1) (hv1 : Doc.refStr a1 ≠ "")
    (hfrag : Flatten.hasFragmentOnly (Doc.refStr a1) = true)
    (hdeep : Flatten.deepestRef x d fuel (Doc.refStr a1) = .ok (r, some sch))
    (hupd : Replace.updateRefWithSchema d key sch = .ok d')
    (hT : Proofs.DeepestReaches.TableOK x T)
    (q0 : Pos) (etoks : List String) (ht1 : T.lookup (Doc.refStr a1) = some q0) (ht2 : T.lookup r = some ("", etoks))
    (hcanon : AllCanon (Replace.keyTokens key)) (hkeys : keysCanon d = true)
    (hgoodT : ∀ doc s q, (Proofs.RetargetModel.bundleWith d T rest).target doc s = some q →
      Proofs.InlineModel.GoodI (Replace.keyTokens key) q ∨ q = ("", Replace.keyTokens key))
    (hops : Nat) (had : Proofs.Retarget.RSetting.Adequate (Proofs.RetargetModel.bundleWith d T rest) hops)
    (hpos : 0 < hops) :
    (∀ n p, Proofs.InlineModel.GoodI (Replace.keyTokens key) p ∨ p = ("", Replace.keyTokens key) →
      unfold (Proofs.RetargetModel.bundleWith d T rest) hops n p =
        unfold (Proofs.RetargetModel.bundleWith d' T rest) hops n p) ∧
    (∀ n t, unfold (Proofs.RetargetModel.bundleWith d T rest) hops n ("", etoks ++ t) =
      unfold (Proofs.RetargetModel.bundleWith d' T rest) hops n ("", Replace.keyTokens key ++ t)) := by
  obtain ⟨hreach, hs⟩ :=
    Proofs.DeepestReaches.deepestRef_reaches x d T rest hT fuel _ r (some sch) hfrag hdeep q0 ("", etoks) ht1 ht2
  obtain ⟨hnode, hobj, hne⟩ := hs sch rfl
  rw [Proofs.RetargetModel.node_root] at hnode
  exact inline_preserves_meaning d d' key sch hupd T rest a1 hget hv1 etoks hnode hobj hne q0 ht1 hreach hcanon hkeys
    hgoodT hops had hpos

/-- `replace.RewriteSchemaToRef` (model) is the `setAt` of the setting: what the move theorem calls
    "leave a `$ref` node at `toks`" is what the primitive does -/
theorem rewriteSchemaToRef_is_setAt (d : J) (key ref : String) (d1 : J)
    (h : Replace.rewriteSchemaToRef d key ref = .ok d1) :
    Replace.setAt d (Replace.keyTokens key) (Replace.refNode ref) = some d1 := by
  unfold Replace.rewriteSchemaToRef at h
  simp only at h
  split at h
  · cases h
  · split at h
    · cases h
    · split at h
      · split at h
        · rename_i d' hs; cases h; exact hs
        · cases h
      · cases h

/-! ### the hypotheses can be met: moving `{"type": "object"}` out of `{"a": {…}}` -/

def tinyKvs : List (String × J) := [("a", .obj [("type", .str "object")])]

theorem tiny_nodes (p : List String) (j : J) (h : Spec.Pointer.get (.obj tinyKvs) p = some j) : Doc.refStr j = "" := by
  cases p with
  | nil => simp [Spec.Pointer.get] at h; subst h; rfl
  | cons a p1 =>
    simp only [Spec.Pointer.get, Spec.Pointer.step, tinyKvs, lookup] at h
    split at h
    · simp only [Option.bind_some] at h
      cases p1 with
      | nil => simp [Spec.Pointer.get] at h; subst h; rfl
      | cons b p2 =>
        simp only [Spec.Pointer.get, Spec.Pointer.step, lookup] at h
        split at h
        · simp only [Option.bind_some] at h
          cases p2 with
          | nil => simp [Spec.Pointer.get] at h; subst h; rfl
          | cons c p3 => simp [Spec.Pointer.get, Spec.Pointer.step] at h
        · simp at h
    · simp at h

def tiny : Setting where
  kvs := tinyKvs
  toks := ["a"]
  sch := [("type", .str "object")]
  n := "N"
  r := "#/definitions/N"
  loc := .str "models"
  T := []
  rest := { docs := [], refs := [] }
  d1 := .obj [("a", refNode "#/definitions/N")]
  hget := rfl
  hnoref := rfl
  hset := rfl
  htoks1 := by simp
  htoks2 := by simp
  hcanonToks := by intro t ht; simp at ht; subst ht; show canonTokB "a" = true; decide
  hdefs := by intro v hv; simp [tinyKvs, lookup] at hv
  hfresh := rfl
  hcanonN := by show canonTokB "N" = true; decide
  hkeys := by decide
  hrUnused := by
    intro p j h
    rw [tiny_nodes p j h]
    decide

theorem tiny_targetsOK : tiny.TargetsOK := by
  intro doc s q h
  simp only [Setting.b1, tiny, Bundle.target, List.lookup] at h
  split at h
  · rename_i tbl heq
    split at heq
    · cases heq
      simp [List.lookup] at h
    · cases heq
  · cases h

theorem tiny_chase (k : Nat) (p : Pos) : chase tiny.b1 (k + 1) p = (tiny.b1.node p).map fun _ => p := by
  rw [Setting.chase_succ]
  cases hn : tiny.b1.node p with
  | none => rfl
  | some j =>
    have hr : Doc.refStr j = "" := by
      obtain ⟨pd, pp⟩ := p
      simp only [Bundle.node, Setting.b1, tiny, List.lookup] at hn
      split at hn
      · rename_i d heq
        split at heq
        · cases heq; exact tiny_nodes pp j hn
        · cases heq
      · cases hn
    simp [hr]

theorem tiny_stable : ∀ hops, Setting.Stable tiny.b1 (hops + 1) := by
  intro hops p h
  rw [tiny_chase] at h ⊢
  exact h

/-- … so the theorem applies: in the tiny setting every allowed position keeps its meaning -/
example (hops : Nat) :
    ∀ n, unfold tiny.b1 (hops + 1) n ("", ["a"]) = unfold tiny.b2 (hops + 2) n ("", ["definitions", "N"]) := by
  intro n
  have := (naming_move_preserves_meaning tiny tiny_targetsOK (by decide) (hops + 1) (tiny_stable hops)).2 n []
    (by intro t ht; cases ht) (by intro k t' h; cases h)
  simpa [tiny, defn] using this

end C01
