import Verif.Model.Names
import Verif.Spec.Flat
import Verif.Proofs.Names

/-!
# C03 — created names are fresh up to letter case (model of `uniqifyName`)
-/

namespace C03
open Names

structure FactsOK (f : Facts) : Prop where
  caseInsensitive : f.uniqifyCaseInsensitive = true

/-- the name `uniqifyName` returns never equals an existing definition name, not even up to case
    (whenever there are definitions at all; with none, any name is fresh) -/
theorem uniqify_fresh (f : Facts) (hf : FactsOK f) (x : Ext) (defs : List String) (name : String) (fuel : Nat)
    (r : String × Bool) (h : uniqifyName f x defs name fuel = .ok r) :
    knownFold x defs r.1 = false := by
  rcases Proofs.Names.uniqifyName_ok_cases f x defs name fuel r h with ⟨rfl, hd | hk⟩ | ⟨u, rfl, hs⟩
  · subst hd; rfl
  · exact hk
  · rw [hf.caseInsensitive] at hs
    exact Proofs.Names.search_some_unknown _ _ _ _ _ hs

/-- the conflict flag is raised exactly when the requested name could not be used as it is -/
theorem flag_iff_changed (f : Facts) (x : Ext) (defs : List String) (name : String) (fuel : Nat)
    (r : String × Bool) (hne : name ≠ "") (h : uniqifyName f x defs name fuel = .ok r) :
    r.2 = false ↔ r.1 = name := by
  rcases Proofs.Names.uniqifyName_ok_cases f x defs name fuel r h with ⟨rfl, _⟩ | ⟨u, rfl, hs⟩
  · simp [hne]
  · obtain ⟨j, rfl⟩ := Proofs.Names.search_some_candidate _ _ _ _ _ hs
    simp only [if_neg hne]
    simpa using Proofs.Names.candidate_ne name j

/-- the search terminates: among `defs.length + 1` candidates with pairwise different fold keys one
    is unknown, so fuel `defs.length + 1` suffices -/
theorem uniqify_terminates (f : Facts) (hf : FactsOK f) (x : Ext) (defs : List String) (name : String) (fuel : Nat)
    (hfuel : fuel ≥ defs.length + 1)
    (hinj : ∀ base i j, i ≤ defs.length → j ≤ defs.length → x.fold (candidate base i) = x.fold (candidate base j) → i = j) :
    uniqifyName f x defs name fuel ≠ .outOfFuel := by
  intro h
  have hs := Proofs.Names.uniqifyName_outOfFuel f x defs name fuel h
  rw [hf.caseInsensitive] at hs
  exact Proofs.Names.search_fold_ne_none x defs _ fuel hfuel (hinj _) hs

/-- without the case-insensitive second stage (defect D8) the result can equal an existing name up to case -/
theorem not_fresh_without_fold :
    let x : Ext := { fold := Str.toLowerAscii }
    let f : Facts := { Facts.reference with uniqifyCaseInsensitive := false }
    ∃ r, uniqifyName f x ["a", "AOAIGEN"] "a" 5 = .ok r ∧ knownFold x ["a", "AOAIGEN"] r.1 = true := by
  exact ⟨("aOAIGen", true), by rfl, by decide⟩

/-- saving a definition under a fresh name leaves every other definition as it was -/
theorem save_keeps_others (defs : List (String × J)) (n : String) (v : J) (k : String) (h : k ≠ n) :
    J.lookup k (J.setKv n v defs) = J.lookup k defs := by
  exact J.lookup_setKv_ne n k v defs h

end C03
