import Verif.Properties.C11
import Verif.Spec.Pointer
import Verif.Proofs.PointerDoc

/-!
# C12 — every schema is indexed under a JSON pointer that resolves to it
-/

namespace C12
open J Spec.Index

/-- the schema index holds exactly the schemas of the document (definitions, nested, inline), each
    once, with name, top-level flag and allOf flag -/
theorem schemas_exact (f : Facts) (hf : C11.FactsOK f) (d : J) (hwf : C11.WF d) :
    (Index.schemas (Analyzer.analyze f d)).Perm ((allSchemas d).map schemaEntry) :=
  IndexProof.schemas_perm f hf.methods hf.defaultHeaderEnums d hwf.toProof

/-- every JSON object of the document has distinct keys (it came out of a Go map) -/
inductive NodupKeys : J → Prop
  | null : NodupKeys .null
  | bool (b) : NodupKeys (.bool b)
  | num (n) : NodupKeys (.num n)
  | str (s) : NodupKeys (.str s)
  | arr (xs) : (∀ x ∈ xs, NodupKeys x) → NodupKeys (.arr xs)
  | obj (kvs) : (kvs.map (·.1)).Nodup → (∀ kv ∈ kvs, NodupKeys kv.2) → NodupKeys (.obj kvs)

theorem NodupKeys.obj_inv (kvs : List (String × J)) (h : NodupKeys (.obj kvs)) :
    (kvs.map (·.1)).Nodup ∧ ∀ kv ∈ kvs, NodupKeys kv.2 := by
  cases h with | obj _ h1 h2 => exact ⟨h1, h2⟩

theorem NodupKeys.arr_inv (xs : List J) (h : NodupKeys (.arr xs)) : ∀ x ∈ xs, NodupKeys x := by
  cases h with | arr _ h1 => exact h1

-- `hpk` is part of the statements below but the proofs do not need it
set_option linter.unusedVariables false in
/-- the key of every indexed schema is a pointer that parses back to its token path and resolves,
    against the document, to that very schema -/
theorem resolves (d : J) (hn : NodupKeys d) (hpk : ∀ kv ∈ d.getObj "paths", Doc.isPathKey kv.1 = true) :
    ∀ p ∈ allSchemas d, Spec.Pointer.parse (ptr p.1) = p.1 ∧ Spec.Pointer.get d p.1 = some p.2 :=
  PointerProof.resolves NodupKeys NodupKeys.obj_inv NodupKeys.arr_inv hn

set_option linter.unusedVariables false in
/-- each schema is listed exactly once: the keys are pairwise distinct -/
theorem once (d : J) (hn : NodupKeys d) (hpk : ∀ kv ∈ d.getObj "paths", Doc.isPathKey kv.1 = true) :
    ((allSchemas d).map fun p => p.1).Nodup :=
  PointerProof.once NodupKeys NodupKeys.obj_inv NodupKeys.arr_inv hn

/-- top-level exactly for the entries of the definitions section -/
theorem toplevel_iff (d : J) : ∀ p ∈ allSchemas d, isTopLevel p.1 = true ↔ ∃ n, p.1 = ["definitions", n] := by
  intro p _
  unfold isTopLevel
  split <;> simp_all

end C12
