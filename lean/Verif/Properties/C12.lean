import Verif.Properties.C11
import Verif.Spec.Pointer
import Verif.Proofs.PointerDoc

/-!
# C12 — every schema is indexed under a JSON pointer that resolves to it
-/

namespace C12
open J Spec.Index

/-- the schema index holds exactly the schemas of the document (definitions, nested, inline), each
    once, with name, top-level flag and allOf flag -/
theorem schemas_exact (f : Facts) (hf : C11.FactsOK f) (d : J) (hwf : C11.WF d) :
    (Index.schemas (Analyzer.analyze f d)).Perm ((allSchemas d).map schemaEntry) :=
  IndexProof.schemas_perm f hf.methods hf.defaultHeaderEnums d hwf.toProof

/-- every JSON object of the document has distinct keys (it came out of a Go map) -/
inductive NodupKeys : J → Prop
  | null : NodupKeys .null
  | bool (b) : NodupKeys (.bool b)
  | num (n) : NodupKeys (.num n)
  | str (s) : NodupKeys (.str s)
  | arr (xs) : (∀ x ∈ xs, NodupKeys x) → NodupKeys (.arr xs)
  | obj (kvs) : (kvs.map (·.1)).Nodup → (∀ kv ∈ kvs, NodupKeys kv.2) → NodupKeys (.obj kvs)

theorem NodupKeys.obj_inv (kvs : List (String × J)) (h : NodupKeys (.obj kvs)) :
    (kvs.map (·.1)).Nodup ∧ ∀ kv ∈ kvs, NodupKeys kv.2 := by
  cases h with | obj _ h1 h2 => exact ⟨h1, h2⟩

theorem NodupKeys.arr_inv (xs : List J) (h : NodupKeys (.arr xs)) : ∀ x ∈ xs, NodupKeys x := by
  cases h with | arr _ h1 => exact h1

-- `hpk` is part of the statements below but the proofs do not need it
set_option linter.unusedVariables false in
/-- the key of every indexed schema is a pointer that parses back to its token path and resolves,
    against the document, to that very schema -/
theorem resolves (d : J) (hn : NodupKeys d) (hpk : ∀ kv ∈ d.getObj "paths", Doc.isPathKey kv.1 = true) :
    ∀ p ∈ allSchemas d, Spec.Pointer.parse (ptr p.1) = p.1 ∧ Spec.Pointer.get d p.1 = some p.2 :=
  PointerProof.resolves NodupKeys NodupKeys.obj_inv NodupKeys.arr_inv hn

set_option linter.unusedVariables false in
/-- each schema is listed exactly once: the keys are pairwise distinct -/
theorem once (d : J) (hn : NodupKeys d) (hpk : ∀ kv ∈ d.getObj "paths", Doc.isPathKey kv.1 = true) :
    ((allSchemas d).map fun p => p.1).Nodup :=
  PointerProof.once NodupKeys NodupKeys.obj_inv NodupKeys.arr_inv hn

/-- `"#" ++ ·` is injective -/
theorem str_append_left_cancel (a b c : String) (h : a ++ b = a ++ c) : b = c := by
  have := congrArg String.toList h
  simp only [String.toList_append] at this
  exact String.toList_inj.1 (List.append_cancel_left this)

/-- … and so are the *keys* under which the analyzer files them (the strings, not only the token paths): two schema
    positions never share a key, whatever the names - `a/properties/b` next to `a` with a property `b` included (the
    escaped spellings `#/definitions/a~1properties~1b` and `#/definitions/a/properties/b` differ).  A memo keyed by the
    unescaped concatenation would not have this (seeded change `b8-C12-schema-key-memo`). -/
theorem keys_distinct (d : J) (hn : NodupKeys d) (hpk : ∀ kv ∈ d.getObj "paths", Doc.isPathKey kv.1 = true) :
    ((allSchemas d).map fun p => key p.1).Nodup := by
  have h1 := once d hn hpk
  have h2 := resolves d hn hpk
  rw [show ((allSchemas d).map fun p => key p.1) = ((allSchemas d).map fun p => p.1).map key by simp]
  refine List.Nodup.map_on ?_ h1
  intro a ha b hb hab
  obtain ⟨pa, hpa, rfl⟩ := List.mem_map.1 ha
  obtain ⟨pb, hpb, rfl⟩ := List.mem_map.1 hb
  have := str_append_left_cancel _ _ _ hab
  rw [← (h2 pa hpa).1, ← (h2 pb hpb).1, this]

/-- … hence, in the analyzer's own insertion log, no schema key is written twice: the Go map assignment of
    `analyzeSchema` never overwrites an entry, and the map has one entry per schema of the document (the `Perm` of
    `schemas_exact` speaks about the log; this is what carries it to the map) -/
theorem indexed_keys_distinct (f : Facts) (hf : C11.FactsOK f) (d : J) (hwf : C11.WF d) (hn : NodupKeys d)
    (hpk : ∀ kv ∈ d.getObj "paths", Doc.isPathKey kv.1 = true) :
    ((Index.schemas (Analyzer.analyze f d)).map (·.1)).Nodup := by
  have hp := (schemas_exact f hf d hwf).map (·.1)
  refine hp.nodup_iff.2 ?_
  have := keys_distinct d hn hpk
  simpa [schemaEntry, Function.comp_def] using this

/-- … and the number of entries is the number of schemas -/
theorem indexed_count (f : Facts) (hf : C11.FactsOK f) (d : J) (hwf : C11.WF d) :
    (Index.schemas (Analyzer.analyze f d)).length = (allSchemas d).length := by
  simpa using (schemas_exact f hf d hwf).length_eq

/-- top-level exactly for the entries of the definitions section -/
theorem toplevel_iff (d : J) : ∀ p ∈ allSchemas d, isTopLevel p.1 = true ↔ ∃ n, p.1 = ["definitions", n] := by
  intro p _
  unfold isTopLevel
  split <;> simp_all

end C12

namespace C11
open J Spec.Index

/-- the keys of the entries of `refsOf ps` are a sublist of the keys of `ps` -/
theorem refsOf_keys_sublist (ps : List Pos) :
    ((refsOf ps).map (·.1)).Sublist (ps.map fun p => key p.1) := by
  induction ps with
  | nil => simp [refsOf]
  | cons p ps ih =>
    unfold refsOf at ih ⊢
    simp only [List.filterMap_cons, List.map_cons]
    split
    · rename_i h; split at h <;> simp_all
    · rename_i b h
      split at h
      · cases h; exact ih.cons_cons (key p.1)
      · cases h

/-- "each with its multiplicity" survives the map for the schema kind: in a document with distinct object keys, no two
    schema `$ref`s are filed under the same key, so the Go map `references.schemas` (and the schema part of
    `allRefs`) holds one entry per `$ref` of `refs_exact`'s right-hand side -/
theorem schema_ref_keys_distinct (d : J) (hn : C12.NodupKeys d)
    (hpk : ∀ kv ∈ d.getObj "paths", Doc.isPathKey kv.1 = true) :
    ((refsOf (allSchemas d)).map (·.1)).Nodup :=
  (refsOf_keys_sublist _).nodup (C12.keys_distinct d hn hpk)

end C11

namespace C13
open J Spec.Index

/-- a view that files each selected position under the position's key has a sublist of the positions' keys -/
theorem view_keys_sublist (g : Pos → Option (String × J)) (hg : ∀ p e, g p = some e → e.1 = key p.1)
    (ps : List Pos) : ((ps.filterMap g).map (·.1)).Sublist (ps.map fun p => key p.1) := by
  induction ps with
  | nil => simp
  | cons p ps ih =>
    simp only [List.filterMap_cons, List.map_cons]
    cases h : g p with
    | none => exact ih.cons _
    | some e => simp only [List.map_cons]; rw [hg p e h]; exact ih.cons_cons _

/-- the step from the log to the map for the schema category of the pattern index: in a document with distinct object
    keys no two schema patterns are filed under one key -/
theorem schema_pattern_keys_distinct (d : J) (hn : C12.NodupKeys d)
    (hpk : ∀ kv ∈ d.getObj "paths", Doc.isPathKey kv.1 = true) :
    ((patternsOf (allSchemas d)).map (·.1)).Nodup := by
  refine (view_keys_sublist _ ?_ _).nodup (C12.keys_distinct d hn hpk)
  intro p e h
  split at h
  · cases h; rfl
  · cases h

/-- … and the same for the enum index -/
theorem schema_enum_keys_distinct (d : J) (hn : C12.NodupKeys d)
    (hpk : ∀ kv ∈ d.getObj "paths", Doc.isPathKey kv.1 = true) :
    ((enumsOf (allSchemas d)).map (·.1)).Nodup := by
  refine (view_keys_sublist _ ?_ _).nodup (C12.keys_distinct d hn hpk)
  intro p e h
  split at h
  · cases h; rfl
  · cases h

end C13
