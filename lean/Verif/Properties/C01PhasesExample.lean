import Verif.Properties.C01Phases

/-!
# C01 — the hypotheses of the phase theorem can be met

`K` and `P` both refer to `N` under the absolute spelling `/r.json#/definitions/N`; the two steps of `normalizeRef`
rewrite them to `#/definitions/N`.  Every hypothesis of `C01.retarget_sequence_preserves_meaning` holds, with the hop
bound 2.
-/

namespace C01.PhasesExample
open J Replace Spec.Meaning Proofs.Retarget Proofs.RetargetModel Proofs.RetargetFold Proofs.Move Proofs.MoveBase Proofs.UpdateComm

def absN : String := "/r.json#/definitions/N"

def d : J := .obj [("definitions", .obj [
  ("N", .obj [("type", .str "object")]),
  ("P", .obj [("$ref", .str absN)]),
  ("K", .obj [("$ref", .str absN)])])]

def dn : J := .obj [("definitions", .obj [
  ("N", .obj [("type", .str "object")]),
  ("P", .obj [("$ref", .str "#/definitions/N")]),
  ("K", .obj [("$ref", .str "#/definitions/N")])])]

def posN : Pos := ("", ["definitions", "N"])
def T : List (String × Pos) := [("#/definitions/N", posN), (absN, posN)]
def rest : Bundle := { docs := [], refs := [] }
def b : Bundle := bundleWith d T rest
def steps : List Step := [⟨["definitions", "K"], "#/definitions/N"⟩, ⟨["definitions", "P"], "#/definitions/N"⟩]

theorem applied : applySteps steps d = some dn := by rfl

theorem chaseN (k : Nat) : chase b (k + 1) posN = some posN := by
  rw [Setting.chase_succ]
  have : b.node posN = some (.obj [("type", .str "object")]) := by rfl
  rw [this]; rfl

theorem target_cases (doc s : String) (q : Pos) (h : b.target doc s = some q) : q = posN := by
  by_cases hd : doc = ""
  · subst hd
    have ht : b.target "" s = T.lookup s := rfl
    rw [ht] at h
    simp only [T, List.lookup] at h
    by_cases h1 : s = "#/definitions/N"
    · subst h1; cases h; rfl
    · have hb1 : (s == "#/definitions/N") = false := by simpa using h1
      simp only [hb1] at h
      by_cases h2 : s = absN
      · subst h2; simp at h; exact h.symm
      · have hb2 : (s == absN) = false := by simpa using h2
        simp [hb2] at h
  · exfalso
    have hb : (doc == "") = false := by simpa using hd
    have : b.target doc s = none := by simp [b, bundleWith, Bundle.target, List.lookup, hb, rest]
    rw [this] at h; cases h

theorem adequate : RSetting.AdequateOn GoodAll b 2 := by
  intro h p e _ hc
  cases h with
  | zero => simp [chase] at hc
  | succ h =>
    rw [Setting.chase_succ] at hc ⊢
    cases hn : b.node p with
    | none => simp [hn] at hc
    | some j =>
      simp only [hn] at hc ⊢
      by_cases hr : Doc.refStr j = ""
      · simpa [hr] using hc
      · simp only [ne_eq, hr, not_false_eq_true, if_true] at hc ⊢
        cases ht : b.target p.1 (Doc.refStr j) with
        | none => simp [ht] at hc
        | some tq =>
          simp only [ht] at hc ⊢
          have := target_cases _ _ _ ht
          subst this
          cases h with
          | zero => simp [chase] at hc
          | succ k => rw [chaseN k] at hc; rw [chaseN 0]; exact hc

theorem canon2 (a c : String) (ha : canonTokB a = true) (hc : canonTokB c = true) : AllCanon [a, c] := by
  intro t ht
  simp only [List.mem_cons, List.mem_nil_iff, or_false] at ht
  rcases ht with rfl | rfl <;> assumption

/-- every hypothesis of the sequence theorem holds: `K` denotes the same tree before and after the two steps -/
theorem example_applies : ∀ n, unfold b 2 n ("", ["definitions", "K"]) = unfold (bundleWith dn T rest) 2 n ("", ["definitions", "K"]) := by
  intro n
  refine C01.retarget_sequence_preserves_meaning T rest 2 (by decide) steps d dn applied ?_ ?_ ?_ (by decide) adequate n _ ?_ ?_
  · intro doc s q h
    rw [target_cases doc s q h]
    exact ⟨Or.inr (canon2 _ _ (by decide) (by decide)), by decide⟩
  · intro s hs
    simp only [steps, List.mem_cons, List.mem_nil_iff, or_false] at hs
    rcases hs with rfl | rfl
    · exact ⟨.obj [("$ref", .str absN)], posN, rfl, by decide, by decide, rfl, rfl, canon2 _ _ (by decide) (by decide)⟩
    · exact ⟨.obj [("$ref", .str absN)], posN, rfl, by decide, by decide, rfl, rfl, canon2 _ _ (by decide) (by decide)⟩
  · refine List.pairwise_cons.2 ⟨?_, List.pairwise_cons.2 ⟨by simp, List.Pairwise.nil⟩⟩
    intro s hs
    simp only [List.mem_cons, List.mem_nil_iff, or_false] at hs
    subst hs
    exact ⟨by decide, by decide, by decide⟩
  · intro s hs
    simp only [steps, List.mem_cons, List.mem_nil_iff, or_false] at hs
    rcases hs with rfl | rfl
    · exact Or.inr ⟨canon2 _ _ (by decide) (by decide), by decide⟩
    · exact Or.inr ⟨canon2 _ _ (by decide) (by decide), by decide⟩
  · exact Or.inr (canon2 _ _ (by decide) (by decide))

end C01.PhasesExample
