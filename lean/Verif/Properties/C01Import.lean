import Verif.Proofs.ImportMove
import Verif.Proofs.RetargetModel

/-!
# C01 — the import move preserves the meaning of the API

What `importNewRef` / `importKnownRef` do to a bundle — copy a definition of another document into the root under a fresh
name, point the `$ref`s that designated it at the copy — stated as a *local* bisimulation on nodes
(`Proofs.ImportMove`): if positions related by `Rel` (a position of the domain with itself; `src ++ t` with `nd ++ t`)
hold nodes of the same shape that are `$ref`s together, whose `$ref`s designate related positions, then related positions
denote the same tree — at every unfolding depth and for every hop bound (the two chases take the same number of hops, so
no adequacy hypothesis is needed).  Covers the first round (the `$ref`s inside the copy still designate the other
document) and the later rounds (they are re-pointed to copies).  Not tied to the model function `Flatten.importNewRef`
yet (its `$ref` rebasing goes through external tables); the certificate checker validates imports per run.
-/

namespace C01
open J Spec.Meaning Proofs.ImportMove Proofs.Inline Proofs.Retarget

theorem import_preserves_meaning (S : MSetting) (hl : S.Local) (hops : Nat) :
    (∀ n p, S.Dom p → unfold S.b1 hops n p = unfold S.b2 hops n p) ∧
    (∀ n t, S.CDom t → unfold S.b1 hops n (ext S.src t) = unfold S.b2 hops n (ext S.nd t)) :=
  ⟨fun n p hd => MSetting.import_preserves hl hops n p p (Or.inl ⟨rfl, hd⟩),
   fun n t ht => MSetting.import_preserves hl hops n _ _ (Or.inr ⟨t, ht, rfl, rfl⟩)⟩

/-! ### non-vacuity: `H → aux.json#/definitions/X`, where `X` refers to itself -/

namespace ImportExample

def auxDoc : J := .obj [("definitions", .obj [("X", .obj [("type", .str "object"),
  ("properties", .obj [("n", .obj [("$ref", .str "#/definitions/X")])])])])]

def root1 : J := .obj [("definitions", .obj [("H", .obj [("$ref", .str "aux.json#/definitions/X")])])]

def root2 : J := .obj [("definitions", .obj [("H", .obj [("$ref", .str "#/definitions/x")]),
  ("x", .obj [("type", .str "object"),
    ("properties", .obj [("n", .obj [("$ref", .str "aux.json#/definitions/X")])])])])]

def srcPos : Pos := ("aux.json", ["definitions", "X"])
def ndPos : Pos := ("", ["definitions", "x"])
def hPos : Pos := ("", ["definitions", "H"])

def b1 : Bundle :=
  { docs := [("", root1), ("aux.json", auxDoc)],
    refs := [("", [("aux.json#/definitions/X", srcPos)]), ("aux.json", [("#/definitions/X", srcPos)])] }

def b2 : Bundle :=
  { docs := [("", root2), ("aux.json", auxDoc)],
    refs := [("", [("aux.json#/definitions/X", srcPos), ("#/definitions/x", ndPos)]), ("aux.json", [("#/definitions/X", srcPos)])] }

def S : MSetting where
  b1 := b1
  b2 := b2
  src := srcPos
  nd := ndPos
  Dom := fun p => p.1 = "aux.json" ∨ p = hPos
  CDom := fun t => t = [] ∨ t = ["type"] ∨ t = ["properties"] ∨ t = ["properties", "n"]

theorem node_aux (p : Pos) (hp : p.1 = "aux.json") : b2.node p = b1.node p := by
  obtain ⟨pd, pp⟩ := p
  simp only at hp; subst hp
  rfl

theorem target_aux (s : String) : b2.target "aux.json" s = b1.target "aux.json" s := rfl

theorem target_aux_cases (s : String) (q : Pos) (h : b1.target "aux.json" s = some q) : q = srcPos := by
  have : b1.target "aux.json" s = List.lookup s [("#/definitions/X", srcPos)] := rfl
  rw [this] at h
  simp only [List.lookup] at h
  split at h
  · cases h; rfl
  · cases h

theorem local_ok : S.Local where
  hid := by
    intro p hd
    rcases hd with hp | rfl
    · -- a position of the auxiliary document: the same node, the same `$ref` table
      unfold MSetting.NodeRel
      show (match b1.node p, b2.node p with | none, none => True | some a, some c => _ | _, _ => False)
      rw [node_aux p hp]
      cases hn : b1.node p with
      | none => trivial
      | some a =>
        refine ⟨Proofs.RetargetModel.shapeEq_refl a, Iff.rfl, fun _ => ?_⟩
        unfold MSetting.TargetsRel
        show (match b1.target p.1 _, b2.target p.1 _ with | none, none => True | some t1, some t2 => S.Rel t1 t2 | _, _ => False)
        rw [hp, target_aux]
        cases ht : b1.target "aux.json" (Doc.refStr a) with
        | none => trivial
        | some t1 => exact Or.inl ⟨rfl, Or.inl (by rw [target_aux_cases _ _ ht]; rfl)⟩
    · -- the holder `H`: it designated the remote definition, it now designates the copy
      unfold MSetting.NodeRel
      show (match b1.node hPos, b2.node hPos with | none, none => True | some a, some c => _ | _, _ => False)
      have h1 : b1.node hPos = some (.obj [("$ref", .str "aux.json#/definitions/X")]) := rfl
      have h2 : b2.node hPos = some (.obj [("$ref", .str "#/definitions/x")]) := rfl
      rw [h1, h2]
      refine ⟨rfl, by decide, fun _ => ?_⟩
      exact Or.inr ⟨[], Or.inl rfl, rfl, rfl⟩
  hcopy := by
    intro t ht
    unfold MSetting.NodeRel
    rcases ht with rfl | rfl | rfl | rfl
    · exact ⟨rfl, by decide, fun h => absurd rfl h⟩
    · exact ⟨⟨rfl, rfl, rfl⟩, by decide, fun h => absurd rfl h⟩
    · exact ⟨rfl, by decide, fun h => absurd rfl h⟩
    · refine ⟨rfl, by decide, fun _ => ?_⟩
      exact Or.inl ⟨rfl, Or.inl rfl⟩
  hdomC := by
    intro x a hd hn hr
    rcases hd with hp | rfl
    · exact ⟨fun _ _ key _ => Or.inl (by simpa [child] using hp), fun _ _ i => Or.inl (by simpa [child] using hp)⟩
    · have h1 : b1.node hPos = some (.obj [("$ref", .str "aux.json#/definitions/X")]) := rfl
      rw [show S.b1 = b1 from rfl, h1] at hn
      cases hn
      exact absurd hr (by decide)
  hcopyC := by
    intro t a ht hn hr
    rcases ht with rfl | rfl | rfl | rfl
    · have : S.b1.node (ext S.src []) = some (.obj [("type", .str "object"),
          ("properties", .obj [("n", .obj [("$ref", .str "#/definitions/X")])])]) := rfl
      rw [this] at hn; cases hn
      refine ⟨fun kvs hk key hkey => ?_, fun xs hx _ => (by cases hx)⟩
      cases hk
      have hv : (visible [("type", J.str "object"),
          ("properties", .obj [("n", .obj [("$ref", .str "#/definitions/X")])])]).map (·.1) = ["type", "properties"] := by decide
      rw [hv] at hkey
      simp only [List.mem_cons, List.mem_nil_iff, or_false] at hkey
      rcases hkey with rfl | rfl
      · exact Or.inr (Or.inl rfl)
      · exact Or.inr (Or.inr (Or.inl rfl))
    · have : S.b1.node (ext S.src ["type"]) = some (.str "object") := rfl
      rw [this] at hn; cases hn
      exact ⟨fun kvs hk _ _ => (by cases hk), fun xs hx _ => (by cases hx)⟩
    · have : S.b1.node (ext S.src ["properties"]) = some (.obj [("n", .obj [("$ref", .str "#/definitions/X")])]) := rfl
      rw [this] at hn; cases hn
      refine ⟨fun kvs hk key hkey => ?_, fun xs hx _ => (by cases hx)⟩
      cases hk
      have hv : (visible [("n", J.obj [("$ref", .str "#/definitions/X")])]).map (·.1) = ["n"] := by decide
      rw [hv] at hkey
      simp only [List.mem_cons, List.mem_nil_iff, or_false] at hkey
      subst hkey
      exact Or.inr (Or.inr (Or.inr rfl))
    · have : S.b1.node (ext S.src ["properties", "n"]) = some (.obj [("$ref", .str "#/definitions/X")]) := rfl
      rw [this] at hn; cases hn
      exact absurd hr (by decide)

/-- the holder `H` denotes the same tree before and after the import, at every depth and for every hop bound -/
theorem example_applies (hops n : Nat) : unfold b1 hops n hPos = unfold b2 hops n hPos :=
  (import_preserves_meaning S local_ok hops).1 n hPos (Or.inr rfl)

end ImportExample
end C01
