import Verif.Spec.Flat
import Verif.Properties.C12
import Verif.Proofs.Flat
import Verif.Properties.C01Skeleton

/-!
# C02 / C05 / C06 — the output validators say what they are meant to say

The validators of `Spec.Flat` are executable; these theorems spell out what acceptance means and
that the generic `$ref` walk misses nothing.

`allRefs_complete` carries one hypothesis that the first draft did not have, `CanonicalIndices`;
the input that forces it is recorded (and checked by the kernel) in
`Verif/Properties/C02Counterexamples.lean`.
-/

namespace C02
open J Spec.Flat

/-- every token of the path that is consumed by an array is the canonical decimal numeral of its
    index (`"7"`, not `"007"`); tokens consumed by objects are unconstrained.  Executable:
    `Proofs.Flat.canonIdx`. -/
def CanonicalIndices (d : J) (toks : List String) : Prop := Proofs.Flat.canonIdx d toks = true

instance (d : J) (toks : List String) : Decidable (CanonicalIndices d toks) :=
  inferInstanceAs (Decidable (_ = true))

-- `hn` is part of the statement but the proof does not need it
set_option linter.unusedVariables false in
/-- completeness of the generic walk: every object of the document that can be reached by a JSON
    pointer and carries a non-empty string `$ref` is listed, with that pointer (documents whose
    objects have distinct keys).

    ADDED HYPOTHESIS `hc : CanonicalIndices d toks`.  Without it the statement is false:
    `Spec.Pointer.get` reads array indices with `natOfDigits`, which accepts leading zeros, so
    `(.arr [.obj [("$ref", .str "x")]])` resolves `["00"]` to the `$ref` holder, while the walk lists
    it under `["0"]` only (`C02.Counterexamples.complete_needs_canonical_indices`). -/
theorem allRefs_complete (d : J) (hn : C12.NodupKeys d) (toks : List String) (j : J) (r : String)
    (hc : CanonicalIndices d toks)
    (hg : Spec.Pointer.get d toks = some j) (hr : j.get? "$ref" = some (.str r)) (hne : r ≠ "") :
    (toks, r) ∈ allRefs d :=
  Proofs.Flat.allRefs_complete d toks j r hc hg hr hne

/-- soundness of the walk: everything listed is really there -/
theorem allRefs_sound (d : J) (hn : C12.NodupKeys d) (tr : List String × String) (h : tr ∈ allRefs d) :
    ∃ j, Spec.Pointer.get d tr.1 = some j ∧ j.get? "$ref" = some (.str tr.2) ∧ tr.2 ≠ "" :=
  Proofs.Flat.allRefs_sound C12.NodupKeys C12.NodupKeys.obj_inv C12.NodupKeys.arr_inv d hn tr h

/-- C02: an accepted document has every `$ref` on a schema position and spelled exactly as the
    canonical reference of a definition present in the document -/
theorem canonical_sound (canon : String → String) (d : J) (h : isCanonical canon d = true) :
    ∀ tr ∈ allRefs d,
      (∃ kv ∈ d.getObj "definitions", tr.2 = canon kv.1) ∧ tr.1 ∈ schemaToks d :=
  Proofs.Flat.nonCanonical_nil (List.isEmpty_iff.1 h)

/-- C05 (first part) / C06 (no dangling): every remaining `$ref` targets a present definition -/
theorem local_sound (canon : String → String) (d : J) (h : nonLocal canon d = []) :
    ∀ tr ∈ allRefs d, ∃ kv ∈ d.getObj "definitions", tr.2 = canon kv.1 :=
  Proofs.Flat.nonLocal_nil h

/-- C06: every remaining definition is referred to by at least one `$ref` -/
theorem referenced_sound (canon : String → String) (d : J) (h : unreferenced canon d = []) :
    ∀ kv ∈ d.getObj "definitions", ∃ tr ∈ allRefs d, tr.2 = canon kv.1 :=
  Proofs.Flat.unreferenced_nil h

/-! ### first half of C02 on the pipeline model: the phases after the expansion leave the non-schema `$ref`s alone

Phase 1 (`spec.ExpandSpec`, a library call) replaces every parameter, response, path-item and items
`$ref` by its target.  Every later phase writes only inside schema positions (`C01.pipeline_keeps_skeleton`),
so whatever `$ref` a parameter, a response, a path item or an items object carries — in particular:
none — when the expansion is done, it carries when Flatten returns: for every document, option set,
table and fuel. -/

/-- the `$ref` member of a parameter, a response, a path item, or an items / header object below
    `paths` is the same before and after the pipeline (absent stays absent) -/
theorem nonschema_refs_untouched (fc : Facts) (x : Flatten.Ext) (o : Flatten.Opts) (fuel : Nat) (s s' : Flatten.St)
    (h : Flatten.flatten fc x o fuel s = .ok s') (toks : List String)
    (hr : Proofs.Skeleton.reachesOther .paths (toks ++ ["$ref"]) = true) :
    Spec.Pointer.get s'.doc ("paths" :: (toks ++ ["$ref"])) = Spec.Pointer.get s.doc ("paths" :: (toks ++ ["$ref"])) :=
  C01.pipeline_keeps_paths fc x o fuel s s' h (toks ++ ["$ref"]) hr

example : Proofs.Skeleton.reachesOther .paths (["/p", "get", "parameters", "0"] ++ ["$ref"]) = true := by decide
example : Proofs.Skeleton.reachesOther .paths (["/p", "parameters", "2"] ++ ["$ref"]) = true := by decide
example : Proofs.Skeleton.reachesOther .paths (["/p", "get", "responses", "200"] ++ ["$ref"]) = true := by decide
example : Proofs.Skeleton.reachesOther .paths (["/p"] ++ ["$ref"]) = true := by decide
example : Proofs.Skeleton.reachesOther .paths (["/p", "get", "parameters", "0", "items", "items"] ++ ["$ref"]) = true := by decide
example : Proofs.Skeleton.reachesOther .paths (["/p", "get", "responses", "default", "headers", "X-A", "items"] ++ ["$ref"]) = true := by decide
/-- … whereas the `$ref` of a schema is exactly what the phases rewrite -/
example : Proofs.Skeleton.reachesOther .paths (["/p", "get", "responses", "200", "schema"] ++ ["$ref"]) = false := by decide

end C02
