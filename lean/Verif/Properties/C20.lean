import Verif.Model.Classify
import Verif.Spec.Classify
import Verif.Proofs.Classify
import Verif.Proofs.ClassifyTermination

/-!
# C20 — schema classification is consistent, `$ref`-transparent and terminates

Model: `Classify.classify` (Verif/Model/Classify.lean), with fuel standing for "does it return",
the stack of `$ref`s being resolved, the facts extracted from schema.go (`schemaRefGuard`) and two
external functions (`Ext`: strfmt registry, decoding of `$ref` strings).  All theorems hold for
every `Ext`, every root document and every schema.
-/

namespace C20
open J Classify

structure FactsOK (f : Facts) : Prop where
  guard : f.schemaRefGuard = true

/-- the flags of every successful classification are coherent: simple-schema = known-type or
    simple-array or simple-map; simple-array implies array; simple-map implies map; map and
    extended-object, tuple and tuple-with-extra, array and tuple are mutually exclusive -/
theorem coherence (fc : Facts) (x : Ext) (root : J) (fuel : Nat) (visited : List String) (s : J) (f : Flags)
    (h : classify fc x root fuel visited s = .ok f) : Spec.Classify.coherent f = true :=
  Proofs.Classify.coherence fc x root fuel visited s f h

/-- a schema that carries a `$ref` classifies exactly like the schema the `$ref` designates
    (analysed one level down the stack), whatever siblings the `$ref` has -/
theorem ref_transparent (fc : Facts) (x : Ext) (root : J) (n : Nat) (visited : List String) (s target : J)
    (hr : Doc.refStr s ≠ "")
    (hv : (fc.schemaRefGuard && visited.contains (Doc.refStr s)) = false)
    (hres : resolve x root (Doc.refStr s) = some target)
    (hd : danglingFrom x root (n + 1) [] [Doc.refStr s] = false) :
    classify fc x root (n + 1) visited s = classify fc x root n (Doc.refStr s :: visited) target :=
  Proofs.Classify.ref_transparent fc x root n visited s target hr hv hres hd

/-- the documented rules: object with properties, allOf compositions and tuples are complex;
    primitives, arrays, maps and empty objects are not — for every schema of a documented shape
    whose classification succeeds -/
theorem documented_rules (fc : Facts) (x : Ext) (root : J) (fuel : Nat) (visited : List String) (s : J) (f : Flags)
    (b : Bool) (hs : Spec.Classify.expectedComplex (Spec.Classify.shapeOf s) = some b)
    (h : classify fc x root fuel visited s = .ok f) : isComplex f = b :=
  Proofs.Classify.documented_rules fc x root fuel visited s f b hs h

/-- every `$ref` string occurring in a schema node or below it, through every keyword -/
def refStrings (j : J) : List String := refsIn j

/-- an explicit fuel bound: (distinct `$ref`s that can ever be pushed on the stack + 1) × (nesting
    depth available + 1).  Any computable bound may be used here; it must only depend on the root,
    the schema and the size of the visited stack. -/
def depth : J → Nat
  | .obj kvs => 1 + depthKvs kvs
  | .arr xs => 1 + depthList xs
  | _ => 1
where
  depthKvs : List (String × J) → Nat
    | [] => 0
    | (_, v) :: rest => max (depth v) (depthKvs rest)
  depthList : List J → Nat
    | [] => 0
    | v :: rest => max (depth v) (depthList rest)

/-- classification terminates, also for schemas that are arrays or maps of themselves: with the
    guard, some amount of fuel (depending only on root, schema and external tables) always suffices -/
theorem terminates (fc : Facts) (hf : FactsOK fc) (x : Ext) (root : J) (visited : List String) (s : J) :
    ∃ B, ∀ fuel, fuel ≥ B → classify fc x root fuel visited s ≠ .outOfFuel :=
  ⟨Proofs.Classify.bound (Proofs.Classify.allRefs s ++ Proofs.Classify.allRefs root) visited
      (Proofs.Classify.depth root) (Proofs.Classify.depth s),
    fun fuel h => Proofs.Classify.terminates fc hf.guard x root visited s fuel h⟩

/-- without the guard the analysis of an array of itself never returns (defect D9): no amount of
    fuel suffices -/
theorem diverges_without_guard :
    let root : J := .obj [("definitions", .obj [("A", .obj [("type", .str "array"), ("items", .obj [("$ref", .str "#/definitions/A")])])])]
    let x : Ext := { knownFormat := fun _ => false, refTokens := fun r => if r = "#/definitions/A" then some ["definitions", "A"] else none }
    ∀ n, classify { Facts.reference with schemaRefGuard := false } x root n [] (.obj [("$ref", .str "#/definitions/A")]) = .outOfFuel :=
  fun n => Proofs.Classify.diverges_without_guard n

/-- with the guard the same schema is classified: an array that is not a simple array -/
theorem self_array_classified :
    let root : J := .obj [("definitions", .obj [("A", .obj [("type", .str "array"), ("items", .obj [("$ref", .str "#/definitions/A")])])])]
    let x : Ext := { knownFormat := fun _ => false, refTokens := fun r => if r = "#/definitions/A" then some ["definitions", "A"] else none }
    ∃ f, classify Facts.reference x root 10 [] (.obj [("$ref", .str "#/definitions/A")]) = .ok f ∧
      f.isArray = true ∧ f.isSimpleArray = false ∧ isComplex f = false :=
  Proofs.Classify.self_array_classified

end C20
