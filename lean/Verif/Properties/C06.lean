import Verif.Model.RemoveUnused
import Verif.Proofs.RemoveUnused
import Verif.Proofs.FlattenPipeline
import Verif.Proofs.FlattenImport
import Verif.Proofs.RemoveUnusedDangling

/-!
# C06 — RemoveUnused removes exactly what nothing refers to (model of the removal phases)
-/

namespace C06
open J RemoveUnused

/-- `removeUnusedShared` empties the shared sections and touches nothing else -/
theorem shared_sections_empty (d : J) :
    (removeShared d).getObj "parameters" = [] ∧ (removeShared d).getObj "responses" = [] ∧
    ∀ k, k ≠ "parameters" → k ≠ "responses" → (removeShared d).get? k = d.get? k := by
  refine ⟨?_, ?_, Proofs.RemoveUnused.get?_removeShared_ne d⟩
  · simp [getObj, Proofs.RemoveUnused.get?_removeShared_parameters]
  · simp [getObj, Proofs.RemoveUnused.get?_removeShared_responses]

/-- one pass keeps exactly the definitions some schema `$ref` designates, in their order -/
theorem singlePass_keeps_used (f : Facts) (x : Ext) (d : J) (hd : d.isObj = true) :
    (singlePass f x d).1.getObj "definitions" =
      (d.getObj "definitions").filter fun kv => (usedNames f x d).contains kv.1 := by
  have _ := hd  -- not needed: a non-object has no definitions, before and after
  exact Proofs.RemoveUnused.singlePass_getObj f x d

/-- a pass changes nothing but the definitions section -/
theorem singlePass_frame (f : Facts) (x : Ext) (d : J) (k : String) (hk : k ≠ "definitions") :
    (singlePass f x d).1.get? k = d.get? k := by
  exact Proofs.RemoveUnused.singlePass_get?_ne f x d k hk

/-- the removal loop terminates: every productive pass strictly shrinks the definitions, so
    `|definitions| + 1` rounds suffice — whatever characters the names contain -/
theorem terminates (f : Facts) (x : Ext) (d : J) (fuel : Nat) (hfuel : fuel ≥ (d.getObj "definitions").length + 1) :
    removeUnused f x fuel d ≠ .outOfFuel := by
  exact Proofs.RemoveUnused.removeUnused_ne_outOfFuel f x fuel d hfuel

/-- when the loop stops, every remaining definition is referred to by some schema `$ref` of the
    resulting document -/
theorem remaining_all_referenced (f : Facts) (x : Ext) (d d' : J) (fuel : Nat) (hd : d.isObj = true)
    (h : removeUnused f x fuel d = .ok d') :
    ∀ kv ∈ d'.getObj "definitions", (usedNames f x d').contains kv.1 = true := by
  have _ := hd  -- not needed: the loop invariant holds for every JSON value
  intro kv hkv
  have h1 := (Proofs.RemoveUnused.removeUnused_ok f x fuel d d' h).1
  rw [← h1] at hkv
  exact (List.mem_filter.1 hkv).2

/-- nothing else is touched, and the remaining definitions are a sub-list of the original ones -/
theorem only_definitions_shrink (f : Facts) (x : Ext) (d d' : J) (fuel : Nat) (hd : d.isObj = true)
    (h : removeUnused f x fuel d = .ok d') :
    (d'.getObj "definitions").Sublist (d.getObj "definitions") ∧
    ∀ k, k ≠ "definitions" → d'.get? k = d.get? k := by
  have _ := hd  -- not needed: the loop invariant holds for every JSON value
  exact (Proofs.RemoveUnused.removeUnused_ok f x fuel d d' h).2

/-- C06 for the whole pipeline of the Flatten model (`Flatten.flattenLocal`: every phase after
    `expand`, Minimal or full mode, documents whose schema `$ref`s are local): with RemoveUnused, when
    Flatten returns normally the shared parameters and responses sections are empty and every
    remaining definition is designated by a schema `$ref` of the returned document — whatever the
    document, the names in it, the external functions and the number of loop iterations.
    (That the returned `$ref`s do not dangle and that operations keep their meaning is decided per
    run by the validators of C02 / C01.) -/
theorem pipeline_removeUnused (fc : Facts) (x : Flatten.Ext) (o : Flatten.Opts) (fuel : Nat) (s s' : Flatten.St)
    (h : Flatten.flattenLocal fc x o fuel s = .ok s') (hr : o.removeUnused = true) :
    s'.doc.getObj "parameters" = [] ∧ s'.doc.getObj "responses" = [] ∧
    ∀ kv ∈ s'.doc.getObj "definitions",
      (RemoveUnused.usedNames fc { refName := Flatten.refName x } s'.doc).contains kv.1 = true :=
  Proofs.FlattenPipeline.flattenLocal_removeUnused fc x o fuel s s' h hr

/-- the same for `Flatten.flatten`, the pipeline with the real `importReferences` loop (bundles with
    auxiliary documents; `spec.ResolveRefWithBase` across documents is an external function): the
    import phase writes to the document only through `UpdateRef` and `Save` -/
theorem pipeline_removeUnused_multi (fc : Facts) (x : Flatten.Ext) (o : Flatten.Opts) (fuel : Nat) (s s' : Flatten.St)
    (h : Flatten.flatten fc x o fuel s = .ok s') (hr : o.removeUnused = true) :
    s'.doc.getObj "parameters" = [] ∧ s'.doc.getObj "responses" = [] ∧
    ∀ kv ∈ s'.doc.getObj "definitions",
      (RemoveUnused.usedNames fc { refName := Flatten.refName x } s'.doc).contains kv.1 = true :=
  Proofs.FlattenImport.flatten_removeUnused fc x o fuel s s' h hr

/-- none of the rewriting phases can bring a shared section back: the replace primitives only
    rewrite below keys that exist -/
theorem phases_never_create_shared_sections (fc : Facts) (x : Flatten.Ext) (o : Flatten.Opts) (fuel : Nat)
    (s s' : Flatten.St) (h : Flatten.stripPointersAndOAIGen fc x o fuel s = .ok s')
    (hn : Proofs.FlattenBase.NoShared s.doc) : Proofs.FlattenBase.NoShared s'.doc :=
  Proofs.FlattenPhases.stripPointersAndOAIGen_inv Proofs.FlattenPipeline.noShared_docInv fc x o fuel s s' h hn

/-- every definition designated by a schema `$ref` of the document exists (`$ref`s of the form
    `#/definitions/<name>`: what a successful `namePointers` leaves, C02) -/
def NoDangling (f : Facts) (x : Ext) (d : J) : Prop := Proofs.RemoveUnusedDangling.NoDangling f x d

/-- C06, third clause, for the removal phases: no `$ref` starts to dangle.  Dropping the shared
    sections, one removal pass and the whole removal loop keep `NoDangling`, whatever the names -/
theorem removal_creates_no_dangling (f : Facts) (x : Ext) (fuel : Nat) (d d' : J)
    (h : removeUnused f x fuel d = .ok d') (hn : NoDangling f x d) : NoDangling f x d' :=
  Proofs.RemoveUnusedDangling.removeUnused_noDangling f x fuel d d' h hn

theorem singlePass_creates_no_dangling (f : Facts) (x : Ext) (d : J) (hn : NoDangling f x d) :
    NoDangling f x (singlePass f x d).1 :=
  Proofs.RemoveUnusedDangling.singlePass_noDangling f x d hn

theorem removeShared_creates_no_dangling (f : Facts) (x : Ext) (d : J) (hn : NoDangling f x d) :
    NoDangling f x (removeShared d) :=
  Proofs.RemoveUnusedDangling.removeShared_noDangling f x d hn

/-- the same for the last phase of the Flatten model -/
theorem removeUnused_phase_creates_no_dangling (fc : Facts) (x : Flatten.Ext) (s s' : Flatten.St)
    (h : Flatten.removeUnused fc x s = .ok s')
    (hn : NoDangling fc { refName := Flatten.refName x } s.doc) :
    NoDangling fc { refName := Flatten.refName x } s'.doc := by
  unfold Flatten.removeUnused at h
  obtain ⟨d, hd, h⟩ := OutcomeM.bind_eq_ok.1 h
  simp only [OutcomeM.pure_eq_ok] at h
  subst h
  exact removal_creates_no_dangling fc _ _ s.doc d hd hn

/-- the hypothesis is not vacuous, and the conclusion is not trivial: a used definition that refers to
    another keeps it alive -/
example : NoDangling Facts.reference { refName := fun r => if r = "#/definitions/a" then some "a" else if r = "#/definitions/b" then some "b" else none }
    (.obj [("paths", .obj [("/p", .obj [("get", .obj [("responses", .obj [("200", .obj [
        ("description", .str "ok"), ("schema", .obj [("$ref", .str "#/definitions/a")])])])])])]),
      ("definitions", .obj [("a", .obj [("properties", .obj [("x", .obj [("$ref", .str "#/definitions/b")])])]),
                            ("b", .obj [("type", .str "string")]), ("unused", .obj [])])]) := by
  unfold NoDangling Proofs.RemoveUnusedDangling.NoDangling
  decide

end C06
