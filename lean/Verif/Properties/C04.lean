import Verif.Proofs.ReplaceKeys
import Verif.Proofs.UrlLemmas
import Verif.Proofs.UpdateFrame
import Verif.Properties.C12
import Verif.Proofs.StalePlans

/-!
# C04 — Flatten succeeds on well-formed input: the rewrite primitives accept every analyzer key

Flatten rewrites the document only through `internal/flatten/replace` (`UpdateRef`,
`RewriteSchemaToRef`, `UpdateRefWithSchema`), addressing schemas by the keys of the analyzer index.
These theorems are mechanism 2 of the property's anchors: for every document whose JSON objects have
distinct keys, every schema key of the index (C12: the index holds exactly `Spec.Index.allSchemas`)

* is resolved by the walk of the replace package to that very schema,
* with one of the Go dynamic types the primitives have a case for (`Replace.isSchemaKind`), and
* `UpdateRef` and `UpdateRefWithSchema` return no error on it; `RewriteSchemaToRef` returns no error
  unless the schema is held by a `not` keyword (the Go `rewriteParentRef` has no case for a schema
  holder: `rewriteSchemaToRef_under_not` pins that behaviour, which W does not reach).

For all names: the only hypothesis on the key is `PlainKey` — the pointer contains no `%` byte (which
the name alphabet excludes), so that `url.PathUnescape` leaves it alone (`UrlLemmas.pathUnescape_plain`).  What is *not* proved here: that every phase
only ever uses keys of an index that is in sync (C10's invariant) — between two reloads the phases
work on a stale index, and the per-run checks decide those cases.
-/

namespace C04
open J Spec.Index Replace

/-- the pointer holds no percent byte (the name alphabet excludes '%'), so that the URL-unescaping
    `getPointerFromKey` applies to a key (`url.PathUnescape`) leaves it alone -/
def PlainKey (toks : List String) : Prop := (37 : UInt8) ∉ (ptr toks).toUTF8.toList

instance (toks : List String) : Decidable (PlainKey toks) := inferInstanceAs (Decidable (_ ∉ _))

theorem plainKey_unescape (toks : List String) (h : PlainKey toks) : Str.pathUnescape (ptr toks) = some (ptr toks) :=
  UrlLemmas.pathUnescape_plain _ h

theorem keyTokens_key (toks : List String) (h : PlainKey toks) : keyTokens (key toks) = toks := by
  unfold keyTokens key
  have : String.ofList (("#" ++ ptr toks).toList.drop 1) = ptr toks := by
    simp [String.toList_append]
  rw [this, plainKey_unescape toks h]
  exact Str.parse_ptr toks

/-- every schema position of the document is reached by the replace package's walk, with a Go type
    the primitives handle; the `not` holder is the only source of the kind `notPtr` -/
theorem keys_walk (d : J) (hn : C12.NodupKeys d) :
    ∀ p ∈ allSchemas d, ∃ k, walk .swagger d p.1 = some (p.2, k) ∧ isSchemaKind k = true ∧
      (k = .notPtr → p.1.getLast? = some "not") := by
  intro p hp
  obtain ⟨k, hk, hs⟩ := ReplaceKeys.kres_allSchemas C12.NodupKeys C12.NodupKeys.obj_inv C12.NodupKeys.arr_inv hn p hp
  exact ⟨k, hk.1, hs.1, hs.2⟩

/-- `UpdateRef` succeeds on every schema key -/
theorem updateRef_succeeds (d : J) (hn : C12.NodupKeys d) (p : Pos) (hp : p ∈ allSchemas d)
    (hk : PlainKey p.1) (ref : String) : ∃ d', updateRef d (key p.1) ref = .ok d' := by
  obtain ⟨k, hw, hs, _⟩ := keys_walk d hn p hp
  have hg := ReplaceKeys.get_of_walk hw
  unfold updateRef
  simp only [keyTokens_key p.1 hk, hw]
  obtain ⟨d1, h1⟩ := ReplaceKeys.setAt_of_get d p.1 p.2 (refNode ref) hg
  obtain ⟨d2, h2⟩ := ReplaceKeys.setAt_of_get d p.1 p.2 (p.2.set "$ref" (.str ref)) hg
  cases k <;> simp [isSchemaKind] at hs <;> simp [h1, h2]

/-- `UpdateRefWithSchema` succeeds on every schema key -/
theorem updateRefWithSchema_succeeds (d : J) (hn : C12.NodupKeys d) (p : Pos) (hp : p ∈ allSchemas d)
    (hk : PlainKey p.1) (sch : J) : ∃ d', updateRefWithSchema d (key p.1) sch = .ok d' := by
  obtain ⟨k, hw, hs, _⟩ := keys_walk d hn p hp
  have hg := ReplaceKeys.get_of_walk hw
  unfold updateRefWithSchema
  simp only [keyTokens_key p.1 hk, hw, hs, if_true]
  obtain ⟨d1, h1⟩ := ReplaceKeys.setAt_of_get d p.1 p.2 sch hg
  simp [h1]

/-- `RewriteSchemaToRef` succeeds on every schema key that is not held by a `not` keyword -/
theorem rewriteSchemaToRef_succeeds (d : J) (hn : C12.NodupKeys d) (p : Pos) (hp : p ∈ allSchemas d)
    (hk : PlainKey p.1) (hnot : p.1.getLast? ≠ some "not") (ref : String) :
    ∃ d', rewriteSchemaToRef d (key p.1) ref = .ok d' := by
  obtain ⟨k, hw, hs, hnp⟩ := keys_walk d hn p hp
  have hg := ReplaceKeys.get_of_walk hw
  have hne : k ≠ .notPtr := fun h => hnot (hnp h)
  unfold rewriteSchemaToRef
  simp only [keyTokens_key p.1 hk, hw, hne, hs, if_true, if_false]
  obtain ⟨d1, h1⟩ := ReplaceKeys.setAt_of_get d p.1 p.2 (refNode ref) hg
  simp [h1]

/-- the same, stated for the keys of the analyzer's schema index (C12: the index is the traversal) -/
theorem analyzer_keys_rewritable (f : Facts) (hf : C11.FactsOK f) (d : J) (hwf : C11.WF d) (hn : C12.NodupKeys d) :
    ∀ e ∈ Index.schemas (Analyzer.analyze f d), ∃ p ∈ allSchemas d, e.1 = key p.1 ∧
      (PlainKey p.1 → ∀ ref, (∃ d', updateRef d e.1 ref = .ok d') ∧
        (∀ sch, ∃ d', updateRefWithSchema d e.1 sch = .ok d') ∧
        (p.1.getLast? ≠ some "not" → ∃ d', rewriteSchemaToRef d e.1 ref = .ok d')) := by
  intro e he
  have hmem := (C12.schemas_exact f hf d hwf).mem_iff.1 he
  obtain ⟨p, hp, rfl⟩ := List.mem_map.1 hmem
  refine ⟨p, hp, rfl, ?_⟩
  intro hk ref
  exact ⟨updateRef_succeeds d hn p hp hk ref, fun sch => updateRefWithSchema_succeeds d hn p hp hk sch,
    fun hnot => rewriteSchemaToRef_succeeds d hn p hp hk hnot ref⟩

/-! ### the `not` holder: pinned behaviour, and non-vacuity -/

def exampleDoc : J := .obj [("definitions", .obj [
  ("a/b", .obj [("type", .str "object"),
    ("properties", .obj [("x y", .obj [("type", .str "string")])]),
    ("not", .obj [("type", .str "integer")])])])]

/-- the hypotheses are met by a concrete document: its schema under `properties` is found with the
    kind "schema value in a map" and the one under `not` with the kind `notPtr` -/
example : walk .swagger exampleDoc ["definitions", "a/b", "properties", "x y"] =
    some (.obj [("type", .str "string")], .schemaVal) := by rfl

example : (allSchemas exampleDoc).map (·.1) =
    [["definitions", "a/b"], ["definitions", "a/b", "properties", "x y"], ["definitions", "a/b", "not"]] := by rfl

/-- `RewriteSchemaToRef` on a schema held by `not` is an error in the Go code (no case for a schema
    holder in `rewriteParentRef`), and so it is in the model: whatever the document, a key that walks
    to the kind `notPtr` is refused -/
theorem rewriteSchemaToRef_under_not (d : J) (key ref : String) (n : J)
    (h : walk .swagger d (keyTokens key) = some (n, .notPtr)) :
    rewriteSchemaToRef d key ref = .err "unhandled parent schema rewrite" := by
  unfold rewriteSchemaToRef
  simp only [h, if_true]

/-- … and such keys exist -/
example : walk .swagger exampleDoc ["definitions", "a/b", "not"] = some (.obj [("type", .str "integer")], .notPtr) := by
  rfl

/-! ### `UpdateRef` keeps the keys below the schema it rewrites valid

The phases work on a stale index between two reloads: a key recorded for a position *below* a schema whose
`$ref` has just been rewritten must still resolve.  Since the repair `076e7ce` it does, for every document: -/

/-- after `UpdateRef` the schema at the key carries the new `$ref` -/
theorem updateRef_sets_ref (d : J) (key ref : String) (d' : J) (h : updateRef d key ref = .ok d') :
    ∃ node, Spec.Pointer.get d (keyTokens key) = some node ∧
      Spec.Pointer.get d' (keyTokens key) = some (node.set "$ref" (.str ref)) :=
  Proofs.UpdateFrame.updateRef_sets d key ref d' h

/-- … and every sibling keyword of that `$ref`, with everything below it, is found unchanged under the same
    pointer (before the repair a `spec.Schema` held in a map or slice was replaced wholesale and these
    positions were gone: scenario `remote-ref-siblings`) -/
theorem updateRef_keeps_siblings (d : J) (key ref : String) (d' : J) (h : updateRef d key ref = .ok d')
    (t : String) (ht : t ≠ "$ref") (rest : List String) :
    Spec.Pointer.get d' (keyTokens key ++ t :: rest) = Spec.Pointer.get d (keyTokens key ++ t :: rest) :=
  Proofs.UpdateFrame.updateRef_keeps_siblings d key ref d' h t ht rest

/-! ### A pointer that moved with its holder is not visited at its old key

`namePointers` plans every anonymous pointer up front.  When `flattenAnonPointer` moves a schema to a new definition,
the pointers that schema holds have new keys; before the repair `630de91` their old keys were still visited and
`UpdateRefWithSchema` failed on a valid bundle ("no schema with ref found at …/items": scenario `pointer-inside-moved`).
Since the repair, for every document, plan and set of callers: -/

/-- after `flattenAnonPointer`, either the plan is unchanged (nothing was moved) or no planned key other than the one
    being visited lies under the place the moved schema has left -/
theorem moved_pointers_leave_the_plan (fc : Facts) (x : Flatten.Ext) (o : Flatten.Opts) (ops : List (String × Flatten.OpRef))
    (st : Flatten.St) (plans : List (String × Flatten.PtrPlan)) (key : String) (v : Flatten.PtrPlan)
    (r : Flatten.St × List (String × Flatten.PtrPlan))
    (h : Flatten.flattenAnonPointer fc x o ops st plans key v = .ok r) :
    r.2 = plans ∨ ∀ p ∈ r.2, p.1 = key ∨ Str.hasPrefix (Flatten.unescOrEmpty v.ref ++ "/") p.1 = false := by
  rcases Proofs.StalePlans.flattenAnonPointer_plans fc x o ops st plans key v r h with h' | ⟨callers, h'⟩
  · exact Or.inl h'
  · right
    rw [h']
    exact Proofs.StalePlans.plansAfterMove_clean v key callers plans

/-- `namePointers` returns the result of a pass in which every planned key was still there when its turn came: a pass
    that had to skip a moved pointer is always followed by another one -/
theorem namePointers_ends_with_complete_pass (fc : Facts) (x : Flatten.Ext) (o : Flatten.Opts) (s s' : Flatten.St)
    (h : Flatten.namePointers fc x o s = .ok s') :
    ∃ s0, Flatten.namePointersPass fc x o s0 = .ok (s', false) :=
  Proofs.StalePlans.namePointersLoop_last_pass fc x o _ s s' h

/-- the conclusion says something: a plan that still holds a key under the moved schema does not meet it, a plan with
    the visited key and keys elsewhere does -/
example (pl : Flatten.PtrPlan) :
    (∀ p ∈ [("k", pl), ("n/x", pl)], p.1 = "k" ∨ Str.hasPrefix ("m" ++ "/") p.1 = false) ∧
    ¬ (∀ p ∈ [("k", pl), ("m/x", pl)], p.1 = "k" ∨ Str.hasPrefix ("m" ++ "/") p.1 = false) := by
  constructor
  · intro p hp
    simp only [List.mem_cons, List.not_mem_nil, or_false] at hp
    rcases hp with hp | hp <;> subst hp
    · exact Or.inl rfl
    · exact Or.inr (show Str.hasPrefix ("m" ++ "/") "n/x" = false by decide)
  · intro h
    rcases h ("m/x", pl) (by simp) with h | h
    · exact absurd (show "m/x" = "k" from h) (by decide)
    · exact absurd (show Str.hasPrefix ("m" ++ "/") "m/x" = false from h) (by decide)

end C04
