import Verif.Model.Params
import Verif.Spec.Ops
import Verif.Properties.C14
import Verif.Proofs.Params

/-!
# C15 — effective parameters of an operation are resolved correctly
-/

namespace C15
open J Params

structure FactsOK (f : Facts) : Prop where
  methods : f.analyzerMethods.Perm (Doc.methods.map fun m => (Str.toUpperAscii m, m))
  idMethods : f.paramsForMethods.Perm Doc.methods
  nilSafe : f.paramsNilSafe = true

/-- asking for a (method, path) that designates no operation — including on a document without
    paths — yields an empty result, never a crash -/
theorem missing_designation_is_empty (f : Facts) (hf : FactsOK f) (x : Ext) (d : J) (hn : C14.PathsNodup d)
    (method path : String) (cb : Bool) (script : List Bool)
    (h : Spec.Ops.operationFor d method path = none) :
    ∃ r, safeParamsFor f x d method path cb script = .ok r ∧ r.res = [] ∧ r.calls = [] :=
  ⟨⟨[], []⟩, Proofs.Params.safeParamsFor_missing f hf.nilSafe x d method path cb script
    ((C14.operationFor_exact f ⟨hf.methods⟩ d hn method path).trans h), rfl, rfl⟩

theorem unknown_id_is_empty (f : Facts) (hf : FactsOK f) (x : Ext) (d : J) (id : String) (cb : Bool) (script : List Bool)
    (h : ((Spec.Ops.allOps d).filter fun o => Spec.Ops.idOf o = id) = []) :
    ∃ r, safeParametersFor f x d id cb script = .ok r ∧ r.res = [] ∧ r.calls = [] :=
  ⟨⟨[], []⟩, Proofs.Params.safeParametersFor_unknown f hf.idMethods hf.nilSafe x d id cb script h, rfl, rfl⟩

/-- the Safe variants never panic -/
theorem safe_never_panics (f : Facts) (hf : FactsOK f) (x : Ext) (d : J) (method path id : String) (script : List Bool) :
    (safeParamsFor f x d method path true script).isPanic = false ∧
    (safeParametersFor f x d id true script).isPanic = false :=
  ⟨Proofs.Params.safeParamsFor_no_panic f hf.nilSafe x d method path script,
   Proofs.Params.safeParametersFor_no_panic f hf.nilSafe x d id script⟩

/-- a parameter list in which every `$ref` designates a parameter of the document -/
def AllResolve (x : Ext) (d : J) (ps : List J) : Prop :=
  ∀ p ∈ ps, Doc.refStr p ≠ "" → ∃ t, resolveParam x d (Doc.refStr p) = .ok t

/-- what a parameter stands for: itself, or the parameter its `$ref` designates -/
def resolved (x : Ext) (d : J) (p : J) : Option J :=
  if Doc.refStr p = "" then some p else (resolveParam x d (Doc.refStr p)).toOption

/-- override rule: when every reference resolves, the value under a key is the *last* parameter
    (path-level first, then the operation's own) with that key, `$ref`s replaced by their targets;
    the callback is never invoked -/
theorem params_override (x : Ext) (d : J) (cb : Bool) (ps : List J) (acc : Acc)
    (hr : AllResolve x d ps) (hp : acc.panicked = false) (k : String) :
    let out := paramsAsMap x d cb ps acc
    out.panicked = false ∧ out.calls = acc.calls ∧
    lookup k out.res =
      (match ((ps.filterMap (resolved x d)).filter fun p => mapKey x p = k).getLast? with
       | some p => some p
       | none => lookup k acc.res) :=
  Proofs.Params.params_override x d cb ps acc hr hp k

/-- no unresolved placeholder is ever returned: every value put in the result by `paramsAsMap` is
    either an inline parameter or the target of a resolved reference -/
theorem no_placeholder (x : Ext) (d : J) (cb : Bool) (ps : List J) (acc : Acc)
    (hacc : ∀ kv ∈ acc.res, Doc.refStr kv.2 = "")
    (hshared : ∀ r t, resolveParam x d r = .ok t → Doc.refStr t = "") :
    ∀ kv ∈ (paramsAsMap x d cb ps acc).res, Doc.refStr kv.2 = "" :=
  Proofs.Params.no_placeholder x d cb ps acc hacc hshared

/-- the plain variants (nil callback) panic exactly when some reference does not resolve to a parameter -/
theorem plain_panics_iff_bad_ref (x : Ext) (d : J) (ps : List J) (acc : Acc) (hp : acc.panicked = false) :
    (paramsAsMap x d false ps acc).panicked = true ↔
      ∃ p ∈ ps, Doc.refStr p ≠ "" ∧ ∀ t, resolveParam x d (Doc.refStr p) ≠ .ok t :=
  Proofs.Params.plain_panics_iff_bad_ref x d ps acc hp

/-- with a callback that always answers "continue", it is invoked exactly once per reference that
    does not resolve to a parameter, in order, with the matching error -/
theorem safe_reports_exactly_bad_refs (x : Ext) (d : J) (ps : List J) (acc : Acc)
    (hp : acc.panicked = false) (hs : acc.script = []) :
    (paramsAsMap x d true ps acc).calls = acc.calls ++
      ps.filterMap fun p =>
        if Doc.refStr p = "" then none
        else match resolveParam x d (Doc.refStr p) with
          | .ok _ => none
          | .error e => some (Doc.refStr p, e) :=
  Proofs.Params.safe_reports_exactly_bad_refs x d ps acc hp hs

end C15
