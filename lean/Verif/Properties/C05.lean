import Verif.Properties.C08

/-!
# C05 — Expand mode: a `$ref`-free document stays `$ref`-free (phase model)

In Expand mode phase 1 is `spec.ExpandSpec` on the whole document (a library call, not modelled; its
output is validated per run: every remaining `$ref` is local and the meaning is preserved).  What the
rest of the pipeline does to its result is modelled: when the expansion left no `$ref` at all — the
case of a bundle without reference cycle — every later phase (`normalizeRef`, the import loop,
`namePointers`, `stripOAIGen`, the fixpoint loop) is the identity, for every document, external
function and fuel.  So the `$ref`-free, byte-for-byte reproducible output of the expansion is the
output of Flatten.  (With RemoveUnused the shared sections and the now unreferenced definitions are
removed afterwards — C06's theorems.)
-/

namespace C05
open J Flatten

/-- the analyzer sees no `$ref` in the document (by C11: the document holds none on any position
    that can carry one) -/
def RefFree (fc : Facts) (d : J) : Prop := Index.refsWhere (fun _ => true) (Analyzer.analyze fc d) = []

theorem refsWhere_nil (p : String → Bool) (es : List Analyzer.Ent)
    (h : Index.refsWhere (fun _ => true) es = []) : Index.refsWhere p es = [] := by
  unfold Index.refsWhere at *
  rw [List.filterMap_eq_nil_iff] at *
  intro e he
  have := h e he
  cases e <;> simp_all

theorem refMap_nil (p : String → Bool) (es : List Analyzer.Ent)
    (h : Index.refsWhere (fun _ => true) es = []) : refMap p es = [] := by
  unfold refMap
  rw [refsWhere_nil p es h]
  rfl

/-- a `$ref`-free document is a normal form of Expand mode without RemoveUnused -/
theorem refFree_isNF (fc : Facts) (x : Ext) (o : Opts) (d : J) (h : RefFree fc d)
    (he : o.expand = true) (hr : o.removeUnused = false) : isNF fc x o d = true := by
  have hi : (initial fc d).idx = Analyzer.analyze fc d := rfl
  have h1 : allRefs (initial fc d).idx = [] := by rw [hi]; exact refMap_nil _ _ h
  have h2 : refMap (· = "schema") (initial fc d).idx = [] := by rw [hi]; exact refMap_nil _ _ h
  simp [isNF, nfNormalize, nfLocal, nfPointers, h1, h2, he, hr]

/-- … hence the pipeline after the expansion returns it unchanged (same document, same index, empty
    bookkeeping) -/
theorem refFree_fixed (fc : Facts) (x : Ext) (o : Opts) (fuel : Nat) (d : J)
    (ops : List (String × OpRef)) (hops : opRefsByRef x (initial fc d).idx = .ok ops)
    (h : RefFree fc d) (he : o.expand = true) (hr : o.removeUnused = false) :
    flatten fc x o (fuel + 1) (initial fc d) = .ok (initial fc d) :=
  C08.identity_on_normal_forms_multi fc x o fuel d ops hops (refFree_isNF fc x o d h he hr)

/-- non-vacuity: a document without any `$ref` (an operation answering with an inline object) -/
def exampleDoc : J := .obj [
  ("paths", .obj [("/p", .obj [("get", .obj [("responses", .obj [("200", .obj [
    ("description", .str "ok"), ("schema", .obj [("type", .str "object"),
      ("properties", .obj [("a", .obj [("type", .str "string")])])])])])])])]),
  ("definitions", .obj [("unused", .obj [("type", .str "string")])])]

example : RefFree Facts.reference exampleDoc := by
  unfold RefFree
  decide

end C05
