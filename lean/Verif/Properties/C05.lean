import Verif.Properties.C08
import Verif.Proofs.RemoveUnusedDangling

/-!
# C05 — Expand mode: a `$ref`-free document stays `$ref`-free (phase model)

In Expand mode phase 1 is `spec.ExpandSpec` on the whole document (a library call, not modelled; its
output is validated per run: every remaining `$ref` is local and the meaning is preserved).  What the
rest of the pipeline does to its result is modelled: when the expansion left no `$ref` at all — the
case of a bundle without reference cycle — every later phase (`normalizeRef`, the import loop,
`namePointers`, `stripOAIGen`, the fixpoint loop) is the identity, for every document, external
function and fuel.  So the `$ref`-free, byte-for-byte reproducible output of the expansion is the
output of Flatten.  With RemoveUnused the shared sections and the (now unreferenced) definitions are
removed and the result is still `$ref`-free (`refFree_removeUnused`).
-/

namespace C05
open J Flatten

/-- the analyzer sees no `$ref` in the document (by C11: the document holds none on any position
    that can carry one) -/
def RefFree (fc : Facts) (d : J) : Prop := Proofs.RemoveUnusedDangling.RefFree fc d

theorem refsWhere_nil (p : String → Bool) (es : List Analyzer.Ent)
    (h : Index.refsWhere (fun _ => true) es = []) : Index.refsWhere p es = [] := by
  unfold Index.refsWhere at *
  rw [List.filterMap_eq_nil_iff] at *
  intro e he
  have := h e he
  cases e <;> simp_all

theorem refMap_nil (p : String → Bool) (es : List Analyzer.Ent)
    (h : Index.refsWhere (fun _ => true) es = []) : refMap p es = [] := by
  unfold refMap
  rw [refsWhere_nil p es h]
  rfl

/-- a `$ref`-free document is a normal form of Expand mode without RemoveUnused -/
theorem refFree_isNF (fc : Facts) (x : Ext) (o : Opts) (d : J) (h : RefFree fc d)
    (he : o.expand = true) (hr : o.removeUnused = false) : isNF fc x o d = true := by
  have hi : (initial fc d).idx = Analyzer.analyze fc d := rfl
  have h1 : allRefs (initial fc d).idx = [] := by rw [hi]; exact refMap_nil _ _ h
  have h2 : refMap (· = "schema") (initial fc d).idx = [] := by rw [hi]; exact refMap_nil _ _ h
  simp [isNF, nfNormalize, nfLocal, nfPointers, h1, h2, he, hr]

/-- … hence the pipeline after the expansion returns it unchanged (same document, same index, empty
    bookkeeping) -/
theorem refFree_fixed (fc : Facts) (x : Ext) (o : Opts) (fuel : Nat) (d : J)
    (ops : List (String × OpRef)) (hops : opRefsByRef x (initial fc d).idx = .ok ops)
    (h : RefFree fc d) (he : o.expand = true) (hr : o.removeUnused = false) :
    flatten fc x o (fuel + 1) (initial fc d) = .ok (initial fc d) :=
  C08.identity_on_normal_forms_multi fc x o fuel d ops hops (refFree_isNF fc x o d h he hr)

/-- with RemoveUnused: the shared sections are dropped, every phase in between is the identity, and
    the removal loop (no definition is referred to any more) returns a document that is still
    `$ref`-free — Flatten succeeds and the output holds no `$ref` at all -/
theorem refFree_removeUnused (fc : Facts) (x : Ext) (o : Opts) (fuel : Nat) (d : J)
    (ops : List (String × OpRef))
    (hops : opRefsByRef x (initial fc (RemoveUnused.removeShared d)).idx = .ok ops)
    (h : RefFree fc d) (he : o.expand = true) (hr : o.removeUnused = true) :
    ∃ s', flatten fc x o (fuel + 1) (initial fc d) = .ok s' ∧ RefFree fc s'.doc := by
  let d1 := RemoveUnused.removeShared d
  have h1 : RefFree fc d1 := Proofs.RemoveUnusedDangling.removeShared_refFree fc d h
  have hi : (initial fc d).idx = Analyzer.analyze fc d := rfl
  have hall : allRefs (initial fc d).idx = [] := by rw [hi]; exact refMap_nil _ _ h
  have hi1 : (initial fc d1).idx = Analyzer.analyze fc (initial fc d1).doc := rfl
  have hc1 : (initial fc d1).ctx.newRefs = [] := rfl
  have hall1 : allRefs (initial fc d1).idx = [] := refMap_nil _ _ h1
  have hsch1 : refMap (· = "schema") (initial fc d1).idx = [] := refMap_nil _ _ h1
  obtain ⟨d', hd', hfree'⟩ := Proofs.RemoveUnusedDangling.removeUnused_refFree_result fc { refName := refName x } d1 h1
  refine ⟨reload fc { (initial fc d1) with doc := d' }, ?_, hfree'⟩
  unfold flatten
  rw [Proofs.FlattenNF.normalizeRef_nf fc x o _ (by simp [nfNormalize, hall])]
  simp only [Bind.bind, Outcome.bind, hr, if_true]
  have hs2 : removeUnusedShared fc (initial fc d) = initial fc d1 := rfl
  rw [hs2, Proofs.FlattenImport.importReferences_nf fc x o fuel _ hi1 hc1 (by simp [nfLocal, hsch1])]
  simp only [he, Bool.not_true, Bool.and_false, Bool.false_eq_true, if_false, Pure.pure]
  have hs5 : stripPointersAndOAIGen fc x o (fuel + 1) (initial fc d1) = .ok (initial fc d1) := by
    unfold stripPointersAndOAIGen
    have hnp : nfPointers x (initial fc d1) = true := by
      unfold nfPointers
      rw [hall1]
      rfl
    rw [Proofs.FlattenNF.namePointers_nf fc x o _ ops hops hi1 hc1 hnp]
    simp only [Bind.bind, Outcome.bind]
    rw [Proofs.FlattenNF.stripOAIGen_nf fc x _ hi1 hc1]
    simp [stripLoop]
  rw [hs5]
  simp only []
  unfold Flatten.removeUnused
  show (RemoveUnused.removeUnused fc { refName := refName x } ((d1.getObj "definitions").length + 2) d1 >>= _) = _
  rw [hd']
  rfl

/-- non-vacuity: a document without any `$ref` (an operation answering with an inline object) -/
def exampleDoc : J := .obj [
  ("paths", .obj [("/p", .obj [("get", .obj [("responses", .obj [("200", .obj [
    ("description", .str "ok"), ("schema", .obj [("type", .str "object"),
      ("properties", .obj [("a", .obj [("type", .str "string")])])])])])])])]),
  ("definitions", .obj [("unused", .obj [("type", .str "string")])])]

example : RefFree Facts.reference exampleDoc := by
  unfold RefFree Proofs.RemoveUnusedDangling.RefFree
  decide

end C05
