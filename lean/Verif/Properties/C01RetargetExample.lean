import Verif.Proofs.RetargetModel
import Verif.Proofs.InlineModel

/-!
# C01 — the hypotheses of the re-targeting and in-place expansion theorems can be met

`K → P → N`: the definition `K` is a `$ref` to `P`, which is a `$ref` to `N`.  Re-targeting `K` to `N`
(`UpdateRef(#/definitions/K, #/definitions/N)`, here as the recursion `updR` on the token path, which
`Proofs.UpdateComm.updateRef_ok_iff` shows to be `Replace.updateRef`) satisfies every hypothesis of
`Proofs.RetargetModel.updR_retarget_preserves`, with the hop bound 3.
-/

namespace C01.RetargetExample
open J Replace Spec.Meaning Proofs.Retarget Proofs.RetargetModel Proofs.Move Proofs.MoveBase Proofs.UpdateComm

def d : J := .obj [("definitions", .obj [
  ("N", .obj [("type", .str "object")]),
  ("P", .obj [("$ref", .str "#/definitions/N")]),
  ("K", .obj [("$ref", .str "#/definitions/P")])])]

def d' : J := .obj [("definitions", .obj [
  ("N", .obj [("type", .str "object")]),
  ("P", .obj [("$ref", .str "#/definitions/N")]),
  ("K", .obj [("$ref", .str "#/definitions/N")])])]

def posN : Pos := ("", ["definitions", "N"])
def posP : Pos := ("", ["definitions", "P"])
def T : List (String × Pos) := [("#/definitions/N", posN), ("#/definitions/P", posP)]
def rest : Bundle := { docs := [], refs := [] }
def b : Bundle := bundleWith d T rest

theorem upd : updR "#/definitions/N" .swagger d ["definitions", "K"] = some d' := by rfl

theorem chaseN (k : Nat) : chase b (k + 1) posN = some posN := by
  rw [Setting.chase_succ]
  have : b.node posN = some (.obj [("type", .str "object")]) := by rfl
  rw [this]; rfl

theorem chaseP (k : Nat) : chase b (k + 2) posP = some posN := by
  rw [Setting.chase_succ]
  have hn : b.node posP = some (.obj [("$ref", .str "#/definitions/N")]) := by rfl
  have ht : b.target posP.1 (Doc.refStr (.obj [("$ref", .str "#/definitions/N")])) = some posN := by rfl
  rw [hn]
  simp only
  rw [if_pos (by decide), ht]
  exact chaseN k

theorem target_cases (doc s : String) (q : Pos) (h : b.target doc s = some q) :
    doc = "" ∧ ((s = "#/definitions/N" ∧ q = posN) ∨ (s = "#/definitions/P" ∧ q = posP)) := by
  by_cases hd : doc = ""
  · subst hd
    refine ⟨rfl, ?_⟩
    have ht : b.target "" s = T.lookup s := rfl
    rw [ht] at h
    simp only [T, List.lookup] at h
    by_cases h1 : s = "#/definitions/N"
    · subst h1; left; exact ⟨rfl, by cases h; rfl⟩
    · have hb1 : (s == "#/definitions/N") = false := by simpa using h1
      simp only [hb1] at h
      by_cases h2 : s = "#/definitions/P"
      · subst h2; right; exact ⟨rfl, by cases h; rfl⟩
      · have hb2 : (s == "#/definitions/P") = false := by simpa using h2
        simp [hb2] at h
  · exfalso
    have hb : (doc == "") = false := by simpa using hd
    have : b.target doc s = none := by
      simp [b, bundleWith, Bundle.target, List.lookup, hb, rest]
    rw [this] at h; cases h

theorem adequate : RSetting.Adequate b 3 := by
  intro h p e hc
  cases h with
  | zero => simp [chase] at hc
  | succ h =>
    rw [Setting.chase_succ] at hc ⊢
    cases hn : b.node p with
    | none => simp [hn] at hc
    | some j =>
      simp only [hn] at hc ⊢
      by_cases hr : Doc.refStr j = ""
      · simpa [hr] using hc
      · simp only [ne_eq, hr, not_false_eq_true, if_true] at hc ⊢
        cases ht : b.target p.1 (Doc.refStr j) with
        | none => simp [ht] at hc
        | some tq =>
          simp only [ht] at hc ⊢
          obtain ⟨_, hq | hq⟩ := target_cases _ _ _ ht
          · obtain ⟨_, rfl⟩ := hq
            cases h with
            | zero => simp [chase] at hc
            | succ k => rw [chaseN k] at hc; rw [chaseN 1]; exact hc
          · obtain ⟨_, rfl⟩ := hq
            cases h with
            | zero => simp [chase] at hc
            | succ k =>
              cases k with
              | zero =>
                rw [Setting.chase_succ] at hc
                have hnP : b.node posP = some (.obj [("$ref", .str "#/definitions/N")]) := by rfl
                simp only [hnP] at hc
                rw [if_pos (by decide)] at hc
                split at hc <;> simp [chase] at hc
              | succ m => rw [chaseP m] at hc; rw [chaseP 0]; exact hc

theorem goodN : Good ["definitions", "K"] posN := by
  refine Or.inr ⟨?_, ?_⟩
  · intro t ht
    simp only [posN, List.mem_cons, List.mem_nil_iff, or_false] at ht
    rcases ht with rfl | rfl <;> (show canonTokB _ = true; decide)
  · decide

theorem goodP : Good ["definitions", "K"] posP := by
  refine Or.inr ⟨?_, ?_⟩
  · intro t ht
    simp only [posP, List.mem_cons, List.mem_nil_iff, or_false] at ht
    rcases ht with rfl | rfl <;> (show canonTokB _ = true; decide)
  · decide

/-- every hypothesis of the re-targeting theorem holds for `K → P → N`, so every good position — `K` itself, for
    instance — denotes the same tree before and after -/
theorem example_applies : ∀ n, unfold b 3 n ("", ["definitions", "K"]) =
    unfold (bundleWith d' T rest) 3 n ("", ["definitions", "K"]) := by
  intro n
  refine updR_retarget_preserves d d' ["definitions", "K"] "#/definitions/N" upd T rest
    (.obj [("$ref", .str "#/definitions/P")]) rfl (by decide) (by decide) posP posN rfl rfl ?_ ?_ (by decide) ?_ 3 adequate
    n _ ?_
  · -- `N` lies on the chain that starts at `P`
    exact Reaches.step (j := .obj [("$ref", .str "#/definitions/N")]) rfl (by decide) rfl (Reaches.refl _)
  · intro t ht
    simp only [List.mem_cons, List.mem_nil_iff, or_false] at ht
    rcases ht with rfl | rfl <;> (show canonTokB _ = true; decide)
  · intro doc s q h
    obtain ⟨_, hq | hq⟩ := target_cases doc s q h
    · rw [hq.2]; exact goodN
    · rw [hq.2]; exact goodP
  · refine Or.inr ⟨?_, ?_⟩
    · intro t ht
      simp only [List.mem_cons, List.mem_nil_iff, or_false] at ht
      rcases ht with rfl | rfl <;> (show canonTokB _ = true; decide)
    · decide

/-! ### in-place expansion: `K` replaced by a copy of the schema its chain ends at (`N`) -/

open Proofs.InlineModel in
def dInl : J := .obj [("definitions", .obj [
  ("N", .obj [("type", .str "object")]),
  ("P", .obj [("$ref", .str "#/definitions/N")]),
  ("K", .obj [("type", .str "object")])])]

theorem setInl : setAt d ["definitions", "K"] (.obj [("type", .str "object")]) = some dInl := by rfl

theorem goodIN : Proofs.InlineModel.GoodI ["definitions", "K"] posN := by
  refine Or.inr ⟨?_, by decide⟩
  intro t ht
  simp only [posN, List.mem_cons, List.mem_nil_iff, or_false] at ht
  rcases ht with rfl | rfl <;> (show canonTokB _ = true; decide)

theorem goodIP : Proofs.InlineModel.GoodI ["definitions", "K"] posP := by
  refine Or.inr ⟨?_, by decide⟩
  intro t ht
  simp only [posP, List.mem_cons, List.mem_nil_iff, or_false] at ht
  rcases ht with rfl | rfl <;> (show canonTokB _ = true; decide)

/-- every hypothesis of the in-place expansion theorem holds as well: `K` denotes the same tree before and after, and
    what lies below `K` afterwards is what lay below `N` -/
theorem example_inline_applies :
    (∀ n, unfold b 3 n ("", ["definitions", "K"]) = unfold (bundleWith dInl T rest) 3 n ("", ["definitions", "K"])) ∧
    (∀ n t, unfold b 3 n ("", ["definitions", "N"] ++ t) =
      unfold (bundleWith dInl T rest) 3 n ("", ["definitions", "K"] ++ t)) := by
  have := Proofs.InlineModel.setAt_inline_preserves d dInl ["definitions", "K"] (.obj [("type", .str "object")]) setInl T rest
    (.obj [("$ref", .str "#/definitions/P")]) rfl (by decide) ["definitions", "N"] rfl ⟨_, rfl⟩ (by decide) posP rfl
    (Reaches.step (j := .obj [("$ref", .str "#/definitions/N")]) rfl (by decide) rfl (Reaches.refl _))
    (by intro t ht
        simp only [List.mem_cons, List.mem_nil_iff, or_false] at ht
        rcases ht with rfl | rfl <;> (show canonTokB _ = true; decide))
    (by decide)
    (by intro doc s q h
        obtain ⟨_, hq | hq⟩ := target_cases doc s q h
        · rw [hq.2]; exact Or.inl goodIN
        · rw [hq.2]; exact Or.inl goodIP)
    3 adequate (by decide)
  exact ⟨fun n => this.1 n _ (Or.inr rfl), fun n t => this.2 n t⟩

end C01.RetargetExample
