import Verif.Proofs.NoPanic

/-!
# C09 — fail safe: no panic is reachable in the modelled pipeline of Flatten

The model writes a Go run-time panic as the outcome `.panic`.  For every document, option set,
external-function table, flatten context and amount of fuel, the modelled pipeline (every phase after
`spec.ExpandSpec`: `normalizeRef`, `removeUnusedShared`, the import loop with `importNewRef` /
`importKnownRef`, `nameInlinedSchemas` with the namer, `namePointers` with `DeepestRef` and
`flattenAnonPointer`, `stripOAIGen`, the fixpoint loop, `removeUnused`) returns `ok`, an error, or runs
out of fuel — never a panic.  The one index expression of that code that could panic, `pr[0]` in
`stripOAIGenForRef`, is gone with the repair that searches the first parent outside of the definition
(`strip_never_panics`, `strip_skips_self_references`).

What this does not cover: panics *inside* the libraries the model treats as external functions
(`spec.ExpandSpec`, `jsonpointer`, `swag`), typed-nil dereferences that the JSON view of a document
cannot express (the model returns the error the repaired code returns: fixes `a80dca9`, `6dcc395`),
stack exhaustion and wall-clock hangs — those are decided per run by the child-process outcomes of the
`flatten` / `flattenPlus` streams (fault enumeration).  Termination of the modelled loops is
`C06.terminates`, `C20.terminates`, `C03.uniqify_terminates`.
-/

namespace C09
open Flatten Proofs.NoPanic

/-- the pipeline with the real import loop never panics -/
theorem pipeline_never_panics (fc : Facts) (x : Ext) (o : Opts) (fuel : Nat) (s : St) (w : String) :
    flatten fc x o fuel s ≠ .panic w := by
  intro h
  have := np_flatten fc x o fuel s
  rw [NP, h] at this
  cases this

/-- the same for the short-cut pipeline used on single documents -/
theorem pipeline_local_never_panics (fc : Facts) (x : Ext) (o : Opts) (fuel : Nat) (s : St) (w : String) :
    flattenLocal fc x o fuel s ≠ .panic w := by
  intro h
  have := np_flattenLocal fc x o fuel s
  rw [NP, h] at this
  cases this

/-- `analysis.Schema` (the classification model) never panics -/
theorem classify_never_panics (fc : Facts) (x : Classify.Ext) (root : J) (fuel : Nat) (visited : List String)
    (s : J) (w : String) : Classify.classify fc x root fuel visited s ≠ .panic w := by
  intro h
  have := np_classify fc x root fuel visited s
  rw [NP, h] at this
  cases this

/-- `stripOAIGenForRef` alone never panics, whatever entry it is called on (the former `pr[0]` site:
    the first parent is now found by a search among the parents outside of the definition) -/
theorem strip_never_panics (fc : Facts) (x : Ext) (st : St) (k : String) (r : NewRef) (w : String) :
    stripOAIGenForRef fc x st k r ≠ .panic w := by
  intro h
  have := np_stripOAIGenForRef fc x st k r
  rw [NP, h] at this
  cases this

/-- an entry whose parents all lie inside its own definition (an array or map of itself that nothing
    else refers to) is left alone: no re-inlining into itself -/
theorem strip_skips_self_references (fc : Facts) (x : Ext) (st : St) (k : String) (r : NewRef)
    (h : (SortRef.topmostFirst r.parents).findIdx?
      (fun p => p ≠ r.path && !Str.hasPrefix (r.path ++ "/") p) = none) :
    stripOAIGenForRef fc x st k r = .ok (st, false) := by
  unfold stripOAIGenForRef
  dsimp only
  rw [h]
  rfl

end C09
