import Verif.Proofs.FlattenNF
import Verif.Proofs.FlattenImport

/-!
# C08 — Flatten is idempotent (phase model: identity on normal forms)

`Flatten.isNF fc x o d` is an executable predicate: no `$ref` carries the root's absolute path, every
schema `$ref` is local, (full mode) no complex schema is inline, every `$ref` is
`#/definitions/<name>` of something present, (RemoveUnused) the shared sections are absent and every
definition is referred to.  The driver evaluates it on every output of the implementation (clause
`not-normal-form` of the C08 check).  The theorem: on such a document the whole pipeline after
`expand` is the identity — for every document, option set and external function.  Together: a
second Flatten of an output changes nothing.  What is *not* proved: that phase 1 (`spec.ExpandSpec`,
a library call) is the identity on outputs — they contain no parameter / response / path-item
`$ref`; the `phases` stream and the byte comparison of the second run cover it per run.
-/

namespace C08
open Flatten

/-- on a document in normal form, starting from a fresh analysis and an empty flatten context, the
    pipeline returns exactly the state it started from: same document, same index, no bookkeeping -/
theorem identity_on_normal_forms (fc : Facts) (x : Ext) (o : Opts) (fuel : Nat) (d : J)
    (ops : List (String × OpRef)) (hops : opRefsByRef x (initial fc d).idx = .ok ops)
    (h : isNF fc x o d = true) :
    flattenLocal fc x o (fuel + 1) (initial fc d) = .ok (initial fc d) :=
  Proofs.FlattenNF.flattenLocal_nf fc x o fuel d ops hops h

/-- the same for the pipeline with the real import loop: a normal form has only local schema `$ref`s,
    so a round of `importExternalReferences` finds nothing and the loop stops -/
theorem identity_on_normal_forms_multi (fc : Facts) (x : Ext) (o : Opts) (fuel : Nat) (d : J)
    (ops : List (String × OpRef)) (hops : opRefsByRef x (initial fc d).idx = .ok ops)
    (h : isNF fc x o d = true) :
    flatten fc x o (fuel + 1) (initial fc d) = .ok (initial fc d) :=
  Proofs.FlattenImport.flatten_nf fc x o fuel d ops hops h

/-- in particular the document is unchanged -/
theorem document_unchanged (fc : Facts) (x : Ext) (o : Opts) (fuel : Nat) (d : J)
    (ops : List (String × OpRef)) (hops : opRefsByRef x (initial fc d).idx = .ok ops)
    (h : isNF fc x o d = true) (s' : St) (hs : flattenLocal fc x o (fuel + 1) (initial fc d) = .ok s') :
    s'.doc = d := by
  rw [identity_on_normal_forms fc x o fuel d ops hops h] at hs
  cases hs
  rfl

/-- each phase separately (what `NF → phase = id` means phase by phase) -/
theorem phases_idle (fc : Facts) (x : Ext) (o : Opts) (s : St) (ops : List (String × OpRef))
    (hops : opRefsByRef x s.idx = .ok ops) (hi : s.idx = Analyzer.analyze fc s.doc) (hc : s.ctx.newRefs = []) :
    (nfNormalize o s = true → normalizeRef fc x o s = .ok s) ∧
    (nfNaming fc x s = true → nameInlinedSchemas fc x o s = .ok s) ∧
    (nfPointers x s = true → namePointers fc x o s = .ok s) ∧
    (stripOAIGen fc x s = .ok (s, false)) ∧
    (nfUnused fc x s.doc = true → Flatten.removeUnused fc x s = .ok s) :=
  ⟨Proofs.FlattenNF.normalizeRef_nf fc x o s,
   Proofs.FlattenNF.nameInlinedSchemas_nf fc x o s ops hops hi hc,
   Proofs.FlattenNF.namePointers_nf fc x o s ops hops hi hc,
   Proofs.FlattenNF.stripOAIGen_nf fc x s hi hc,
   Proofs.FlattenNF.removeUnused_nf fc x s hi⟩

/-- the hypothesis is not vacuous and not trivial: an empty document is in normal form … -/
example : isNF Facts.reference
    { mkRef := fun _ => none, jsonName := fun _ => none, goName := fun _ => none, fold := fun _ => none,
      refTokens := fun _ => none, knownFormat := fun _ => false, statusText := fun _ => none }
    { minimal := true, removeUnused := true } (.obj []) = true := by decide

/-- … so is a document whose only `$ref` designates its only definition, and it stops being one when
    the definition is missing -/
def exampleExt : Ext :=
  { mkRef := fun _ => none, jsonName := fun _ => none, goName := fun _ => none, fold := fun _ => none,
    refTokens := fun r => if r = "#/definitions/a" then some ["definitions", "a"] else none,
    knownFormat := fun _ => false, statusText := fun _ => none }

def exampleDoc (withDef : Bool) : J := .obj [
  ("paths", .obj [("/p", .obj [("get", .obj [("responses", .obj [("200", .obj [
    ("description", .str "ok"), ("schema", .obj [("$ref", .str "#/definitions/a")])])])])])]),
  ("definitions", .obj (if withDef then [("a", .obj [("type", .str "string")])] else []))]

example : isNF Facts.reference exampleExt { minimal := true, removeUnused := true, basePath := "/tmp/root.json" } (exampleDoc true) = true := by decide
example : isNF Facts.reference exampleExt { minimal := true, removeUnused := true, basePath := "/tmp/root.json" } (exampleDoc false) = false := by decide

end C08
