import Verif.Proofs.MixinWarns

/-!
# C17 — Mixin is an ordered, primary-wins merge that reports every collision

Model: `Mixin.mixin` (Verif/Model/Mixin.lean), parameterised by facts extracted from mixin.go.
Spec: `Spec.Mixin` (first-wins lookup, de-duplicated union, first-non-empty, collision count), over
`docs = primary :: mixins`.  All theorems hold for every JSON object `primary`, every list of
mixins (any length, not only 0..3) and every order of the entries inside each object (the lists
standing for Go maps are arbitrary, so every iteration order is covered).

`never_panics`, `keyed_first_wins` and `lists_dedup_union` are proved exactly as first stated.
`paths_first_wins`, `scalars_filled_from_first` and `warnings_count` are false as first stated for
the model as written; each carries one added, decidable hypothesis, with the counterexample that
forces it recorded (and checked by the kernel) in `Verif/Properties/C17Counterexamples.lean`.
-/

namespace C17
open J Spec.Mixin

/-- what the theorems need from the regenerated facts -/
structure FactsOK (f : Facts) : Prop where
  extDocsGuard : f.mixinExtDocsGuard = true

/-! ## the added hypotheses -/

/-- absent (Go: nil pointer), or a JSON object -/
def objOrAbsent : Option J → Bool
  | none => true
  | some j => j.isObj

/-- the nil-able structs met along `path` (`info`, `info.contact`, `info.license`, `externalDocs`)
    are JSON objects when present — what `go-openapi/spec` guarantees for any document it loaded -/
def objAlong : List String → Option J → Bool
  | [], _ => true
  | key :: rest, o => objOrAbsent (o.bind (·.get? key)) && objAlong rest (o.bind (·.get? key))

/-- the maps of a mixin that the merge ranges over (the five keyed sections, and the extensions of
    the document, of `info`, of `info.contact` and of `info.license`) have distinct keys: they are
    Go maps -/
def DistinctKeys (m : J) : Prop :=
  (∀ s ∈ keyedSections, ((sectionOf s m).map (·.1)).Nodup) ∧
  (extKeysOf (some m)).Nodup ∧ (extKeysOf (info m)).Nodup ∧
  (extKeysOf (sub "contact" (info m))).Nodup ∧ (extKeysOf (sub "license" (info m))).Nodup

instance (m : J) : Decidable (DistinctKeys m) := by unfold DistinctKeys; infer_instance

theorem objAlong_eq : objAlong = Proofs.Mixin.objAlong := by
  funext path
  induction path with
  | nil => rfl
  | cons key rest ih => funext o; simp only [objAlong, Proofs.Mixin.objAlong, ih]; rfl

/-! ## the property -/

/-- Mixin never panics, whichever optional parts are absent from either side -/
theorem never_panics (f : Facts) (h : FactsOK f) (p : J) (ms : List J) :
    ∃ r, Mixin.mixin f p ms = .ok r :=
  Proofs.Mixin.mixin_never_panics f h.extDocsGuard p ms

/-- keyed sections other than paths: the value under every key is the one of the first document
    (primary, mixin 1, mixin 2, …) that has the key -/
theorem keyed_first_wins (f : Facts) (p : J) (ms : List J) (r : J × List Mixin.Warn)
    (hp : p.isObj = true) (hr : Mixin.mixin f p ms = .ok r)
    (sect : String) (hs : sect ∈ ["definitions", "parameters", "responses", "securityDefinitions"])
    (k : String) :
    lookup k (r.1.getObj sect) = firstWins (p :: ms) sect k :=
  Proofs.Mixin.mixin_keyed f p ms r hp hr sect hs k

/-- paths: first document wins; the path item is the original one up to operation ids (C18).

    ADDED HYPOTHESIS `hm`: the fields `pathItemOps` collects are operation fields.  Without it the
    statement is false: with `mixinMethods = ["x"]` the renaming loop writes an `operationId` under
    the key "x", which `stripOpIds` (the seven methods) does not remove
    (`C17.Counterexamples.paths_needs_methods`). -/
theorem paths_first_wins (f : Facts) (p : J) (ms : List J) (r : J × List Mixin.Warn)
    (hp : p.isObj = true) (hr : Mixin.mixin f p ms = .ok r) (k : String)
    (hm : ∀ m ∈ f.mixinMethods, Doc.isMethodKey m = true) :
    (lookup k (Doc.pathItems r.1)).map stripOpIds = (firstWins (p :: ms) "paths" k).map stripOpIds :=
  Proofs.Mixin.mixin_paths f hm p ms r hp hr k

/-- list-valued fields are the order-preserving de-duplicated union, starting from the primary's list -/
theorem lists_dedup_union (f : Facts) (p : J) (ms : List J) (r : J × List Mixin.Warn)
    (hp : p.isObj = true) (hr : Mixin.mixin f p ms = .ok r) :
    (∀ k ∈ ["consumes", "produces", "schemes", "security"],
        r.1.getArr k = expectedList k (· == ·) (p :: ms)) ∧
    r.1.getArr "tags" = expectedList "tags" sameTag (p :: ms) := by
  have h := Proofs.Mixin.mixin_lists f p ms r hp hr
  refine ⟨?_, h.tags⟩
  intro k hk
  simp only [List.mem_cons, List.not_mem_nil, or_false] at hk
  rcases hk with rfl | rfl | rfl | rfl
  · exact h.consumes
  · exact h.produces
  · exact h.schemes
  · exact h.security

/-- empty scalar fields are filled from the first document that has them.

    ADDED HYPOTHESIS `hsh`: in every document, the structs on the way to the field are JSON objects
    when present (nothing is asked for `host` and `basePath`).  Without it the statement is false: a
    primary with `"info": 5` keeps it, so `info.title` stays empty whatever the mixins offer
    (`C17.Counterexamples.scalars_needs_objects`). -/
theorem scalars_filled_from_first (f : Facts) (p : J) (ms : List J) (r : J × List Mixin.Warn)
    (hp : p.isObj = true) (hr : Mixin.mixin f p ms = .ok r)
    (pk : List String × String) (hpk : pk ∈ scalarFields)
    (hsh : ∀ d ∈ p :: ms, objAlong pk.1 (some d) = true) :
    strAt pk.1 pk.2 r.1 = firstNonEmpty pk.1 pk.2 (p :: ms) :=
  Proofs.Mixin.mixin_scalars f p ms r hp hr pk hpk (objAlong_eq ▸ hsh)

/-- the returned list has exactly one entry per key collision.

    ADDED HYPOTHESES.  `hdk`: the maps of every mixin have distinct keys; otherwise the second
    occurrence of a key inside one mixin is reported although no other document has it
    (`C17.Counterexamples.warnings_needs_distinct_keys`).  `hsh`: `info`, `info.contact` and
    `info.license` are JSON objects when present; otherwise a primary with `"info": 5` never merges
    extensions of `info` and reports none of their collisions
    (`C17.Counterexamples.warnings_needs_objects`). -/
theorem warnings_count (f : Facts) (p : J) (ms : List J) (r : J × List Mixin.Warn)
    (hp : p.isObj = true) (hr : Mixin.mixin f p ms = .ok r)
    (hsh : ∀ d ∈ p :: ms, objAlong ["info", "contact"] (some d) = true ∧
                          objAlong ["info", "license"] (some d) = true)
    (hdk : ∀ m ∈ ms, DistinctKeys m) :
    r.2.length = expectedWarnings (p :: ms) := by
  apply Proofs.Mixin.mixin_warnings f p ms r hp hr
  · intro d hd
    have := hsh d hd
    simp only [objAlong, Bool.and_true, Bool.and_eq_true] at this
    exact ⟨this.1.1, this.1.2, this.2.2⟩
  · intro m hm
    obtain ⟨h1, h2, h3, h4, h5⟩ := hdk m hm
    exact ⟨h1, h2, h3, h4, h5⟩

/-- with no mixin the primary comes back as it was (only a missing / null `paths` becomes the empty object, as
    `initPrimary` does), and nothing is reported -/
theorem no_mixins_identity (f : Facts) (p : J) :
    Mixin.mixin f p [] = .ok (Mixin.initPrimary p, []) := by
  simp [Mixin.mixin, Mixin.steps]

/-- … and a primary that has a `paths` object is returned unchanged -/
theorem no_mixins_unchanged (f : Facts) (p : J) (kvs : List (String × J)) (h : p.get? "paths" = some (.obj kvs)) :
    Mixin.mixin f p [] = .ok (p, []) := by
  rw [no_mixins_identity]
  simp [Mixin.initPrimary, h]

end C17
