import Verif.Proofs.MixinIds

/-!
# C18 — Mixin keeps operation ids unique
-/

namespace C18
open J Spec.Mixin

structure FactsOK (f : Facts) : Prop where
  methods : f.mixinMethods.Perm Doc.methods
  skipsEmpty : f.mixinSkipsEmptyIDs = true

/-- path keys of a document are distinct (it is a Go map) and so are the keys of every path item -/
def MapLike (d : J) : Prop :=
  ((Doc.pathItems d).map (·.1)).Nodup ∧ ∀ kv ∈ Doc.pathItems d, ∃ kvs, kv.2 = .obj kvs ∧ (kvs.map (·.1)).Nodup

/-- no id has the form `x ++ "Mixin" ++ digits` for another id `x` of the inputs -/
def NoMixinSuffixClash (docs : List J) : Prop :=
  ∀ x ∈ docs.flatMap opIds, ∀ y ∈ docs.flatMap opIds, mixinSuffixOf x y = false

/-- all non-empty operation ids of the merged document are pairwise distinct, under all seven
    methods, for every order of the entries of every object (iteration order) -/
theorem ids_unique_after_mixin (f : Facts) (h : FactsOK f) (p : J) (ms : List J) (r : J × List Mixin.Warn)
    (hp : p.isObj = true) (hr : Mixin.mixin f p ms = .ok r)
    (hml : ∀ d ∈ p :: ms, MapLike d)
    (hu : ∀ d ∈ p :: ms, (opIds d).Nodup)
    (hc : NoMixinSuffixClash (p :: ms)) :
    (opIds r.1).Nodup :=
  have _ := hml  -- not needed: the proof goes through for association lists with repeated keys too
  Proofs.Mixin.mixin_ids_nodup f h.methods h.skipsEmpty p ms r hp hr hu hc

end C18
