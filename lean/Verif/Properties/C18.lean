import Verif.Proofs.MixinIds

/-!
# C18 — Mixin keeps operation ids unique
-/

namespace C18
open J Spec.Mixin

structure FactsOK (f : Facts) : Prop where
  methods : f.mixinMethods.Perm Doc.methods
  skipsEmpty : f.mixinSkipsEmptyIDs = true

/-- path keys of a document are distinct (it is a Go map) and so are the keys of every path item -/
def MapLike (d : J) : Prop :=
  ((Doc.pathItems d).map (·.1)).Nodup ∧ ∀ kv ∈ Doc.pathItems d, ∃ kvs, kv.2 = .obj kvs ∧ (kvs.map (·.1)).Nodup

/-- no id has the form `x ++ "Mixin" ++ digits` for another id `x` of the inputs -/
def NoMixinSuffixClash (docs : List J) : Prop :=
  ∀ x ∈ docs.flatMap opIds, ∀ y ∈ docs.flatMap opIds, mixinSuffixOf x y = false

/-- all non-empty operation ids of the merged document are pairwise distinct, under all seven
    methods, for every order of the entries of every object (iteration order) -/
theorem ids_unique_after_mixin (f : Facts) (h : FactsOK f) (p : J) (ms : List J) (r : J × List Mixin.Warn)
    (hp : p.isObj = true) (hr : Mixin.mixin f p ms = .ok r)
    (hml : ∀ d ∈ p :: ms, MapLike d)
    (hu : ∀ d ∈ p :: ms, (opIds d).Nodup)
    (hc : NoMixinSuffixClash (p :: ms)) :
    (opIds r.1).Nodup :=
  have _ := hml  -- not needed: the proof goes through for association lists with repeated keys too
  Proofs.Mixin.mixin_ids_nodup f h.methods h.skipsEmpty p ms r hp hr hu hc

/-- "an id is changed only if it collides", on the recorded ids: when none of the ids an added path item brings is
    already recorded and they are distinct among themselves, the renaming loop records them as they are -/
theorem renameIds_no_collision (idx : Nat) (origs : List String) :
    ∀ ids : List String, (∀ x ∈ origs, x ∉ ids) → origs.Nodup →
      Proofs.Mixin.renameIds idx ids origs = ids ++ origs := by
  induction origs with
  | nil => intro ids _ _; simp [Proofs.Mixin.renameIds_nil]
  | cons id origs ih =>
    intro ids h hn
    have hid : ids.contains id = false := by simpa using h id (by simp)
    rw [Proofs.Mixin.renameIds_cons, hid]
    simp only [Bool.false_eq_true, if_false]
    rw [ih (ids ++ [id]) ?_ (List.nodup_cons.1 hn).2]
    · simp
    · intro x hx hmem
      rcases List.mem_append.1 hmem with h1 | h1
      · exact h x (by simp [hx]) h1
      · have : x = id := by simpa using h1
        exact (List.nodup_cons.1 hn).1 (this ▸ hx)

/-- … and on the path item itself: `renameOps` (the loop of `mergePaths` over the operations of one added path item)
    leaves the ids of a path item that collides with nothing exactly as they were, under every method, and
    operations without an id are left without one (`pathItemIDs` lists the non-empty ids in method order) -/
theorem renameOps_keeps_ids_without_collision (f : Facts) (h : FactsOK f) (idx : Nat) (ids : List String) (pi : J)
    (hfresh : ∀ x ∈ Mixin.pathItemIDs f pi, x ∉ ids) (hn : (Mixin.pathItemIDs f pi).Nodup) :
    Mixin.pathItemIDs f (Mixin.renameOps f idx ids pi).1 = Mixin.pathItemIDs f pi := by
  have hnd : f.mixinMethods.Nodup := h.methods.nodup_iff.2 (by decide)
  obtain ⟨h1, h2⟩ := Proofs.Mixin.renameOps_spec f h.skipsEmpty hnd idx ids pi
  rw [h1, renameIds_no_collision idx _ ids hfresh hn] at h2
  exact (List.append_cancel_left h2).symm

end C18
