import Verif.Proofs.NameRun
import Verif.Proofs.IndexEntries
import Verif.Properties.C01Move

/-!
# C01 — one iteration of `InlineSchemaNamer.Name`, dependents included, preserves the meaning of the API

`Flatten.nameWith` (the model of one iteration of `Name`): unique name, `RewriteSchemaToRef`, save the clone, then the loop
that re-targets every `$ref` which led — through anonymous pointers — to the place that has been named.  The first three
are the naming move (`naming_move_preserves_meaning`), the loop is a run of re-targetings
(`Proofs.NameRun.depLoop_run`: what `DeepestRef` returns lies on the chain of the `$ref` it was asked about, and it cannot
stop on the named place, which now holds a `$ref`); the composition of the two is stated here for the model function,
for every document.  Hypotheses: those of the move (`Setting`, `TargetsOK`, `Stable`), and for the loop — at the document
`S.d2` the move produces — that the reference map lists what the document holds (`EntryOK`: the soundness half of C11),
with keys that are apart, a `$ref` table that agrees with the decoder, canonical keys, and a hop bound adequate on the
good positions.
-/

namespace C01
open J Spec.Meaning Proofs.Move Proofs.MoveBase Proofs.NameRun Proofs.RetargetFold Proofs.RetargetModel Proofs.Retarget
open Proofs.DeepestReaches

/-- the dependents loop of `Name`, for every document: every position that is good for all the keys of the reference map
    keeps its meaning -/
theorem name_dependents_loop_preserves_meaning (x : Flatten.Ext) (key target ref : String) (fuel : Nat)
    (T : List (String × Pos)) (rest : Bundle)
    (hT : TableOK x T) (q' : Pos) (hq' : T.lookup ref = some q') (hqt : T.lookup target = some q') (hrne : ref ≠ "")
    (ktoks : List String) (hkdir : Str.dir key ≠ "#/definitions") (hkcanon : AllCanon ktoks)
    (hops : Nat) (hpos : 0 < hops)
    (hTgood : ∀ d doc s q, (bundleWith d T rest).target doc s = some q → GoodAll q ∧ "$ref" ∉ q.2)
    (refs : List (String × String)) (d dn : J)
    (h : depLoop x key target ref fuel refs d = .ok dn)
    (hent : ∀ kv ∈ refs, EntryOK d T kv) (hpw : refs.Pairwise ApartKV)
    (hkk : ∀ kv ∈ refs, (Replace.keyTokens kv.1 = ktoks ∧ Str.dir kv.2 = "#/definitions") ∨
      Apart ⟨Replace.keyTokens kv.1, ""⟩ ⟨ktoks, ""⟩)
    (hkref : KeyIsRef x d key ktoks) (hk : keysCanon d = true)
    (had : RSetting.AdequateOn GoodAll (bundleWith d T rest) hops) :
    ∀ n p, (∀ kv ∈ refs, Good (Replace.keyTokens kv.1) p) → GoodAll p →
      unfold (bundleWith d T rest) hops n p = unfold (bundleWith dn T rest) hops n p :=
  depLoop_preserves x key target ref fuel T rest hT q' hq' hqt hrne ktoks hkdir hkcanon hops hpos hTgood refs d dn h hent hpw
    hkk hkref hk had

/-- the `$ref` table of the root after the move: the new `$ref` string designates the new definition -/
def tableAfter (S : Setting) : List (String × Pos) := (S.r, (("", defn S.n) : Pos)) :: S.T

/-- **one iteration of `Name` in the phase model preserves meaning, dependents included** -/
theorem nameWith_with_dependents_preserves_meaning (S : Setting) (fc : Facts) (x : Flatten.Ext) (o : Flatten.Opts)
    (st st' : Flatten.St) (key : String) (parts : List String) (name : String)
    (h : Flatten.nameWith fc x o st key (.obj S.sch) parts name = .ok st')
    (hdoc : st.doc = .obj S.kvs) (hkey : Replace.keyTokens key = S.toks)
    (hloc : S.loc = .str (Flatten.genLocation parts))
    (hname : ∀ nr, Flatten.getNR key st'.ctx.newRefs = some nr →
      nr.newName = S.n ∧ nr.path = Str.join ["#/definitions", S.n])
    (href : x.mkRef (Str.join ["#/definitions", S.n]) = some S.r)
    -- the move
    (ht : S.TargetsOK) (hr : S.r ≠ "") (hops : Nat) (hst : Setting.Stable S.b1 hops)
    -- the loop, at the document the move produces
    (hT : TableOK x (tableAfter S))
    (hqt : (tableAfter S).lookup (Str.join ["#/definitions", S.n]) = some ("", defn S.n))
    (hxkey : x.refTokens key = some S.toks) (hkdir : Str.dir key ≠ "#/definitions")
    (hTgood : ∀ d doc s q, (bundleWith d (tableAfter S) S.rest).target doc s = some q → GoodAll q ∧ "$ref" ∉ q.2)
    (hent : ∀ kv ∈ Flatten.allRefs (Analyzer.analyze fc S.d2), EntryOK S.d2 (tableAfter S) kv)
    (hpw : (Flatten.allRefs (Analyzer.analyze fc S.d2)).Pairwise ApartKV)
    (hkk : ∀ kv ∈ Flatten.allRefs (Analyzer.analyze fc S.d2),
      (Replace.keyTokens kv.1 = S.toks ∧ Str.dir kv.2 = "#/definitions") ∨ Apart ⟨Replace.keyTokens kv.1, ""⟩ ⟨S.toks, ""⟩)
    (hk2 : keysCanon S.d2 = true)
    (had : RSetting.AdequateOn GoodAll (bundleWith S.d2 (tableAfter S) S.rest) (hops + 1)) :
    ∀ n (p : Pos), (p.1 ≠ "" ∨ (p.1 = "" ∧ Allowed S.toks S.n p.2)) →
      (∀ kv ∈ Flatten.allRefs (Analyzer.analyze fc S.d2), Good (Replace.keyTokens kv.1) p) → GoodAll p →
      unfold S.b1 hops n p = unfold (bundleWith st'.doc (tableAfter S) S.rest) (hops + 1) n p := by
  intro n p hp hg hga
  have hmove := (naming_move_preserves_meaning S ht hr hops hst).1 n p hp
  have hb2 : S.b2 = bundleWith S.d2 (tableAfter S) S.rest := rfl
  rw [hmove, hb2]
  have hloop := nameWith_decompose S fc x o st st' key parts name h hdoc hkey hloc hname href
  have hkref : KeyIsRef x S.d2 key S.toks :=
    ⟨hxkey, Replace.refNode S.r, S.get_d2_toks, by
      show Doc.refStr (Replace.refNode S.r) ≠ ""
      simp only [Replace.refNode, Doc.refStr, J.getStr, J.get?, J.lookup]
      simpa using hr⟩
  exact depLoop_preserves x key (Str.join ["#/definitions", S.n]) S.r _ (tableAfter S) S.rest hT ("", defn S.n)
    (by simp [tableAfter, List.lookup]) hqt hr S.toks hkdir S.hcanonToks (hops + 1) (by omega) hTgood _ S.d2 st'.doc hloop
    hent hpw hkk hkref hk2 had n p hg hga

/-- **the `EntryOK` hypothesis for schema references, discharged from the index theorems**: every entry the analyzer's
    schema reference map lists (C11.refs_exact) sits at a key that parses back (C04.keyTokens_key) to the position at which
    the document holds (C12.resolves) a schema with that `$ref`.  What remains to assume about an entry is about its
    strings only: a fragment-only `$ref` the table knows, canonically spelled tokens. -/
theorem schema_entries_hold (f : Facts) (hf : C11.FactsOK f) (d : J) (hwf : C11.WF d) (hn : C12.NodupKeys d)
    (hpk : ∀ kv ∈ d.getObj "paths", Doc.isPathKey kv.1 = true)
    (hplain : ∀ p ∈ Spec.Index.allSchemas d, C04.PlainKey p.1)
    (T : List (String × Pos))
    (kv : String × String) (h : kv ∈ Flatten.refMap (· = "schema") (Analyzer.analyze f d))
    (hfo : Flatten.hasFragmentOnly kv.2 = true) (hT : ∃ qc, T.lookup kv.2 = some qc)
    (hc : AllCanon (Replace.keyTokens kv.1)) : EntryOK d T kv :=
  Proofs.IndexEntries.entryOK_schema f hf d hwf hn hpk hplain T kv h hfo hT hc

end C01
