import Verif.Properties.C03

#print axioms C03.uniqify_fresh
#print axioms C03.flag_iff_changed
#print axioms C03.uniqify_terminates
#print axioms C03.not_fresh_without_fold
#print axioms C03.save_keeps_others
