import Verif.Properties.C03
import Verif.Properties.C03Phases

#print axioms C03.uniqify_fresh
#print axioms C03.flag_iff_changed
#print axioms C03.uniqify_terminates
#print axioms C03.not_fresh_without_fold
#print axioms C03.save_keeps_others
#print axioms C03.nameInlinedSchemas_appends_fresh
#print axioms C03.namePointers_appends_fresh
#print axioms C03.importReferences_appends_fresh
