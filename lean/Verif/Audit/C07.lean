import Verif.Properties.C07

#print axioms C07.depthFirst_perm
#print axioms C07.topmostFirst_perm
#print axioms C07.depthFirst_perm_of_input
#print axioms C07.gatherOperations_order_independent
#print axioms C07.updateRef_commutes
#print axioms C07.normalizeRef_order_independent
#print axioms C07.normalizeRef_is_the_loop
#print axioms C07.reref_order_independent
#print axioms C07.uniqifyName_order_independent
#print axioms C07.removalPass_order_independent
#print axioms C07.sortedParents_order_independent
#print axioms C07.namesFromKey_order_independent
#print axioms C07.importRebase_order_independent
#print axioms C07.keysApart_of_canonical_tokens
#print axioms C07.stripOAIGen_visit_order_independent
#print axioms C07.stalePlans_order_independent
