import Verif.Properties.C07

#print axioms C07.depthFirst_perm
#print axioms C07.topmostFirst_perm
#print axioms C07.depthFirst_perm_of_input
#print axioms C07.gatherOperations_order_independent
