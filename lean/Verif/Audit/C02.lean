import Verif.Properties.C02
import Verif.Properties.C02Counterexamples
#print axioms C02.allRefs_complete
#print axioms C02.allRefs_sound
#print axioms C02.canonical_sound
#print axioms C02.local_sound
#print axioms C02.referenced_sound
#print axioms C02.Counterexamples.complete_needs_canonical_indices
#print axioms C02.Counterexamples.dArr_nodupKeys
#print axioms C02.nonschema_refs_untouched
