import Verif.Properties.C01
#print axioms C01.cert_sound
#print axioms C01.validated_start_pairs
#print axioms C01.example_accepts
#print axioms C01.example_rejects
#print axioms C01.bisim_sound
