import Verif.Properties.C01Skeleton
import Verif.Properties.C01
import Verif.Properties.C01Move
import Verif.Properties.C01RetargetExample
import Verif.Properties.C01PhasesExample
import Verif.Properties.C01Import
import Verif.Properties.C01Name
#print axioms C01.cert_sound
#print axioms C01.validated_start_pairs
#print axioms C01.example_accepts
#print axioms C01.example_rejects
#print axioms C01.bisim_sound
#print axioms C01.naming_move_preserves_meaning
#print axioms C01.nameWith_preserves_meaning
#print axioms C01.retarget_preserves_meaning
#print axioms C01.inline_preserves_meaning
#print axioms C01.pointer_retarget_step_preserves
#print axioms C01.pointer_expand_step_preserves
#print axioms C01.RetargetExample.example_applies
#print axioms C01.RetargetExample.example_inline_applies
#print axioms C01.normalizeRef_preserves_meaning
#print axioms C01.retarget_sequence_preserves_meaning
#print axioms C01.retarget_run_preserves_meaning
#print axioms C01.PhasesExample.example_applies
#print axioms C01.import_preserves_meaning
#print axioms C01.name_dependents_loop_preserves_meaning
#print axioms C01.nameWith_with_dependents_preserves_meaning
#print axioms C01.schema_entries_hold
#print axioms C01.ImportExample.example_applies
#print axioms C01.rewriteSchemaToRef_is_setAt
#print axioms C01.tiny_targetsOK
#print axioms C01.tiny_stable
#print axioms C01.pipeline_keeps_skeleton
#print axioms C01.pipeline_keeps_plain_parts
#print axioms C01.pipeline_keeps_paths
#print axioms C01.pipeline_keeps_path_keys
#print axioms C01.pipeline_adds_no_top_level_part
