import Verif.Properties.C01
import Verif.Properties.C02
import Verif.Properties.C03
-- C04 (Flatten succeeds on W and the result satisfies C01–C03) rests on the validators of C01–C03
#print axioms C01.cert_sound
#print axioms C02.canonical_sound
#print axioms C03.uniqify_fresh
