import Verif.Properties.C01
import Verif.Properties.C02
import Verif.Properties.C03
import Verif.Properties.C04
-- C04 (Flatten succeeds on W and the result satisfies C01–C03): the rewrite primitives accept every analyzer key
-- (C04.*), and the validators of C01–C03 say what acceptance of a result means
#print axioms C04.keys_walk
#print axioms C04.updateRef_succeeds
#print axioms C04.updateRefWithSchema_succeeds
#print axioms C04.rewriteSchemaToRef_succeeds
#print axioms C04.analyzer_keys_rewritable
#print axioms C04.rewriteSchemaToRef_under_not
#print axioms C04.keyTokens_key
#print axioms C04.updateRef_sets_ref
#print axioms C04.updateRef_keeps_siblings
#print axioms C01.cert_sound
#print axioms C02.canonical_sound
#print axioms C03.uniqify_fresh
#print axioms C04.moved_pointers_leave_the_plan
#print axioms C04.namePointers_ends_with_complete_pass
