import Verif.Properties.C19
#print axioms C19.total_and_exact
#print axioms C19.never_panics
#print axioms C19.all_nonref_described
#print axioms C19.others_untouched
#print axioms C19.sameFrame_holds
#print axioms C19.described_untouched
#print axioms C19.idempotent
#print axioms C19.idempotent_model
#print axioms C19.panics_without_guard
