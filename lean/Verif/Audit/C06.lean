import Verif.Properties.C06

#print axioms C06.shared_sections_empty
#print axioms C06.singlePass_keeps_used
#print axioms C06.singlePass_frame
#print axioms C06.terminates
#print axioms C06.remaining_all_referenced
#print axioms C06.only_definitions_shrink
#print axioms C06.pipeline_removeUnused
#print axioms C06.phases_never_create_shared_sections
#print axioms C06.pipeline_removeUnused_multi
#print axioms C06.removal_creates_no_dangling
#print axioms C06.singlePass_creates_no_dangling
#print axioms C06.removeShared_creates_no_dangling
#print axioms C06.removeUnused_phase_creates_no_dangling
