import Verif.Properties.C20
#print axioms C20.coherence
#print axioms C20.ref_transparent
#print axioms C20.documented_rules
#print axioms C20.terminates
#print axioms C20.diverges_without_guard
#print axioms C20.self_array_classified
