import Verif.Properties.C01
import Verif.Properties.C02
#print axioms C01.cert_sound
#print axioms C01.validated_start_pairs
#print axioms C02.local_sound
#print axioms C02.allRefs_complete
#print axioms C02.allRefs_sound
