import Verif.Properties.C01
import Verif.Properties.C02
import Verif.Properties.C05
#print axioms C05.refFree_isNF
#print axioms C05.refFree_fixed
#print axioms C01.cert_sound
#print axioms C01.validated_start_pairs
#print axioms C02.local_sound
#print axioms C02.allRefs_complete
#print axioms C02.allRefs_sound
#print axioms C05.refFree_removeUnused
