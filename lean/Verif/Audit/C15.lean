import Verif.Properties.C15
#print axioms C15.missing_designation_is_empty
#print axioms C15.unknown_id_is_empty
#print axioms C15.safe_never_panics
#print axioms C15.params_override
#print axioms C15.no_placeholder
#print axioms C15.plain_panics_iff_bad_ref
#print axioms C15.safe_reports_exactly_bad_refs
