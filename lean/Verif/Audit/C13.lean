import Verif.Properties.C13
import Verif.Properties.C12

#print axioms C13.patterns_exact
#print axioms C13.enums_exact
#print axioms C13.allPatterns_exact
#print axioms C13.allEnums_exact
#print axioms C13.default_header_enum_needed
#print axioms C13.schema_pattern_keys_distinct
#print axioms C13.schema_enum_keys_distinct
