import Verif.Properties.C13

#print axioms C13.patterns_exact
#print axioms C13.enums_exact
#print axioms C13.allPatterns_exact
#print axioms C13.allEnums_exact
#print axioms C13.default_header_enum_needed
