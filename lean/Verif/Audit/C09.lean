import Verif.Properties.C09
import Verif.Properties.C06
import Verif.Properties.C20
import Verif.Properties.C03
-- no panic is reachable in the modelled pipeline; termination / totality theorems for the modelled loops of Flatten, New and Schema
#print axioms C09.pipeline_never_panics
#print axioms C09.pipeline_local_never_panics
#print axioms C09.classify_never_panics
#print axioms C09.strip_never_panics
#print axioms C09.strip_skips_self_references
#print axioms C06.terminates
#print axioms C20.terminates
#print axioms C03.uniqify_terminates
