import Verif.Properties.C06
import Verif.Properties.C20
import Verif.Properties.C03
-- termination / totality theorems for the modelled loops of Flatten, New and Schema
#print axioms C06.terminates
#print axioms C20.terminates
#print axioms C03.uniqify_terminates
