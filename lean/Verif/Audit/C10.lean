import Verif.Properties.C10
#print axioms C10.step_inSync
#print axioms C10.in_sync
#print axioms C10.phases_end_clean
#print axioms C10.index_is_fresh_analysis
#print axioms C10.pipeline_in_sync
#print axioms C10.pipeline_in_sync_multi
