import Verif.Properties.C17
import Verif.Properties.C17Counterexamples
#print axioms C17.never_panics
#print axioms C17.keyed_first_wins
#print axioms C17.paths_first_wins
#print axioms C17.lists_dedup_union
#print axioms C17.scalars_filled_from_first
#print axioms C17.warnings_count
#print axioms C17.Counterexamples.warnings_needs_distinct_keys
#print axioms C17.Counterexamples.warnings_needs_objects
#print axioms C17.Counterexamples.scalars_needs_objects
#print axioms C17.Counterexamples.paths_needs_methods
#print axioms C17.no_mixins_identity
#print axioms C17.no_mixins_unchanged
