import Verif.Properties.C12

#print axioms C11.refs_exact
#print axioms C11.allRefs_exact
#print axioms C11.itemsRefs_exact
#print axioms C11.itemsRefs_sub_all
#print axioms C11.schema_ref_keys_distinct
