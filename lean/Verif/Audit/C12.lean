import Verif.Properties.C12

#print axioms C12.schemas_exact
#print axioms C12.resolves
#print axioms C12.once
#print axioms C12.toplevel_iff
#print axioms C12.keys_distinct
#print axioms C12.indexed_keys_distinct
#print axioms C12.indexed_count
