import Verif.Properties.C18
#print axioms C18.ids_unique_after_mixin
