import Verif.Properties.C18
#print axioms C18.ids_unique_after_mixin
#print axioms C18.renameIds_no_collision
#print axioms C18.renameOps_keeps_ids_without_collision
