import Verif.Properties.C16
#print axioms C16.query_readonly
#print axioms C16.run_eq_map
#print axioms C16.runSched_eq
#print axioms C16.interleaving_irrelevant
#print axioms C16.copies_are_safe
#print axioms C16.reference_ok
