import Verif.Properties.C14
#print axioms C14.operationFor_exact
#print axioms C14.operations_perm
#print axioms C14.operationForName_unique
#print axioms C14.operationForName_unknown
#print axioms C14.ids_perm
#print axioms C14.methodPaths_perm
#print axioms C14.mediaFor_rule
#print axioms C14.securityRequirements_rule
#print axioms C14.empty_security_disables
#print axioms C14.required_consumes_union
#print axioms C14.required_produces_union
#print axioms C14.required_security_union
#print axioms C14.operationFor_case_insensitive
#print axioms C14.operationFor_unknown_method
