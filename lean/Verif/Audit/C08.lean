import Verif.Properties.C08
#print axioms C08.identity_on_normal_forms
#print axioms C08.document_unchanged
#print axioms C08.phases_idle
#print axioms C08.identity_on_normal_forms_multi
