import Verif.Proofs.RetargetModel
import Verif.Proofs.ReplaceKeys

/-!
  What `replace.DeepestRef` (model: `Flatten.deepestRef`) returns lies on the chain of `$ref`s it was started on: the
  hypothesis `Reaches` of the re-targeting and in-place expansion theorems is what the phases compute before they
  rewrite.
-/

namespace Proofs.DeepestReaches
open J Replace Flatten Spec.Meaning Proofs.Retarget Proofs.RetargetModel

/-- the `$ref` table of the root document agrees with the decoder the model is given -/
def TableOK (x : Ext) (T : List (String × Pos)) : Prop :=
  ∀ s toks, x.refTokens s = some toks → T.lookup s = some ("", toks)

theorem target_root (d : J) (T : List (String × Pos)) (rest : Bundle) (s : String) :
    (bundleWith d T rest).target "" s = T.lookup s := by
  simp [bundleWith, Bundle.target, List.lookup]

/-- the result of the `DeepestRef` loop lies on the `$ref` chain of the reference it was started on; when it returns
    a schema, that schema is the (object, non-`$ref`) node at the position the result designates -/
theorem deepestRefLoop_reaches (x : Ext) (d : J) (T : List (String × Pos)) (rest : Bundle) (hT : TableOK x T) :
    ∀ (fuel : Nat) (visited : List String) (cur r : String) (sch : Option J),
      deepestRefLoop x d fuel visited cur = .ok (r, sch) →
      ∀ qc q', T.lookup cur = some qc → T.lookup r = some q' →
        Reaches (bundleWith d T rest) qc q' ∧
        (∀ s, sch = some s → (bundleWith d T rest).node q' = some s ∧ (∃ m, s = .obj m) ∧ Doc.refStr s = "") := by
  intro fuel
  induction fuel with
  | zero => intro visited cur r sch h; simp [deepestRefLoop] at h
  | succ fuel ih =>
    intro visited cur r sch h qc q' hqc hq'
    simp only [deepestRefLoop] at h
    split at h
    · -- a reference to a top-level definition: returned as it is
      cases h
      rw [hqc] at hq'; cases hq'
      exact ⟨Reaches.refl _, fun s hs => by cases hs⟩
    · split at h
      · cases h
      · split at h
        · cases h
        · rename_i toks htoks
          have hqc' := hT cur toks htoks
          rw [hqc] at hqc'; cases hqc'
          split at h
          · cases h
          · rename_i node kind hw
            have hnode : (bundleWith d T rest).node ("", toks) = some node := by
              rw [node_root]; exact ReplaceKeys.get_of_walk hw
            split at h
            · -- the chain ends here, on a schema
              rename_i hnext
              split at h
              · rename_i kvs
                cases h
                rw [hqc] at hq'; cases hq'
                exact ⟨Reaches.refl _, fun s hs => by cases hs; exact ⟨hnode, ⟨kvs, rfl⟩, hnext⟩⟩
              · cases h
            · -- one more `$ref` to follow
              rename_i hnext
              -- where does it lead?  either the loop consults the decoder, or it is the result itself
              have hstep : ∃ qn, T.lookup (Doc.refStr node) = some qn := by
                cases fuel with
                | zero => simp [deepestRefLoop] at h
                | succ f =>
                  simp only [deepestRefLoop] at h
                  split at h
                  · cases h; exact ⟨q', hq'⟩
                  · split at h
                    · cases h
                    · split at h
                      · cases h
                      · rename_i toks' htoks'; exact ⟨_, hT _ _ htoks'⟩
              obtain ⟨qn, hqn⟩ := hstep
              obtain ⟨hr, hs⟩ := ih _ _ _ _ h qn q' hqn hq'
              exact ⟨Reaches.step hnode hnext (by rw [target_root]; exact hqn) hr, hs⟩

theorem deepestRef_reaches (x : Ext) (d : J) (T : List (String × Pos)) (rest : Bundle) (hT : TableOK x T)
    (fuel : Nat) (ref r : String) (sch : Option J) (hfrag : hasFragmentOnly ref = true)
    (h : deepestRef x d fuel ref = .ok (r, sch)) (qc q' : Pos) (hqc : T.lookup ref = some qc) (hq' : T.lookup r = some q') :
    Reaches (bundleWith d T rest) qc q' ∧
    (∀ s, sch = some s → (bundleWith d T rest).node q' = some s ∧ (∃ m, s = .obj m) ∧ Doc.refStr s = "") := by
  unfold deepestRef at h
  simp only [hfrag, Bool.not_true, Bool.false_eq_true, if_false] at h
  exact deepestRefLoop_reaches x d T rest hT fuel [] ref r sch h qc q' hqc hq'

end Proofs.DeepestReaches
