import Verif.Proofs.FlattenPipeline
import Verif.Proofs.FlattenImport

/-!
  C01, first clause, for the whole pipeline of the Flatten model: everything of the document that is
  not a schema — paths, operations, parameters, responses, headers, info, host, tags, security, … —
  is left exactly as it was; the phases write only inside schema positions (and to the `definitions`
  section).

  `SkelRel k a b`: the JSON trees `a` and `b`, read as `spec` objects of kind `k` (the kinds of
  `internal/flatten/replace`), agree everywhere except inside *isOpaque* positions: schemas, maps of
  schemas, lists of schemas.  Same object keys in the same order, same array lengths, equal scalars.
-/

namespace Proofs.Skeleton
open J Replace Flatten OutcomeM Proofs.FlattenBase Proofs.FlattenPhases

/-- positions whose content the phases may rewrite -/
def isOpaque (k : Kind) : Bool := isSchemaKind k || k == .schemaMap || k == .schemaArr

/-- the kind of a member of a node of a non-opaque kind does not depend on the node -/
def memberKind (k : Kind) (t : String) : Kind := childKind k .null t

/-- the kind of the elements of an array node of kind `k`: what `childKind` answers for an index token -/
def elemKind (k : Kind) : Kind := memberKind k "0"

theorem childKind_indep (k : Kind) (hk : isOpaque k = false) (p : J) (t : String) :
    childKind k p t = memberKind k t := by
  unfold memberKind
  cases k <;> simp [isOpaque, isSchemaKind] at hk <;> rfl

mutual
  inductive SkelRel : Kind → J → J → Prop
    | opq (k : Kind) (a b : J) : isOpaque k = true → SkelRel k a b
    | refl (k : Kind) (a : J) : SkelRel k a a
    | obj (k : Kind) (m m' : List (String × J)) : SkelKvs k m m' → SkelRel k (.obj m) (.obj m')
    | arr (k : Kind) (xs ys : List J) : SkelArr k xs ys → SkelRel k (.arr xs) (.arr ys)
  /-- member-wise: same keys in the same order, related values -/
  inductive SkelKvs : Kind → List (String × J) → List (String × J) → Prop
    | nil (k : Kind) : SkelKvs k [] []
    | cons (k : Kind) (t : String) (v v' : J) (rest rest' : List (String × J)) :
        SkelRel (memberKind k t) v v' → SkelKvs k rest rest' → SkelKvs k ((t, v) :: rest) ((t, v') :: rest')
  /-- element-wise: same length, related elements -/
  inductive SkelArr : Kind → List J → List J → Prop
    | nil (k : Kind) : SkelArr k [] []
    | cons (k : Kind) (x y : J) (xs ys : List J) :
        SkelRel (elemKind k) x y → SkelArr k xs ys → SkelArr k (x :: xs) (y :: ys)
end

theorem skelKvs_refl (k : Kind) : ∀ m, SkelKvs k m m
  | [] => .nil k
  | (t, v) :: rest => .cons k t v v rest rest (.refl _ v) (skelKvs_refl k rest)

theorem skelArr_refl (k : Kind) : ∀ (xs : List J), SkelArr k xs xs
  | [] => .nil k
  | x :: xs => .cons k x x xs xs (.refl _ x) (skelArr_refl k xs)

/-- replacing the value under an existing key by a related one -/
theorem skelKvs_setKv (k : Kind) (t : String) (c c' : J) :
    ∀ (m : List (String × J)), lookup t m = some c → SkelRel (memberKind k t) c c' → SkelKvs k m (setKv t c' m)
  | [], h, _ => by simp [lookup] at h
  | (t0, v0) :: rest, h, hr => by
    simp only [setKv]
    split
    · rename_i ht
      subst ht
      simp only [lookup, if_true] at h
      cases h
      exact .cons k t0 c c' rest rest hr (skelKvs_refl k rest)
    · rename_i ht
      simp only [lookup, ht, if_false] at h
      exact .cons k t0 v0 v0 rest _ (.refl _ v0) (skelKvs_setKv k t c c' rest h hr)

/-- replacing the element at an index by a related one -/
theorem skelArr_set (k : Kind) (c c' : J) (hr : SkelRel (elemKind k) c c') :
    ∀ (xs : List J) (i : Nat), xs[i]? = some c → SkelArr k xs (xs.set i c')
  | [], _, h => by simp at h
  | x :: xs, 0, h => by
    simp only [List.getElem?_cons_zero, Option.some.injEq] at h
    subst h
    simp only [List.set_cons_zero]
    exact .cons k x c' xs xs hr (skelArr_refl k xs)
  | x :: xs, i + 1, h => by
    simp only [List.getElem?_cons_succ] at h
    simp only [List.set_cons_succ]
    exact .cons k x x xs _ (.refl _ x) (skelArr_set k c c' hr xs i h)

/-! ### an index token is never a keyword -/

theorem digits_of_natOfDigits {t : String} {i : Nat} (h : Spec.Pointer.natOfDigits t.toList = some i) :
    t.toList ≠ [] ∧ t.toList.all Doc.isDigit = true := by
  unfold Spec.Pointer.natOfDigits at h
  split at h
  · cases h
  · rename_i hc
    simp only [not_or, Decidable.not_not] at hc
    exact hc

theorem digit_ne_of_nondigit {t : String} (hd : t.toList ≠ [] ∧ t.toList.all Doc.isDigit = true) (L : String)
    (hL : L.toList.all Doc.isDigit = false) : t ≠ L := by
  intro e
  subst e
  rw [hd.2] at hL
  cases hL

theorem digit_not_pathKey {t : String} (hd : t.toList ≠ [] ∧ t.toList.all Doc.isDigit = true) :
    Doc.isPathKey t = false := by
  unfold Doc.isPathKey Str.hasPrefix
  cases ht : t.toList with
  | nil => exact absurd ht hd.1
  | cons c cs =>
    have hc : Doc.isDigit c = true := by
      have := hd.2
      rw [ht] at this
      simp only [List.all_cons, Bool.and_eq_true] at this
      exact this.1
    have hne : c ≠ '/' := by
      intro e; subst e; revert hc; decide
    simp [List.isPrefixOf, hne, show ("/" : String).toList = ['/'] from rfl]
    exact fun e => hne e.symm

theorem digit_not_methodKey {t : String} (hd : t.toList ≠ [] ∧ t.toList.all Doc.isDigit = true) :
    Doc.isMethodKey t = false := by
  unfold Doc.isMethodKey Doc.methods
  have h := fun L hL => digit_ne_of_nondigit hd L hL
  simp [h "get" (by decide), h "put" (by decide), h "post" (by decide), h "delete" (by decide),
    h "options" (by decide), h "head" (by decide), h "patch" (by decide)]

theorem digit_codeKey {t : String} (hd : t.toList ≠ [] ∧ t.toList.all Doc.isDigit = true) :
    Doc.isCodeKey t = true := by
  unfold Doc.isCodeKey
  have h1 := digit_ne_of_nondigit hd "default" (by decide)
  have h2 : Str.hasPrefix "x-" t = false := by
    unfold Str.hasPrefix
    cases ht : t.toList with
    | nil => exact absurd ht hd.1
    | cons c cs =>
      have hc : Doc.isDigit c = true := by
        have := hd.2
        rw [ht] at this
        simp only [List.all_cons, Bool.and_eq_true] at this
        exact this.1
      have hne : c ≠ 'x' := by
        intro e; subst e; revert hc; decide
      simp [List.isPrefixOf, show ("x-" : String).toList = ['x', '-'] from rfl]
      exact fun e => absurd e.symm hne
  simp [h1, h2, hd.1, hd.2]

/-- the kind `childKind` assigns to a member under an index token is the element kind -/
theorem memberKind_index (k : Kind) {t : String} {i : Nat} (h : Spec.Pointer.natOfDigits t.toList = some i) :
    memberKind k t = elemKind k := by
  have hd := digits_of_natOfDigits h
  have h0 : Spec.Pointer.natOfDigits ("0" : String).toList = some 0 := by decide
  have hd0 := digits_of_natOfDigits h0
  have ne := fun L hL => digit_ne_of_nondigit hd L hL
  have ne0 := fun L hL => digit_ne_of_nondigit hd0 L hL
  unfold elemKind memberKind
  cases k <;>
    simp [childKind, ne "definitions" (by decide), ne "paths" (by decide), ne "parameters" (by decide),
      ne "responses" (by decide), ne "properties" (by decide), ne "patternProperties" (by decide),
      ne "allOf" (by decide), ne "anyOf" (by decide), ne "oneOf" (by decide), ne "not" (by decide),
      ne "additionalProperties" (by decide), ne "additionalItems" (by decide), ne "items" (by decide),
      ne "schema" (by decide), ne "default" (by decide),
      ne0 "definitions" (by decide), ne0 "paths" (by decide), ne0 "parameters" (by decide),
      ne0 "responses" (by decide), ne0 "properties" (by decide), ne0 "patternProperties" (by decide),
      ne0 "allOf" (by decide), ne0 "anyOf" (by decide), ne0 "oneOf" (by decide), ne0 "not" (by decide),
      ne0 "additionalProperties" (by decide), ne0 "additionalItems" (by decide), ne0 "items" (by decide),
      ne0 "schema" (by decide), ne0 "default" (by decide),
      digit_not_pathKey hd, digit_not_pathKey hd0, digit_not_methodKey hd, digit_not_methodKey hd0,
      digit_codeKey hd, digit_codeKey hd0, J.get?]

/-- the heart: a write at the end of a walk that reaches an opaque position changes nothing outside
    opaque positions -/
theorem setAt_skelRel : ∀ (toks : List String) (k : Kind) (d : J) (n : J) (k' : Kind) (v d' : J),
    walk k d toks = some (n, k') → isOpaque k' = true → setAt d toks v = some d' → SkelRel k d d'
  | [], k, d, n, k', v, d', hw, ho, _ => by
    simp only [walk, Option.some.injEq, Prod.mk.injEq] at hw
    exact .opq k d d' (hw.2 ▸ ho)
  | t :: ts, k, d, n, k', v, d', hw, ho, hs => by
    cases hk : isOpaque k with
    | true => exact .opq k d d' hk
    | false =>
      simp only [walk] at hw
      cases hstep : Spec.Pointer.step d t with
      | none => simp [hstep] at hw
      | some c =>
        simp only [hstep] at hw
        rw [childKind_indep k hk] at hw
        cases d with
        | obj m =>
          simp only [Spec.Pointer.step] at hstep
          simp only [setAt, hstep, Option.map_eq_some_iff] at hs
          obtain ⟨c', hc', rfl⟩ := hs
          exact .obj k m _ (skelKvs_setKv k t c c' m hstep (setAt_skelRel ts (memberKind k t) c n k' v c' hw ho hc'))
        | arr xs =>
          simp only [Spec.Pointer.step] at hstep
          cases hn : Spec.Pointer.natOfDigits t.toList with
          | none => simp [hn] at hstep
          | some i =>
            simp only [hn, Option.bind_some] at hstep
            simp only [setAt, hn, hstep, Option.map_eq_some_iff] at hs
            obtain ⟨c', hc', rfl⟩ := hs
            have hrel := setAt_skelRel ts (memberKind k t) c n k' v c' hw ho hc'
            rw [memberKind_index k hn] at hrel
            exact .arr k xs _ (skelArr_set k c c' hrel xs i hstep)
        | _ => simp [Spec.Pointer.step] at hstep

/-! ### transitivity -/

mutual
  theorem SkelRel.trans : ∀ {k : Kind} {a b c : J}, SkelRel k a b → SkelRel k b c → SkelRel k a c
    | k, a, _, c, .opq _ _ _ h, _ => .opq k a c h
    | _, _, _, _, .refl _ _, h2 => h2
    | k, _, _, c, .obj _ m m' h1, h2 => by
      cases h2 with
      | opq _ _ _ h => exact .opq k _ c h
      | refl => exact .obj k m m' h1
      | obj _ _ m'' h2 => exact .obj k m m'' (SkelKvs.trans h1 h2)
    | k, _, _, c, .arr _ xs ys h1, h2 => by
      cases h2 with
      | opq _ _ _ h => exact .opq k _ c h
      | refl => exact .arr k xs ys h1
      | arr _ _ zs h2 => exact .arr k xs zs (SkelArr.trans h1 h2)
  theorem SkelKvs.trans : ∀ {k : Kind} {a b c : List (String × J)}, SkelKvs k a b → SkelKvs k b c → SkelKvs k a c
    | k, _, _, _, .nil _, h2 => by cases h2; exact .nil k
    | k, _, _, _, .cons _ t v v' rest rest' hv hr, h2 => by
      cases h2 with
      | cons _ _ _ v'' _ rest'' hv2 hr2 => exact .cons k t v v'' rest rest'' (SkelRel.trans hv hv2) (SkelKvs.trans hr hr2)
  theorem SkelArr.trans : ∀ {k : Kind} {a b c : List J}, SkelArr k a b → SkelArr k b c → SkelArr k a c
    | k, _, _, _, .nil _, h2 => by cases h2; exact .nil k
    | k, _, _, _, .cons _ x y xs ys hx hr, h2 => by
      cases h2 with
      | cons _ _ z _ zs hx2 hr2 => exact .cons k x z xs zs (SkelRel.trans hx hx2) (SkelArr.trans hr hr2)
end

/-! ### what a primitive does is a write at the end of a walk that reaches a schema -/

theorem isOpaque_of_schemaKind {k : Kind} (h : isSchemaKind k = true) : isOpaque k = true := by
  simp [isOpaque, h]

theorem updateRef_setAt (d : J) (key ref : String) (d' : J) (h : updateRef d key ref = .ok d') :
    ∃ toks n k v, walk .swagger d toks = some (n, k) ∧ isSchemaKind k = true ∧ setAt d toks v = some d' := by
  unfold updateRef at h
  simp only at h
  split at h
  · cases h
  · rename_i node kind hw
    split at h
    · split at h
      · rename_i d'' hs; cases h; exact ⟨_, node, _, _, hw, rfl, hs⟩
      · cases h
    all_goals first
      | (split at h
         · rename_i d'' hs; cases h; exact ⟨_, node, _, _, hw, rfl, hs⟩
         · cases h)
      | cases h

theorem rewriteSchemaToRef_setAt (d : J) (key ref : String) (d' : J) (h : rewriteSchemaToRef d key ref = .ok d') :
    ∃ toks n k v, walk .swagger d toks = some (n, k) ∧ isSchemaKind k = true ∧ setAt d toks v = some d' := by
  unfold rewriteSchemaToRef at h
  simp only at h
  split at h
  · cases h
  · rename_i node kind hw
    split at h
    · cases h
    · split at h
      · rename_i hk
        split at h
        · rename_i d'' hs; cases h; exact ⟨_, node, _, _, hw, hk, hs⟩
        · cases h
      · cases h

theorem updateRefWithSchema_setAt (d : J) (key : String) (sch d' : J) (h : updateRefWithSchema d key sch = .ok d') :
    ∃ toks n k v, walk .swagger d toks = some (n, k) ∧ isSchemaKind k = true ∧ setAt d toks v = some d' := by
  unfold updateRefWithSchema at h
  simp only at h
  split at h
  · cases h
  · rename_i node kind hw
    split at h
    · rename_i hk
      split at h
      · rename_i d'' hs; cases h; exact ⟨_, node, _, _, hw, hk, hs⟩
      · cases h
    · cases h

/-! ### the top-level parts of the document -/

/-- a top-level part is absent on both sides, or present on both with the same skeleton -/
inductive OptRel (k : Kind) : Option J → Option J → Prop
  | none : OptRel k none none
  | some (a b : J) : SkelRel k a b → OptRel k (some a) (some b)

theorem OptRel.refl (k : Kind) : ∀ (o : Option J), OptRel k o o
  | .none => .none
  | .some a => .some a a (.refl k a)

theorem OptRel.trans {k : Kind} {a b c : Option J} (h1 : OptRel k a b) (h2 : OptRel k b c) : OptRel k a c := by
  cases h1 with
  | none => exact h2
  | some a b hab =>
    cases h2 with
    | some _ c hbc => exact .some a c (hab.trans hbc)

/-- outside the excluded top-level keys, `d` has the skeleton of `d0` -/
def Keeps (E : List String) (d0 d : J) : Prop :=
  ∀ key, key ∉ E → OptRel (memberKind .swagger key) (d0.get? key) (d.get? key)

theorem Keeps.refl (E : List String) (d : J) : Keeps E d d := fun key _ => OptRel.refl _ _

theorem Keeps.of_get? {E : List String} {d0 d d' : J} (h : Keeps E d0 d)
    (he : ∀ key, key ∉ E → d'.get? key = d.get? key) : Keeps E d0 d' := by
  intro key hk
  rw [he key hk]
  exact h key hk

/-- a write at the end of a walk to a schema keeps the skeleton of every top-level part -/
theorem setAt_keeps (d : J) (toks : List String) (n : J) (k : Kind) (v d' : J)
    (hw : walk .swagger d toks = some (n, k)) (hk : isSchemaKind k = true) (hs : setAt d toks v = some d') :
    ∀ key, OptRel (memberKind .swagger key) (d.get? key) (d'.get? key) := by
  intro key
  cases toks with
  | nil => exact absurd rfl (walk_schemaKind_ne_nil d [] n k hw hk)
  | cons t ts =>
    by_cases hkt : key = t
    · subst hkt
      simp only [walk] at hw
      cases hstep : Spec.Pointer.step d key with
      | none => simp [hstep] at hw
      | some c =>
        simp only [hstep] at hw
        cases d with
        | obj m =>
          simp only [Spec.Pointer.step] at hstep
          simp only [setAt, hstep, Option.map_eq_some_iff] at hs
          obtain ⟨c', hc', rfl⟩ := hs
          have hrel := setAt_skelRel ts _ c n k v c' hw (isOpaque_of_schemaKind hk) hc'
          rw [childKind_indep .swagger (by decide)] at hrel
          simp only [J.get?, hstep, lookup_setKv_self]
          exact .some c c' hrel
        | arr xs =>
          -- an array at the top: no key is present on either side
          have hd' : ∃ ys, d' = .arr ys := by
            simp only [setAt] at hs
            cases hn : Spec.Pointer.natOfDigits key.toList with
            | none => simp [hn] at hs
            | some i =>
              simp only [hn] at hs
              cases hx : xs[i]? with
              | none => simp [hx] at hs
              | some c0 =>
                simp only [hx, Option.map_eq_some_iff] at hs
                obtain ⟨c', _, rfl⟩ := hs
                exact ⟨_, rfl⟩
          obtain ⟨ys, rfl⟩ := hd'
          exact .none
        | _ => simp [Spec.Pointer.step] at hstep
    · rw [setAt_get?_ne d t ts v d' hs key hkt]
      exact OptRel.refl _ _

theorem keeps_docInv (E : List String) (hE : "definitions" ∈ E) (d0 : J) : DocInv (Keeps E d0) where
  updateRef := by
    intro d key ref d' h hp k hk
    obtain ⟨toks, n, kind, v, hw, hkind, hs⟩ := updateRef_setAt d key ref d' h
    exact (hp k hk).trans (setAt_keeps d toks n kind v d' hw hkind hs k)
  rewrite := by
    intro d key ref d' h hp k hk
    obtain ⟨toks, n, kind, v, hw, hkind, hs⟩ := rewriteSchemaToRef_setAt d key ref d' h
    exact (hp k hk).trans (setAt_keeps d toks n kind v d' hw hkind hs k)
  withSchema := by
    intro d key sch d' h hp k hk
    obtain ⟨toks, n, kind, v, hw, hkind, hs⟩ := updateRefWithSchema_setAt d key sch d' h
    exact (hp k hk).trans (setAt_keeps d toks n kind v d' hw hkind hs k)
  setDefs := by
    intro d v hp
    refine hp.of_get? ?_
    intro key hk
    exact get?_set_ne d "definitions" key v (fun e => hk (e ▸ hE))

/-! ### the pipeline -/

/-- the top-level parts Flatten may replace wholesale -/
def excluded (o : Opts) : List String :=
  if o.removeUnused then ["definitions", "parameters", "responses"] else ["definitions"]

theorem defs_mem_excluded (o : Opts) : "definitions" ∈ excluded o := by
  unfold excluded; split <;> simp

/-- C01, first clause, on the model: when the pipeline returns normally, every top-level part of the
    document other than `definitions` (and, with RemoveUnused, the shared `parameters` / `responses`)
    is there as before, with the same skeleton — the phases wrote only inside schema positions -/
theorem flatten_keeps (fc : Facts) (x : Ext) (o : Opts) (fuel : Nat) (s s' : St)
    (h : flatten fc x o fuel s = .ok s') : Keeps (excluded o) s.doc s'.doc := by
  have hI := keeps_docInv (excluded o) (defs_mem_excluded o) s.doc
  unfold flatten at h
  obtain ⟨s1, h1, h⟩ := bind_eq_ok.1 h
  have k1 : Keeps (excluded o) s.doc s1.doc := normalizeRef_inv hI _ _ _ _ _ h1 (Keeps.refl _ _)
  obtain ⟨s3, h3, h⟩ := bind_eq_ok.1 h
  have k2 : Keeps (excluded o) s.doc (if o.removeUnused = true then removeUnusedShared fc s1 else s1).doc := by
    split
    · rename_i hr
      refine k1.of_get? ?_
      intro key hk
      have hk' : key ≠ "parameters" ∧ key ≠ "responses" := by
        unfold excluded at hk
        rw [if_pos hr] at hk
        simp at hk
        exact ⟨hk.2.1, hk.2.2⟩
      exact Proofs.RemoveUnused.get?_removeShared_ne s1.doc key hk'.1 hk'.2
    · exact k1
  have k3 : Keeps (excluded o) s.doc s3.doc := Proofs.FlattenImport.importReferences_inv hI fc x o fuel _ _ h3 k2
  obtain ⟨s4, h4, h⟩ := bind_eq_ok.1 h
  have k4 : Keeps (excluded o) s.doc s4.doc := by
    split at h4
    · exact nameInlinedSchemas_inv hI _ _ _ _ _ h4 k3
    · simp only [pure_eq_ok] at h4; exact h4 ▸ k3
  obtain ⟨s5, h5, h⟩ := bind_eq_ok.1 h
  have k5 : Keeps (excluded o) s.doc s5.doc := stripPointersAndOAIGen_inv hI _ _ _ _ _ _ h5 k4
  split at h
  · unfold Flatten.removeUnused at h
    obtain ⟨d, hd, h⟩ := bind_eq_ok.1 h
    simp only [pure_eq_ok] at h; subst h
    have hok := Proofs.RemoveUnused.removeUnused_ok fc { refName := refName x } _ s5.doc d hd
    refine k5.of_get? ?_
    intro key hk
    exact hok.2.2 key (fun e => hk (e ▸ defs_mem_excluded o))
  · simp only [pure_eq_ok] at h; exact h ▸ k5

/-! ### what the relation gives: outside opaque positions, equality -/

/-- below a position of kind `other` (anything that is not on the way to a schema) the relation is equality -/
theorem memberKind_other (t : String) : memberKind .other t = .other := rfl

mutual
  theorem SkelRel.eq_of_other : ∀ {a b : J}, SkelRel .other a b → a = b
    | _, _, .opq _ _ _ h => by simp [isOpaque, isSchemaKind] at h
    | _, _, .refl _ _ => rfl
    | _, _, .obj _ m m' h => by rw [SkelKvs.eq_of_other h]
    | _, _, .arr _ xs ys h => by rw [SkelArr.eq_of_other h]
  theorem SkelKvs.eq_of_other : ∀ {a b : List (String × J)}, SkelKvs .other a b → a = b
    | _, _, .nil _ => rfl
    | _, _, .cons _ t v v' rest rest' hv hr => by
      have hv' : SkelRel .other v v' := hv
      have e1 : v = v' := SkelRel.eq_of_other hv'
      have e2 : rest = rest' := SkelKvs.eq_of_other hr
      rw [e1, e2]
  theorem SkelArr.eq_of_other : ∀ {a b : List J}, SkelArr .other a b → a = b
    | _, _, .nil _ => rfl
    | _, _, .cons _ x y xs ys hx hr => by
      have hx' : SkelRel .other x y := hx
      have e1 : x = y := SkelRel.eq_of_other hx'
      have e2 : xs = ys := SkelArr.eq_of_other hr
      rw [e1, e2]
end

/-! ### reading the relation: what lies on a path that leaves the way to the schemas is equal -/

theorem SkelKvs.lookup {k : Kind} (t : String) : ∀ {m m' : List (String × J)}, SkelKvs k m m' →
    OptRel (memberKind k t) (lookup t m) (lookup t m')
  | _, _, .nil _ => .none
  | _, _, .cons _ t0 v v' rest rest' hv hr => by
    simp only [J.lookup]
    by_cases h : t0 = t
    · subst h; simp only [if_true]; exact .some v v' hv
    · simp only [h, if_false]; exact SkelKvs.lookup t hr

theorem SkelArr.get {k : Kind} : ∀ {xs ys : List J} (i : Nat), SkelArr k xs ys → OptRel (elemKind k) xs[i]? ys[i]?
  | _, _, _, .nil _ => by simp; exact .none
  | _, _, 0, .cons _ x y xs ys hx _ => by simp; exact .some x y hx
  | _, _, i + 1, .cons _ x y xs ys _ hr => by simp; exact SkelArr.get i hr

theorem SkelKvs.keys_eq {k : Kind} : ∀ {m m' : List (String × J)}, SkelKvs k m m' → m'.map (·.1) = m.map (·.1)
  | _, _, .nil _ => rfl
  | _, _, .cons _ t v v' rest rest' _ hr => by simp [SkelKvs.keys_eq hr]

/-- one resolution step on both sides -/
theorem SkelRel.step {k : Kind} (hk : isOpaque k = false) {a b : J} (h : SkelRel k a b) (t : String) :
    OptRel (memberKind k t) (Spec.Pointer.step a t) (Spec.Pointer.step b t) := by
  cases h with
  | opq _ _ _ ho => rw [hk] at ho; cases ho
  | refl => exact OptRel.refl _ _
  | obj _ m m' hm => exact SkelKvs.lookup t hm
  | arr _ xs ys ha =>
    simp only [Spec.Pointer.step]
    cases hn : Spec.Pointer.natOfDigits t.toList with
    | none => exact .none
    | some i =>
      simp only [Option.bind_some]
      rw [memberKind_index k hn]
      exact SkelArr.get i ha

/-- the token path leaves the way to the schemas: some prefix of it reaches a position of kind `other`
    through positions the phases cannot rewrite wholesale -/
def reachesOther : Kind → List String → Bool
  | k, [] => k == .other
  | k, t :: ts => k == .other || (!isOpaque k && reachesOther (memberKind k t) ts)

/-- what such a path designates is the same on both sides -/
theorem SkelRel.get_eq : ∀ (toks : List String) {k : Kind} {a b : J}, SkelRel k a b → reachesOther k toks = true →
    Spec.Pointer.get a toks = Spec.Pointer.get b toks
  | [], k, a, b, h, hr => by
    simp only [reachesOther, beq_iff_eq] at hr
    subst hr
    rw [SkelRel.eq_of_other h]
  | t :: ts, k, a, b, h, hr => by
    simp only [reachesOther, Bool.or_eq_true, beq_iff_eq, Bool.and_eq_true, Bool.not_eq_true'] at hr
    rcases hr with hr | ⟨hk, hr⟩
    · subst hr
      rw [SkelRel.eq_of_other h]
    · simp only [Spec.Pointer.get]
      have hs := h.step hk t
      generalize Spec.Pointer.step a t = sa at hs
      generalize Spec.Pointer.step b t = sb at hs
      cases hs with
      | none => rfl
      | some c c' hc =>
        simp only [Option.bind_some]
        exact SkelRel.get_eq ts hc hr

end Proofs.Skeleton
