import Verif.Proofs.Retarget
import Verif.Proofs.UpdateFrame
import Verif.Proofs.UpdateComm
import Verif.Proofs.ReplaceKeys

/-!
  `replace.UpdateRef` that re-targets a `$ref` along its own chain is a re-targeting in the sense of
  `Proofs.Retarget`: the bundle whose root has been rewritten by `Replace.updateRef d key v'` denotes, at every
  position, the tree it denoted before.
-/

namespace Proofs.RetargetModel
open J Replace Spec.Meaning Proofs.Retarget Proofs.Move Proofs.MoveBase

/-- two token paths: equal, one a proper prefix of the other, or diverging at some token -/
theorem list_cases : ∀ (l1 l2 : List String),
    l1 = l2 ∨ (∃ s, s ≠ [] ∧ l2 = l1 ++ s) ∨ (∃ s, s ≠ [] ∧ l1 = l2 ++ s) ∨
    (∃ c a b ra rb, a ≠ b ∧ l1 = c ++ a :: ra ∧ l2 = c ++ b :: rb) := by
  intro l1
  induction l1 with
  | nil =>
    intro l2
    cases l2 with
    | nil => exact Or.inl rfl
    | cons b r => exact Or.inr (Or.inl ⟨b :: r, by simp, rfl⟩)
  | cons a r ih =>
    intro l2
    cases l2 with
    | nil => exact Or.inr (Or.inr (Or.inl ⟨a :: r, by simp, rfl⟩))
    | cons b r2 =>
      by_cases hab : a = b
      · subst hab
        rcases ih r2 with h | ⟨s, hs, h⟩ | ⟨s, hs, h⟩ | ⟨c, x, y, rx, ry, hxy, h1, h2⟩
        · exact Or.inl (by rw [h])
        · exact Or.inr (Or.inl ⟨s, hs, by rw [h]; rfl⟩)
        · exact Or.inr (Or.inr (Or.inl ⟨s, hs, by rw [h]; rfl⟩))
        · exact Or.inr (Or.inr (Or.inr ⟨a :: c, x, y, rx, ry, hxy, by rw [h1]; rfl, by rw [h2]; rfl⟩))
      · exact Or.inr (Or.inr (Or.inr ⟨[], a, b, r, r2, hab, rfl, rfl⟩))

theorem shapeEq_refl (a : J) : ShapeEq a a := by
  cases a <;> simp [ShapeEq, _root_.Cert.isScalar]

theorem shapeEq_of_sameShape {j j' : J} (h : SameShape j j') : ShapeEq j j' := by
  cases h with
  | obj k1 k2 t hkeys _ => exact (Setting.visible_keys_congr k1 k2 hkeys).symm
  | arr x1 x2 hlen => exact hlen.symm

/-- positions the statement talks about: every position of an auxiliary document; in the root, canonically spelled
    paths that do not lead into the `$ref` member of the rewritten schema -/
def Good (toks : List String) (p : Pos) : Prop :=
  p.1 ≠ "" ∨ (AllCanon p.2 ∧ ¬ (toks ++ ["$ref"]) <+: p.2)

/-- the bundle before and after -/
def bundleWith (d : J) (T : List (String × Pos)) (rest : Bundle) : Bundle :=
  { docs := ("", d) :: rest.docs, refs := ("", T) :: rest.refs }

theorem node_root (d : J) (T : List (String × Pos)) (rest : Bundle) (p : List String) :
    (bundleWith d T rest).node ("", p) = Spec.Pointer.get d p := by
  simp [bundleWith, Bundle.node, List.lookup]

theorem node_aux (d d' : J) (T : List (String × Pos)) (rest : Bundle) (p : Pos) (h : p.1 ≠ "") :
    (bundleWith d' T rest).node p = (bundleWith d T rest).node p := by
  have hb : (p.1 == "") = false := by simpa using h
  simp [bundleWith, Bundle.node, List.lookup, hb]

theorem refStr_obj {a : J} (h : Doc.refStr a ≠ "") : ∃ m, a = .obj m := by
  cases a with
  | obj m => exact ⟨m, rfl⟩
  | _ => exact absurd rfl h

theorem refStr_set (a : J) (v : String) (h : ∃ m, a = .obj m) : Doc.refStr (a.set "$ref" (.str v)) = v := by
  obtain ⟨m, rfl⟩ := h
  simp [Doc.refStr, J.set, getStr, get?, J.lookup_setKv_self]

/-- what the recursion `updR` does, seen from outside: the node at the path gets the new `$ref` -/
theorem updR_shape (r : String) (k : Kind) (j : J) (toks : List String) (j' : J)
    (h : Proofs.UpdateComm.updR r k j toks = some j') :
    ∃ node, Spec.Pointer.get j toks = some node ∧ setAt j toks (node.set "$ref" (.str r)) = some j' := by
  rw [Proofs.UpdateComm.updR_spec] at h
  cases hw : walk k j toks with
  | none => simp [hw] at h
  | some nk =>
    obtain ⟨node, kind⟩ := nk
    simp only [hw] at h
    split at h
    · exact ⟨node, ReplaceKeys.get_of_walk hw, h⟩
    · cases h

 /-- the node at the path gets the new `$ref`, written as a `setAt` -/
theorem updR_setAt (d d' : J) (toks : List String) (v' : String) (a1 : J)
    (h : Proofs.UpdateComm.updR v' .swagger d toks = some d') (hget : Spec.Pointer.get d toks = some a1) :
    setAt d toks (a1.set "$ref" (.str v')) = some d' := by
  obtain ⟨node, hnode, hset⟩ := updR_shape v' .swagger d toks d' h
  rw [hget] at hnode; cases hnode
  exact hset

/-- the bundles before and after `UpdateRef` along the `$ref`'s own chain form a re-targeting setting -/
def retargetSetting (d d' : J) (toks : List String) (v' : String)
    (h : Proofs.UpdateComm.updR v' .swagger d toks = some d')
    (T : List (String × Pos)) (rest : Bundle) (a1 : J)
    (hget : Spec.Pointer.get d toks = some a1) (hv1 : Doc.refStr a1 ≠ "") (hv2 : v' ≠ "")
    (q0 q' : Pos) (ht1 : T.lookup (Doc.refStr a1) = some q0) (ht2 : T.lookup v' = some q')
    (hreach : Reaches (bundleWith d T rest) q0 q')
    (hcanon : AllCanon toks) (hkeys : keysCanon d = true)
    (hgoodT : ∀ doc s q, (bundleWith d T rest).target doc s = some q → Good toks q) : RSetting :=
  have hset := updR_setAt d d' toks v' a1 h hget
  have hobj := refStr_obj hv1
  have hget' : Spec.Pointer.get d' toks = some (a1.set "$ref" (.str v')) := get_setAt_self _ _ _ _ hset
  {
    b1 := bundleWith d T rest
    b2 := bundleWith d' T rest
    kp := ("", toks)
    q0 := q0
    q' := q'
    Good := Good (toks)
    a1 := a1
    a2 := a1.set "$ref" (.str v')
    htarget := fun _ _ => rfl
    hnodes := by
      intro p hg hne
      by_cases hp1 : p.1 = ""
      · obtain ⟨pd, pp⟩ := p
        simp only at hp1; subst hp1
        rw [node_root, node_root]
        have hgp : AllCanon pp ∧ ¬ (toks ++ ["$ref"]) <+: pp := by
          rcases hg with hg | hg
          · exact absurd rfl hg
          · exact hg
        have same : Spec.Pointer.get d' pp = Spec.Pointer.get d pp →
            (Spec.Pointer.get d pp = none ∧ Spec.Pointer.get d' pp = none) ∨
            (∃ a c, Spec.Pointer.get d pp = some a ∧ Spec.Pointer.get d' pp = some c ∧ Doc.refStr c = Doc.refStr a ∧ ShapeEq a c) := by
          intro he
          cases hx : Spec.Pointer.get d pp with
          | none => exact Or.inl ⟨rfl, by rw [he, hx]⟩
          | some a => exact Or.inr ⟨a, a, rfl, by rw [he, hx], rfl, shapeEq_refl a⟩
        rcases list_cases pp (toks) with heq | ⟨s, hs, hpre⟩ | ⟨s, hs, hext⟩ | ⟨c, x, y, rx, ry, hxy, h1, h2⟩
        · exact absurd (by rw [heq]) hne
        · -- an ancestor of the rewritten schema
          rw [hpre] at hset hget
          obtain ⟨j, j', hj, hj', hsj⟩ := get_setAt_ancestor d pp s _ d' hset
          cases s with
          | nil => exact absurd rfl hs
          | cons t ts =>
            refine Or.inr ⟨j, j', hj, hj', ?_, shapeEq_of_sameShape (setAt_sameShape j t ts _ j' hsj)⟩
            refine Setting.setAt_refStr j (t :: ts) (by simp) _ j' hsj ?_ ?_
            · intro c hc
              rw [get_append, hj] at hget
              simp only [Option.bind_some] at hget
              rw [hget] at hc; cases hc
              exact hobj
            · obtain ⟨m, rfl⟩ := hobj; exact ⟨_, rfl⟩
        · -- below the rewritten schema, not through its `$ref` member
          cases s with
          | nil => exact absurd rfl hs
          | cons t r =>
            have ht : t ≠ "$ref" := by
              intro e; subst e
              exact hgp.2 ⟨r, by rw [hext]; simp⟩
            apply same
            rw [hext]
            rw [get_append, get_append, hget, get_setAt_self _ _ _ _ hset]
            exact Proofs.UpdateFrame.get_set_ne a1 _ t r ht
        · -- a path that leaves the way to the rewritten schema
          apply same
          rw [h1]
          rw [h2] at hset
          have hcx : CanonTok x := hgp.1 x (by rw [h1]; simp)
          have hcy : CanonTok y := hcanon y (by rw [h2]; simp)
          exact get_setAt_diverge d c y x ry rx _ d' (Ne.symm hxy) hcy hcx hset
      · rw [node_aux d d' T rest p hp1]
        cases hx : (bundleWith d T rest).node p with
        | none => exact Or.inl ⟨rfl, rfl⟩
        | some a => exact Or.inr ⟨a, a, rfl, rfl, rfl, shapeEq_refl a⟩
    hk1 := by rw [node_root]; exact hget
    hk2 := by rw [node_root]; exact hget'
    hv1 := hv1
    hv2 := by rw [refStr_set a1 v' hobj]; exact hv2
    ht1 := by simpa [bundleWith, Bundle.target, List.lookup] using ht1
    ht2 := by rw [refStr_set a1 v' hobj]; simpa [bundleWith, Bundle.target, List.lookup] using ht2
    hreach := hreach
    hgoodT := hgoodT
    hgoodC := by
      intro e a hg hne hn
      by_cases he1 : e.1 = ""
      · obtain ⟨ed, ep⟩ := e
        simp only at he1; subst he1
        rw [node_root] at hn
        have hgp : AllCanon ep ∧ ¬ (toks ++ ["$ref"]) <+: ep := by
          rcases hg with hg | hg
          · exact absurd rfl hg
          · exact hg
        have hchild : ∀ k, CanonTok k → Good (toks) (child ("", ep) k) := by
          intro k hk
          refine Or.inr ⟨?_, ?_⟩
          · intro t ht
            simp only [child, List.mem_append, List.mem_singleton] at ht
            rcases ht with ht | ht
            · exact hgp.1 t ht
            · exact ht ▸ hk
          · intro hpre
            simp only [child] at hpre
            rcases List.prefix_concat_iff.1 hpre with heq | hp
            · have := List.append_inj_left' heq (by simp)
              exact hne (by rw [← this])
            · exact hgp.2 hp
        constructor
        · intro kvs hk key' hkey
          subst hk
          have hkc := keysCanon_get d hkeys ep _ hn
          exact hchild key' (keysCanonKvs_keys kvs (by simpa [keysCanon] using hkc) key' (Setting.mem_visible_mem kvs key' hkey))
        · intro xs _ i
          exact hchild (toString i) (canonTok_toString i)
      · constructor
        · intro _ _ key' _; exact Or.inl (by simpa [child] using he1)
        · intro _ _ i; exact Or.inl (by simpa [child] using he1) }

/-- `UpdateRef` along the `$ref`'s own chain preserves the meaning of every good position -/
theorem updR_retarget_preserves (d d' : J) (toks : List String) (v' : String)
    (h : Proofs.UpdateComm.updR v' .swagger d toks = some d')
    (T : List (String × Pos)) (rest : Bundle) (a1 : J)
    (hget : Spec.Pointer.get d toks = some a1) (hv1 : Doc.refStr a1 ≠ "") (hv2 : v' ≠ "")
    (q0 q' : Pos) (ht1 : T.lookup (Doc.refStr a1) = some q0) (ht2 : T.lookup v' = some q')
    (hreach : Reaches (bundleWith d T rest) q0 q')
    (hcanon : AllCanon toks) (hkeys : keysCanon d = true)
    (hgoodT : ∀ doc s q, (bundleWith d T rest).target doc s = some q → Good toks q)
    (hops : Nat) (had : RSetting.Adequate (bundleWith d T rest) hops) :
    ∀ n p, Good toks p →
      unfold (bundleWith d T rest) hops n p = unfold (bundleWith d' T rest) hops n p :=
  (retargetSetting d d' toks v' h T rest a1 hget hv1 hv2 q0 q' ht1 ht2 hreach hcanon hkeys hgoodT).retarget_preserves hops had

/-- the same with adequacy of the hop bound on the good positions only, which is what survives the step: the second
    component is the adequacy of the rewritten bundle -/
theorem updR_retarget_step (d d' : J) (toks : List String) (v' : String)
    (h : Proofs.UpdateComm.updR v' .swagger d toks = some d')
    (T : List (String × Pos)) (rest : Bundle) (a1 : J)
    (hget : Spec.Pointer.get d toks = some a1) (hv1 : Doc.refStr a1 ≠ "") (hv2 : v' ≠ "")
    (q0 q' : Pos) (ht1 : T.lookup (Doc.refStr a1) = some q0) (ht2 : T.lookup v' = some q')
    (hreach : Reaches (bundleWith d T rest) q0 q')
    (hcanon : AllCanon toks) (hkeys : keysCanon d = true)
    (hgoodT : ∀ doc s q, (bundleWith d T rest).target doc s = some q → Good toks q)
    (hops : Nat) (had : RSetting.AdequateOn (Good toks) (bundleWith d T rest) hops) :
    (∀ n p, Good toks p → unfold (bundleWith d T rest) hops n p = unfold (bundleWith d' T rest) hops n p) ∧
    RSetting.AdequateOn (Good toks) (bundleWith d' T rest) hops ∧
    (∀ p, Good toks p → p ≠ ("", toks) →
      ((bundleWith d T rest).node p = none ∧ (bundleWith d' T rest).node p = none) ∨
      (∃ a c, (bundleWith d T rest).node p = some a ∧ (bundleWith d' T rest).node p = some c ∧
        Doc.refStr c = Doc.refStr a ∧ ShapeEq a c)) :=
  let S := retargetSetting d d' toks v' h T rest a1 hget hv1 hv2 q0 q' ht1 ht2 hreach hcanon hkeys hgoodT
  ⟨S.retarget_preserves_on hops had, S.adequateOn_preserved hops had, S.hnodes⟩

/-- the same for `Replace.updateRef` on an analyzer key -/
theorem updateRef_retarget_preserves (d d' : J) (key v' : String) (h : updateRef d key v' = .ok d')
    (T : List (String × Pos)) (rest : Bundle) (a1 : J)
    (hget : Spec.Pointer.get d (keyTokens key) = some a1) (hv1 : Doc.refStr a1 ≠ "") (hv2 : v' ≠ "")
    (q0 q' : Pos) (ht1 : T.lookup (Doc.refStr a1) = some q0) (ht2 : T.lookup v' = some q')
    (hreach : Reaches (bundleWith d T rest) q0 q')
    (hcanon : AllCanon (keyTokens key)) (hkeys : keysCanon d = true)
    (hgoodT : ∀ doc s q, (bundleWith d T rest).target doc s = some q → Good (keyTokens key) q)
    (hops : Nat) (had : RSetting.Adequate (bundleWith d T rest) hops) :
    ∀ n p, Good (keyTokens key) p →
      unfold (bundleWith d T rest) hops n p = unfold (bundleWith d' T rest) hops n p :=
  updR_retarget_preserves d d' (keyTokens key) v' ((Proofs.UpdateComm.updateRef_ok_iff d key v' d').1 h) T rest a1 hget hv1 hv2
    q0 q' ht1 ht2 hreach hcanon hkeys hgoodT hops had

end Proofs.RetargetModel
