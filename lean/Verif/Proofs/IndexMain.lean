import Verif.Proofs.IndexDoc

/-!
  The log of `Analyzer.analyze`, up to a permutation.
-/

namespace IndexProof
open J Analyzer Spec.Index Str ListPerm

theorem key_shared (lit k : String) (hl : GoodTok lit) (he : Str.esc lit = lit) (hk : GoodTok k) :
    Str.join ["/" ++ lit, Str.esc k] = ptr [lit, k] :=
  join_lit_toks lit [k] hl he (by simpa using hk)

theorem sharedParams_perm (d : J) (h : WF' d) :
    ((d.getObj "parameters").flatMap fun kv =>
      analyzeItems kv.2 (Str.join ["/parameters", Str.esc kv.1]) "parameter" ++
      (if kv.2.getStr "in" = "body" then Analyzer.schemaOf kv.2 (Str.join ["/parameters", Str.esc kv.1]) else []) ++
      patEnum "parameter" (Str.join ["/parameters", Str.esc kv.1]) kv.2).Perm
    ((sharedParams d).flatMap (PA false)) := by
  unfold sharedParams
  rw [List.flatMap_map]
  refine List.Perm.flatMap_left _ ?_
  intro kv hkv
  have hp := h.goodParam (["parameters", kv.1], kv.2)
    (List.mem_append_right _ (List.mem_map.2 ⟨kv, hkv, rfl⟩))
  have hk : GoodTok kv.1 := hp.self kv.1 (by simp)
  have hkey : Str.join ["/parameters", Str.esc kv.1] = ptr ["parameters", kv.1] := by
    rw [show ("/parameters" : String) = "/" ++ "parameters" by decide]
    exact key_shared "parameters" kv.1 ⟨by decide, by decide, by decide⟩ (by decide) hk
  have := param_perm false (["parameters", kv.1], kv.2) (by simp) hp
  simp only [hkey]
  simp only [Bool.false_eq_true, if_false, List.nil_append] at this
  refine List.Perm.trans ?_ this
  perm_ac

theorem sharedResponses_perm (d : J) (h : WF' d) :
    ((d.getObj "responses").flatMap fun kv =>
      analyzeHeaders (Str.join ["/responses", Str.esc kv.1]) kv.2 true ++
      Analyzer.schemaOf kv.2 (Str.join ["/responses", Str.esc kv.1])).Perm
    ((sharedResponses d).flatMap (RA false)) := by
  unfold sharedResponses
  rw [List.flatMap_map]
  refine List.Perm.flatMap_left _ ?_
  intro kv hkv
  have hp := h.goodResp (["responses", kv.1], kv.2)
    (List.mem_append_right _ (List.mem_map.2 ⟨kv, hkv, rfl⟩))
  have hk : GoodTok kv.1 := hp.self kv.1 (by simp)
  have hkey : Str.join ["/responses", Str.esc kv.1] = ptr ["responses", kv.1] := by
    rw [show ("/responses" : String) = "/" ++ "responses" by decide]
    exact key_shared "responses" kv.1 ⟨by decide, by decide, by decide⟩ (by decide) hk
  simp only [hkey, RA, Bool.false_eq_true, if_false, List.nil_append]
  rw [schemaOf_eq _ kv.2 (by simp) hp.self hp.schema]
  exact List.Perm.append_right _ (analyzeHeaders_perm _ kv.2 (by simp) hp.self hp.headers)

theorem definitions_eq (d : J) (h : WF' d) :
    ((d.getObj "definitions").flatMap fun kv => analyzeSchema kv.1 kv.2 "/definitions") = defsE d := by
  unfold defsE
  apply List.flatMap_congr'
  intro kv hkv
  have hg : ∀ p ∈ schemasAt ["definitions", kv.1] kv.2, ∀ t ∈ p.1, GoodTok t := by
    intro p hp
    refine h.toks p ?_
    have : p ∈ allSchemas d := by
      unfold allSchemas
      exact List.mem_append_right _ (List.mem_flatMap.2 ⟨kv, hkv, hp⟩)
    exact pos_schemas this
  unfold analyzeSchema
  cases hv : kv.2.isObj
  · rw [aSchema_nonobj _ _ _ _ hv, schemasAt_nonobj _ _ hv]; rfl
  · have hk : GoodTok kv.1 := hg _ (self_mem_schemasAt _ _ hv) kv.1 (by simp)
    have hkey : Str.join ["/definitions", Str.esc kv.1] = ptr ["definitions", kv.1] := by
      rw [show ("/definitions" : String) = "/" ++ "definitions" by decide]
      exact key_shared "definitions" kv.1 ⟨by decide, by decide, by decide⟩ (by decide) hk
    rw [hkey]
    have := aSchema_eq ["definitions", kv.1] kv.2 (by simp) hg
    simpa [lastTok, isTopLevel] using this

/-- the insertion log of the analyzer is, up to order, the per-holder entries of the specification's
    positions, plus entries that no index of C11–C13 reads -/
theorem analyze_perm (f : Facts)
    (hm : f.analyzerMethods.Perm (Doc.methods.map fun m => (Str.toUpperAscii m, m)))
    (hd : f.defaultHeaderEnums = true) (d : J) (h : WF' d) :
    (analyze f d).Perm (junk d ++ mid d) := by
  have hpi : ((Doc.pathItems d).flatMap fun kv => analyzeOperations f kv.1 kv.2).Perm
      ((Doc.pathItems d).flatMap piT) := by
    refine List.Perm.flatMap_left _ ?_
    intro kv hkv
    refine analyzeOperations_perm f hm hd kv.1 kv.2 (h.goodPath kv hkv) ?_ (h.goodPathParams kv hkv)
    intro o ho
    refine h.goodOp o ?_
    rw [operations_eq]
    exact List.mem_flatMap.2 ⟨kv, hkv, ho⟩
  unfold analyze
  rw [definitions_eq d h]
  refine (List.Perm.append_right _ (List.Perm.append
    (List.Perm.append (List.Perm.append_left _ (hpi.trans (pathItems_perm d)))
      (sharedParams_perm d h)) (sharedResponses_perm d h))).trans ?_
  unfold junk mid
  perm_ac

end IndexProof
