import Verif.Model.Index
import Verif.Spec.Index
import Verif.Proofs.StrLemmas
import Verif.Proofs.ListPerm

/-!
  Keys: the strings the analyzer builds with `path.Join` / `jsonpointer.Escape` are the RFC 6901
  renderings of the token paths of the specification.  Per-position entries of the insertion log.
  `analyzeItems` against `itemsAt`.
-/

-- STRING FACTS NEEDED (beyond `Verif/Proofs/StrLemmas.lean`; all proved here).
-- Two more, used only by C12, are at the top of `Verif/Proofs/Pointer.lean`:
-- `natOfDigits_toString` (a decimal numeral parses back) and `toString_inj`.
namespace Str
open Spec.Index

/-- STRING FACT: rendering is a homomorphism for `++` -/
theorem ptr_append (a b : List String) : ptr (a ++ b) = ptr a ++ ptr b := by
  unfold ptr
  rw [List.map_append, String.join_append]

/-- STRING FACT: one token -/
theorem ptr_singleton (t : String) : ptr [t] = "/" ++ esc t := by
  unfold ptr
  simp [String.join_cons]

/-- STRING FACT: `path.Join(ptr toks, Escape(k₁), …, Escape(kₙ))` is the rendering of `toks ++ ks` -/
theorem join_ptr_toks (toks ks : List String) (ht : ∀ t ∈ toks, GoodTok t) (hne : toks ≠ [])
    (hk : ∀ k ∈ ks, GoodTok k) : join (ptr toks :: ks.map esc) = ptr (toks ++ ks) := by
  rw [join_ptr toks (ks.map esc) ht hne, ptr_append]
  · congr 1
    unfold ptr
    rw [List.map_map]
    rfl
  · intro s hs
    obtain ⟨k, hk', rfl⟩ := List.mem_map.1 hs
    exact goodSeg_esc k (hk k hk')

/-- STRING FACT: the same from a literal root such as "/paths" -/
theorem join_lit_toks (lit : String) (ks : List String) (hl : GoodTok lit) (he : esc lit = lit)
    (hk : ∀ k ∈ ks, GoodTok k) : join (("/" ++ lit) :: ks.map esc) = ptr (lit :: ks) := by
  have h := join_ptr_toks [lit] ks (by simpa using hl) (by simp) hk
  rw [ptr_singleton, he] at h
  exact h

/-- STRING FACT: a string of decimal digits needs no escaping -/
theorem esc_of_digits (k : String) (h : k.toList.all Doc.isDigit = true) : esc k = k := by
  apply String.toList_injective
  rw [toList_esc]
  apply escL_id
  · intro hm
    have := List.all_eq_true.1 h _ hm
    revert this; decide
  · intro hm
    have := List.all_eq_true.1 h _ hm
    revert this; decide

/-- STRING FACT: only the one-token path `["definitions"]` renders as "/definitions" -/
theorem ptr_ne_definitions (toks : List String) (h : 2 ≤ toks.length) : ptr toks ≠ "/definitions" := by
  intro e
  have h1 : ptr ["definitions"] = "/definitions" := by decide
  rw [← h1] at e
  have := congrArg Spec.Pointer.parse e
  rw [parse_ptr, parse_ptr] at this
  subst this
  simp at h

theorem goodTok_of_goodSeg {s : String} (h : GoodSeg s) : GoodTok s := ⟨h.1, h.2.1, h.2.2.1⟩

theorem goodTok_itoa (n : Nat) : GoodTok (toString n) := goodTok_of_goodSeg (goodSeg_itoa n).1

theorem esc_itoa (n : Nat) : esc (toString n) = toString n := (goodSeg_itoa n).2

end Str

namespace IndexProof
open J Analyzer Spec.Index Str

/-! ### keys -/

theorem join1 (toks : List String) (k : String) (ht : ∀ t ∈ toks, GoodTok t) (hne : toks ≠ [])
    (hk : GoodTok k) : Str.join [ptr toks, Str.esc k] = ptr (toks ++ [k]) :=
  join_ptr_toks toks [k] ht hne (by simpa using hk)

theorem join1_lit (toks : List String) (k : String) (ht : ∀ t ∈ toks, GoodTok t) (hne : toks ≠ [])
    (hk : GoodTok k) (he : Str.esc k = k) : Str.join [ptr toks, k] = ptr (toks ++ [k]) := by
  have := join1 toks k ht hne hk
  rwa [he] at this

theorem join2 (toks : List String) (a b : String) (ht : ∀ t ∈ toks, GoodTok t) (hne : toks ≠ [])
    (ha : GoodTok a) (hb : GoodTok b) :
    Str.join [ptr toks, Str.esc a, Str.esc b] = ptr (toks ++ [a, b]) :=
  join_ptr_toks toks [a, b] ht hne (by simp [ha, hb])

/-! ### entries of one position -/

/-- what `analyzeSchema` logs for one schema position -/
def schE (p : Pos) : List Ent :=
  Ent.schema (ptr p.1) (lastTok p.1) (isTopLevel p.1) p.2 ::
    (refEnt "schema" (ptr p.1) p.2 ++ patEnum "schema" (ptr p.1) p.2)

/-- what `analyzeItems` logs for one items position -/
def itE (loc : String) (p : Pos) : List Ent :=
  refEnt ("items:" ++ loc) (ptr p.1) p.2 ++ patEnum "items" (ptr p.1) p.2

/-! ### `analyzeItems` -/

theorem goodTok_items : GoodTok "items" := ⟨by decide, by decide, by decide⟩

mutual
  theorem aItems_perm (loc : String) : ∀ (toks : List String) (j : J), toks ≠ [] →
      (∀ p ∈ itemsAt toks j, ∀ t ∈ p.1, GoodTok t) →
      (aItems (ptr toks) loc j).Perm ((itemsAt toks j).flatMap (itE loc))
    | toks, .obj kvs, hne, hg => by
      have ht : ∀ t ∈ toks, GoodTok t := hg (toks, .obj kvs) (by simp [itemsAt])
      have ih := aItemsFields_perm loc toks kvs hne ht (fun p hp => hg p (by simp [itemsAt, hp]))
      simp only [aItems, itemsAt, List.flatMap_cons, itE, List.append_assoc]
      exact (List.perm_append_comm).trans ((List.Perm.append_left _ ih).trans (by simp))
    | _, .null, _, _ | _, .bool _, _, _ | _, .num _, _, _ | _, .str _, _, _ | _, .arr _, _, _ => by
      simp [aItems, itemsAt]
  theorem aItemsFields_perm (loc : String) : ∀ (toks : List String) (kvs : List (String × J)), toks ≠ [] →
      (∀ t ∈ toks, GoodTok t) → (∀ p ∈ itemsKids toks kvs, ∀ t ∈ p.1, GoodTok t) →
      (aItemsFields (ptr toks) loc kvs).Perm ((itemsKids toks kvs).flatMap (itE loc))
    | _, [], _, _, _ => by simp [aItemsFields, itemsKids]
    | toks, (k, v) :: rest, hne, ht, hg => by
      simp only [aItemsFields, itemsKids, List.flatMap_append]
      apply List.Perm.append
      · split
        · rw [join1_lit toks "items" ht hne goodTok_items (by decide)]
          refine aItems_perm loc (toks ++ ["items"]) v (by simp) (fun p hp => hg p ?_)
          simp [itemsKids, *]
        · simp
      · exact aItemsFields_perm loc toks rest hne ht (fun p hp => hg p (by simp [itemsKids, hp]))
end

end IndexProof
