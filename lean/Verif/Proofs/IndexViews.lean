import Verif.Proofs.IndexMain

/-!
  From the per-holder log to the category-sorted log, and the four index views of it.
-/

namespace IndexProof
open J Analyzer Spec.Index Str ListPerm

/-- the relevant entries, category by category -/
def specLog (d : J) : List Ent :=
  (allSchemas d).flatMap schE ++ (opResponses d).flatMap respE ++ (listedParams d).flatMap parRefE ++
  (pathItemPositions d).flatMap piE ++ (headerItems d).flatMap (itE "header") ++
  (paramItems d).flatMap (itE "parameter") ++ (listedParams d ++ sharedParams d).flatMap parPatE ++
  (headers d).flatMap hdrE

theorem flatMap_nil_fun {α β} (X : List α) : (X.flatMap fun _ => ([] : List β)) = [] := by
  induction X with
  | nil => rfl
  | cons a X ih => simp [ih]

theorem flatMap_ite_nil {α β} (c : Prop) [Decidable c] (l : List α) (f : α → List β) :
    (if c then l else []).flatMap f = if c then l.flatMap f else [] := by
  split <;> rfl

theorem PA_true_split (X : List Pos) :
    (X.flatMap (PA true)).Perm
      (X.flatMap parRefE ++ X.flatMap parPatE ++
       (X.flatMap fun p => (itemsOf p).flatMap (itE "parameter")) ++
       (X.flatMap fun p => if p.2.getStr "in" = "body" then (Spec.Index.schemaOf p).flatMap schE else [])) := by
  have e : PA true = fun p => parRefE p ++ parPatE p ++ (itemsOf p).flatMap (itE "parameter") ++
      (if p.2.getStr "in" = "body" then (Spec.Index.schemaOf p).flatMap schE else []) := by
    funext p; simp [PA]
  rw [e]
  exact List.flatMap_append4_perm X _ _ _ _

theorem PA_false_split (X : List Pos) :
    (X.flatMap (PA false)).Perm
      (X.flatMap parPatE ++
       (X.flatMap fun p => (itemsOf p).flatMap (itE "parameter")) ++
       (X.flatMap fun p => if p.2.getStr "in" = "body" then (Spec.Index.schemaOf p).flatMap schE else [])) := by
  have e : PA false = fun p => parPatE p ++ (itemsOf p).flatMap (itE "parameter") ++
      (if p.2.getStr "in" = "body" then (Spec.Index.schemaOf p).flatMap schE else []) := by
    funext p; simp [PA]
  rw [e]
  exact List.flatMap_append3_perm X _ _ _

theorem HA_split (X : List Pos) :
    (X.flatMap fun p => (headersOf p).flatMap HA).Perm
      ((X.flatMap fun p => (headersOf p).flatMap hdrE) ++
       (X.flatMap fun p => (headersOf p).flatMap fun h => (itemsOf h).flatMap (itE "header"))) :=
  (List.Perm.flatMap_left _ fun p _ =>
    List.flatMap_append_perm' (headersOf p) hdrE fun h => (itemsOf h).flatMap (itE "header")).trans
    (List.flatMap_append_perm' X _ _)

theorem RA_true_split (X : List Pos) :
    (X.flatMap (RA true)).Perm
      (X.flatMap respE ++ (X.flatMap fun p => (headersOf p).flatMap hdrE) ++
       (X.flatMap fun p => (headersOf p).flatMap fun h => (itemsOf h).flatMap (itE "header")) ++
       (X.flatMap fun p => (Spec.Index.schemaOf p).flatMap schE)) := by
  have e : RA true = fun p => respE p ++ (headersOf p).flatMap HA ++
      (Spec.Index.schemaOf p).flatMap schE := by
    funext p; simp [RA]
  rw [e]
  refine (List.flatMap_append3_perm X _ _ _).trans ?_
  refine (List.Perm.append_right _ (List.Perm.append_left _ (HA_split X))).trans ?_
  perm_ac

theorem RA_false_split (X : List Pos) :
    (X.flatMap (RA false)).Perm
      ((X.flatMap fun p => (headersOf p).flatMap hdrE) ++
       (X.flatMap fun p => (headersOf p).flatMap fun h => (itemsOf h).flatMap (itE "header")) ++
       (X.flatMap fun p => (Spec.Index.schemaOf p).flatMap schE)) := by
  have e : RA false = fun p => (headersOf p).flatMap HA ++
      (Spec.Index.schemaOf p).flatMap schE := by
    funext p; simp [RA]
  rw [e]
  refine (List.flatMap_append_perm' X _ _).trans ?_
  exact List.Perm.append_right _ (HA_split X)

theorem mid_perm_specLog (d : J) : (mid d).Perm (specLog d) := by
  have e1 : (allSchemas d).flatMap schE =
      ((listedParams d).flatMap fun p =>
        if p.2.getStr "in" = "body" then (Spec.Index.schemaOf p).flatMap schE else []) ++
      ((sharedParams d).flatMap fun p =>
        if p.2.getStr "in" = "body" then (Spec.Index.schemaOf p).flatMap schE else []) ++
      ((opResponses d).flatMap fun p => (Spec.Index.schemaOf p).flatMap schE) ++
      ((sharedResponses d).flatMap fun p => (Spec.Index.schemaOf p).flatMap schE) ++ defsE d := by
    unfold allSchemas defsE
    simp only [List.flatMap_append, List.flatMap_assoc, List.filter_append, List.flatMap_filter',
      decide_eq_true_eq, List.append_assoc, flatMap_ite_nil]
  have e2 : (headerItems d).flatMap (itE "header") =
      ((opResponses d).flatMap fun p => (headersOf p).flatMap fun h => (itemsOf h).flatMap (itE "header")) ++
      ((sharedResponses d).flatMap fun p => (headersOf p).flatMap fun h => (itemsOf h).flatMap (itE "header")) := by
    unfold headerItems headers
    simp only [List.flatMap_append, List.flatMap_assoc]
  have e3 : (paramItems d).flatMap (itE "parameter") =
      ((listedParams d).flatMap fun p => (itemsOf p).flatMap (itE "parameter")) ++
      ((sharedParams d).flatMap fun p => (itemsOf p).flatMap (itE "parameter")) := by
    unfold paramItems
    simp only [List.flatMap_append, List.flatMap_assoc]
  have e4 : (headers d).flatMap hdrE =
      ((opResponses d).flatMap fun p => (headersOf p).flatMap hdrE) ++
      ((sharedResponses d).flatMap fun p => (headersOf p).flatMap hdrE) := by
    unfold headers
    simp only [List.flatMap_append, List.flatMap_assoc]
  unfold specLog mid
  rw [e1, e2, e3, e4, List.flatMap_append]
  have p1 := PA_true_split (listedParams d)
  have p2 := PA_false_split (sharedParams d)
  have p3 := RA_true_split (opResponses d)
  have p4 := RA_false_split (sharedResponses d)
  refine (List.Perm.append_right _ (List.Perm.append_right _
    (List.Perm.append (List.Perm.append (List.Perm.append p1 p2) p3) p4))).trans ?_
  perm_ac

theorem analyze_perm_specLog (f : Facts)
    (hm : f.analyzerMethods.Perm (Doc.methods.map fun m => (Str.toUpperAscii m, m)))
    (hd : f.defaultHeaderEnums = true) (d : J) (h : WF' d) :
    (analyze f d).Perm (junk d ++ specLog d) :=
  (analyze_perm f hm hd d h).trans (List.Perm.append_left _ (mid_perm_specLog d))

/-! ### entries no index reads -/

def isJunk : Ent → Bool
  | .op .. | .consumes _ | .produces _ | .auth _ => true
  | _ => false

theorem junk_all (d : J) : ∀ e ∈ junk d, isJunk e = true := by
  have hauth : ∀ (n : J) (e : Ent),
      e ∈ ((n.getArr "security").flatMap fun req =>
        match req with | .obj kvs => kvs.map fun kv => Ent.auth kv.1 | _ => []) → isJunk e = true := by
    intro n e he
    obtain ⟨req, _, h⟩ := List.mem_flatMap.1 he
    cases req <;> simp at h
    obtain ⟨a, b, _, rfl⟩ := h
    rfl
  intro e he
  simp only [junk, List.mem_append] at he
  rcases he with ((he | he) | he) | he
  · obtain ⟨s, _, rfl⟩ := List.mem_map.1 he; rfl
  · obtain ⟨s, _, rfl⟩ := List.mem_map.1 he; rfl
  · exact hauth d e he
  · obtain ⟨o, _, h⟩ := List.mem_flatMap.1 he
    simp only [opJunk, List.mem_append, List.mem_singleton] at h
    rcases h with ((h | h) | h) | h
    · obtain ⟨s, _, rfl⟩ := List.mem_map.1 h; rfl
    · obtain ⟨s, _, rfl⟩ := List.mem_map.1 h; rfl
    · exact hauth _ e h
    · subst h; rfl

/-- a view that ignores the junk entries sees the category-sorted log, up to order -/
theorem view_perm {β} (g : Ent → Option β) (hg : ∀ e, isJunk e = true → g e = none) (f : Facts)
    (hm : f.analyzerMethods.Perm (Doc.methods.map fun m => (Str.toUpperAscii m, m)))
    (hd : f.defaultHeaderEnums = true) (d : J) (h : WF' d) :
    ((analyze f d).filterMap g).Perm ((specLog d).filterMap g) := by
  have := (analyze_perm_specLog f hm hd d h).filterMap g
  rw [List.filterMap_append] at this
  have hj : (junk d).filterMap g = [] :=
    List.filterMap_eq_nil_iff.2 fun e he => hg e (junk_all d e he)
  rwa [hj, List.nil_append] at this

/-! ### what the views read off one position -/

def refOne (q : Pos) : List (String × J) :=
  if Doc.refStr q.2 ≠ "" then [(key q.1, .str (Doc.refStr q.2))] else []

def patOne (q : Pos) : List (String × J) :=
  if q.2.getStr "pattern" ≠ "" then [(key q.1, .str (q.2.getStr "pattern"))] else []

def enumOne (q : Pos) : List (String × J) :=
  match q.2.get? "enum" with
  | some (.arr (v :: vs)) => [(key q.1, .arr (v :: vs))]
  | _ => []

theorem filterMap_eq_flatMap {α β} (g : α → Option β) (l : List α) :
    l.filterMap g = l.flatMap fun a => (g a).toList := by
  induction l with
  | nil => rfl
  | cons a l ih => cases h : g a <;> simp [h, ih]

theorem refsOf_eq (ps : List Pos) : refsOf ps = ps.flatMap refOne := by
  unfold refsOf
  rw [filterMap_eq_flatMap]
  apply List.flatMap_congr'
  intro q _
  unfold refOne
  split <;> rfl

theorem patternsOf_eq (ps : List Pos) : patternsOf ps = ps.flatMap patOne := by
  unfold patternsOf
  rw [filterMap_eq_flatMap]
  apply List.flatMap_congr'
  intro q _
  unfold patOne
  split <;> rfl

theorem enumsOf_eq (ps : List Pos) : enumsOf ps = ps.flatMap enumOne := by
  unfold enumsOf
  rw [filterMap_eq_flatMap]
  apply List.flatMap_congr'
  intro q _
  unfold enumOne
  split <;> simp_all

theorem flatMap_ite_fun {α β} (c : Prop) [Decidable c] (l : List α) (f : α → List β) :
    (l.flatMap fun a => if c then f a else []) = if c then l.flatMap f else [] := by
  split
  · rfl
  · exact flatMap_nil_fun l

end IndexProof
