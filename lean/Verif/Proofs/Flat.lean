import Verif.Spec.Flat
import Verif.Proofs.Pointer

/-!
  C02 / C05 / C06: the generic `$ref` walk `Spec.Flat.refNodes` against JSON-pointer resolution
  `Spec.Pointer.get`, and the unfoldings of the executable validators.
-/

namespace Proofs.Flat
open J Spec.Flat PointerProof

/-! ### array-index tokens -/

/-- every token of the path that is consumed by an array is the canonical decimal numeral of the
    index it denotes (`"7"`, not `"007"`); tokens consumed by objects are unconstrained -/
def canonIdx : J → List String → Bool
  | _, [] => true
  | d, t :: ts =>
    (match d with
     | .arr _ =>
       (match Spec.Pointer.natOfDigits t.toList with
        | some i => t == toString i
        | none => true)
     | _ => true) &&
    (match Spec.Pointer.step d t with
     | some c => canonIdx c ts
     | none => true)

/-! ### the walk as `flatMap`s -/

theorem refNodesKvs_flatMap (toks : List String) (kvs : List (String × J)) :
    refNodesKvs toks kvs = kvs.flatMap fun kv => refNodes (toks ++ [kv.1]) kv.2 := by
  induction kvs with
  | nil => simp [refNodesKvs]
  | cons kv rest ih => obtain ⟨k, v⟩ := kv; rw [refNodesKvs, ih]; rfl

theorem refNodesArr_flatMap (toks : List String) (i : Nat) (xs : List J) :
    refNodesArr toks i xs = (xs.zipIdx i).flatMap fun xn => refNodes (toks ++ [toString xn.2]) xn.1 := by
  induction xs generalizing i with
  | nil => simp [refNodesArr]
  | cons x rest ih => rw [refNodesArr, ih, List.zipIdx_cons]; rfl

/-- the entry contributed by the node itself -/
def here (toks : List String) (j : J) : List (List String × String) :=
  match j.get? "$ref" with
  | some (.str r) => if r ≠ "" then [(toks, r)] else []
  | _ => []

theorem refNodes_obj (toks : List String) (kvs : List (String × J)) :
    refNodes toks (.obj kvs) =
      here toks (.obj kvs) ++ kvs.flatMap fun kv => refNodes (toks ++ [kv.1]) kv.2 := by
  rw [refNodes, refNodesKvs_flatMap]; rfl

theorem refNodes_arr (toks : List String) (xs : List J) :
    refNodes toks (.arr xs) =
      (xs.zipIdx 0).flatMap fun xn => refNodes (toks ++ [toString xn.2]) xn.1 := by
  rw [refNodes, refNodesArr_flatMap]

theorem mem_here {toks : List String} {j : J} {tr : List String × String} :
    tr ∈ here toks j ↔ tr.1 = toks ∧ j.get? "$ref" = some (.str tr.2) ∧ tr.2 ≠ "" := by
  obtain ⟨t, r⟩ := tr
  unfold here
  split
  · rename_i r' h
    by_cases hr : r' = ""
    · subst hr
      simp only [ne_eq, not_true_eq_false, if_false, List.not_mem_nil, h, Option.some.injEq,
        J.str.injEq, false_iff, not_and, not_not]
      intro _ e; exact e.symm
    · simp only [ne_eq, hr, not_false_eq_true, if_true, List.mem_singleton, Prod.mk.injEq, h,
        Option.some.injEq, J.str.injEq]
      constructor
      · rintro ⟨rfl, rfl⟩; exact ⟨rfl, rfl, hr⟩
      · rintro ⟨rfl, rfl, _⟩; exact ⟨rfl, rfl⟩
  · rename_i h
    simp only [List.not_mem_nil, false_iff, not_and]
    intro _ e; exact absurd e (h _)

/-! ### completeness -/

/-- a node reached along `toks` (array indices spelled canonically) and carrying a `$ref` is listed
    under `pre ++ toks` -/
theorem refNodes_complete (toks : List String) : ∀ (d : J) (pre : List String) (j : J) (r : String),
    canonIdx d toks = true → Spec.Pointer.get d toks = some j →
    j.get? "$ref" = some (.str r) → r ≠ "" → (pre ++ toks, r) ∈ refNodes pre d := by
  induction toks with
  | nil =>
    intro d pre j r _ hg hr hne
    simp only [Spec.Pointer.get, Option.some.injEq] at hg
    subst hg
    cases d with
    | obj kvs =>
      rw [refNodes_obj, List.append_nil]
      exact List.mem_append_left _ (mem_here.2 ⟨rfl, hr, hne⟩)
    | _ => simp [J.get?] at hr
  | cons t ts ih =>
    intro d pre j r hc hg hr hne
    simp only [Spec.Pointer.get] at hg
    cases hs : Spec.Pointer.step d t with
    | none => simp [hs] at hg
    | some c =>
      simp only [hs, Option.bind_some] at hg
      simp only [canonIdx, hs, Bool.and_eq_true] at hc
      have hrec := ih c (pre ++ [t]) j r hc.2 hg hr hne
      rw [List.append_assoc, List.singleton_append] at hrec
      cases d with
      | obj kvs =>
        rw [refNodes_obj]
        refine List.mem_append_right _ (List.mem_flatMap.2 ⟨(t, c), ?_, hrec⟩)
        exact mem_of_lookup (by simpa [Spec.Pointer.step] using hs)
      | arr xs =>
        simp only [Spec.Pointer.step] at hs
        cases hd : Spec.Pointer.natOfDigits t.toList with
        | none => simp [hd] at hs
        | some i =>
          simp only [hd, Option.bind_some] at hs
          have ht : t = toString i := by simpa [hd] using hc.1
          rw [refNodes_arr]
          refine List.mem_flatMap.2 ⟨(c, i), List.mem_zipIdx_iff_getElem?.2 (by simpa using hs), ?_⟩
          rw [← ht]; exact hrec
      | _ => simp [Spec.Pointer.step] at hs

theorem allRefs_complete (d : J) (toks : List String) (j : J) (r : String)
    (hc : canonIdx d toks = true) (hg : Spec.Pointer.get d toks = some j)
    (hr : j.get? "$ref" = some (.str r)) (hne : r ≠ "") : (toks, r) ∈ allRefs d := by
  have := refNodes_complete toks d [] j r hc hg hr hne
  rwa [List.nil_append] at this

/-! ### soundness -/

theorem get_cons_obj {kvs : List (String × J)} {k : String} {v : J} (h : lookup k kvs = some v)
    (ts : List String) : Spec.Pointer.get (.obj kvs) (k :: ts) = Spec.Pointer.get v ts := by
  simp [Spec.Pointer.get, Spec.Pointer.step, h]

theorem get_cons_arr {xs : List J} {n : Nat} {x : J} (h : xs[n]? = some x) (ts : List String) :
    Spec.Pointer.get (.arr xs) (toString n :: ts) = Spec.Pointer.get x ts := by
  simp only [Spec.Pointer.get, Spec.Pointer.step, natOfDigits_toString, Option.bind_some, h]

section
variable (P : J → Prop)
  (hobj : ∀ kvs, P (.obj kvs) → (kvs.map (·.1)).Nodup ∧ ∀ kv ∈ kvs, P kv.2)
  (harr : ∀ xs, P (.arr xs) → ∀ x ∈ xs, P x)

include hobj harr in
/-- everything listed below `pre` lies at `pre ++ suf` where `suf` resolves to a node carrying that
    very `$ref` (objects with distinct keys) -/
theorem refNodes_sound : ∀ (d : J) (pre : List String), P d → ∀ tr ∈ refNodes pre d,
    ∃ suf j, tr.1 = pre ++ suf ∧ Spec.Pointer.get d suf = some j ∧
      j.get? "$ref" = some (.str tr.2) ∧ tr.2 ≠ "" := by
  intro d
  induction d using jStrongInduction with
  | h d ih =>
    intro pre hP tr htr
    cases d with
    | obj kvs =>
      obtain ⟨hn, hp⟩ := hobj kvs hP
      rw [refNodes_obj, List.mem_append] at htr
      rcases htr with htr | htr
      · obtain ⟨h1, h2, h3⟩ := mem_here.1 htr
        exact ⟨[], _, by simpa using h1, rfl, h2, h3⟩
      · obtain ⟨kv, hkv, htr⟩ := List.mem_flatMap.1 htr
        obtain ⟨suf, j, h1, h2, h3⟩ := ih kv.2 (sizeOf_obj_mem hkv) _ (hp kv hkv) tr htr
        refine ⟨kv.1 :: suf, j, by simpa using h1, ?_, h3⟩
        rw [get_cons_obj (lookup_of_mem hn hkv)]; exact h2
    | arr xs =>
      rw [refNodes_arr] at htr
      obtain ⟨xn, hxn, htr⟩ := List.mem_flatMap.1 htr
      have hget : xs[xn.2]? = some xn.1 := by simpa using List.mem_zipIdx_iff_getElem?.1 hxn
      have hmem := List.mem_of_getElem? hget
      obtain ⟨suf, j, h1, h2, h3⟩ := ih xn.1 (sizeOf_arr_mem hmem) _ (harr xs hP _ hmem) tr htr
      refine ⟨toString xn.2 :: suf, j, by simpa using h1, ?_, h3⟩
      rw [get_cons_arr hget]; exact h2
    | _ => simp [refNodes] at htr

include hobj harr in
theorem allRefs_sound (d : J) (hd : P d) (tr : List String × String) (h : tr ∈ allRefs d) :
    ∃ j, Spec.Pointer.get d tr.1 = some j ∧ j.get? "$ref" = some (.str tr.2) ∧ tr.2 ≠ "" := by
  obtain ⟨suf, j, h1, h2⟩ := refNodes_sound P hobj harr d [] hd tr h
  rw [List.nil_append] at h1
  exact ⟨j, h1 ▸ h2⟩

end

/-! ### the validators -/

theorem mem_canonRefs {canon : String → String} {d : J} {s : String}
    (h : (canonRefs canon d).contains s = true) : ∃ kv ∈ d.getObj "definitions", s = canon kv.1 := by
  rw [List.contains_iff_mem] at h
  obtain ⟨kv, hkv, e⟩ := List.mem_map.1 h
  exact ⟨kv, hkv, e.symm⟩

theorem nonCanonical_nil {canon : String → String} {d : J} (h : nonCanonical canon d = []) :
    ∀ tr ∈ allRefs d, (∃ kv ∈ d.getObj "definitions", tr.2 = canon kv.1) ∧ tr.1 ∈ schemaToks d := by
  intro tr htr
  have := List.filter_eq_nil_iff.1 h tr htr
  simp only [Bool.not_eq_true', Bool.not_eq_false, Bool.and_eq_true] at this
  exact ⟨mem_canonRefs this.1, List.contains_iff_mem.1 this.2⟩

theorem nonLocal_nil {canon : String → String} {d : J} (h : nonLocal canon d = []) :
    ∀ tr ∈ allRefs d, ∃ kv ∈ d.getObj "definitions", tr.2 = canon kv.1 := by
  intro tr htr
  have := List.filter_eq_nil_iff.1 h tr htr
  simp only [Bool.not_eq_true', Bool.not_eq_false] at this
  exact mem_canonRefs this

theorem unreferenced_nil {canon : String → String} {d : J} (h : unreferenced canon d = []) :
    ∀ kv ∈ d.getObj "definitions", ∃ tr ∈ allRefs d, tr.2 = canon kv.1 := by
  intro kv hkv
  have := List.filter_eq_nil_iff.1 h kv.1 (List.mem_map.2 ⟨kv, hkv, rfl⟩)
  simp only [Bool.not_eq_true', Bool.not_eq_false] at this
  obtain ⟨tr, htr, e⟩ := List.mem_map.1 (List.contains_iff_mem.1 this)
  exact ⟨tr, htr, e⟩

end Proofs.Flat
