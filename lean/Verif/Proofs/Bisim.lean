import Verif.Proofs.Cert

/-!
  Bisimulation up to a relation given as a predicate (the certificate checker of C01 is the special
  case of a finite list): if every related pair of positions steps to locally agreeing nodes whose
  children are related again, related positions have the same unfolding at every depth.  The two
  bundles may use different hop bounds for following `$ref` chains.
-/

namespace Proofs.Bisim
open J Spec.Meaning _root_.Cert

/-- local agreement of two nodes and relatedness of their children -/
def NodesOK (R : Pos → Pos → Prop) (p' q' : Pos) (a c : J) : Prop :=
  match a, c with
  | .obj k1, .obj k2 =>
    (visible k1).map (·.1) = (visible k2).map (·.1) ∧
    ∀ k ∈ (visible k1).map (·.1), R (child p' k) (child q' k)
  | .arr x1, .arr x2 =>
    x1.length = x2.length ∧ ∀ i ∈ List.range x1.length, R (child p' (toString i)) (child q' (toString i))
  | a, c => isScalar a = true ∧ isScalar c = true ∧ a = c

/-- one step: both chases fail, or both end on nodes that agree locally with related children -/
def StepOK (b1 b2 : Bundle) (h1 h2 : Nat) (R : Pos → Pos → Prop) (p q : Pos) : Prop :=
  match chase b1 h1 p, chase b2 h2 q with
  | none, none => True
  | some p', some q' =>
    (match b1.node p', b2.node q' with
     | some a, some c => NodesOK R p' q' a c
     | _, _ => False)
  | _, _ => False

theorem unfold_of_step (b1 b2 : Bundle) (h1 h2 n : Nat) (R : Pos → Pos → Prop) (p q : Pos)
    (ih : ∀ p q, R p q → unfold b1 h1 n p = unfold b2 h2 n q)
    (h : StepOK b1 b2 h1 h2 R p q) :
    unfold b1 h1 (n + 1) p = unfold b2 h2 (n + 1) q := by
  unfold StepOK at h
  cases hc1 : chase b1 h1 p with
  | none =>
    cases hc2 : chase b2 h2 q with
    | none => simp only [unfold, hc1, hc2]
    | some q' => simp [hc1, hc2] at h
  | some p' =>
    cases hc2 : chase b2 h2 q with
    | none => simp [hc1, hc2] at h
    | some q' =>
      simp only [hc1, hc2] at h
      cases hn1 : b1.node p' with
      | none => simp [hn1] at h
      | some a =>
        cases hn2 : b2.node q' with
        | none => simp [hn1, hn2] at h
        | some c =>
          simp only [hn1, hn2] at h
          unfold NodesOK at h
          split at h
          · rename_i k1 k2
            obtain ⟨hv, hk⟩ := h
            rw [Proofs.Cert.unfold_obj b1 h1 n p p' k1 hc1 hn1, Proofs.Cert.unfold_obj b2 h2 n q q' k2 hc2 hn2]
            congr 1
            apply Proofs.Cert.map_eq_of_keys (fun kv : String × J => kv.1) (fun kv : String × J => kv.1)
              (fun k => unfold b1 h1 n (child p' k)) (fun k => unfold b2 h2 n (child q' k)) _ _ hv
            intro k hkm
            exact ih _ _ (hk k hkm)
          · rename_i x1 x2
            obtain ⟨hl, hk⟩ := h
            rw [Proofs.Cert.unfold_arr b1 h1 n p p' x1 hc1 hn1, Proofs.Cert.unfold_arr b2 h2 n q q' x2 hc2 hn2, ← hl]
            congr 1
            apply List.map_congr_left
            intro i hi
            exact ih _ _ (hk i hi)
          · obtain ⟨hs1, hs2, hac⟩ := h
            rw [Proofs.Cert.unfold_scalar b1 h1 n p p' _ hc1 hn1 hs1,
              Proofs.Cert.unfold_scalar b2 h2 n q q' _ hc2 hn2 hs2, hac]

/-- soundness of bisimulation up to `R` -/
theorem bisim_sound (b1 b2 : Bundle) (h1 h2 : Nat) (R : Pos → Pos → Prop)
    (h : ∀ p q, R p q → StepOK b1 b2 h1 h2 R p q) :
    ∀ n p q, R p q → unfold b1 h1 n p = unfold b2 h2 n q := by
  intro n
  induction n with
  | zero => intro p q _; simp only [unfold]
  | succ n ih =>
    intro p q hpq
    exact unfold_of_step b1 b2 h1 h2 n R p q ih (h p q hpq)

end Proofs.Bisim
