import Mathlib.Data.Multiset.AddSub
import Verif.Proofs.ListLemmas

/-!
  Generic `List.Perm` tools: a tactic closing permutation goals that only differ by associativity
  and commutativity of `++` (through `Multiset`), and `flatMap` congruences.
-/

namespace ListPerm

instance {α} : Std.Commutative (α := Multiset α) (· + ·) := ⟨Multiset.add_comm⟩
instance {α} : Std.Associative (α := Multiset α) (· + ·) := ⟨Multiset.add_assoc⟩

/-- `l₁ ++ … ++ lₙ ~ lσ₁ ++ … ++ lσₙ` (any bracketing) -/
macro "perm_ac" : tactic =>
  `(tactic| (rw [← Multiset.coe_eq_coe]; simp only [← Multiset.coe_add]; ac_rfl))

end ListPerm

namespace List

theorem flatMap_append_perm' {α β} (l : List α) (f g : α → List β) :
    (l.flatMap fun x => f x ++ g x).Perm (l.flatMap f ++ l.flatMap g) :=
  (flatMap_append_perm l f g).symm

theorem flatMap_append3_perm {α β} (l : List α) (f g h : α → List β) :
    (l.flatMap fun x => f x ++ g x ++ h x).Perm (l.flatMap f ++ l.flatMap g ++ l.flatMap h) :=
  (flatMap_append_perm' l (fun x => f x ++ g x) h).trans ((flatMap_append_perm' l f g).append_right _)

theorem flatMap_append4_perm {α β} (l : List α) (f g h k : α → List β) :
    (l.flatMap fun x => f x ++ g x ++ h x ++ k x).Perm
      (l.flatMap f ++ l.flatMap g ++ l.flatMap h ++ l.flatMap k) :=
  (flatMap_append_perm' l (fun x => f x ++ g x ++ h x) k).trans
    ((flatMap_append3_perm l f g h).append_right _)

/-- `flatMap` over a `filterMap` -/
theorem flatMap_filterMap' {α β γ} (l : List α) (g : α → Option β) (f : β → List γ) :
    (l.filterMap g).flatMap f = l.flatMap fun a => match g a with | some b => f b | none => [] := by
  induction l with
  | nil => rfl
  | cons a l ih =>
    simp only [filterMap_cons, flatMap_cons]
    cases g a <;> simp [ih]

theorem flatMap_filter' {α β} (l : List α) (p : α → Bool) (f : α → List β) :
    (l.filter p).flatMap f = l.flatMap fun a => if p a then f a else [] := by
  induction l with
  | nil => rfl
  | cons a l ih =>
    simp only [filter_cons, flatMap_cons]
    cases p a <;> simp [ih]

end List
