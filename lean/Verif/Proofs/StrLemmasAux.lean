import Verif.Model.Str

/-!
  `List Char`-level lemmas about `escL`, `unescL`, `splitSlashL`, `joinSlashL`, `cleanL`, `joinL`,
  used by `Verif.Proofs.StrLemmas`.
-/

namespace Str

/-! ### escL -/

@[simp] theorem escL_nil : escL [] = [] := rfl

theorem escL_tilde (r : List Char) : escL ('~' :: r) = '~' :: '0' :: escL r := by
  simp [escL]

theorem escL_slash (r : List Char) : escL ('/' :: r) = '~' :: '1' :: escL r := by
  simp [escL]

theorem escL_other (c : Char) (r : List Char) (h1 : c ≠ '~') (h2 : c ≠ '/') :
    escL (c :: r) = c :: escL r := by
  simp [escL, h1, h2]

theorem escL_no_slash (s : List Char) : '/' ∉ escL s := by
  induction s with
  | nil => simp
  | cons c r ih =>
    by_cases h1 : c = '~'
    · subst h1; rw [escL_tilde]; simp [ih]
    · by_cases h2 : c = '/'
      · subst h2; rw [escL_slash]; simp [ih]
      · rw [escL_other c r h1 h2]
        simp only [List.mem_cons, not_or]
        exact ⟨fun h => h2 h.symm, ih⟩

theorem escL_eq_nil {s : List Char} : escL s = [] ↔ s = [] := by
  cases s with
  | nil => simp
  | cons c r =>
    by_cases h1 : c = '~'
    · subst h1; simp [escL_tilde]
    · by_cases h2 : c = '/'
      · subst h2; simp [escL_slash]
      · simp [escL_other c r h1 h2]

/-- escaping is the identity on strings without '~' and '/' -/
theorem escL_id (s : List Char) (h1 : '~' ∉ s) (h2 : '/' ∉ s) : escL s = s := by
  induction s with
  | nil => rfl
  | cons c r ih =>
    simp only [List.mem_cons, not_or] at h1 h2
    rw [escL_other c r (fun h => h1.1 h.symm) (fun h => h2.1 h.symm), ih h1.2 h2.2]

theorem escL_eq_dot {s : List Char} : escL s = ['.'] ↔ s = ['.'] := by
  constructor
  · intro h
    cases s with
    | nil => simp at h
    | cons c r =>
      by_cases h1 : c = '~'
      · subst h1; simp [escL_tilde] at h
      · by_cases h2 : c = '/'
        · subst h2; simp [escL_slash] at h
        · rw [escL_other c r h1 h2] at h
          simp only [List.cons.injEq, escL_eq_nil] at h
          simp [h.1, h.2]
  · intro h; subst h; decide

theorem escL_eq_dotdot {s : List Char} : escL s = ['.', '.'] ↔ s = ['.', '.'] := by
  constructor
  · intro h
    cases s with
    | nil => simp at h
    | cons c r =>
      by_cases h1 : c = '~'
      · subst h1; simp [escL_tilde] at h
      · by_cases h2 : c = '/'
        · subst h2; simp [escL_slash] at h
        · rw [escL_other c r h1 h2] at h
          simp only [List.cons.injEq] at h
          rw [escL_eq_dot] at h
          simp [h.1, h.2]
  · intro h; subst h; decide

/-! ### unescL -/

theorem unesc1L_tilde0 (r : List Char) : unesc1L ('~' :: '0' :: r) = '~' :: '0' :: unesc1L r := by
  rw [unesc1L.eq_3 _ _ (by intro r' _ h; simp at h),
    unesc1L.eq_3 _ _ (by intro r' h _; simp at h)]

theorem unesc1L_tilde1 (r : List Char) : unesc1L ('~' :: '1' :: r) = '/' :: unesc1L r := by
  rw [unesc1L]

theorem unesc1L_other (c : Char) (r : List Char) (h : c ≠ '~') :
    unesc1L (c :: r) = c :: unesc1L r :=
  unesc1L.eq_3 c r (fun _ hc _ => h hc)

theorem unesc0L_tilde0 (r : List Char) : unesc0L ('~' :: '0' :: r) = '~' :: unesc0L r := by
  rw [unesc0L]

theorem unesc0L_other (c : Char) (r : List Char) (h : c ≠ '~') :
    unesc0L (c :: r) = c :: unesc0L r :=
  unesc0L.eq_3 c r (fun _ hc _ => h hc)

theorem unescL_escL (s : List Char) : unescL (escL s) = s := by
  unfold unescL
  induction s with
  | nil => simp [unesc1L, unesc0L]
  | cons c r ih =>
    by_cases h1 : c = '~'
    · subst h1
      rw [escL_tilde, unesc1L_tilde0, unesc0L_tilde0, ih]
    · by_cases h2 : c = '/'
      · subst h2
        rw [escL_slash, unesc1L_tilde1, unesc0L_other _ _ (by decide), ih]
      · rw [escL_other c r h1 h2, unesc1L_other c _ h1, unesc0L_other c _ h1, ih]

/-! ### splitSlashL -/

theorem splitSlashL_ne_nil (s : List Char) : splitSlashL s ≠ [] := by
  cases s with
  | nil => simp [splitSlashL]
  | cons c r =>
    rw [splitSlashL]
    split
    · simp
    · split <;> simp

theorem splitSlashL_slash (r : List Char) : splitSlashL ('/' :: r) = [] :: splitSlashL r := by
  rw [splitSlashL]
  split
  · rename_i h; exact absurd h (splitSlashL_ne_nil r)
  · rename_i seg segs h; simp [h]

theorem splitSlashL_other (c : Char) (r : List Char) (h : c ≠ '/') :
    splitSlashL (c :: r) =
      ((splitSlashL r).head (splitSlashL_ne_nil r) |> (c :: ·)) :: (splitSlashL r).tail := by
  rw [splitSlashL]
  split
  · rename_i h'; exact absurd h' (splitSlashL_ne_nil r)
  · rename_i seg segs h'; simp [h', h]

/-- a slash-free prefix up to a '/' is the first piece -/
theorem splitSlashL_append_slash (s r : List Char) (hs : '/' ∉ s) :
    splitSlashL (s ++ '/' :: r) = s :: splitSlashL r := by
  induction s with
  | nil => simpa using splitSlashL_slash r
  | cons c t ih =>
    simp only [List.mem_cons, not_or] at hs
    have hc : c ≠ '/' := fun h => hs.1 h.symm
    rw [List.cons_append, splitSlashL_other c _ hc]
    simp [ih hs.2]

theorem splitSlashL_no_slash (s : List Char) (hs : '/' ∉ s) : splitSlashL s = [s] := by
  induction s with
  | nil => simp [splitSlashL]
  | cons c t ih =>
    simp only [List.mem_cons, not_or] at hs
    have hc : c ≠ '/' := fun h => hs.1 h.symm
    rw [splitSlashL_other c _ hc]
    simp [ih hs.2]

/-- the rendering of a list of segments: "/" ++ seg, concatenated -/
def rootedL (segs : List (List Char)) : List Char := segs.flatMap fun s => '/' :: s

@[simp] theorem rootedL_nil : rootedL [] = [] := rfl
@[simp] theorem rootedL_cons (s : List Char) (segs : List (List Char)) :
    rootedL (s :: segs) = '/' :: s ++ rootedL segs := by
  simp [rootedL]

theorem rootedL_append (a b : List (List Char)) : rootedL (a ++ b) = rootedL a ++ rootedL b := by
  simp [rootedL]

theorem splitSlashL_append_rootedL (segs : List (List Char)) (hsegs : ∀ x ∈ segs, '/' ∉ x) :
    ∀ (s : List Char), '/' ∉ s → splitSlashL (s ++ rootedL segs) = s :: segs := by
  induction segs with
  | nil => intro s hs; simpa using splitSlashL_no_slash s hs
  | cons x xs ih =>
    intro s hs
    rw [rootedL_cons, List.cons_append, splitSlashL_append_slash s _ hs]
    rw [ih (fun y hy => hsegs y (List.mem_cons_of_mem _ hy)) x (hsegs x List.mem_cons_self)]

theorem splitSlashL_rootedL (segs : List (List Char)) (hsegs : ∀ x ∈ segs, '/' ∉ x) :
    splitSlashL (rootedL segs) = [] :: segs := by
  simpa using splitSlashL_append_rootedL segs hsegs [] (by simp)

/-! ### joinSlashL -/

theorem joinSlashL_cons_cons (s t : List Char) (rest : List (List Char)) :
    joinSlashL (s :: t :: rest) = s ++ '/' :: joinSlashL (t :: rest) := by
  rw [joinSlashL]
  intro h; simp at h

theorem joinSlashL_cons (s : List Char) (rest : List (List Char)) :
    joinSlashL (s :: rest) = s ++ rootedL rest := by
  induction rest generalizing s with
  | nil => simp [joinSlashL]
  | cons t rest ih => rw [joinSlashL_cons_cons, ih t, rootedL_cons]; simp

theorem slash_joinSlashL (segs : List (List Char)) (hne : segs ≠ []) :
    '/' :: joinSlashL segs = rootedL segs := by
  cases segs with
  | nil => exact absurd rfl hne
  | cons s rest => rw [joinSlashL_cons, rootedL_cons]; simp

/-! ### cleanL -/

/-- list-level good segment -/
def GoodSegL (s : List Char) : Prop := s ≠ [] ∧ s ≠ ['.'] ∧ s ≠ ['.', '.'] ∧ '/' ∉ s

theorem cleanStep_good (rooted : Bool) (stack : List (List Char)) (seg : List Char)
    (h : GoodSegL seg) : cleanStep rooted stack seg = seg :: stack := by
  obtain ⟨h1, h2, h3, _⟩ := h
  simp [cleanStep, h1, h2, h3]

theorem foldl_cleanStep_good (rooted : Bool) (segs : List (List Char))
    (h : ∀ s ∈ segs, GoodSegL s) :
    ∀ stack, segs.foldl (cleanStep rooted) stack = segs.reverse ++ stack := by
  induction segs with
  | nil => intro stack; simp
  | cons s rest ih =>
    intro stack
    rw [List.foldl_cons, cleanStep_good rooted stack s (h s List.mem_cons_self),
      ih (fun y hy => h y (List.mem_cons_of_mem _ hy))]
    simp

/-- `path.Clean` is the identity on clean rooted paths -/
theorem cleanL_rootedL (segs : List (List Char)) (hne : segs ≠ []) (h : ∀ s ∈ segs, GoodSegL s) :
    cleanL (rootedL segs) = rootedL segs := by
  have hsplit := splitSlashL_rootedL segs (fun x hx => (h x hx).2.2.2)
  cases segs with
  | nil => exact absurd rfl hne
  | cons s rest =>
    rw [rootedL_cons, List.cons_append] at hsplit ⊢
    unfold cleanL
    have h0 : cleanStep true [] [] = [] := by simp [cleanStep]
    simp only [decide_true, if_true, hsplit]
    rw [List.foldl_cons, h0, foldl_cleanStep_good true (s :: rest) h []]
    simp only [List.append_nil, List.reverse_reverse]
    rw [slash_joinSlashL _ (by simp), rootedL_cons]
    simp

/-! ### joinL -/

theorem rootedL_ne_nil (segs : List (List Char)) (hne : segs ≠ []) : rootedL segs ≠ [] := by
  cases segs with
  | nil => exact absurd rfl hne
  | cons s rest => simp

/-- `path.Join` of a clean rooted path and good segments is plain concatenation -/
theorem joinL_rootedL (toks segs : List (List Char)) (hne : toks ≠ [])
    (ht : ∀ s ∈ toks, GoodSegL s) (hs : ∀ s ∈ segs, GoodSegL s) :
    joinL (rootedL toks :: segs) = rootedL toks ++ rootedL segs := by
  unfold joinL
  have hf : (rootedL toks :: segs).filter (· ≠ []) = rootedL toks :: segs := by
    rw [List.filter_eq_self]
    intro a ha
    rcases List.mem_cons.1 ha with rfl | ha
    · simpa using rootedL_ne_nil toks hne
    · simpa using (hs a ha).1
  rw [hf]
  simp only
  rw [joinSlashL_cons, ← rootedL_append]
  apply cleanL_rootedL
  · simp [hne]
  · intro s hmem
    rcases List.mem_append.1 hmem with h | h
    · exact ht s h
    · exact hs s h

end Str
