import Verif.Proofs.MoveBase
import Verif.Proofs.Bisim

/-!
  The naming move of Flatten preserves meaning.

  Before: a root document `.obj kvs` holding an inline schema `.obj sch` at the token path `toks`.
  After: the schema is saved as the new definition `n` (with the `x-go-gen-location` marker) and a
  `$ref` node `{"$ref": r}` is left at `toks`, where `r` designates `#/definitions/n`.
  Claim: every position that is not the root, not the `definitions` map itself and not strictly
  inside the moved schema denotes the same (possibly infinite) tree as before, and the positions
  inside the moved schema denote what the corresponding positions under the new definition denote.
-/

namespace Proofs.Move
open J Replace Spec.Meaning Proofs.MoveBase Proofs.Bisim Proofs.FlattenNames

def AllCanon (p : List String) : Prop := ∀ t ∈ p, CanonTok t

/-- strictly below `toks` -/
def Below (toks p : List String) : Prop := ∃ t, t ≠ [] ∧ p = toks ++ t

def defn (n : String) : List String := ["definitions", n]

/-- the positions of the root document the identity part of the claim talks about -/
structure Allowed (toks : List String) (n : String) (p : List String) : Prop where
  ne_root : p ≠ []
  ne_defs : p ≠ ["definitions"]
  not_new : ¬ (defn n <+: p)
  not_below : ¬ Below toks p
  canon : AllCanon p

/-- the setting of a naming move -/
structure Setting where
  kvs : List (String × J)
  toks : List String
  sch : List (String × J)
  n : String
  r : String
  loc : J
  T : List (String × Pos)
  rest : Bundle
  d1 : J
  hget : Spec.Pointer.get (.obj kvs) toks = some (.obj sch)
  hnoref : Doc.refStr (.obj sch) = ""
  hset : setAt (.obj kvs) toks (refNode r) = some d1
  htoks1 : toks ≠ []
  htoks2 : toks ≠ ["definitions"]
  hcanonToks : AllCanon toks
  hdefs : ∀ v, lookup "definitions" kvs = some v → ∃ defs, v = .obj defs
  hfresh : lookup n ((J.obj kvs).getObj "definitions") = none
  hcanonN : CanonTok n
  hkeys : keysCanon (.obj kvs) = true
  hrUnused : ∀ p j, Spec.Pointer.get (.obj kvs) p = some j → Doc.refStr j ≠ r

namespace Setting
variable (S : Setting)

/-- the schema as it is saved: with the marker -/
def saved : J := (J.obj S.sch).set marker S.loc

/-- the document after the move -/
def d2 : J := Flatten.save S.d1 S.n S.saved

def b1 : Bundle := { docs := ("", .obj S.kvs) :: S.rest.docs, refs := ("", S.T) :: S.rest.refs }
def b2 : Bundle :=
  { docs := ("", S.d2) :: S.rest.docs, refs := ("", (S.r, (("", defn S.n) : Pos)) :: S.T) :: S.rest.refs }

/-! ### structure of `d1` -/

theorem d1_obj : ∃ kvs1, S.d1 = .obj kvs1 ∧
    (∀ v, lookup "definitions" kvs1 = some v → ∃ defs, v = .obj defs) ∧
    lookup S.n ((J.obj kvs1).getObj "definitions") = none := by
  have hset := S.hset
  cases ht : S.toks with
  | nil => exact absurd ht S.htoks1
  | cons t ts =>
    rw [ht] at hset
    simp only [setAt] at hset
    cases hl : lookup t S.kvs with
    | none => simp [hl] at hset
    | some c =>
      simp only [hl, Option.map_eq_some_iff] at hset
      obtain ⟨c', hc, hd1⟩ := hset
      refine ⟨setKv t c' S.kvs, hd1.symm, ?_, ?_⟩
      · intro v hv
        by_cases htd : t = "definitions"
        · subst htd
          rw [lookup_setKv_self] at hv
          cases hv
          -- ts ≠ [] since toks ≠ ["definitions"]
          cases ts with
          | nil => exact absurd ht S.htoks2
          | cons t2 ts2 =>
            obtain ⟨defs, hdefs⟩ := S.hdefs c hl
            subst hdefs
            obtain ⟨m', hm', _⟩ := setAt_obj_keys defs t2 ts2 _ _ hc
            exact ⟨m', hm'⟩
        · rw [lookup_setKv_ne _ _ _ _ (Ne.symm htd)] at hv
          exact S.hdefs v hv
      · have hf := S.hfresh
        by_cases htd : t = "definitions"
        · subst htd
          cases ts with
          | nil => exact absurd ht S.htoks2
          | cons t2 ts2 =>
            obtain ⟨defs, hdefs⟩ := S.hdefs c hl
            subst hdefs
            obtain ⟨m', hm', hkeys⟩ := setAt_obj_keys defs t2 ts2 _ _ hc
            subst hm'
            simp only [getObj, get?, hl] at hf
            simp only [getObj, get?, lookup_setKv_self]
            -- same keys: `n` is absent from both
            cases hln : lookup S.n m' with
            | none => rfl
            | some x =>
              have hmem : S.n ∈ m'.map (·.1) := mem_keys_of_lookup S.n x m' hln
              rw [hkeys] at hmem
              obtain ⟨y, hy⟩ := lookup_isSome_of_mem S.n defs hmem
              rw [hy] at hf
              cases hf
        · simp only [getObj, get?, lookup_setKv_ne _ _ _ _ (Ne.symm htd)]
          simpa [getObj, get?] using hf

/-! ### nodes of the identity part -/

/-- for an allowed position, `save` is invisible -/
theorem get_d2_allowed (p : List String) (hp : Allowed S.toks S.n p) :
    Spec.Pointer.get S.d2 p = Spec.Pointer.get S.d1 p := by
  obtain ⟨kvs1, hd1, hdefs1, _⟩ := S.d1_obj
  unfold d2
  rw [hd1]
  cases p with
  | nil => exact absurd rfl hp.ne_root
  | cons k rest =>
    by_cases hk : k = "definitions"
    · subst hk
      cases rest with
      | nil => exact absurd rfl hp.ne_defs
      | cons m r2 =>
        have hm : m ≠ S.n := by
          intro e; subst e
          exact hp.not_new ⟨r2, rfl⟩
        exact get_save_def_other kvs1 S.n S.saved m r2 hm hdefs1
    · exact get_save_other kvs1 S.n S.saved k rest hk

/-- a container rewritten below itself keeps its `$ref` string (the node put there and the node it
    replaces are objects) -/
theorem setAt_refStr (j : J) (s : List String) (hs : s ≠ []) (v j' : J) (h : setAt j s v = some j')
    (hold : ∀ c, Spec.Pointer.get j s = some c → ∃ m, c = .obj m) (hv : ∃ m, v = .obj m) :
    Doc.refStr j' = Doc.refStr j := by
  cases s with
  | nil => exact absurd rfl hs
  | cons t s2 =>
    cases j with
    | obj kvs =>
      simp only [setAt] at h
      cases hl : lookup t kvs with
      | none => simp [hl] at h
      | some c =>
        simp only [hl, Option.map_eq_some_iff] at h
        obtain ⟨c', hc, rfl⟩ := h
        by_cases ht : t = "$ref"
        · subst ht
          simp only [Doc.refStr, getStr, get?, lookup_setKv_self, hl]
          cases s2 with
          | nil =>
            simp only [setAt, Option.some.injEq] at hc
            subst hc
            obtain ⟨m, rfl⟩ := hv
            obtain ⟨m0, rfl⟩ := hold c (by simp [Spec.Pointer.get, Spec.Pointer.step, hl])
            rfl
          | cons t2 s3 =>
            have hsh := setAt_sameShape c t2 s3 v c' hc
            cases hsh <;> rfl
        · simp only [Doc.refStr, getStr, get?, lookup_setKv_ne _ _ _ _ (Ne.symm ht)]
    | arr xs =>
      have := setAt_sameShape (.arr xs) t s2 v j' h
      cases this
      rfl
    | null => simp [setAt] at h
    | bool b => simp [setAt] at h
    | num n => simp [setAt] at h
    | str s => simp [setAt] at h

/-- how the node at an allowed position other than `toks` compares before and after -/
inductive NodeSim : Option J → Option J → Prop
  | same (o : Option J) : NodeSim o o
  | shape (j j' : J) (hs : SameShape j j') (href : Doc.refStr j' = Doc.refStr j) : NodeSim (some j) (some j')

theorem node_identity (p : List String) (hp : Allowed S.toks S.n p) (hne : p ≠ S.toks) :
    NodeSim (Spec.Pointer.get (.obj S.kvs) p) (Spec.Pointer.get S.d2 p) := by
  rw [S.get_d2_allowed p hp]
  cases pathRel p S.toks with
  | below t h =>
    cases t with
    | nil => exact absurd (by simpa using h) hne
    | cons a t' => exact absurd ⟨a :: t', by simp, h⟩ hp.not_below
  | above s hs h =>
    have hset := S.hset
    rw [h] at hset
    obtain ⟨j, j', h1, h2, h3⟩ := get_setAt_ancestor (.obj S.kvs) p s (refNode S.r) S.d1 hset
    rw [h1, h2]
    cases s with
    | nil => exact absurd rfl hs
    | cons t s2 =>
      refine NodeSim.shape j j' (setAt_sameShape j t s2 _ j' h3) ?_
      refine setAt_refStr j (t :: s2) (by simp) _ j' h3 ?_ ⟨_, rfl⟩
      intro c hc
      have : Spec.Pointer.get (.obj S.kvs) S.toks = some c := by
        rw [h, get_append, h1]; exact hc
      rw [S.hget] at this
      cases this
      exact ⟨_, rfl⟩
  | diverge c a b ra rb hab hp' ht =>
    have hset := S.hset
    rw [ht] at hset
    have hca : CanonTok a := hp.canon a (by rw [hp']; simp)
    have hcb : CanonTok b := S.hcanonToks b (by rw [ht]; simp)
    -- the written path leaves at `b`, the read path at `a`
    rw [hp', get_setAt_diverge (.obj S.kvs) c b a rb ra (refNode S.r) S.d1 (Ne.symm hab) hcb hca hset]
    exact NodeSim.same _

/-! ### the node at `toks` and the nodes of the new definition -/

theorem toks_allowed : Allowed S.toks S.n S.toks where
  ne_root := S.htoks1
  ne_defs := S.htoks2
  not_new := by
    rintro ⟨t, ht⟩
    have hg := S.hget
    rw [← ht] at hg
    simp only [defn, List.cons_append, List.nil_append, get_cons_obj] at hg
    have hf := S.hfresh
    cases hl : lookup "definitions" S.kvs with
    | none => simp [hl] at hg
    | some v =>
      obtain ⟨defs, rfl⟩ := S.hdefs v hl
      simp only [getObj, get?, hl] at hf
      simp [hl, get_cons_obj, hf] at hg
  not_below := by
    rintro ⟨t, ht, h⟩
    have hl := congrArg List.length h
    simp only [List.length_append] at hl
    exact ht (List.length_eq_zero_iff.1 (by omega))
  canon := S.hcanonToks

theorem get_d2_toks : Spec.Pointer.get S.d2 S.toks = some (refNode S.r) := by
  rw [S.get_d2_allowed S.toks S.toks_allowed]
  exact get_setAt_self _ _ _ _ S.hset

theorem get_d2_new (t : List String) : Spec.Pointer.get S.d2 (defn S.n ++ t) = Spec.Pointer.get S.saved t := by
  obtain ⟨kvs1, hd1, _, _⟩ := S.d1_obj
  unfold d2
  rw [hd1]
  exact get_save_def_self kvs1 S.n S.saved t

theorem marker_ne_ref : marker ≠ "$ref" := by decide

theorem get_saved_cons (k : String) (t' : List String) (hk : k ≠ marker) :
    Spec.Pointer.get S.saved (k :: t') = Spec.Pointer.get (.obj S.sch) (k :: t') := by
  simp only [saved, J.set, get_cons_obj, lookup_setKv_ne _ _ _ _ hk]

theorem visible_setKv_marker (v : J) (kvs : List (String × J)) :
    (visible (setKv marker v kvs)).map (·.1) = (visible kvs).map (·.1) := by
  induction kvs with
  | nil => simp [setKv, visible]
  | cons kv rest ih =>
    obtain ⟨k, x⟩ := kv
    simp only [setKv]
    split
    · rename_i hk; subst hk; simp [visible]
    · rename_i hk
      simp only [visible, List.filter_cons] at ih ⊢
      split <;> simp_all

theorem saved_eq : S.saved = .obj (setKv marker S.loc S.sch) := rfl

theorem refStr_saved : Doc.refStr S.saved = "" := by
  have h := S.hnoref
  simp only [Doc.refStr, getStr, get?, saved, J.set, lookup_setKv_ne _ _ _ _ (Ne.symm marker_ne_ref)] at h ⊢
  exact h

/-! ### the two bundles -/

theorem b1_node_root (p : List String) : S.b1.node ("", p) = Spec.Pointer.get (.obj S.kvs) p := by
  simp [Bundle.node, b1, List.lookup]

theorem b2_node_root (p : List String) : S.b2.node ("", p) = Spec.Pointer.get S.d2 p := by
  simp [Bundle.node, b2, List.lookup]

theorem node_other (doc : String) (p : List String) (h : doc ≠ "") : S.b2.node (doc, p) = S.b1.node (doc, p) := by
  have : (doc == "") = false := by simpa using h
  simp [Bundle.node, b1, b2, List.lookup, this]

theorem target_other (doc s : String) (h : doc ≠ "") : S.b2.target doc s = S.b1.target doc s := by
  have : (doc == "") = false := by simpa using h
  simp [Bundle.target, b1, b2, List.lookup, this]

theorem target_root (s : String) (hs : s ≠ S.r) : S.b2.target "" s = S.b1.target "" s := by
  have : (s == S.r) = false := by simpa using hs
  simp [Bundle.target, b1, b2, List.lookup, this]

theorem target_root_r : S.b2.target "" S.r = some ("", defn S.n) := by
  simp [Bundle.target, b2, List.lookup]

/-! ### the relation between positions before and after the move -/

/-- related positions: the same position in an auxiliary document; the same allowed position of the
    root; a position inside the moved schema and the corresponding one under the new definition -/
def R (p q : Pos) : Prop :=
  (p.1 ≠ "" ∧ q = p) ∨
  (p.1 = "" ∧ q.1 = "" ∧ q.2 = p.2 ∧ Allowed S.toks S.n p.2) ∨
  (p.1 = "" ∧ q.1 = "" ∧ ∃ t, p.2 = S.toks ++ t ∧ q.2 = defn S.n ++ t ∧ AllCanon t ∧
    ∀ k t', t = k :: t' → k ≠ marker)

/-- what is assumed about the `$ref`s of the bundle: every `$ref` that designates a position of the
    root document designates an allowed one (not the root, not the definitions map, not inside the
    new definition, not strictly inside the moved schema; array indices spelled canonically) -/
def TargetsOK : Prop :=
  ∀ doc s q, S.b1.target doc s = some q → q.1 = "" → Allowed S.toks S.n q.2

theorem R_self_target (ht : S.TargetsOK) (doc s : String) (q : Pos) (h : S.b1.target doc s = some q) : S.R q q := by
  by_cases hq : q.1 = ""
  · exact Or.inr (Or.inl ⟨hq, hq, rfl, ht doc s q h hq⟩)
  · exact Or.inl ⟨hq, rfl⟩

theorem chase_succ (b : Bundle) (h : Nat) (p : Pos) :
    chase b (h + 1) p =
      match b.node p with
      | none => none
      | some j =>
        if Doc.refStr j ≠ "" then
          match b.target p.1 (Doc.refStr j) with
          | some q => chase b h q
          | none => none
        else some p := rfl

/-- one chase step from two nodes with the same `$ref` string and the same target -/
theorem chase_step (b1 b2 : Bundle) (h1 h2 : Nat) (p q : Pos) (j1 j2 : J)
    (hn1 : b1.node p = some j1) (hn2 : b2.node q = some j2) (href : Doc.refStr j2 = Doc.refStr j1)
    (htgt : b2.target q.1 (Doc.refStr j1) = b1.target p.1 (Doc.refStr j1)) :
    (Doc.refStr j1 = "" ∧ chase b1 (h1 + 1) p = some p ∧ chase b2 (h2 + 1) q = some q) ∨
    (Doc.refStr j1 ≠ "" ∧ b1.target p.1 (Doc.refStr j1) = none ∧ chase b1 (h1 + 1) p = none ∧ chase b2 (h2 + 1) q = none) ∨
    (∃ tq, Doc.refStr j1 ≠ "" ∧ b1.target p.1 (Doc.refStr j1) = some tq ∧
      chase b1 (h1 + 1) p = chase b1 h1 tq ∧ chase b2 (h2 + 1) q = chase b2 h2 tq) := by
  by_cases hr : Doc.refStr j1 = ""
  · left
    refine ⟨hr, ?_, ?_⟩
    · simp [chase_succ, hn1, hr]
    · simp [chase_succ, hn2, href, hr]
  · right
    cases ht : b1.target p.1 (Doc.refStr j1) with
    | none =>
      left
      refine ⟨hr, rfl, ?_, ?_⟩
      · simp [chase_succ, hn1, hr, ht]
      · simp [chase_succ, hn2, href, hr, htgt, ht]
    | some tq =>
      right
      refine ⟨tq, hr, rfl, ?_, ?_⟩
      · simp [chase_succ, hn1, hr, ht]
      · simp [chase_succ, hn2, href, hr, htgt, ht]

/-- the two nodes of a related pair other than `(toks, toks)`: same `$ref` string, same target -/
theorem related_nodes (p q : Pos) (hR : S.R p q) (hne : ¬ (p.1 = "" ∧ p.2 = S.toks ∧ q.2 = S.toks)) :
    (S.b1.node p = none ∧ S.b2.node q = none) ∨
    (∃ j1 j2, S.b1.node p = some j1 ∧ S.b2.node q = some j2 ∧ Doc.refStr j2 = Doc.refStr j1 ∧
      S.b2.target q.1 (Doc.refStr j1) = S.b1.target p.1 (Doc.refStr j1)) := by
  obtain ⟨pd, pp⟩ := p
  obtain ⟨qd, qq⟩ := q
  rcases hR with ⟨hd, heq⟩ | ⟨hp1, hq1, hq2, hal⟩ | ⟨hp1, hq1, t, hpt, hqt, hct, hmk⟩
  · -- auxiliary document
    simp only at hd
    obtain ⟨e1, e2⟩ := Prod.mk.inj heq
    rw [e1, e2, S.node_other pd pp hd]
    cases hn : S.b1.node (pd, pp) with
    | none => exact Or.inl ⟨rfl, rfl⟩
    | some j => exact Or.inr ⟨j, j, rfl, rfl, rfl, S.target_other pd _ hd⟩
  · -- allowed position of the root
    simp only at hp1 hq1 hq2 hal
    rw [hp1, hq1, hq2]
    have hpt : pp ≠ S.toks := fun e => hne ⟨hp1, e, hq2.trans e⟩
    rw [S.b1_node_root, S.b2_node_root]
    have hs := S.node_identity pp hal hpt
    generalize hg1 : Spec.Pointer.get (.obj S.kvs) pp = o1 at hs
    generalize Spec.Pointer.get S.d2 pp = o2 at hs
    cases hs with
    | same =>
      cases o1 with
      | none => exact Or.inl ⟨rfl, rfl⟩
      | some j =>
        refine Or.inr ⟨j, j, rfl, rfl, rfl, ?_⟩
        exact S.target_root _ (S.hrUnused pp j hg1)
    | shape j j' _ href =>
      refine Or.inr ⟨j, j', rfl, rfl, href, ?_⟩
      exact S.target_root _ (S.hrUnused pp j hg1)
  · -- inside the moved schema
    simp only at hp1 hq1 hpt hqt
    rw [hp1, hq1, hpt, hqt]
    rw [S.b1_node_root, S.b2_node_root, S.get_d2_new t]
    cases t with
    | nil =>
      simp only [List.append_nil, S.hget, Spec.Pointer.get]
      refine Or.inr ⟨_, _, rfl, rfl, ?_, ?_⟩
      · rw [S.refStr_saved, S.hnoref]
      · exact S.target_root _ (S.hrUnused S.toks _ S.hget)
    | cons k t' =>
      have hk : k ≠ marker := hmk k t' rfl
      rw [S.get_saved_cons k t' hk, get_append, S.hget]
      simp only [Option.bind_some]
      cases hn : Spec.Pointer.get (.obj S.sch) (k :: t') with
      | none => exact Or.inl ⟨rfl, rfl⟩
      | some j =>
        refine Or.inr ⟨j, j, rfl, rfl, rfl, ?_⟩
        refine S.target_root _ (S.hrUnused (S.toks ++ k :: t') j ?_)
        rw [get_append, S.hget]; exact hn

/-! ### following `$ref`s on both sides -/

theorem chase_some_node (b : Bundle) : ∀ (h : Nat) (p p' : Pos), chase b h p = some p' →
    ∃ j, b.node p' = some j ∧ Doc.refStr j = "" := by
  intro h
  induction h with
  | zero => intro p p' hc; simp [chase] at hc
  | succ h ih =>
    intro p p' hc
    rw [chase_succ] at hc
    cases hn : b.node p with
    | none => simp [hn] at hc
    | some j =>
      simp only [hn] at hc
      by_cases hr : Doc.refStr j = ""
      · simp only [hr, ne_eq, not_true_eq_false, if_false, Option.some.injEq] at hc
        subst hc
        exact ⟨j, hn, hr⟩
      · simp only [ne_eq, hr, not_false_eq_true, if_true] at hc
        cases ht : b.target p.1 (Doc.refStr j) with
        | none => simp [ht] at hc
        | some tq => simp only [ht] at hc; exact ih tq p' hc

theorem special_q (p q : Pos) (hR : S.R p q) (hsp : p.1 = "" ∧ p.2 = S.toks ∧ q.2 = S.toks) :
    p = ("", S.toks) ∧ q = ("", S.toks) := by
  obtain ⟨pd, pp⟩ := p
  obtain ⟨qd, qq⟩ := q
  simp only at hsp
  obtain ⟨h1, h2, h3⟩ := hsp
  rcases hR with ⟨hd, _⟩ | ⟨_, hq1, _, _⟩ | ⟨_, hq1, _⟩
  · exact absurd h1 hd
  · simp only at hq1; simp [h1, h2, h3, hq1]
  · simp only at hq1; simp [h1, h2, h3, hq1]

theorem R_toks_new : S.R ("", S.toks) ("", defn S.n) := by
  refine Or.inr (Or.inr ⟨rfl, rfl, [], ?_, ?_, ?_, ?_⟩)
  · simp
  · simp
  · intro t ht; cases ht
  · intro k t' h; cases h

theorem chase_b2_new (h : Nat) : chase S.b2 (h + 1) ("", defn S.n) = some ("", defn S.n) := by
  rw [chase_succ, S.b2_node_root]
  have := S.get_d2_new []
  simp only [List.append_nil, Spec.Pointer.get] at this
  rw [this]
  simp [S.refStr_saved]

theorem chase_b2_toks (hr : S.r ≠ "") (h : Nat) :
    chase S.b2 (h + 1) ("", S.toks) = chase S.b2 h ("", defn S.n) := by
  rw [chase_succ, S.b2_node_root, S.get_d2_toks]
  have : Doc.refStr (refNode S.r) = S.r := by simp [Doc.refStr, refNode, getStr, get?, lookup]
  simp [this, hr, S.target_root_r]

theorem chase_b1_toks (h : Nat) : chase S.b1 (h + 1) ("", S.toks) = some ("", S.toks) := by
  rw [chase_succ, S.b1_node_root, S.hget]
  simp [S.hnoref]

/-- (A) a chain that ends before the move ends after it, one hop later at most, on a related node -/
theorem chaseA (ht : S.TargetsOK) (hr : S.r ≠ "") : ∀ (h : Nat) (p q : Pos), S.R p q → ∀ p', chase S.b1 h p = some p' →
    ∃ q', chase S.b2 (h + 1) q = some q' ∧ S.R p' q' := by
  intro h
  induction h with
  | zero => intro p q _ p' hc; simp [chase] at hc
  | succ h ih =>
    intro p q hR p' hc
    by_cases hsp : p.1 = "" ∧ p.2 = S.toks ∧ q.2 = S.toks
    · obtain ⟨rfl, rfl⟩ := S.special_q p q hR hsp
      rw [S.chase_b1_toks h] at hc
      cases hc
      exact ⟨("", defn S.n), by rw [S.chase_b2_toks hr, S.chase_b2_new], S.R_toks_new⟩
    · rcases S.related_nodes p q hR hsp with ⟨hn1, _⟩ | ⟨j1, j2, hn1, hn2, href, htgt⟩
      · rw [chase_succ, hn1] at hc; cases hc
      · rcases chase_step S.b1 S.b2 h (h + 1) p q j1 j2 hn1 hn2 href htgt with
          ⟨_, h1, h2⟩ | ⟨_, _, h1, _⟩ | ⟨tq, _, htq, h1, h2⟩
        · rw [h1] at hc; cases hc; exact ⟨q, h2, hR⟩
        · rw [h1] at hc; cases hc
        · rw [h1] at hc
          obtain ⟨q', hq', hR'⟩ := ih tq tq (S.R_self_target ht _ _ tq htq) p' hc
          exact ⟨q', by rw [h2]; exact hq', hR'⟩

/-- (B) a chain that ends after the move ends before it within the same number of hops -/
theorem chaseB (ht : S.TargetsOK) (hr : S.r ≠ "") : ∀ (h : Nat) (p q : Pos), S.R p q → ∀ q', chase S.b2 h q = some q' →
    ∃ p', chase S.b1 h p = some p' ∧ S.R p' q' := by
  intro h
  induction h with
  | zero => intro p q _ q' hc; simp [chase] at hc
  | succ h ih =>
    intro p q hR q' hc
    by_cases hsp : p.1 = "" ∧ p.2 = S.toks ∧ q.2 = S.toks
    · obtain ⟨rfl, rfl⟩ := S.special_q p q hR hsp
      rw [S.chase_b2_toks hr] at hc
      cases h with
      | zero => simp [chase] at hc
      | succ k =>
        rw [S.chase_b2_new] at hc
        cases hc
        exact ⟨("", S.toks), S.chase_b1_toks _, S.R_toks_new⟩
    · rcases S.related_nodes p q hR hsp with ⟨_, hn2⟩ | ⟨j1, j2, hn1, hn2, href, htgt⟩
      · rw [chase_succ, hn2] at hc; cases hc
      · rcases chase_step S.b1 S.b2 h h p q j1 j2 hn1 hn2 href htgt with
          ⟨_, h1, h2⟩ | ⟨_, _, _, h2⟩ | ⟨tq, _, htq, h1, h2⟩
        · rw [h2] at hc; cases hc; exact ⟨p, h1, hR⟩
        · rw [h2] at hc; cases hc
        · rw [h2] at hc
          obtain ⟨p', hp', hR'⟩ := ih tq tq (S.R_self_target ht _ _ tq htq) q' hc
          exact ⟨p', by rw [h1]; exact hp', hR'⟩

/-! ### local agreement of the nodes reached -/

theorem nodesOK_same (R : Pos → Pos → Prop) (p q : Pos) (j : J)
    (hobj : ∀ kvs, j = .obj kvs → ∀ k ∈ (visible kvs).map (·.1), R (child p k) (child q k))
    (harr : ∀ xs, j = .arr xs → ∀ i ∈ List.range xs.length, R (child p (toString i)) (child q (toString i))) :
    NodesOK R p q j j := by
  unfold NodesOK
  cases j with
  | obj kvs => exact ⟨rfl, hobj kvs rfl⟩
  | arr xs => exact ⟨rfl, harr xs rfl⟩
  | null => exact ⟨rfl, rfl, rfl⟩
  | bool b => exact ⟨rfl, rfl, rfl⟩
  | num n => exact ⟨rfl, rfl, rfl⟩
  | str s => exact ⟨rfl, rfl, rfl⟩

theorem visible_keys_congr : ∀ (k1 k2 : List (String × J)), k2.map (·.1) = k1.map (·.1) →
    (visible k2).map (·.1) = (visible k1).map (·.1) := by
  intro k1
  induction k1 with
  | nil => intro k2 h; cases k2 with | nil => rfl | cons a b => simp at h
  | cons kv rest ih =>
    intro k2 h
    cases k2 with
    | nil => simp at h
    | cons kv2 rest2 =>
      obtain ⟨a, x⟩ := kv
      obtain ⟨b, y⟩ := kv2
      simp only [List.map_cons, List.cons.injEq] at h
      obtain ⟨hab, hr⟩ := h
      subst hab
      have := ih rest2 hr
      simp only [visible, List.filter_cons] at this ⊢
      split <;> simp_all

theorem mem_visible_ne_marker (kvs : List (String × J)) (k : String) (h : k ∈ (visible kvs).map (·.1)) :
    k ≠ marker := by
  obtain ⟨kv, hkv, rfl⟩ := List.mem_map.1 h
  have := (List.mem_filter.1 hkv).2
  simpa using this

theorem mem_visible_mem (kvs : List (String × J)) (k : String) (h : k ∈ (visible kvs).map (·.1)) :
    k ∈ kvs.map (·.1) := by
  obtain ⟨kv, hkv, rfl⟩ := List.mem_map.1 h
  exact List.mem_map.2 ⟨kv, (List.mem_filter.1 hkv).1, rfl⟩

/-- the keys of an object found in the original document are canonical tokens -/
theorem keys_canon_of_get (p : List String) (kvs : List (String × J))
    (hg : Spec.Pointer.get (.obj S.kvs) p = some (.obj kvs)) : ∀ k ∈ kvs.map (·.1), CanonTok k := by
  have := keysCanon_get (.obj S.kvs) S.hkeys p (.obj kvs) hg
  exact keysCanonKvs_keys kvs (by simpa [keysCanon] using this)

theorem allowed_child (pp : List String) (k : String) (hal : Allowed S.toks S.n pp) (hne : pp ≠ S.toks)
    (hk : CanonTok k) : Allowed S.toks S.n (pp ++ [k]) where
  ne_root := by simp
  ne_defs := by
    intro h
    cases pp with
    | nil => exact hal.ne_root rfl
    | cons a r =>
      cases r with
      | nil => simp at h
      | cons b r2 => simp at h
  not_new := by
    rintro ⟨t, ht⟩
    -- defn ++ t = pp ++ [k]: either pp itself starts with defn, or pp = ["definitions"]
    cases pp with
    | nil => exact hal.ne_root rfl
    | cons a r =>
      cases r with
      | nil =>
        simp only [defn, List.cons_append, List.nil_append, List.cons.injEq] at ht
        exact hal.ne_defs (by rw [← ht.1])
      | cons b r2 =>
        simp only [defn, List.cons_append, List.nil_append, List.cons.injEq] at ht
        exact hal.not_new ⟨r2, by simp [defn, ht.1, ht.2.1]⟩
  not_below := by
    rintro ⟨t, htne, ht⟩
    -- pp ++ [k] = toks ++ t with t ≠ []: drop the last token
    have hl : t = t.dropLast ++ [t.getLast htne] := (List.dropLast_append_getLast htne).symm
    rw [hl, ← List.append_assoc] at ht
    have h1 := List.append_inj_left' ht (by simp)
    by_cases hd : t.dropLast = []
    · rw [hd, List.append_nil] at h1; exact hne h1
    · exact hal.not_below ⟨t.dropLast, hd, h1⟩
  canon := by
    intro x hx
    rcases List.mem_append.1 hx with h | h
    · exact hal.canon x h
    · simp at h; subst h; exact hk

/-- the nodes on which two related chains end agree locally, and their children are related -/
theorem nodes_agree (ht : S.TargetsOK) (hr : S.r ≠ "") (p' q' : Pos) (hR : S.R p' q') (j1 j2 : J)
    (hn1 : S.b1.node p' = some j1) (hn2 : S.b2.node q' = some j2) (hnr2 : Doc.refStr j2 = "") :
    NodesOK S.R p' q' j1 j2 := by
  obtain ⟨pd, pp⟩ := p'
  obtain ⟨qd, qq⟩ := q'
  rcases hR with ⟨hd, heq⟩ | ⟨hp1, hq1, hq2, hal⟩ | ⟨hp1, hq1, t, hpt, hqt, hct, hmk⟩
  · -- auxiliary document: the very same node
    simp only at hd
    obtain ⟨e1, e2⟩ := Prod.mk.inj heq
    rw [e1, e2] at hn2 ⊢
    rw [S.node_other pd pp hd, hn1] at hn2
    cases hn2
    refine nodesOK_same _ _ _ _ ?_ ?_
    · intro kvs _ k _; exact Or.inl ⟨hd, rfl⟩
    · intro xs _ i _; exact Or.inl ⟨hd, rfl⟩
  · -- allowed position of the root
    simp only at hp1 hq1 hq2 hal
    rw [hp1] at hn1 ⊢
    rw [hq1, hq2] at hn2 ⊢
    rw [S.b1_node_root] at hn1
    rw [S.b2_node_root] at hn2
    have hpt : pp ≠ S.toks := by
      intro e
      rw [e, S.get_d2_toks] at hn2
      cases hn2
      simp [Doc.refStr, refNode, getStr, get?, lookup] at hnr2
      exact hr hnr2
    have kid : ∀ k, CanonTok k → S.R (child ("", pp) k) (child ("", pp) k) :=
      fun k hk => Or.inr (Or.inl ⟨rfl, rfl, rfl, S.allowed_child pp k hal hpt hk⟩)
    have hs := S.node_identity pp hal hpt
    rw [hn1, hn2] at hs
    cases hs with
    | same =>
      refine nodesOK_same _ _ _ _ ?_ ?_
      · intro kvs e k hk
        subst e
        exact kid k (S.keys_canon_of_get pp kvs hn1 k (mem_visible_mem kvs k hk))
      · intro xs _ i _; exact kid _ (canonTok_toString i)
    | shape _ _ hsh _ =>
      cases hsh with
      | obj k1 k2 t hkeys _ =>
        unfold NodesOK
        refine ⟨(visible_keys_congr k1 k2 hkeys).symm, ?_⟩
        intro k hk
        exact kid k (S.keys_canon_of_get pp k1 hn1 k (mem_visible_mem k1 k hk))
      | arr x1 x2 hlen =>
        unfold NodesOK
        exact ⟨hlen.symm, fun i _ => kid _ (canonTok_toString i)⟩
  · -- inside the moved schema
    simp only at hp1 hq1 hpt hqt
    rw [hp1, hpt] at hn1 ⊢
    rw [hq1, hqt] at hn2 ⊢
    rw [S.b1_node_root] at hn1
    rw [S.b2_node_root, S.get_d2_new t] at hn2
    have kid : ∀ k, CanonTok k → (t = [] → k ≠ marker) →
        S.R (child ("", S.toks ++ t) k) (child ("", defn S.n ++ t) k) := by
      intro k hk hm
      refine Or.inr (Or.inr ⟨rfl, rfl, t ++ [k], by simp [child], by simp [child], ?_, ?_⟩)
      · intro x hx
        rcases List.mem_append.1 hx with h | h
        · exact hct x h
        · simp at h; subst h; exact hk
      · intro a t' e
        cases t with
        | nil => simp at e; rw [← e.1]; exact hm rfl
        | cons b t2 => simp at e; rw [← e.1]; exact hmk b t2 rfl
    cases t with
    | nil =>
      simp only [List.append_nil] at hn1 hn2
      rw [S.hget] at hn1
      cases hn1
      simp only [Spec.Pointer.get] at hn2
      cases hn2
      rw [S.saved_eq]
      unfold NodesOK
      refine ⟨(Setting.visible_setKv_marker S.loc S.sch).symm, ?_⟩
      intro k hk
      exact kid k (S.keys_canon_of_get S.toks S.sch S.hget k (mem_visible_mem _ k hk))
        (fun _ => mem_visible_ne_marker _ k hk)
    | cons a t' =>
      have ha : a ≠ marker := hmk a t' rfl
      rw [S.get_saved_cons a t' ha] at hn2
      rw [get_append, S.hget] at hn1
      simp only [Option.bind_some] at hn1
      rw [hn1] at hn2
      cases hn2
      refine nodesOK_same _ _ _ _ ?_ ?_
      · intro kvs e k hk
        subst e
        have hg : Spec.Pointer.get (.obj S.kvs) (S.toks ++ a :: t') = some (.obj kvs) := by
          rw [get_append, S.hget]; exact hn1
        exact kid k (S.keys_canon_of_get _ kvs hg k (mem_visible_mem kvs k hk)) (fun e => by cases e)
      · intro xs _ i _
        exact kid _ (canonTok_toString i) (fun e => by cases e)

/-! ### the theorem -/

/-- the bound on `$ref` chains is not what makes a chain of the original bundle fail -/
def Stable (b : Bundle) (hops : Nat) : Prop := ∀ p, chase b hops p = none → chase b (hops + 1) p = none

theorem stepOK (ht : S.TargetsOK) (hr : S.r ≠ "") (hops : Nat) (hst : Stable S.b1 hops) :
    ∀ p q, S.R p q → StepOK S.b1 S.b2 hops (hops + 1) S.R p q := by
  intro p q hR
  unfold StepOK
  cases hc1 : chase S.b1 hops p with
  | none =>
    cases hc2 : chase S.b2 (hops + 1) q with
    | none => trivial
    | some q' =>
      obtain ⟨p', hp', _⟩ := S.chaseB ht hr (hops + 1) p q hR q' hc2
      rw [hst p hc1] at hp'
      cases hp'
  | some p' =>
    obtain ⟨q', hq', hR'⟩ := S.chaseA ht hr hops p q hR p' hc1
    rw [hq']
    obtain ⟨j1, hn1, _⟩ := chase_some_node S.b1 hops p p' hc1
    obtain ⟨j2, hn2, hnr2⟩ := chase_some_node S.b2 (hops + 1) q q' hq'
    simp only [hn1, hn2]
    exact S.nodes_agree ht hr p' q' hR' j1 j2 hn1 hn2 hnr2

/-- **the naming move preserves meaning**: related positions denote the same tree at every depth
    (one more hop is allowed on the rewritten side: the `$ref` left behind) -/
theorem move_preserves (ht : S.TargetsOK) (hr : S.r ≠ "") (hops : Nat) (hst : Stable S.b1 hops) :
    ∀ n p q, S.R p q → unfold S.b1 hops n p = unfold S.b2 (hops + 1) n q :=
  bisim_sound S.b1 S.b2 hops (hops + 1) S.R (S.stepOK ht hr hops hst)

end Setting
end Proofs.Move
