import Verif.Model.Ops
import Verif.Spec.Ops
import Verif.Proofs.JsonLemmas
import Verif.Proofs.ListLemmas

/-!
  Helper lemmas for C14 (operation lookups).  The method table of the model is a parameter `ms`
  (the extracted `f.analyzerMethods`); everything is proved from `ms.Perm refMethods`.
-/

namespace Proofs.Ops
open J

/-! ## generic list lemmas -/

theorem perm_flatMap_left {α β} (l : List α) {f g : α → List β} (h : ∀ a ∈ l, (f a).Perm (g a)) :
    (l.flatMap f).Perm (l.flatMap g) := by
  induction l with
  | nil => exact .nil
  | cons a l ih =>
    simp only [List.flatMap_cons]
    exact List.Perm.append (h a (by simp)) (ih fun b hb => h b (by simp [hb]))

/-- `find?` does not depend on the order when at most one element qualifies -/
theorem find?_perm_of_le_one {α} {p : α → Bool} {l₁ l₂ : List α} (h : l₁.Perm l₂)
    (hu : (l₂.filter p).length ≤ 1) : l₁.find? p = l₂.find? p := by
  rw [← List.head?_filter, ← List.head?_filter]
  have hp := h.filter p
  match h2 : l₂.filter p, hu with
  | [], _ => rw [h2] at hp; rw [hp.eq_nil]
  | [a], _ => rw [h2] at hp; rw [List.perm_singleton.mp hp]
  | _ :: _ :: _, hu => simp at hu

theorem find?_perm_of_one {α} {p : α → Bool} {l₁ l₂ : List α} (h : l₁.Perm l₂)
    (hu : (l₂.filter p).length = 1) : l₁.find? p = l₂.find? p :=
  find?_perm_of_le_one h (by omega)

theorem find?_perm_of_none {α} {p : α → Bool} {l₁ l₂ : List α} (h : l₁.Perm l₂)
    (hu : l₂.filter p = []) : l₁.find? p = none := by
  rw [find?_perm_of_le_one h (by simp [hu]), ← List.head?_filter, hu]; rfl

/-- distinct keys: membership plus key determine the element -/
theorem eq_of_nodup_map {α β} (key : α → β) {l : List α} (hn : (l.map key).Nodup) {a b : α}
    (ha : a ∈ l) (hb : b ∈ l) (e : key a = key b) : a = b := by
  induction l with
  | nil => cases ha
  | cons c l ih =>
    simp only [List.map_cons, List.nodup_cons, List.mem_map, not_exists, not_and] at hn
    rcases List.mem_cons.mp ha with rfl | ha' <;> rcases List.mem_cons.mp hb with rfl | hb'
    · rfl
    · exact absurd e.symm (hn.1 b hb')
    · exact absurd e (hn.1 a ha')
    · exact ih hn.2 ha' hb'

/-- with distinct keys, lookup by key does not depend on the order -/
theorem find?_key_perm {α β} [DecidableEq β] (key : α → β) {l₁ l₂ : List α} (h : l₁.Perm l₂)
    (hn : (l₂.map key).Nodup) (k : β) :
    l₁.find? (fun a => key a = k) = l₂.find? (fun a => key a = k) := by
  have hn1 : (l₁.map key).Nodup := ((h.map key).nodup_iff).mpr hn
  cases h2 : l₂.find? (fun a => key a = k) with
  | none =>
    rw [List.find?_eq_none] at h2 ⊢
    intro a ha; exact h2 a (h.mem_iff.mp ha)
  | some b =>
    have hb := List.mem_of_find?_eq_some h2
    have hkb := List.find?_some h2
    cases h1 : l₁.find? (fun a => key a = k) with
    | none =>
      rw [List.find?_eq_none] at h1
      exact absurd hkb (h1 b (h.mem_iff.mpr hb))
    | some a =>
      have ha := List.mem_of_find?_eq_some h1
      have hka := List.find?_some h1
      simp only [decide_eq_true_eq] at hka hkb
      rw [eq_of_nodup_map key hn1 ha (h.mem_iff.mpr hb) (hka.trans hkb.symm)]

theorem nodup_eraseDups {α} [BEq α] [LawfulBEq α] (l : List α) : l.eraseDups.Nodup := by
  suffices ∀ n (l : List α), l.length ≤ n → l.eraseDups.Nodup from this _ l (Nat.le_refl _)
  intro n
  induction n with
  | zero => intro l hl; cases l <;> simp_all
  | succ n ih =>
    intro l hl
    cases l with
    | nil => simp
    | cons a as =>
      rw [List.eraseDups_cons, List.nodup_cons]
      refine ⟨?_, ih _ ?_⟩
      · simp [List.mem_eraseDups]
      · have := List.length_filter_le (fun b => !b == a) as
        simp only [List.length_cons] at hl
        omega

/-! ## the method table -/

/-- the table `analyzeOperations` is expected to pass to `analyzeOperation` -/
def refMethods : List (String × String) := Doc.methods.map fun m => (Str.toUpperAscii m, m)

theorem refMethods_keys_nodup : (refMethods.map (·.1)).Nodup := by decide

theorem upper_idem_ref : ∀ mf ∈ refMethods, Str.toUpperAscii mf.1 = mf.1 := by decide

theorem keys_nodup {ms : List (String × String)} (h : ms.Perm refMethods) : (ms.map (·.1)).Nodup :=
  ((h.map (·.1)).nodup_iff).mpr refMethods_keys_nodup

/-- the index over an arbitrary method table -/
def opsWith (ms : List (String × String)) (items : List (String × J)) : List (String × String × J) :=
  items.flatMap fun kv => ms.filterMap fun mf => (kv.2.get? mf.2).map fun op => (mf.1, kv.1, op)

theorem operations_eq (f : Facts) (d : J) : Ops.operations f d = opsWith f.analyzerMethods (Doc.pathItems d) := rfl

theorem allOps_eq (d : J) : Spec.Ops.allOps d = opsWith refMethods (Doc.pathItems d) := by
  unfold Spec.Ops.allOps opsWith refMethods
  apply List.flatMap_congr'
  intro kv _
  rw [List.filterMap_map]
  rfl

theorem opsWith_perm {ms₁ ms₂ : List (String × String)} (h : ms₁.Perm ms₂) (items : List (String × J)) :
    (opsWith ms₁ items).Perm (opsWith ms₂ items) :=
  perm_flatMap_left items fun _ _ => h.filterMap _

theorem operations_perm (f : Facts) (h : f.analyzerMethods.Perm refMethods) (d : J) :
    (Ops.operations f d).Perm (Spec.Ops.allOps d) := by
  rw [operations_eq, allOps_eq]; exact opsWith_perm h _

theorem mem_opsWith {ms : List (String × String)} {items : List (String × J)} {o : String × String × J}
    (h : o ∈ opsWith ms items) : ∃ kv ∈ items, ∃ mf ∈ ms, kv.2.get? mf.2 = some o.2.2 ∧ o.1 = mf.1 ∧ o.2.1 = kv.1 := by
  simp only [opsWith, List.mem_flatMap, List.mem_filterMap, Option.map_eq_some_iff] at h
  obtain ⟨kv, hkv, mf, hmf, op, hop, rfl⟩ := h
  exact ⟨kv, hkv, mf, hmf, hop, rfl, rfl⟩

/-- method names in the index are already upper case -/
theorem upper_of_mem_allOps {d : J} {o : String × String × J} (h : o ∈ Spec.Ops.allOps d) :
    Str.toUpperAscii o.1 = o.1 := by
  rw [allOps_eq] at h
  obtain ⟨_, _, mf, hmf, _, e, _⟩ := mem_opsWith h
  rw [e]; exact upper_idem_ref mf hmf

/-! ## listings -/

theorem methodPaths_perm (f : Facts) (h : f.analyzerMethods.Perm refMethods) (d : J) :
    (Ops.operationMethodPaths f d).Perm (Spec.Ops.methodPaths d) := by
  unfold Ops.operationMethodPaths Spec.Ops.methodPaths
  refine ((operations_perm f h d).map _).trans (List.Perm.of_eq ?_)
  apply List.map_congr_left
  intro o ho
  simp only [Ops.methodPath, upper_of_mem_allOps ho]

theorem ids_perm (f : Facts) (h : f.analyzerMethods.Perm refMethods) (d : J) :
    (Ops.operationIDs f d).Perm (Spec.Ops.ids d) := by
  unfold Ops.operationIDs Spec.Ops.ids
  refine ((operations_perm f h d).map _).trans (List.Perm.of_eq ?_)
  apply List.map_congr_left
  intro o ho
  by_cases he : o.2.2.getStr "operationId" = "" <;>
    simp [Ops.methodPath, upper_of_mem_allOps ho, Spec.Ops.idOf, he]

/-! ## lookup by id -/

theorem operationForName_unique (f : Facts) (h : f.analyzerMethods.Perm refMethods) (d : J) (id : String)
    (hu : ((Spec.Ops.allOps d).filter fun o => Spec.Ops.idOf o = id).length = 1) :
    Ops.operationForName f d id = Spec.Ops.operationForName d id :=
  find?_perm_of_one (operations_perm f h d) hu

theorem operationForName_unknown (f : Facts) (h : f.analyzerMethods.Perm refMethods) (d : J) (id : String)
    (hu : ((Spec.Ops.allOps d).filter fun o => Spec.Ops.idOf o = id) = []) :
    Ops.operationForName f d id = none :=
  find?_perm_of_none (operations_perm f h d) hu

/-! ## lookup by (method, path) -/

/-- one path item: nothing when its key is not the path asked for -/
theorem find?_item_ne (ms : List (String × String)) (kv : String × J) (M path : String) (hk : kv.1 ≠ path) :
    (ms.filterMap fun mf => (kv.2.get? mf.2).map fun op => (mf.1, kv.1, op)).find?
      (fun o : String × String × J => o.1 = M ∧ o.2.1 = path) = none := by
  rw [List.find?_eq_none]
  intro o ho
  simp only [List.mem_filterMap, Option.map_eq_some_iff] at ho
  obtain ⟨mf, _, op, _, rfl⟩ := ho
  simp [hk]

/-- one path item with the right key: the operation under the (unique) method named `M` -/
theorem find?_item_eq (ms : List (String × String)) (hn : (ms.map (·.1)).Nodup) (kv : String × J) (M : String) :
    (ms.filterMap fun mf => (kv.2.get? mf.2).map fun op => (mf.1, kv.1, op)).find?
      (fun o : String × String × J => o.1 = M ∧ o.2.1 = kv.1) =
    (ms.find? fun mf => mf.1 = M).bind fun mf => (kv.2.get? mf.2).map fun op => (mf.1, kv.1, op) := by
  induction ms with
  | nil => rfl
  | cons mf rest ih =>
    simp only [List.map_cons, List.nodup_cons] at hn
    by_cases hM : mf.1 = M
    · rw [List.find?_cons_of_pos (by simpa using hM)]
      simp only [Option.bind_some]
      cases hg : kv.2.get? mf.2 with
      | none =>
        simp only [List.filterMap_cons, hg, Option.map_none]
        rw [List.find?_eq_none]
        intro o ho
        simp only [List.mem_filterMap, Option.map_eq_some_iff] at ho
        obtain ⟨mf', hmf', op, _, rfl⟩ := ho
        have : mf'.1 ≠ M := fun e => hn.1 (hM ▸ e ▸ List.mem_map_of_mem hmf')
        simp [this]
      | some op =>
        simp only [List.filterMap_cons, hg, Option.map_some]
        rw [List.find?_cons_of_pos (by simpa using hM)]
    · rw [List.find?_cons_of_neg (by simpa using hM)]
      rw [← ih hn.2]
      cases hg : kv.2.get? mf.2 with
      | none => simp only [List.filterMap_cons, hg, Option.map_none]
      | some op =>
        simp only [List.filterMap_cons, hg, Option.map_some]
        rw [List.find?_cons_of_neg (by simp [hM])]

theorem find?_opsWith_absent (ms : List (String × String)) (items : List (String × J)) (M path : String)
    (hk : path ∉ items.map (·.1)) :
    (opsWith ms items).find? (fun o => o.1 = M ∧ o.2.1 = path) = none := by
  rw [List.find?_eq_none]
  intro o ho
  obtain ⟨kv, hkv, _, _, _, _, e⟩ := mem_opsWith ho
  have : o.2.1 ≠ path := fun e' => hk (e' ▸ e ▸ List.mem_map_of_mem hkv)
  simp [this]

theorem lookup_absent (path : String) (items : List (String × J)) (hk : path ∉ items.map (·.1)) :
    lookup path items = none := by
  induction items with
  | nil => rfl
  | cons kv rest ih =>
    obtain ⟨k, v⟩ := kv
    simp only [List.map_cons, List.mem_cons, not_or] at hk
    rw [lookup_cons, if_neg (Ne.symm hk.1), ih hk.2]

theorem lookup_cons' (k : String) (kv : String × J) (rest : List (String × J)) :
    lookup k (kv :: rest) = if kv.1 = k then some kv.2 else lookup k rest := by
  cases kv; rfl

/-- the index lookup over a table with distinct method names and a map with distinct path keys -/
theorem find?_opsWith (ms : List (String × String)) (hn : (ms.map (·.1)).Nodup)
    (items : List (String × J)) (hi : (items.map (·.1)).Nodup) (M path : String) :
    ((opsWith ms items).find? (fun o => o.1 = M ∧ o.2.1 = path)).map (·.2.2) =
    (ms.find? fun mf => mf.1 = M).bind fun mf => (lookup path items).bind (·.get? mf.2) := by
  induction items with
  | nil => cases ms.find? fun mf => mf.1 = M <;> rfl
  | cons kv rest ih =>
    simp only [List.map_cons, List.nodup_cons] at hi
    have hcons : opsWith ms (kv :: rest) =
        (ms.filterMap fun mf => (kv.2.get? mf.2).map fun op => (mf.1, kv.1, op)) ++ opsWith ms rest := by
      simp [opsWith]
    rw [hcons, List.find?_append]
    by_cases hk : kv.1 = path
    · subst hk
      rw [find?_opsWith_absent ms rest M kv.1 hi.1, Option.or_none, find?_item_eq ms hn]
      simp only [lookup_cons', if_true, Option.bind_some]
      cases ms.find? fun mf => mf.1 = M with
      | none => rfl
      | some mf => cases hg : kv.2.get? mf.2 <;> simp [hg]
    · rw [find?_item_ne ms kv M path hk, Option.none_or, ih hi.2]
      simp only [lookup_cons', if_neg hk]

theorem theMethod_eq (method : String) :
    (refMethods.find? fun mf => mf.1 = Str.toUpperAscii method) =
      (Spec.Ops.theMethod method).map fun m => (Str.toUpperAscii m, m) := by
  unfold refMethods Spec.Ops.theMethod
  rw [List.find?_map]
  rfl

theorem operationFor_exact (f : Facts) (h : f.analyzerMethods.Perm refMethods) (d : J)
    (hn : ((Doc.pathItems d).map (·.1)).Nodup) (method path : String) :
    Ops.operationFor f d method path = Spec.Ops.operationFor d method path := by
  unfold Ops.operationFor Spec.Ops.operationFor
  rw [operations_eq, find?_opsWith _ (keys_nodup h) _ hn,
    find?_key_perm (·.1) h refMethods_keys_nodup, theMethod_eq]
  cases Spec.Ops.theMethod method <;> rfl

/-! ## consumes / produces -/

theorem mediaFor_rule (k : String) (d op : J) :
    (Ops.mediaFor k d op).Nodup ∧ ∀ x, x ∈ Ops.mediaFor k d op ↔ x ∈ Spec.Ops.mediaFor k d op := by
  unfold Ops.mediaFor Spec.Ops.mediaFor
  by_cases h : op.getStrs k = []
  · simp [h, nodup_eraseDups, List.mem_eraseDups]
  · simp [h, nodup_eraseDups, List.mem_eraseDups]

/-! ## security -/

theorem securityRequirements_rule (d op : J) :
    Ops.securityRequirementsFor d op =
      (Spec.Ops.securityInForce d op).map fun reqs => reqs.map Ops.reqsOf := by
  unfold Ops.securityRequirementsFor Spec.Ops.securityInForce
  split <;> split <;> simp_all
  all_goals (split <;> simp_all)

theorem empty_security_disables (d op : J) (h : op.get? "security" = some (.arr [])) :
    Ops.securityRequirementsFor d op = some [] ∧ Ops.securityDefinitionsFor d op = none := by
  have h1 : Ops.securityRequirementsFor d op = some [] := by
    rw [securityRequirements_rule]; simp [Spec.Ops.securityInForce, h]
  exact ⟨h1, by simp [Ops.securityDefinitionsFor, h1]⟩

end Proofs.Ops
