import Verif.Proofs.Mixin

/-!
  C17: invariants of the loop over mixins (`Mixin.steps`) and the resulting statements about
  `Mixin.mixin`.  Every invariant relates the state after merging the documents `ds` (the primary
  followed by the mixins seen so far) to the specification evaluated on `ds`.
-/

namespace Proofs.Mixin
open J Spec.Mixin

/-! ## the loop -/

theorem steps_nil (f : Facts) (i : Nat) (st : Mixin.St) : Mixin.steps f i st [] = some st := by
  exact id rfl

theorem steps_cons (f : Facts) (i : Nat) (st : Mixin.St) (m : J) (ms : List J) :
    Mixin.steps f i st (m :: ms) =
      match Mixin.step f i st m with
      | some st' => Mixin.steps f (i + 1) st' ms
      | none => none := by
  exact id rfl

theorem steps_inv (f : Facts) (Inv : Nat → List J → Mixin.St → Prop) (Q : J → Prop)
    (hstep : ∀ i ds st m st', Inv i ds st → Q m → Mixin.step f i st m = some st' → Inv (i + 1) (ds ++ [m]) st') :
    ∀ (ms : List J) (i : Nat) (ds : List J) (st st' : Mixin.St), (∀ m ∈ ms, Q m) → Inv i ds st →
      Mixin.steps f i st ms = some st' → Inv (i + ms.length) (ds ++ ms) st' := by
  intro ms
  induction ms with
  | nil =>
    intro i ds st st' _ hinv h
    simp only [steps_nil, Option.some.injEq] at h
    subst h; simpa using hinv
  | cons m ms ih =>
    intro i ds st st' hQ hinv h
    rw [steps_cons] at h
    cases hs : Mixin.step f i st m with
    | none => simp [hs] at h
    | some st1 =>
      simp only [hs] at h
      have h1 := hstep i ds st m st1 hinv (hQ m (by simp)) hs
      have h2 := ih (i + 1) (ds ++ [m]) st1 st' (fun x hx => hQ x (by simp [hx])) h1 h
      have e1 : i + 1 + ms.length = i + (m :: ms).length := by simp; omega
      have e2 : ds ++ [m] ++ ms = ds ++ m :: ms := by simp
      rw [e1, e2] at h2
      exact h2

theorem mixin_ok (f : Facts) (p : J) (ms : List J) (r : J × List Mixin.Warn)
    (hr : Mixin.mixin f p ms = .ok r) :
    ∃ st', Mixin.steps f 0 { doc := Mixin.initPrimary p, ids := Mixin.getOpIDs f p, warns := [] } ms = some st' ∧
      r = (st'.doc, st'.warns) := by
  unfold Mixin.mixin at hr
  split at hr
  · rename_i st' hs
    refine ⟨st', hs, ?_⟩
    simp only [Outcome.ok.injEq] at hr
    exact hr.symm
  · simp at hr

/-- how the invariants are used: from the initial state to the returned document -/
theorem mixin_inv (f : Facts) (Inv : Nat → List J → Mixin.St → Prop) (Q : J → Prop)
    (hstep : ∀ i ds st m st', Inv i ds st → Q m → Mixin.step f i st m = some st' → Inv (i + 1) (ds ++ [m]) st')
    (p : J) (ms : List J) (r : J × List Mixin.Warn) (hr : Mixin.mixin f p ms = .ok r)
    (hQ : ∀ m ∈ ms, Q m)
    (h0 : Inv 0 [p] { doc := Mixin.initPrimary p, ids := Mixin.getOpIDs f p, warns := [] }) :
    ∃ st', r = (st'.doc, st'.warns) ∧ Inv ms.length (p :: ms) st' := by
  obtain ⟨st', hs, e⟩ := mixin_ok f p ms r hr
  refine ⟨st', e, ?_⟩
  have := steps_inv f Inv Q hstep ms 0 [p] _ st' hQ h0 hs
  simpa using this

/-! ## the initial state -/

theorem initPrimary_isObj (p : J) : (Mixin.initPrimary p).isObj = p.isObj := by
  unfold Mixin.initPrimary; split
  · rfl
  · exact isObj_set _ _ _

theorem initPrimary_get?_ne (p : J) (k : String) (h : k ≠ "paths") :
    (Mixin.initPrimary p).get? k = p.get? k := by
  unfold Mixin.initPrimary; split
  · rfl
  · exact get?_set_ne _ _ _ _ h

theorem initPrimary_paths (p : J) (hp : p.isObj = true) :
    (Mixin.initPrimary p).getObj "paths" = p.getObj "paths" := by
  unfold Mixin.initPrimary; split
  · rfl
  · rename_i h
    rw [getObj_set_self _ _ _ hp]
    unfold getObj
    split
    · rename_i kvs hk; exact absurd hk (h kvs)
    · rfl

/-! ## no panic -/

theorem step_isSome (f : Facts) (hg : f.mixinExtDocsGuard = true) (i : Nat) (st : Mixin.St) (m : J) :
    (Mixin.step f i st m).isSome = true := by
  rw [step_eq, Option.isSome_map]; exact mergeSwaggerProps_isSome f hg _ _

theorem steps_isSome (f : Facts) (hg : f.mixinExtDocsGuard = true) (ms : List J) :
    ∀ (i : Nat) (st : Mixin.St), (Mixin.steps f i st ms).isSome = true := by
  induction ms with
  | nil => intro i st; rfl
  | cons m ms ih =>
    intro i st
    rw [steps_cons]
    have := step_isSome f hg i st m
    cases hs : Mixin.step f i st m with
    | none => simp [hs] at this
    | some st1 => exact ih _ _

theorem mixin_never_panics (f : Facts) (hg : f.mixinExtDocsGuard = true) (p : J) (ms : List J) :
    ∃ r, Mixin.mixin f p ms = .ok r := by
  unfold Mixin.mixin
  have := steps_isSome f hg ms 0 { doc := Mixin.initPrimary p, ids := Mixin.getOpIDs f p, warns := [] }
  cases hs : Mixin.steps f 0 { doc := Mixin.initPrimary p, ids := Mixin.getOpIDs f p, warns := [] } ms with
  | none => simp [hs] at this
  | some st => exact ⟨_, rfl⟩

/-! ## keyed sections -/

theorem firstWins_snoc (ds : List J) (m : J) (sect k : String) :
    firstWins (ds ++ [m]) sect k = (firstWins ds sect k).or (lookup k (sectionOf sect m)) := by
  unfold firstWins
  rw [List.findSome?_append]
  cases List.findSome? (fun d => lookup k (sectionOf sect d)) ds <;>
    cases h : lookup k (sectionOf sect m) <;> simp [h]

theorem firstWins_single (p : J) (sect k : String) : firstWins [p] sect k = lookup k (sectionOf sect p) := by
  unfold firstWins
  cases h : lookup k (sectionOf sect p) <;> simp [h]

theorem sectionOf_ne (sect : String) (d : J) (h : sect ≠ "paths") : sectionOf sect d = d.getObj sect := by
  simp [sectionOf, h]

theorem sectionOf_paths (d : J) : sectionOf "paths" d = Doc.pathItems d := by
  simp [sectionOf]

def keyed4 : List String := ["definitions", "parameters", "responses", "securityDefinitions"]

theorem keyed4_ne_paths : ∀ s ∈ keyed4, s ≠ "paths" := by decide

theorem keyed4_sub : ∀ s ∈ keyed4, s ∈ sectionKeys := by decide

theorem mixin_keyed (f : Facts) (p : J) (ms : List J) (r : J × List Mixin.Warn)
    (hp : p.isObj = true) (hr : Mixin.mixin f p ms = .ok r) (sect : String) (hs : sect ∈ keyed4) (k : String) :
    lookup k (r.1.getObj sect) = firstWins (p :: ms) sect k := by
  have hne := keyed4_ne_paths sect hs
  obtain ⟨st', e, hinv⟩ := mixin_inv f
    (fun _ ds st => st.doc.isObj = true ∧ lookup k (st.doc.getObj sect) = firstWins ds sect k)
    (fun _ => True)
    (by
      intro i ds st m st' ⟨ho, hl⟩ _ hstep
      obtain ⟨p1, w1, sf⟩ := step_facts f i st m st' hstep ho
      refine ⟨sf.isObj, ?_⟩
      rw [sf.keyed sect hs, fw_lookup, filter_allKeys, hl, firstWins_snoc, sectionOf_ne _ _ hne])
    p ms r hr (fun _ _ => trivial)
    (by
      refine ⟨by rw [initPrimary_isObj]; exact hp, ?_⟩
      simp only
      rw [getObj_congr _ _ _ (initPrimary_get?_ne p sect hne), firstWins_single, sectionOf_ne _ _ hne])
  rw [e]; exact hinv.2

/-! ## list fields -/

theorem expectedList_snoc (k : String) (same : J → J → Bool) (ds : List J) (m : J) (h : ds ≠ []) :
    expectedList k same (ds ++ [m]) = unionNew same (expectedList k same ds) (m.getArr k) := by
  cases ds with
  | nil => exact absurd rfl h
  | cons p ms => simp [expectedList, unionNew_append]

theorem expectedList_single (k : String) (same : J → J → Bool) (p : J) :
    expectedList k same [p] = p.getArr k := by
  simp [expectedList, unionNew]

/-- the five list fields with their notion of "same element" -/
structure ListsOK (ds : List J) (d : J) : Prop where
  consumes : d.getArr "consumes" = expectedList "consumes" (· == ·) ds
  produces : d.getArr "produces" = expectedList "produces" (· == ·) ds
  tags : d.getArr "tags" = expectedList "tags" sameTag ds
  schemes : d.getArr "schemes" = expectedList "schemes" (· == ·) ds
  security : d.getArr "security" = expectedList "security" (· == ·) ds

theorem mixin_lists (f : Facts) (p : J) (ms : List J) (r : J × List Mixin.Warn)
    (hp : p.isObj = true) (hr : Mixin.mixin f p ms = .ok r) : ListsOK (p :: ms) r.1 := by
  obtain ⟨st', e, hinv⟩ := mixin_inv f
    (fun _ ds st => st.doc.isObj = true ∧ ds ≠ [] ∧ ListsOK ds st.doc)
    (fun _ => True)
    (by
      intro i ds st m st' ⟨ho, hne, hl⟩ _ hstep
      obtain ⟨p1, w1, sf⟩ := step_facts f i st m st' hstep ho
      refine ⟨sf.isObj, by simp, ?_, ?_, ?_, ?_, ?_⟩
      · rw [sf.consumes, hl.consumes, expectedList_snoc _ _ _ _ hne]
      · rw [sf.produces, hl.produces, expectedList_snoc _ _ _ _ hne]
      · rw [sf.tags, hl.tags, expectedList_snoc _ _ _ _ hne]
      · rw [sf.schemes, hl.schemes, expectedList_snoc _ _ _ _ hne]
      · rw [sf.security, hl.security, expectedList_snoc _ _ _ _ hne])
    p ms r hr (fun _ _ => trivial)
    (by
      refine ⟨by rw [initPrimary_isObj]; exact hp, by simp, ?_, ?_, ?_, ?_, ?_⟩ <;>
        simp only [expectedList_single] <;>
        exact getArr_congr _ _ _ (initPrimary_get?_ne p _ (by decide)))
  rw [e]; exact hinv.2.2

/-! ## paths -/

theorem option_map_or {α β} (g : α → β) (a b : Option α) : (a.or b).map g = (a.map g).or (b.map g) := by
  cases a <;> simp

theorem mixin_paths (f : Facts) (hm : ∀ m ∈ f.mixinMethods, Doc.isMethodKey m = true)
    (p : J) (ms : List J) (r : J × List Mixin.Warn)
    (hp : p.isObj = true) (hr : Mixin.mixin f p ms = .ok r) (k : String) :
    (lookup k (Doc.pathItems r.1)).map stripOpIds = (firstWins (p :: ms) "paths" k).map stripOpIds := by
  cases hk : Doc.isPathKey k
  · -- not a path key: absent on both sides
    have h1 : lookup k (Doc.pathItems r.1) = none := lookup_filter_neg _ _ _ hk
    have h2 : firstWins (p :: ms) "paths" k = none := by
      unfold firstWins
      rw [List.findSome?_eq_none_iff]
      intro d _
      rw [sectionOf_paths]
      exact lookup_filter_neg _ _ _ hk
    rw [h1, h2]
  · obtain ⟨st', e, hinv⟩ := mixin_inv f
      (fun _ ds st => st.doc.isObj = true ∧
        (lookup k (st.doc.getObj "paths")).map stripOpIds = (firstWins ds "paths" k).map stripOpIds)
      (fun _ => True)
      (by
        intro i ds st m st' ⟨ho, hl⟩ _ hstep
        obtain ⟨p1, w1, sf⟩ := step_facts f i st m st' hstep ho
        refine ⟨sf.isObj, ?_⟩
        rw [sf.paths, mergePaths_strip f hm, fw_lookup, option_map_or, hl, firstWins_snoc, option_map_or,
          sectionOf_paths]
        rfl)
      p ms r hr (fun _ _ => trivial)
      (by
        refine ⟨by rw [initPrimary_isObj]; exact hp, ?_⟩
        simp only
        rw [initPrimary_paths p hp, firstWins_single, sectionOf_paths]
        unfold Doc.pathItems
        rw [lookup_filter_pos _ _ _ hk])
    rw [e]
    unfold Doc.pathItems
    rw [lookup_filter_pos _ _ _ hk]
    exact hinv.2

/-! ## scalar fields -/

/-- first non-empty value of `g` along the documents -/
def fne (g : J → String) (docs : List J) : String := ((docs.map g).find? (· ≠ "")).getD ""

theorem fne_single (g : J → String) (p : J) : fne g [p] = g p := by
  unfold fne
  by_cases h : g p = "" <;> simp [h]

theorem fne_snoc (g : J → String) (ds : List J) (m : J) :
    fne g (ds ++ [m]) = if fne g ds = "" then g m else fne g ds := by
  unfold fne
  rw [List.map_append, List.find?_append]
  cases h : List.find? (· ≠ "") (ds.map g) with
  | none =>
    by_cases hm : g m = "" <;> simp [hm]
  | some x =>
    have := List.find?_some h
    simp at this
    simp [this]

/-- a scalar read by `g` is filled from the first document where it is non-empty, as soon as every
    iteration fills it when empty (and keeps the side condition `I`) -/
theorem mixin_scalar (f : Facts) (g : J → String) (I : J → Prop) (Q : J → Prop)
    (hstep : ∀ i st m st', st.doc.isObj = true → I st.doc → Q m → Mixin.step f i st m = some st' →
      I st'.doc ∧ g st'.doc = if g st.doc = "" then g m else g st.doc)
    (p : J) (ms : List J) (r : J × List Mixin.Warn) (hp : p.isObj = true)
    (hr : Mixin.mixin f p ms = .ok r) (hQ : ∀ m ∈ ms, Q m)
    (h0 : I (Mixin.initPrimary p)) (hg0 : g (Mixin.initPrimary p) = g p) :
    g r.1 = fne g (p :: ms) := by
  obtain ⟨st', e, hinv⟩ := mixin_inv f
    (fun _ ds st => st.doc.isObj = true ∧ I st.doc ∧ g st.doc = fne g ds) Q
    (by
      intro i ds st m st' ⟨ho, hi, hl⟩ hq hs
      obtain ⟨hi', hg⟩ := hstep i st m st' ho hi hq hs
      obtain ⟨p1, w1, sf⟩ := step_facts f i st m st' hs ho
      exact ⟨sf.isObj, hi', by rw [hg, fne_snoc, hl]⟩)
    p ms r hr hQ ⟨by rw [initPrimary_isObj]; exact hp, h0, by rw [fne_single]; exact hg0⟩
  rw [e]; exact hinv.2.2

theorem topKeys_notSection : ∀ k ∈ ["host", "basePath", "info", "externalDocs"], k ∉ sectionKeys := by decide

theorem mixin_scalar_top (f : Facts) (p : J) (ms : List J) (r : J × List Mixin.Warn) (hp : p.isObj = true)
    (hr : Mixin.mixin f p ms = .ok r) (k : String) (hk : k ∈ topFields) :
    r.1.getStr k = fne (fun d => d.getStr k) (p :: ms) := by
  have hks : k ∉ sectionKeys := by revert k; decide
  have hkp : k ≠ "paths" := by rintro rfl; revert hk; decide
  apply mixin_scalar f (fun d => d.getStr k) (fun _ => True) (fun _ => True) _ p ms r hp hr
    (fun _ _ => trivial) trivial (getStr_congr _ _ _ (initPrimary_get?_ne p k hkp))
  intro i st m st' ho _ _ hs
  obtain ⟨p1, w1, sf⟩ := step_facts f i st m st' hs ho
  refine ⟨trivial, ?_⟩
  obtain ⟨w0, wi, wc, wl, _, l0, _, _⟩ := sf.props.lvls
  have := l0.strs (by rw [optObj_some]; exact ho) k hk
  simp only [getStrO] at this
  rw [getStr_congr _ _ _ (sf.top k hks)]
  exact this

theorem mixin_scalar_info (f : Facts) (p : J) (ms : List J) (r : J × List Mixin.Warn) (hp : p.isObj = true)
    (hr : Mixin.mixin f p ms = .ok r) (hsh : ∀ d ∈ p :: ms, optObj (info d) = true)
    (k : String) (hk : k ∈ infoFields) :
    getStrO k (info r.1) = fne (fun d => getStrO k (info d)) (p :: ms) := by
  apply mixin_scalar f (fun d => getStrO k (info d)) (fun d => optObj (info d) = true)
    (fun d => optObj (info d) = true) _ p ms r hp hr
    (fun m hm => hsh m (by simp [hm]))
  · show optObj ((Mixin.initPrimary p).get? "info") = true
    rw [initPrimary_get?_ne p _ (by decide)]; exact hsh p (by simp)
  · show getStrO k ((Mixin.initPrimary p).get? "info") = _
    rw [initPrimary_get?_ne p _ (by decide)]; rfl
  intro i st m st' ho hi hq hs
  obtain ⟨p1, w1, sf⟩ := step_facts f i st m st' hs ho
  obtain ⟨w0, wi, wc, wl, _, _, l1, _⟩ := sf.props.lvls
  have e : info st'.doc = info p1 := sf.top "info" (by decide)
  simp only [e]
  exact ⟨l1.obj hi hq, l1.strs hi k hk⟩

/-- `info.contact` and `info.license` -/
theorem mixin_scalar_sub (f : Facts) (p : J) (ms : List J) (r : J × List Mixin.Warn) (hp : p.isObj = true)
    (hr : Mixin.mixin f p ms = .ok r) (c : String) (fields : List String)
    (hc : (c, fields) ∈ [("contact", contactFields), ("license", licenseFields)])
    (hsh : ∀ d ∈ p :: ms, optObj (info d) = true ∧ optObj (sub c (info d)) = true)
    (k : String) (hk : k ∈ fields) :
    getStrO k (sub c (info r.1)) = fne (fun d => getStrO k (sub c (info d))) (p :: ms) := by
  apply mixin_scalar f (fun d => getStrO k (sub c (info d)))
    (fun d => optObj (info d) = true ∧ optObj (sub c (info d)) = true)
    (fun d => optObj (info d) = true ∧ optObj (sub c (info d)) = true) _ p ms r hp hr
    (fun m hm => hsh m (by simp [hm]))
  · show optObj ((Mixin.initPrimary p).get? "info") = true ∧ optObj (sub c ((Mixin.initPrimary p).get? "info")) = true
    rw [initPrimary_get?_ne p _ (by decide)]; exact hsh p (by simp)
  · show getStrO k (sub c ((Mixin.initPrimary p).get? "info")) = _
    rw [initPrimary_get?_ne p _ (by decide)]; rfl
  intro i st m st' ho hi hq hs
  obtain ⟨p1, w1, sf⟩ := step_facts f i st m st' hs ho
  obtain ⟨w0, wi, wc, wl, _, _, l1, l23⟩ := sf.props.lvls
  obtain ⟨l2, l3⟩ := l23 hi.1
  have e : info st'.doc = info p1 := sf.top "info" (by decide)
  simp only [e]
  simp only [List.mem_cons, Prod.mk.injEq, List.not_mem_nil, or_false] at hc
  rcases hc with ⟨rfl, rfl⟩ | ⟨rfl, rfl⟩
  · exact ⟨⟨l1.obj hi.1 hq.1, l2.obj hi.2 hq.2⟩, l2.strs hi.2 k hk⟩
  · exact ⟨⟨l1.obj hi.1 hq.1, l3.obj hi.2 hq.2⟩, l3.strs hi.2 k hk⟩

theorem mixin_scalar_docs (f : Facts) (p : J) (ms : List J) (r : J × List Mixin.Warn) (hp : p.isObj = true)
    (hr : Mixin.mixin f p ms = .ok r) (hsh : ∀ d ∈ p :: ms, optObj (d.get? "externalDocs") = true)
    (k : String) (hk : k ∈ docsFields) :
    getStrO k (r.1.get? "externalDocs") = fne (fun d => getStrO k (d.get? "externalDocs")) (p :: ms) := by
  apply mixin_scalar f (fun d => getStrO k (d.get? "externalDocs")) (fun d => optObj (d.get? "externalDocs") = true)
    (fun d => optObj (d.get? "externalDocs") = true) _ p ms r hp hr
    (fun m hm => hsh m (by simp [hm]))
  · show optObj ((Mixin.initPrimary p).get? "externalDocs") = true
    rw [initPrimary_get?_ne p _ (by decide)]; exact hsh p (by simp)
  · show getStrO k ((Mixin.initPrimary p).get? "externalDocs") = _
    rw [initPrimary_get?_ne p _ (by decide)]
  intro i st m st' ho hi hq hs
  obtain ⟨p1, w1, sf⟩ := step_facts f i st m st' hs ho
  have e : st'.doc.get? "externalDocs" = p1.get? "externalDocs" := sf.top _ (by decide)
  simp only [e]
  exact ⟨sf.props.docsObj hi hq, sf.props.docsStrs hi k hk⟩

/-- the nil-able objects along `path` are JSON objects when present -/
def objAlong : List String → Option J → Bool
  | [], _ => true
  | key :: rest, o => optObj (o.bind (·.get? key)) && objAlong rest (o.bind (·.get? key))

theorem firstNonEmpty_eq (path : List String) (k : String) (docs : List J) :
    firstNonEmpty path k docs = fne (strAt path k) docs := rfl

/-- all thirteen scalar fields -/
theorem mixin_scalars (f : Facts) (p : J) (ms : List J) (r : J × List Mixin.Warn)
    (hp : p.isObj = true) (hr : Mixin.mixin f p ms = .ok r)
    (pk : List String × String) (hpk : pk ∈ scalarFields)
    (hsh : ∀ d ∈ p :: ms, objAlong pk.1 (some d) = true) :
    strAt pk.1 pk.2 r.1 = firstNonEmpty pk.1 pk.2 (p :: ms) := by
  rw [firstNonEmpty_eq]
  simp only [scalarFields, List.mem_cons, List.not_mem_nil, or_false] at hpk
  rcases hpk with rfl | rfl | rfl | rfl | rfl | rfl | rfl | rfl | rfl | rfl | rfl | rfl | rfl
  · exact mixin_scalar_top f p ms r hp hr _ (by decide)
  · exact mixin_scalar_top f p ms r hp hr _ (by decide)
  · exact mixin_scalar_info f p ms r hp hr (fun d hd => by simpa [objAlong, info] using hsh d hd) _ (by decide)
  · exact mixin_scalar_info f p ms r hp hr (fun d hd => by simpa [objAlong, info] using hsh d hd) _ (by decide)
  · exact mixin_scalar_info f p ms r hp hr (fun d hd => by simpa [objAlong, info] using hsh d hd) _ (by decide)
  · exact mixin_scalar_info f p ms r hp hr (fun d hd => by simpa [objAlong, info] using hsh d hd) _ (by decide)
  · exact mixin_scalar_sub f p ms r hp hr "contact" contactFields (by simp)
      (fun d hd => by simpa [objAlong, info, sub] using hsh d hd) _ (by decide)
  · exact mixin_scalar_sub f p ms r hp hr "contact" contactFields (by simp)
      (fun d hd => by simpa [objAlong, info, sub] using hsh d hd) _ (by decide)
  · exact mixin_scalar_sub f p ms r hp hr "contact" contactFields (by simp)
      (fun d hd => by simpa [objAlong, info, sub] using hsh d hd) _ (by decide)
  · exact mixin_scalar_sub f p ms r hp hr "license" licenseFields (by simp)
      (fun d hd => by simpa [objAlong, info, sub] using hsh d hd) _ (by decide)
  · exact mixin_scalar_sub f p ms r hp hr "license" licenseFields (by simp)
      (fun d hd => by simpa [objAlong, info, sub] using hsh d hd) _ (by decide)
  · exact mixin_scalar_docs f p ms r hp hr (fun d hd => by simpa [objAlong] using hsh d hd) _ (by decide)
  · exact mixin_scalar_docs f p ms r hp hr (fun d hd => by simpa [objAlong] using hsh d hd) _ (by decide)

end Proofs.Mixin
