import Verif.Proofs.MixinBase

/-!
  What each building block of `Mixin.step` does to the fields of the document it rewrites:
  which keys it leaves alone (frame), what it stores under its own key, and what it reports.
-/

namespace Proofs.Mixin
open J Spec.Mixin

/-! ## optional sub-objects -/

/-- absent, or a JSON object -/
def optObj : Option J → Bool
  | none => true
  | some j => j.isObj

/-- entries of an optional object -/
def kvsO : Option J → List (String × J)
  | some (.obj kvs) => kvs
  | _ => []

def keysO (o : Option J) : List String := (kvsO o).map (·.1)

def getStrO (k : String) : Option J → String
  | some j => j.getStr k
  | none => ""

theorem extKeysOf_eq (o : Option J) : extKeysOf o = (keysO o).filter isExtKey := by
  unfold extKeysOf keysO kvsO
  split <;> simp_all

theorem extKeysOf_eq' (o : Option J) :
    extKeysOf o = ((kvsO o).filter fun kv => isExtKey kv.1).map (·.1) := by
  rw [extKeysOf_eq, keysO, List.filter_map]; rfl

theorem mem_keysO_some (j : J) (k : String) : k ∈ keysO (some j) ↔ (j.get? k).isSome = true := by
  unfold keysO kvsO
  cases j <;> simp [get?, lookup_isSome_iff]

theorem optObj_some (j : J) : optObj (some j) = j.isObj := rfl

/-! ## mergeExt -/

theorem mergeExt_fold (mk : List (String × J)) (acc : List (String × J) × List Mixin.Warn) :
    mk.foldl (fun (acc : List (String × J) × List Mixin.Warn) (kv : String × J) =>
      if Mixin.isExtKey kv.1 then
        if (lookup kv.1 acc.1).isSome then (acc.1, acc.2 ++ [("extension", kv.1)])
        else (acc.1 ++ [kv], acc.2)
      else acc) acc
    = ((fw isExtKey acc.1 mk).1, acc.2 ++ (fw isExtKey acc.1 mk).2.map fun k => ("extension", k)) := by
  induction mk generalizing acc with
  | nil => simp
  | cons kv mk ih =>
    simp only [List.foldl_cons]
    rw [ih]
    rw [isExtKey_eq]
    cases hP : isExtKey kv.1
    · rw [fw_cons_skip _ _ _ _ hP]; simp
    · cases hs : (lookup kv.1 acc.1).isSome
      · rw [fw_cons_new _ _ _ _ hP hs]; simp
      · rw [fw_cons_hit _ _ _ _ hP hs]; simp

theorem mergeExt_obj (pk : List (String × J)) (m : J) :
    Mixin.mergeExt (.obj pk) m =
      (.obj (fw isExtKey pk (kvsO (some m))).1, (fw isExtKey pk (kvsO (some m))).2.map fun k => ("extension", k)) := by
  cases m <;> simp [Mixin.mergeExt, kvsO, mergeExt_fold]

theorem mergeExt_notObj (p m : J) (h : p.isObj = false) : Mixin.mergeExt p m = (p, []) := by
  cases p <;> simp_all [Mixin.mergeExt, isObj]

theorem mergeExt_isObj (p m : J) : (Mixin.mergeExt p m).1.isObj = p.isObj := by
  cases p <;> first | rfl | (rw [mergeExt_obj]; rfl)

theorem mergeExt_get? (p m : J) (k : String) (hk : isExtKey k = false) :
    (Mixin.mergeExt p m).1.get? k = p.get? k := by
  cases p with
  | obj pk =>
    rw [mergeExt_obj]
    simp only [get?]
    rw [fw_lookup, lookup_filter_neg _ _ _ hk]
    simp
  | _ => rfl

theorem mergeExt_ext (p m : J) (hp : p.isObj = true) (k : String) :
    ((Mixin.mergeExt p m).1.get? k).isSome = true ↔
      (p.get? k).isSome = true ∨ k ∈ extKeysOf (some m) := by
  obtain ⟨pk, rfl⟩ := (isObj_iff p).1 hp
  rw [mergeExt_obj, extKeysOf_eq']
  simp only [get?]
  exact fw_isSome _ _ _ _

theorem mergeExt_warns (p m : J) (hp : p.isObj = true) (hnd : (extKeysOf (some m)).Nodup) :
    (Mixin.mergeExt p m).2.length =
      ((extKeysOf (some m)).filter fun k => (p.get? k).isSome).length := by
  obtain ⟨pk, rfl⟩ := (isObj_iff p).1 hp
  rw [extKeysOf_eq'] at hnd ⊢
  rw [mergeExt_obj]
  simp only [List.length_map, get?]
  rw [fw_warns _ _ _ hnd]

/-! ## fillStr -/

theorem fillStr_isObj (k : String) (p m : J) : (Mixin.fillStr k p m).isObj = p.isObj := by
  unfold Mixin.fillStr; split
  · exact isObj_set _ _ _
  · rfl

theorem fillStr_get?_ne (k k₂ : String) (p m : J) (h : k₂ ≠ k) :
    (Mixin.fillStr k p m).get? k₂ = p.get? k₂ := by
  unfold Mixin.fillStr; split
  · exact get?_set_ne _ _ _ _ h
  · rfl

theorem fillStr_getStr_self (k : String) (p m : J) (hp : p.isObj = true) :
    (Mixin.fillStr k p m).getStr k = if p.getStr k = "" then m.getStr k else p.getStr k := by
  unfold Mixin.fillStr
  by_cases h1 : p.getStr k = ""
  · by_cases h2 : m.getStr k = ""
    · simp [h1, h2]
    · simp [h1, h2, getStr_set_self _ _ _ hp]
  · simp [h1]

theorem fillStrs_isObj (ks : List String) (p m : J) : (Mixin.fillStrs ks p m).isObj = p.isObj := by
  unfold Mixin.fillStrs
  induction ks generalizing p with
  | nil => rfl
  | cons k ks ih => simp only [List.foldl_cons]; rw [ih, fillStr_isObj]

theorem fillStrs_get?_notMem (ks : List String) (k₂ : String) (p m : J) (h : k₂ ∉ ks) :
    (Mixin.fillStrs ks p m).get? k₂ = p.get? k₂ := by
  unfold Mixin.fillStrs
  induction ks generalizing p with
  | nil => rfl
  | cons k ks ih =>
    simp only [List.foldl_cons]
    simp only [List.mem_cons, not_or] at h
    rw [ih _ h.2, fillStr_get?_ne _ _ _ _ h.1]

theorem fillStrs_getStr (ks : List String) (k : String) (p m : J) (hp : p.isObj = true)
    (hnd : ks.Nodup) (hk : k ∈ ks) :
    (Mixin.fillStrs ks p m).getStr k = if p.getStr k = "" then m.getStr k else p.getStr k := by
  induction ks generalizing p with
  | nil => simp at hk
  | cons k' ks ih =>
    have e : Mixin.fillStrs (k' :: ks) p m = Mixin.fillStrs ks (Mixin.fillStr k' p m) m := by
      simp [Mixin.fillStrs]
    rw [e]
    simp only [List.nodup_cons] at hnd
    by_cases hkk : k = k'
    · subst hkk
      rw [getStr_congr _ _ _ (fillStrs_get?_notMem ks k _ m hnd.1), fillStr_getStr_self _ _ _ hp]
    · have hk' : k ∈ ks := by simpa [hkk] using hk
      rw [ih _ (by rw [fillStr_isObj]; exact hp) hnd.2 hk']
      rw [getStr_congr _ _ _ (fillStr_get?_ne k' k p m hkk)]

/-! ## extensions merged, strings filled: the common part of the four levels -/

def extFill (fields : List String) (p m : J) : J := Mixin.fillStrs fields (Mixin.mergeExt p m).1 m

/-- none of `fields` is an extension key -/
def plainKeys (fields : List String) : Bool := fields.all fun k => !isExtKey k

theorem plainKeys_notMem {fields : List String} (h : plainKeys fields = true) {k : String}
    (hk : isExtKey k = true) : k ∉ fields := by
  intro hm
  have := List.all_eq_true.1 h k hm
  simp [hk] at this

theorem extFill_isObj (fields : List String) (p m : J) : (extFill fields p m).isObj = p.isObj := by
  unfold extFill; rw [fillStrs_isObj, mergeExt_isObj]

theorem extFill_get? (fields : List String) (p m : J) (k : String) (hk : isExtKey k = false)
    (hf : k ∉ fields) : (extFill fields p m).get? k = p.get? k := by
  unfold extFill; rw [fillStrs_get?_notMem _ _ _ _ hf, mergeExt_get? _ _ _ hk]

theorem extFill_ext (fields : List String) (hpl : plainKeys fields = true) (p m : J) (hp : p.isObj = true)
    (k : String) (hk : isExtKey k = true) :
    ((extFill fields p m).get? k).isSome = true ↔ (p.get? k).isSome = true ∨ k ∈ extKeysOf (some m) := by
  unfold extFill
  rw [fillStrs_get?_notMem _ _ _ _ (plainKeys_notMem hpl hk), mergeExt_ext _ _ hp]

theorem extFill_getStr (fields : List String) (hpl : plainKeys fields = true) (hnd : fields.Nodup)
    (p m : J) (hp : p.isObj = true) (k : String) (hk : k ∈ fields) :
    (extFill fields p m).getStr k = if p.getStr k = "" then m.getStr k else p.getStr k := by
  unfold extFill
  have hne : isExtKey k = false := by
    have := List.all_eq_true.1 hpl k hk
    simpa using this
  rw [fillStrs_getStr _ _ _ _ (by rw [mergeExt_isObj]; exact hp) hnd hk,
    getStr_congr _ _ _ (mergeExt_get? p m k hne)]

/-! ## one level of the merge (top, info, info.contact, info.license) -/

/-- what the proofs need to know about one level: `po` is the accumulated (optional) object, `mo` the
    mixin's, `po'` the result and `w` the reports -/
structure Lvl (fields : List String) (po mo po' : Option J) (w : List Mixin.Warn) : Prop where
  obj : optObj po = true → optObj mo = true → optObj po' = true
  ext : optObj po = true → ∀ k, isExtKey k = true → (k ∈ keysO po' ↔ k ∈ keysO po ∨ k ∈ extKeysOf mo)
  warns : optObj po = true → (extKeysOf mo).Nodup →
    w.length = ((extKeysOf mo).filter (keysO po).contains).length
  strs : optObj po = true → ∀ k ∈ fields,
    getStrO k po' = if getStrO k po = "" then getStrO k mo else getStrO k po

theorem extKeysOf_none : extKeysOf none = [] := rfl

theorem mem_extKeysOf (o : Option J) (k : String) : k ∈ extKeysOf o ↔ k ∈ keysO o ∧ isExtKey k = true := by
  rw [extKeysOf_eq]; simp

/-- the accumulated object has none: the mixin's is taken -/
theorem lvl_take (fields : List String) (mo : Option J) : Lvl fields none mo mo [] where
  obj := fun _ h => h
  ext := by intro _ k hk; rw [mem_extKeysOf]; simp [keysO, kvsO, hk]
  warns := by
    intro _ _
    have e : ([] : List String).contains = fun _ => false := by funext k; simp
    simp [keysO, kvsO, e, List.filter_eq_nil_iff.2]
  strs := by intro _ k _; simp [getStrO]

/-- the mixin has none: nothing changes -/
theorem lvl_keep (fields : List String) (po : Option J) : Lvl fields po none po [] where
  obj := fun h _ => h
  ext := by intro _ k _; simp [extKeysOf_none]
  warns := by intro _ _; simp [extKeysOf_none]
  strs := by
    intro _ k _
    cases po with
    | none => simp [getStrO]
    | some v => by_cases h : v.getStr k = "" <;> simp [getStrO, h]

/-- both have one: extensions merged, strings filled -/
theorem lvl_some (fields : List String) (hpl : plainKeys fields = true) (hnd : fields.Nodup)
    (p m X : J) (hobj : p.isObj = true → X.isObj = true)
    (hget : p.isObj = true → ∀ k, (isExtKey k = true ∨ k ∈ fields) → X.get? k = (extFill fields p m).get? k) :
    Lvl fields (some p) (some m) (some X) (Mixin.mergeExt p m).2 where
  obj := by intro h _; rw [optObj_some] at h ⊢; exact hobj h
  ext := by
    intro h k hk
    rw [optObj_some] at h
    rw [mem_keysO_some, mem_keysO_some, hget h k (Or.inl hk), extFill_ext fields hpl p m h k hk]
  warns := by
    intro h hnd'
    rw [optObj_some] at h
    rw [mergeExt_warns p m h hnd']
    congr 1
    apply List.filter_congr
    intro k _
    rw [Bool.eq_iff_iff, List.contains_iff_mem, mem_keysO_some]
  strs := by
    intro h k hk
    rw [optObj_some] at h
    simp only [getStrO]
    rw [getStr_congr _ _ _ (hget h k (Or.inr hk)), extFill_getStr fields hpl hnd p m h k hk]
    rfl

/-! ## mergePart -/

theorem mergePart_isObj (k : String) (fields : List String) (p m : J) :
    (Mixin.mergePart k fields p m).1.isObj = p.isObj := by
  unfold Mixin.mergePart
  split <;> simp [isObj_set]

theorem mergePart_get?_ne (k k₂ : String) (fields : List String) (p m : J) (h : k₂ ≠ k) :
    (Mixin.mergePart k fields p m).1.get? k₂ = p.get? k₂ := by
  unfold Mixin.mergePart
  split <;> simp [get?_set_ne _ _ _ _ h]

theorem mergePart_lvl (k : String) (fields : List String) (hpl : plainKeys fields = true)
    (hnd : fields.Nodup) (p m : J) (hp : p.isObj = true) :
    Lvl fields (p.get? k) (m.get? k) ((Mixin.mergePart k fields p m).1.get? k) (Mixin.mergePart k fields p m).2 := by
  unfold Mixin.mergePart
  split
  · rename_i mv h1 h2
    simp only [h1, h2, get?_set_self _ _ _ hp]
    exact lvl_take _ _
  · rename_i pv mv h1 h2
    simp only [h1, h2, get?_set_self _ _ _ hp]
    exact lvl_some fields hpl hnd pv mv _ (fun h => by rw [← h]; exact extFill_isObj _ _ _) (fun _ _ _ => rfl)
  · rename_i h2
    simp only [h2]
    exact lvl_keep _ _

/-! ## mergeInfo -/

def infoFields : List String := ["description", "title", "termsOfService", "version"]
def contactFields : List String := ["name", "url", "email"]
def licenseFields : List String := ["name", "url"]
def topFields : List String := ["host", "basePath"]
def docsFields : List String := ["description", "url"]

/-- `mergeInfo` after its contact step -/
def infoC (p m : J) : J × List Mixin.Warn := Mixin.mergePart "contact" contactFields (extFill infoFields p m) m

theorem mergeInfo_eq (p m : J) :
    Mixin.mergeInfo p m =
      ((Mixin.mergePart "license" licenseFields (infoC p m).1 m).1,
       (Mixin.mergeExt p m).2 ++ (infoC p m).2 ++ (Mixin.mergePart "license" licenseFields (infoC p m).1 m).2) := by
  unfold Mixin.mergeInfo infoC extFill infoFields contactFields licenseFields
  generalize Mixin.mergeExt p m = x
  obtain ⟨p1, w1⟩ := x
  simp only

theorem mergeInfo_isObj (p m : J) : (Mixin.mergeInfo p m).1.isObj = p.isObj := by
  rw [mergeInfo_eq]; simp only [infoC, mergePart_isObj, extFill_isObj]

theorem mergeInfo_get? (p m : J) (k : String) (h1 : k ≠ "contact") (h2 : k ≠ "license") :
    (Mixin.mergeInfo p m).1.get? k = (extFill infoFields p m).get? k := by
  rw [mergeInfo_eq]; simp only [infoC, mergePart_get?_ne _ _ _ _ _ h1, mergePart_get?_ne _ _ _ _ _ h2]

theorem infoC_isObj (p m : J) : (infoC p m).1.isObj = p.isObj := by
  unfold infoC; rw [mergePart_isObj, extFill_isObj]

theorem mergeInfo_get?_contact (p m : J) :
    (Mixin.mergeInfo p m).1.get? "contact" = (infoC p m).1.get? "contact" := by
  rw [mergeInfo_eq]; exact mergePart_get?_ne "license" "contact" _ _ _ (by decide)

theorem mergeInfo_get?_license (p m : J) :
    (Mixin.mergeInfo p m).1.get? "license" =
      (Mixin.mergePart "license" licenseFields (infoC p m).1 m).1.get? "license" := by
  rw [mergeInfo_eq]

/-- the three levels inside `mergeInfo` -/
theorem mergeInfo_lvls (p m : J) :
    ∃ wi wc wl, (Mixin.mergeInfo p m).2 = wi ++ wc ++ wl ∧
      Lvl infoFields (some p) (some m) (some (Mixin.mergeInfo p m).1) wi ∧
      (p.isObj = true →
        Lvl contactFields (p.get? "contact") (m.get? "contact") ((Mixin.mergeInfo p m).1.get? "contact") wc ∧
        Lvl licenseFields (p.get? "license") (m.get? "license") ((Mixin.mergeInfo p m).1.get? "license") wl) := by
  refine ⟨(Mixin.mergeExt p m).2, (infoC p m).2, (Mixin.mergePart "license" licenseFields (infoC p m).1 m).2,
    by rw [mergeInfo_eq], ?_, ?_⟩
  · apply lvl_some infoFields (by decide) (by decide)
    · intro h; rw [mergeInfo_isObj]; exact h
    · intro _ k hk
      apply mergeInfo_get?
      · rintro rfl; revert hk; decide
      · rintro rfl; revert hk; decide
  · intro hp
    have hp2 : (extFill infoFields p m).isObj = true := by rw [extFill_isObj]; exact hp
    have hp3 : (infoC p m).1.isObj = true := by rw [infoC_isObj]; exact hp
    constructor
    · have := mergePart_lvl "contact" contactFields (by decide) (by decide) _ m hp2
      rw [extFill_get? infoFields p m "contact" (by decide) (by decide)] at this
      rw [mergeInfo_get?_contact]
      exact this
    · have := mergePart_lvl "license" licenseFields (by decide) (by decide) _ m hp3
      rw [show (infoC p m).1.get? "license" = p.get? "license" from by
        unfold infoC
        rw [mergePart_get?_ne "contact" "license" _ _ _ (by decide),
          extFill_get? infoFields p m "license" (by decide) (by decide)]] at this
      rw [mergeInfo_get?_license]
      exact this

/-! ## mergeSwaggerProps -/

/-- the `info` part of `mergeSwaggerProps` -/
def infoStep (p2 m : J) : J × List Mixin.Warn :=
  match p2.get? "info", m.get? "info" with
  | none, some mi => (p2.set "info" mi, [])
  | some pi, some mi => (p2.set "info" (Mixin.mergeInfo pi mi).1, (Mixin.mergeInfo pi mi).2)
  | _, none => (p2, [])

/-- the `externalDocs` part of `mergeSwaggerProps` -/
def docsStep (f : Facts) (p3 m : J) : Option J :=
  match p3.get? "externalDocs", m.get? "externalDocs" with
  | none, some md => some (p3.set "externalDocs" md)
  | none, none => some p3
  | some pd, some md => some (p3.set "externalDocs" (Mixin.fillStrs docsFields pd md))
  | some _, none => if f.mixinExtDocsGuard then some p3 else none

theorem mergeSwaggerProps_eq (f : Facts) (p m : J) :
    Mixin.mergeSwaggerProps f p m =
      (docsStep f (infoStep (extFill topFields p m) m).1 m).map fun p' =>
        (p', (Mixin.mergeExt p m).2 ++ (infoStep (extFill topFields p m) m).2) := by
  unfold Mixin.mergeSwaggerProps docsStep infoStep extFill topFields docsFields
  simp only
  generalize Mixin.fillStrs ["host", "basePath"] (Mixin.mergeExt p m).fst m = p2
  cases hi : p2.get? "info" <;> cases hm : m.get? "info" <;> simp only <;>
    split <;> (try split) <;> simp_all

theorem infoStep_isObj (p2 m : J) : (infoStep p2 m).1.isObj = p2.isObj := by
  unfold infoStep; split <;> simp [isObj_set]

theorem infoStep_get?_ne (p2 m : J) (k : String) (h : k ≠ "info") :
    (infoStep p2 m).1.get? k = p2.get? k := by
  unfold infoStep; split <;> simp [get?_set_ne _ _ _ _ h]

theorem sub_some (k : String) (j : J) : sub k (some j) = j.get? k := rfl
theorem sub_none (k : String) : sub k none = none := rfl

theorem infoStep_lvls (p2 m : J) (hp : p2.isObj = true) :
    ∃ wi wc wl, (infoStep p2 m).2 = wi ++ wc ++ wl ∧
      Lvl infoFields (info p2) (info m) (info (infoStep p2 m).1) wi ∧
      (optObj (info p2) = true →
        Lvl contactFields (sub "contact" (info p2)) (sub "contact" (info m)) (sub "contact" (info (infoStep p2 m).1)) wc ∧
        Lvl licenseFields (sub "license" (info p2)) (sub "license" (info m)) (sub "license" (info (infoStep p2 m).1)) wl) := by
  unfold infoStep info
  split
  · rename_i mi h1 h2
    refine ⟨[], [], [], rfl, ?_, ?_⟩
    · simp only [h1, h2, get?_set_self _ _ _ hp]; exact lvl_take _ _
    · intro _
      simp only [h1, h2, get?_set_self _ _ _ hp, sub_none]
      exact ⟨lvl_take _ _, lvl_take _ _⟩
  · rename_i pi mi h1 h2
    obtain ⟨wi, wc, wl, e, l1, l2⟩ := mergeInfo_lvls pi mi
    refine ⟨wi, wc, wl, e, ?_, ?_⟩
    · simp only [h1, h2, get?_set_self _ _ _ hp]; exact l1
    · intro ho
      simp only [h1, h2, get?_set_self _ _ _ hp, sub_some]
      rw [h1, optObj_some] at ho
      exact l2 ho
  · rename_i h2
    refine ⟨[], [], [], rfl, ?_, ?_⟩
    · simp only [h2]; exact lvl_keep _ _
    · intro _
      simp only [h2, sub_none]
      exact ⟨lvl_keep _ _, lvl_keep _ _⟩

theorem docsStep_isSome (f : Facts) (hg : f.mixinExtDocsGuard = true) (p3 m : J) :
    (docsStep f p3 m).isSome = true := by
  unfold docsStep; split <;> simp [hg]

theorem docsStep_isObj (f : Facts) (p3 m p' : J) (h : docsStep f p3 m = some p') : p'.isObj = p3.isObj := by
  unfold docsStep at h
  split at h <;> first
    | (split at h <;> simp at h; subst h; rfl)
    | (simp at h; subst h; first | rfl | exact isObj_set _ _ _)

theorem docsStep_get?_ne (f : Facts) (p3 m p' : J) (h : docsStep f p3 m = some p') (k : String)
    (hk : k ≠ "externalDocs") : p'.get? k = p3.get? k := by
  unfold docsStep at h
  split at h <;> first
    | (split at h <;> simp at h; subst h; rfl)
    | (simp at h; subst h; first | rfl | exact get?_set_ne _ _ _ _ hk)

theorem docsStep_obj (f : Facts) (p3 m p' : J) (h : docsStep f p3 m = some p') (hp : p3.isObj = true)
    (h1 : optObj (p3.get? "externalDocs") = true) (h2 : optObj (m.get? "externalDocs") = true) :
    optObj (p'.get? "externalDocs") = true := by
  unfold docsStep at h
  split at h
  · rename_i md e1 e2; simp at h; subst h; rw [get?_set_self _ _ _ hp, ← e2]; exact h2
  · simp at h; subst h; exact h1
  · rename_i pd md e1 e2; simp at h; subst h
    rw [get?_set_self _ _ _ hp, optObj_some, fillStrs_isObj, ← optObj_some, ← e1]; exact h1
  · split at h <;> simp at h; subst h; exact h1

theorem docsStep_strs (f : Facts) (p3 m p' : J) (h : docsStep f p3 m = some p') (hp : p3.isObj = true)
    (h1 : optObj (p3.get? "externalDocs") = true) (k : String) (hk : k ∈ docsFields) :
    getStrO k (p'.get? "externalDocs") =
      if getStrO k (p3.get? "externalDocs") = "" then getStrO k (m.get? "externalDocs")
      else getStrO k (p3.get? "externalDocs") := by
  unfold docsStep at h
  split at h
  · rename_i md e1 e2; simp at h; subst h; rw [get?_set_self _ _ _ hp, e1, e2]; simp [getStrO]
  · rename_i e1 e2; simp at h; subst h; rw [e1, e2]; simp [getStrO]
  · rename_i pd md e1 e2; simp at h; subst h
    rw [get?_set_self _ _ _ hp, e1, e2]
    rw [e1, optObj_some] at h1
    simp only [getStrO]
    exact fillStrs_getStr docsFields k pd md h1 (by decide) hk
  · rename_i pd e1 e2
    split at h <;> simp at h; subst h; rw [e1, e2]
    by_cases hh : pd.getStr k = "" <;> simp [getStrO, hh]

/-- everything the proofs need about `mergeSwaggerProps` -/
structure PropsFacts (p m p' : J) (w : List Mixin.Warn) : Prop where
  isObj : p'.isObj = true
  frame : ∀ k, isExtKey k = false → k ∉ ["host", "basePath", "info", "externalDocs"] → p'.get? k = p.get? k
  lvls : ∃ w0 wi wc wl, w = w0 ++ wi ++ wc ++ wl ∧
    Lvl topFields (some p) (some m) (some p') w0 ∧
    Lvl infoFields (info p) (info m) (info p') wi ∧
    (optObj (info p) = true →
      Lvl contactFields (sub "contact" (info p)) (sub "contact" (info m)) (sub "contact" (info p')) wc ∧
      Lvl licenseFields (sub "license" (info p)) (sub "license" (info m)) (sub "license" (info p')) wl)
  docsObj : optObj (p.get? "externalDocs") = true → optObj (m.get? "externalDocs") = true →
    optObj (p'.get? "externalDocs") = true
  docsStrs : optObj (p.get? "externalDocs") = true → ∀ k ∈ docsFields,
    getStrO k (p'.get? "externalDocs") =
      if getStrO k (p.get? "externalDocs") = "" then getStrO k (m.get? "externalDocs")
      else getStrO k (p.get? "externalDocs")

theorem mergeSwaggerProps_facts (f : Facts) (p m p' : J) (w : List Mixin.Warn)
    (h : Mixin.mergeSwaggerProps f p m = some (p', w)) (hp : p.isObj = true) : PropsFacts p m p' w := by
  rw [mergeSwaggerProps_eq] at h
  cases hd : docsStep f (infoStep (extFill topFields p m) m).1 m with
  | none => simp [hd] at h
  | some q =>
    simp only [hd, Option.map_some, Option.some.injEq, Prod.mk.injEq] at h
    obtain ⟨rfl, rfl⟩ := h
    have hp2 : (extFill topFields p m).isObj = true := by rw [extFill_isObj]; exact hp
    have hp3 : (infoStep (extFill topFields p m) m).1.isObj = true := by rw [infoStep_isObj]; exact hp2
    have hinfo : info (extFill topFields p m) = info p := extFill_get? _ _ _ _ (by decide) (by decide)
    have hdocs : (infoStep (extFill topFields p m) m).1.get? "externalDocs" = p.get? "externalDocs" := by
      rw [infoStep_get?_ne _ _ _ (by decide), extFill_get? _ _ _ _ (by decide) (by decide)]
    have hinfo' : info q = info (infoStep (extFill topFields p m) m).1 :=
      docsStep_get?_ne _ _ _ _ hd _ (by decide)
    refine ⟨by rw [docsStep_isObj _ _ _ _ hd]; exact hp3, ?_, ?_, ?_, ?_⟩
    · intro k hk hn
      simp only [List.mem_cons, List.not_mem_nil, or_false, not_or] at hn
      rw [docsStep_get?_ne _ _ _ _ hd _ hn.2.2.2, infoStep_get?_ne _ _ _ hn.2.2.1]
      exact extFill_get? _ _ _ _ hk (by simp [topFields, hn.1, hn.2.1])
    · obtain ⟨wi, wc, wl, e, l1, l2⟩ := infoStep_lvls (extFill topFields p m) m hp2
      refine ⟨(Mixin.mergeExt p m).2, wi, wc, wl, by rw [e]; simp, ?_, ?_, ?_⟩
      · apply lvl_some topFields (by decide) (by decide)
        · intro _; rw [docsStep_isObj _ _ _ _ hd]; exact hp3
        · intro _ k hk
          have h1 : k ≠ "externalDocs" := by rintro rfl; revert hk; decide
          have h2 : k ≠ "info" := by rintro rfl; revert hk; decide
          rw [docsStep_get?_ne _ _ _ _ hd _ h1, infoStep_get?_ne _ _ _ h2]
      · rw [hinfo', ← hinfo]; exact l1
      · intro ho
        rw [hinfo', ← hinfo]
        rw [← hinfo] at ho
        exact l2 ho
    · intro h1 h2
      exact docsStep_obj _ _ _ _ hd hp3 (by rw [hdocs]; exact h1) h2
    · intro h1 k hk
      have := docsStep_strs _ _ _ _ hd hp3 (by rw [hdocs]; exact h1) k hk
      rw [hdocs] at this
      exact this

theorem mergeSwaggerProps_isSome (f : Facts) (hg : f.mixinExtDocsGuard = true) (p m : J) :
    (Mixin.mergeSwaggerProps f p m).isSome = true := by
  rw [mergeSwaggerProps_eq, Option.isSome_map]
  exact docsStep_isSome f hg _ _

end Proofs.Mixin
