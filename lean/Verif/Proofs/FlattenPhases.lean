import Verif.Proofs.FlattenBase

/-!
  Invariants of the document through the phases of the Flatten model: any property of documents that
  the three replace primitives and an assignment to `definitions` preserve is preserved by
  `nameInlinedSchemas`, `namePointers`, `stripOAIGen`, the loop of `stripPointersAndOAIGen` and the
  whole pipeline up to `removeUnused`.
-/

namespace Proofs.FlattenPhases
open J Replace Flatten OutcomeM

/-- a property of documents kept by every way the phases write to the document -/
structure DocInv (P : J → Prop) : Prop where
  updateRef : ∀ d key ref d', Replace.updateRef d key ref = .ok d' → P d → P d'
  rewrite : ∀ d key ref d', Replace.rewriteSchemaToRef d key ref = .ok d' → P d → P d'
  withSchema : ∀ d key sch d', Replace.updateRefWithSchema d key sch = .ok d' → P d → P d'
  setDefs : ∀ d v, P d → P (d.set "definitions" v)

variable {P : J → Prop}

theorem reload_doc (fc : Facts) (s : St) : (reload fc s).doc = s.doc := rfl
theorem syncNewRefs_doc (s : St) : (syncNewRefs s).doc = s.doc := rfl

theorem nameWith_inv (hP : DocInv P) (fc : Facts) (x : Ext) (o : Opts) (st : St) (key : String) (schema : J)
    (parts : List String) (name : String) (st' : St)
    (h : nameWith fc x o st key schema parts name = .ok st') (hp : P st.doc) : P st'.doc := by
  unfold nameWith at h
  obtain ⟨mangled, _, h⟩ := bind_eq_ok.1 h
  obtain ⟨⟨newName, isOAIGen⟩, _, h⟩ := bind_eq_ok.1 h
  obtain ⟨ref, _, h⟩ := bind_eq_ok.1 h
  obtain ⟨d0, h1, h⟩ := bind_eq_ok.1 h
  obtain ⟨d2, h2, h⟩ := bind_eq_ok.1 h
  simp only [pure_eq_ok] at h
  subst h
  have hp1 : P (save d0 newName (schema.set "x-go-gen-location" (.str (genLocation parts)))) :=
    hP.setDefs _ _ (hP.rewrite _ _ _ _ h1 hp)
  refine foldlM_inv P _ ?_ _ _ d2 hp1 h2
  intro d kv d' hd hstep
  obtain ⟨r, _, hstep⟩ := bind_eq_ok.1 hstep
  split at hstep
  · simp only [pure_eq_ok] at hstep; exact hstep ▸ hd
  · exact hP.updateRef _ _ _ _ hstep hd

theorem nameSchema_inv (hP : DocInv P) (fc : Facts) (x : Ext) (o : Opts) (ops : List (String × OpRef)) (st : St)
    (key : String) (schema : J) (fl : Classify.Flags) (st' : St)
    (h : nameSchema fc x o ops st key schema fl = .ok st') (hp : P st.doc) : P st'.doc := by
  unfold nameSchema at h
  obtain ⟨names, _, h⟩ := bind_eq_ok.1 h
  refine foldlM_inv (fun s : St => P s.doc) _ ?_ _ st st' hp h
  intro s name s' hs hstep
  split at hstep
  · simp only [pure_eq_ok] at hstep; exact hstep ▸ hs
  · exact nameWith_inv hP _ _ _ _ _ _ _ _ _ hstep hs

theorem nameInlinedSchemas_inv (hP : DocInv P) (fc : Facts) (x : Ext) (o : Opts) (s s' : St)
    (h : nameInlinedSchemas fc x o s = .ok s') (hp : P s.doc) : P s'.doc := by
  unfold nameInlinedSchemas at h
  obtain ⟨ops, _, h⟩ := bind_eq_ok.1 h
  obtain ⟨s1, h1, h⟩ := bind_eq_ok.1 h
  simp only [pure_eq_ok] at h
  subst h
  show P s1.doc
  refine foldlM_inv (fun s : St => P s.doc) _ ?_ _ s s1 hp h1
  intro st key st' hs hstep
  split at hstep
  · simp only [pure_eq_ok] at hstep; exact hstep ▸ hs
  · dsimp only at hstep
    split at hstep
    · simp only [pure_eq_ok] at hstep; exact hstep ▸ hs
    · obtain ⟨fl, _, hstep⟩ := bind_eq_ok.1 hstep
      split at hstep
      · exact nameSchema_inv hP _ _ _ _ _ _ _ _ _ hstep hs
      · simp only [pure_eq_ok] at hstep; exact hstep ▸ hs

theorem flattenAnonPointer_inv (hP : DocInv P) (fc : Facts) (x : Ext) (o : Opts) (ops : List (String × OpRef))
    (st : St) (plans : List (String × PtrPlan)) (key : String) (v : PtrPlan) (r : St × List (String × PtrPlan))
    (h : flattenAnonPointer fc x o ops st plans key v = .ok r) (hp : P st.doc) : P r.1.doc := by
  unfold flattenAnonPointer at h
  obtain ⟨schema, _, h⟩ := bind_eq_ok.1 h
  obtain ⟨fl, _, h⟩ := bind_eq_ok.1 h
  obtain ⟨callers, _, h⟩ := bind_eq_ok.1 h
  split at h
  · simp only [pure_eq_ok] at h; subst h; exact hp
  · dsimp only at h
    split at h
    · obtain ⟨st1, h1, h⟩ := bind_eq_ok.1 h
      simp only [pure_eq_ok] at h; subst h
      exact nameSchema_inv hP _ _ _ _ _ _ _ _ _ h1 hp
    · obtain ⟨d, h1, h⟩ := bind_eq_ok.1 h
      simp only [pure_eq_ok] at h; subst h
      exact hP.withSchema _ _ _ _ h1 hp

theorem namePointersPass_inv (hP : DocInv P) (fc : Facts) (x : Ext) (o : Opts) (s : St) (r : St × Bool)
    (h : namePointersPass fc x o s = .ok r) (hp : P s.doc) : P r.1.doc := by
  unfold namePointersPass at h
  obtain ⟨plans, _, h⟩ := bind_eq_ok.1 h
  obtain ⟨ops, _, h⟩ := bind_eq_ok.1 h
  obtain ⟨⟨⟨s1, pl⟩, rp⟩, h1, h⟩ := bind_eq_ok.1 h
  simp only [pure_eq_ok] at h
  subst h
  show P s1.doc
  have := foldlM_inv (fun a : (St × List (String × PtrPlan)) × Bool => P a.1.1.doc) _ ?_ _ ((s, plans), false)
    ((s1, pl), rp) hp h1
  · exact this
  intro acc key acc' hs hstep
  split at hstep
  · simp only [pure_eq_ok] at hstep; exact hstep ▸ hs
  · obtain ⟨r, _, hstep⟩ := bind_eq_ok.1 hstep
    dsimp only at hstep
    split at hstep
    · obtain ⟨d, hd, hstep⟩ := bind_eq_ok.1 hstep
      simp only [pure_eq_ok] at hstep; subst hstep
      exact hP.updateRef _ _ _ _ hd hs
    · obtain ⟨r', hr', hstep⟩ := bind_eq_ok.1 hstep
      simp only [pure_eq_ok] at hstep; subst hstep
      exact flattenAnonPointer_inv hP _ _ _ _ _ _ _ _ _ hr' hs

theorem namePointersLoop_inv (hP : DocInv P) (fc : Facts) (x : Ext) (o : Opts) : ∀ (fuel : Nat) (s s' : St),
    namePointersLoop fc x o fuel s = .ok s' → P s.doc → P s'.doc := by
  intro fuel
  induction fuel with
  | zero => intro s s' h; simp [namePointersLoop] at h
  | succ n ih =>
    intro s s' h hp
    unfold namePointersLoop at h
    obtain ⟨⟨s1, rp⟩, h1, h⟩ := bind_eq_ok.1 h
    have hp1 : P s1.doc := namePointersPass_inv hP fc x o s _ h1 hp
    dsimp only at h
    split at h
    · exact ih _ _ h hp1
    · simp only [pure_eq_ok] at h; exact h ▸ hp1

theorem namePointers_inv (hP : DocInv P) (fc : Facts) (x : Ext) (o : Opts) (s s' : St)
    (h : namePointers fc x o s = .ok s') (hp : P s.doc) : P s'.doc :=
  namePointersLoop_inv hP fc x o _ s s' h hp

theorem stripOAIGenForRef_inv (hP : DocInv P) (fc : Facts) (x : Ext) (st : St) (k : String) (r : NewRef)
    (res : St × Bool) (h : stripOAIGenForRef fc x st k r = .ok res) (hp : P st.doc) : P res.1.doc := by
  unfold stripOAIGenForRef at h
  dsimp only at h
  split at h
  · simp only [pure_eq_ok] at h; subst h; exact hp
  · obtain ⟨d1, h1, h⟩ := bind_eq_ok.1 h
    have hp1 : P d1 := hP.withSchema _ _ _ _ h1 hp
    try simp only at h
    obtain ⟨replacingRef, _, h⟩ := bind_eq_ok.1 h
    obtain ⟨⟨d2, nrs2, rep2⟩, h2, h⟩ := bind_eq_ok.1 h
    have hp2 : P d2 := by
      have := foldlM_inv (fun a : J × List (String × NewRef) × Bool => P a.1) _ ?_ _ _ (d2, nrs2, rep2) hp1 h2
      · exact this
      intro acc p acc' ha hstep
      obtain ⟨d, hd, hstep⟩ := bind_eq_ok.1 hstep
      simp only [pure_eq_ok] at hstep; subst hstep
      have hd' : P d := hP.updateRef _ _ _ _ hd ha
      show P (if _ then _ else _)
      split
      · split
        · rename_i d' hu; exact hP.updateRef _ _ _ _ hu hd'
        · exact hd'
      · exact hd'
    simp only at h
    obtain ⟨rep3, _, h⟩ := bind_eq_ok.1 h
    simp only [pure_eq_ok] at h; subst h
    show P (match d2.get? "definitions" with
      | some (.obj defs) => d2.set "definitions" (.obj (eraseKv (Str.base r.path) defs))
      | _ => d2)
    split
    · exact hP.setDefs _ _ hp2
    · exact hp2

theorem stripInOrder_inv (hP : DocInv P) (fc : Facts) (x : Ext) (s1 : St) (order : List String) (res : St × Bool)
    (h : stripInOrder fc x s1 order = .ok res) (hp : P s1.doc) : P res.1.doc := by
  unfold stripInOrder at h
  obtain ⟨⟨s2, rep⟩, h1, h⟩ := bind_eq_ok.1 h
  simp only [pure_eq_ok] at h; subst h
  show P s2.doc
  have := foldlM_inv (fun a : St × Bool => P a.1.doc) _ ?_ _ (s1, false) (s2, rep) hp h1
  · exact this
  intro acc k acc' ha hstep
  split at hstep
  · simp only [pure_eq_ok] at hstep; exact hstep ▸ ha
  · simp only at hstep
    split at hstep
    · simp only [pure_eq_ok] at hstep; exact hstep ▸ ha
    · obtain ⟨⟨st', rep'⟩, h2, hstep⟩ := bind_eq_ok.1 hstep
      simp only [pure_eq_ok] at hstep; subst hstep
      exact stripOAIGenForRef_inv hP _ _ _ _ _ (st', rep') h2 ha

theorem stripOAIGen_inv (hP : DocInv P) (fc : Facts) (x : Ext) (s : St) (res : St × Bool)
    (h : stripOAIGen fc x s = .ok res) (hp : P s.doc) : P res.1.doc :=
  stripInOrder_inv hP fc x _ _ res h hp

theorem stripLoop_inv (hP : DocInv P) (fc : Facts) (x : Ext) (o : Opts) :
    ∀ (fuel : Nat) (s : St) (again : Bool) (s' : St), stripLoop fc x o fuel s again = .ok s' → P s.doc → P s'.doc := by
  intro fuel
  induction fuel with
  | zero => intro s again s' h; simp [stripLoop] at h
  | succ fuel ih =>
    intro s again s' h hp
    simp only [stripLoop] at h
    split at h
    · cases h; exact hp
    · obtain ⟨s1, h1, h⟩ := bind_eq_ok.1 h
      obtain ⟨s2, h2, h⟩ := bind_eq_ok.1 h
      obtain ⟨⟨s3, again'⟩, h3, h⟩ := bind_eq_ok.1 h
      have hp1 : P s1.doc := by
        split at h1
        · exact nameInlinedSchemas_inv hP _ _ _ _ _ h1 hp
        · simp only [pure_eq_ok] at h1; exact h1 ▸ hp
      have hp2 : P s2.doc := namePointers_inv hP _ _ _ _ _ h2 hp1
      have hp3 : P s3.doc := stripOAIGen_inv hP _ _ _ _ h3 hp2
      exact ih s3 again' s' h hp3

theorem stripPointersAndOAIGen_inv (hP : DocInv P) (fc : Facts) (x : Ext) (o : Opts) (fuel : Nat) (s s' : St)
    (h : stripPointersAndOAIGen fc x o fuel s = .ok s') (hp : P s.doc) : P s'.doc := by
  unfold stripPointersAndOAIGen at h
  obtain ⟨s1, h1, h⟩ := bind_eq_ok.1 h
  obtain ⟨⟨s2, again⟩, h2, h⟩ := bind_eq_ok.1 h
  exact stripLoop_inv hP fc x o fuel s2 again s' h
    (stripOAIGen_inv hP _ _ _ _ h2 (namePointers_inv hP _ _ _ _ _ h1 hp))

theorem normalizeRef_inv (hP : DocInv P) (fc : Facts) (x : Ext) (o : Opts) (s s' : St)
    (h : normalizeRef fc x o s = .ok s') (hp : P s.doc) : P s'.doc := by
  unfold normalizeRef at h
  obtain ⟨d, h1, h⟩ := bind_eq_ok.1 h
  simp only [pure_eq_ok] at h
  have hd : P d := by
    refine foldlM_inv P _ ?_ _ s.doc d hp h1
    intro d0 kv d1 h0 hstep
    obtain ⟨r, _, hstep⟩ := bind_eq_ok.1 hstep
    exact hP.updateRef _ _ _ _ hstep h0
  split at h
  · exact h ▸ hp
  · exact h ▸ hd

end Proofs.FlattenPhases
