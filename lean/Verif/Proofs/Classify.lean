import Verif.Model.Classify
import Verif.Spec.Classify
import Verif.Proofs.JsonLemmas

/-!
  Helper lemmas for C20 (schema classification): one-step unfoldings of `Classify.classify`, the shape
  of its successful results, coherence, `$ref` transparency and the documented rules.
-/

namespace Outcome

theorem bind_eq_ok {α β} (o : Outcome α) (g : α → Outcome β) (b : β) :
    o.bind g = .ok b ↔ ∃ a, o = .ok a ∧ g a = .ok b := by
  cases o <;> simp [bind]

theorem bind_outOfFuel {α β} (g : α → Outcome β) : (Outcome.outOfFuel : Outcome α).bind g = .outOfFuel := rfl

theorem bind_ok {α β} (a : α) (g : α → Outcome β) : (Outcome.ok a).bind g = g a := rfl

theorem bind_ne_outOfFuel {α β} (o : Outcome α) (g : α → Outcome β)
    (h1 : o ≠ .outOfFuel) (h2 : ∀ a, g a ≠ .outOfFuel) : o.bind g ≠ .outOfFuel := by
  cases o <;> simp_all [bind]

end Outcome

namespace Proofs.Classify
open J _root_.Classify Spec.Classify

/-! ### the two recursive passes, named -/

/-- `inferMap` on top of the shallow flags `f` -/
def mapStep (fc : Facts) (x : Ext) (root : J) (fuel : Nat) (visited : List String) (s : J) (f : Flags) :
    Outcome Flags :=
  if f.isMap then
    match schemaOrBool s "additionalProperties" with
    | some (some sch, _) =>
      (classify fc x root fuel visited sch).bind fun m => .ok { f with isSimpleMap := m.isSimpleSchema }
    | some (none, allows) => .ok { f with isSimpleMap := allows }
    | none => .ok f
  else .ok f

/-- `inferArray` -/
def arrStep (fc : Facts) (x : Ext) (root : J) (fuel : Nat) (visited : List String) (s : J) (f1 : Flags) :
    Outcome Flags :=
  if f1.isArray then
    match itemsOf s with
    | some (.inl it) =>
      (classify fc x root fuel visited it).bind fun a => .ok { f1 with isSimpleArray := a.isSimpleSchema }
    | _ => .ok { f1 with isSimpleArray := !f1.hasItems }
  else .ok f1

/-- `inferFromRef` -/
def refStep (fc : Facts) (x : Ext) (root : J) (fuel : Nat) (visited : List String) (s : J) (f2 : Flags) :
    Outcome Flags :=
  if f2.hasRef then
    if fc.schemaRefGuard && visited.contains (Doc.refStr s) then .ok { hasRef := true }
    else if danglingFrom x root (fuel + 1) [] [Doc.refStr s] then .err "unresolved $ref"
    else match resolve x root (Doc.refStr s) with
      | none => .err "unresolved $ref"
      | some target =>
        (classify fc x root fuel (Doc.refStr s :: visited) target).bind fun t => .ok (inferSimple t)
  else .ok (inferSimple f2)

theorem classify_zero (fc : Facts) (x : Ext) (root : J) (visited : List String) (s : J) :
    classify fc x root 0 visited s = .outOfFuel := rfl

theorem classify_succ (fc : Facts) (x : Ext) (root : J) (fuel : Nat) (visited : List String) (s : J) :
    classify fc x root (fuel + 1) visited s =
      (mapStep fc x root fuel visited s (shallow x s)).bind fun f1 =>
      (arrStep fc x root fuel visited s f1).bind fun f2 =>
      refStep fc x root fuel visited s f2 := by
  rw [classify]; rfl

/-! ### shape of successful results -/

theorem mapStep_ok {fc : Facts} {x : Ext} {root : J} {fuel : Nat} {visited : List String} {s : J} {f f1 : Flags}
    (h : mapStep fc x root fuel visited s f = .ok f1) :
    ∃ m, f1 = { f with isSimpleMap := m } ∧ (f.isMap = false → m = f.isSimpleMap) := by
  unfold mapStep at h
  split at h
  · split at h
    · rw [Outcome.bind_eq_ok] at h
      obtain ⟨a, _, h⟩ := h
      injection h with h
      exact ⟨_, h.symm, by simp_all⟩
    · injection h with h
      exact ⟨_, h.symm, by simp_all⟩
    · injection h with h
      exact ⟨f.isSimpleMap, h.symm, by simp⟩
  · injection h with h
    exact ⟨f.isSimpleMap, h.symm, by simp⟩

theorem arrStep_ok {fc : Facts} {x : Ext} {root : J} {fuel : Nat} {visited : List String} {s : J} {f1 f2 : Flags}
    (h : arrStep fc x root fuel visited s f1 = .ok f2) :
    ∃ a, f2 = { f1 with isSimpleArray := a } ∧ (f1.isArray = false → a = f1.isSimpleArray) := by
  unfold arrStep at h
  split at h
  · split at h
    · rw [Outcome.bind_eq_ok] at h
      obtain ⟨a, _, h⟩ := h
      injection h with h
      exact ⟨_, h.symm, by simp_all⟩
    · injection h with h
      exact ⟨_, h.symm, by simp_all⟩
  · injection h with h
    exact ⟨f1.isSimpleArray, h.symm, by simp⟩

theorem refStep_ok {fc : Facts} {x : Ext} {root : J} {fuel : Nat} {visited : List String} {s : J} {f2 f : Flags}
    (h : refStep fc x root fuel visited s f2 = .ok f) :
    f = inferSimple f2 ∨ f = { hasRef := true } ∨
      ∃ v' t' t, classify fc x root fuel v' t' = .ok t ∧ f = inferSimple t := by
  unfold refStep at h
  split at h
  · split at h
    · injection h with h; exact .inr (.inl h.symm)
    · split at h
      · cases h
      · split at h
        · cases h
        · rw [Outcome.bind_eq_ok] at h
          obtain ⟨t, ht, h⟩ := h
          injection h with h
          exact .inr (.inr ⟨_, _, t, ht, h.symm⟩)
  · injection h with h; exact .inl h.symm

theorem refStep_noref {fc : Facts} {x : Ext} {root : J} {fuel : Nat} {visited : List String} {s : J} {f2 : Flags}
    (h : f2.hasRef = false) : refStep fc x root fuel visited s f2 = .ok (inferSimple f2) := by
  simp [refStep, h]

/-- a successful classification either decorates the shallow flags of the node with the two
    recursive flags, or is the reset result of the cut at a `$ref` already on the stack, or
    re-exports (through `inferSimple`) a result obtained with less fuel -/
theorem classify_ok_cases {fc : Facts} {x : Ext} {root : J} {fuel : Nat} {visited : List String} {s : J} {f : Flags}
    (h : classify fc x root (fuel + 1) visited s = .ok f) :
    (∃ a m, f = inferSimple { shallow x s with isSimpleMap := m, isSimpleArray := a } ∧
        ((shallow x s).isArray = false → a = false) ∧ ((shallow x s).isMap = false → m = false)) ∨
      f = { hasRef := true } ∨
      ∃ v' t' t, classify fc x root fuel v' t' = .ok t ∧ f = inferSimple t := by
  rw [classify_succ, Outcome.bind_eq_ok] at h
  obtain ⟨f1, h1, h⟩ := h
  rw [Outcome.bind_eq_ok] at h
  obtain ⟨f2, h2, h3⟩ := h
  obtain ⟨m, rfl, hm⟩ := mapStep_ok h1
  obtain ⟨a, rfl, ha⟩ := arrStep_ok h2
  rcases refStep_ok h3 with rfl | h
  · exact .inl ⟨a, m, rfl, ha, hm⟩
  · exact .inr h

/-- without a `$ref` only the first alternative is possible -/
theorem classify_ok_noref {fc : Facts} {x : Ext} {root : J} {fuel : Nat} {visited : List String} {s : J} {f : Flags}
    (hr : Doc.refStr s = "") (h : classify fc x root fuel visited s = .ok f) :
    ∃ a m, f = inferSimple { shallow x s with isSimpleMap := m, isSimpleArray := a } ∧
        ((shallow x s).isArray = false → a = false) ∧ ((shallow x s).isMap = false → m = false) := by
  cases fuel with
  | zero => cases h
  | succ fuel =>
    rw [classify_succ, Outcome.bind_eq_ok] at h
    obtain ⟨f1, h1, h⟩ := h
    rw [Outcome.bind_eq_ok] at h
    obtain ⟨f2, h2, h3⟩ := h
    obtain ⟨m, rfl, hm⟩ := mapStep_ok h1
    obtain ⟨a, rfl, ha⟩ := arrStep_ok h2
    rw [refStep_noref (by simp [shallow, initFlags, hr])] at h3
    injection h3 with h3
    exact ⟨a, m, h3.symm, ha, hm⟩

/-! ### coherence -/

theorem shallow_excl (x : Ext) (s : J) :
    ((shallow x s).isMap && (shallow x s).isExtendedObject) = false ∧
    ((shallow x s).isTuple && (shallow x s).isTupleWithExtra) = false ∧
    ((shallow x s).isArray && ((shallow x s).isTuple || (shallow x s).isTupleWithExtra)) = false := by
  simp only [shallow]
  refine ⟨?_, ?_, ?_⟩
  · cases (initFlags s).hasProps <;> cases (initFlags s).hasAllOf <;> simp
  · cases (initFlags s).hasAdditionalItems <;> simp
  · cases itemsOf s with
    | none => simp
    | some v => cases v <;> simp

theorem coherent_inferSimple {t : Flags} (h : coherent t = true) : coherent (inferSimple t) = true := by
  simp only [coherent, inferSimple, Bool.and_eq_true] at h ⊢
  simp [h]

theorem inferSimple_of_coherent {t : Flags} (h : coherent t = true) : inferSimple t = t := by
  simp only [coherent, Bool.and_eq_true, beq_iff_eq] at h
  cases t
  simp only [inferSimple] at h ⊢
  simp [h.1.1.1.1.1]

theorem coherent_decorated (x : Ext) (s : J) (a m : Bool)
    (ha : (shallow x s).isArray = false → a = false) (hm : (shallow x s).isMap = false → m = false) :
    coherent (inferSimple { shallow x s with isSimpleMap := m, isSimpleArray := a }) = true := by
  obtain ⟨h1, h2, h3⟩ := shallow_excl x s
  simp only [coherent, inferSimple, h1, h2, h3]
  cases a <;> cases m <;> simp_all

theorem coherence (fc : Facts) (x : Ext) (root : J) (fuel : Nat) :
    ∀ (visited : List String) (s : J) (f : Flags),
      classify fc x root fuel visited s = .ok f → coherent f = true := by
  induction fuel with
  | zero => intro _ _ _ h; cases h
  | succ fuel ih =>
    intro visited s f h
    rcases classify_ok_cases h with ⟨a, m, rfl, ha, hm⟩ | rfl | ⟨v', t', t, ht, rfl⟩
    · exact coherent_decorated x s a m ha hm
    · decide
    · exact coherent_inferSimple (ih v' t' t ht)

/-! ### `$ref` transparency -/

theorem shallow_ref {x : Ext} {s : J} (hr : Doc.refStr s ≠ "") :
    (shallow x s).hasRef = true ∧ (shallow x s).isMap = false ∧ (shallow x s).isArray = false := by
  simp [shallow, initFlags, isObjectType, isArrayType, hr]

theorem mapStep_notMap {fc : Facts} {x : Ext} {root : J} {fuel : Nat} {visited : List String} {s : J} {f : Flags}
    (h : f.isMap = false) : mapStep fc x root fuel visited s f = .ok f := by
  simp [mapStep, h]

theorem arrStep_notArray {fc : Facts} {x : Ext} {root : J} {fuel : Nat} {visited : List String} {s : J} {f : Flags}
    (h : f.isArray = false) : arrStep fc x root fuel visited s f = .ok f := by
  simp [arrStep, h]

/-- one step at a `$ref` node -/
theorem classify_ref_step (fc : Facts) (x : Ext) (root : J) (n : Nat) (visited : List String) (s : J)
    (hr : Doc.refStr s ≠ "") :
    classify fc x root (n + 1) visited s = refStep fc x root n visited s (shallow x s) := by
  obtain ⟨_, hm, ha⟩ := shallow_ref (x := x) hr
  rw [classify_succ, mapStep_notMap hm, Outcome.bind_ok, arrStep_notArray ha, Outcome.bind_ok]

theorem bind_inferSimple_classify (fc : Facts) (x : Ext) (root : J) (n : Nat) (visited : List String) (t : J) :
    ((classify fc x root n visited t).bind fun f => .ok (inferSimple f)) = classify fc x root n visited t := by
  cases h : classify fc x root n visited t with
  | ok f => simp [Outcome.bind, inferSimple_of_coherent (coherence fc x root n visited t f h)]
  | _ => rfl

theorem ref_transparent (fc : Facts) (x : Ext) (root : J) (n : Nat) (visited : List String) (s target : J)
    (hr : Doc.refStr s ≠ "")
    (hv : (fc.schemaRefGuard && visited.contains (Doc.refStr s)) = false)
    (hres : resolve x root (Doc.refStr s) = some target)
    (hd : danglingFrom x root (n + 1) [] [Doc.refStr s] = false) :
    classify fc x root (n + 1) visited s = classify fc x root n (Doc.refStr s :: visited) target := by
  rw [classify_ref_step fc x root n visited s hr, refStep, (shallow_ref (x := x) hr).1]
  simp only [hv, hd, hres, if_true, Bool.false_eq_true, if_false]
  exact bind_inferSimple_classify ..

/-! ### the documented rules: inverting `shapeOf` -/

/-- `shapeOf` over the atoms it reads -/
def shapeCore (t : String) (tyNone hasProps hasAllOf ap : Bool) (items : Option J) (hasAI : Bool)
    (ref fmt : String) : Shape :=
  if ref ≠ "" then .other
  else if fmt ≠ "" ∧ ¬ prims.contains t then .other
  else if prims.contains t then (if hasProps ∨ hasAllOf ∨ ap ∨ items.isSome ∨ hasAI then .other else .primitive)
  else if t = "array" then
    (if hasProps ∨ hasAllOf ∨ ap then .other
     else match items with
       | some (.arr (_ :: _)) => .tuple
       | some (.arr []) => .other
       | some (.obj _) => if hasAI then .other else .array
       | none => if hasAI then .other else .array
       | _ => .other)
  else if t = "object" ∨ tyNone then
    (if items.isSome ∨ hasAI then .other
     else if hasAllOf then (if hasProps ∨ ap then .other else .allOf)
     else if hasProps then (if ap then .other else .objectWithProps)
     else if ap then .map
     else .emptyObject)
  else .other

def apOf (s : J) : Bool :=
  match s.get? "additionalProperties" with | some (.obj _) => true | some (.bool true) => true | _ => false

theorem shapeOf_eq_core (s : J) :
    shapeOf s = shapeCore (s.getStr "type") (s.get? "type").isNone (!(s.getObj "properties").isEmpty)
      (!(s.getArr "allOf").isEmpty) (apOf s) (s.get? "items") (s.get? "additionalItems").isSome
      (Doc.refStr s) (s.getStr "format") := rfl

/-- the documented shapes, classified by what the syntactic tests say -/
inductive CoreView (t : String) (tyNone hasProps hasAllOf ap : Bool) (items : Option J) (hasAI : Bool) :
    Shape → Prop where
  | primitive : prims.contains t = true → CoreView t tyNone hasProps hasAllOf ap items hasAI .primitive
  | tuple (y ys) : t = "array" → hasProps = false → hasAllOf = false → ap = false →
      items = some (.arr (y :: ys)) → CoreView t tyNone hasProps hasAllOf ap items hasAI .tuple
  | array : t = "array" → hasProps = false → hasAllOf = false → ap = false → hasAI = false →
      (items = none ∨ ∃ kvs, items = some (.obj kvs)) → CoreView t tyNone hasProps hasAllOf ap items hasAI .array
  | allOf : (t = "object" ∨ tyNone = true) → items = none → hasAI = false →
      hasAllOf = true → hasProps = false → ap = false → CoreView t tyNone hasProps hasAllOf ap items hasAI .allOf
  | objectWithProps : (t = "object" ∨ tyNone = true) → items = none → hasAI = false →
      hasAllOf = false → hasProps = true → ap = false → CoreView t tyNone hasProps hasAllOf ap items hasAI .objectWithProps
  | map : (t = "object" ∨ tyNone = true) → items = none → hasAI = false →
      hasAllOf = false → hasProps = false → ap = true → CoreView t tyNone hasProps hasAllOf ap items hasAI .map
  | emptyObject : (t = "object" ∨ tyNone = true) → items = none → hasAI = false →
      hasAllOf = false → hasProps = false → ap = false → CoreView t tyNone hasProps hasAllOf ap items hasAI .emptyObject

theorem shapeCore_inv {t : String} {tyNone hasProps hasAllOf ap : Bool} {items : Option J} {hasAI : Bool}
    {ref fmt : String} {sh : Shape}
    (h : shapeCore t tyNone hasProps hasAllOf ap items hasAI ref fmt = sh) (hne : sh ≠ .other) :
    ref = "" ∧ (fmt = "" ∨ prims.contains t = true) ∧ CoreView t tyNone hasProps hasAllOf ap items hasAI sh := by
  unfold shapeCore at h
  by_cases hr : ref = ""
  · rw [if_neg (by simpa using hr)] at h
    refine ⟨hr, ?_⟩
    by_cases hp : prims.contains t = true
    · refine ⟨.inr hp, ?_⟩
      rw [if_neg (fun hc => hc.2 hp), if_pos hp] at h
      split at h
      · exact absurd h.symm hne
      · subst h; exact .primitive hp
    · by_cases hf : fmt = ""
      · refine ⟨.inl hf, ?_⟩
        rw [if_neg (fun hc => hc.1 hf), if_neg hp] at h
        by_cases ha : t = "array"
        · rw [if_pos ha] at h
          split at h
          · exact absurd h.symm hne
          · rename_i hc
            simp only [not_or, Bool.not_eq_true] at hc
            split at h
            · subst h; exact .tuple _ _ ha hc.1 hc.2.1 hc.2.2 rfl
            · exact absurd h.symm hne
            · split at h
              · exact absurd h.symm hne
              · subst h; exact .array ha hc.1 hc.2.1 hc.2.2 (by simp_all) (.inr ⟨_, rfl⟩)
            · split at h
              · exact absurd h.symm hne
              · subst h; exact .array ha hc.1 hc.2.1 hc.2.2 (by simp_all) (.inl rfl)
            · exact absurd h.symm hne
        · rw [if_neg ha] at h
          split at h
          · rename_i ho
            split at h
            · exact absurd h.symm hne
            · rename_i hc
              simp only [not_or, Bool.not_eq_true, Option.isSome_eq_false_iff, Option.isNone_iff_eq_none] at hc
              split at h
              · split at h
                · exact absurd h.symm hne
                · rename_i h1 h2
                  simp only [not_or, Bool.not_eq_true] at h2
                  subst h; exact .allOf ho hc.1 hc.2 h1 h2.1 h2.2
              · rename_i h1
                split at h
                · split at h
                  · exact absurd h.symm hne
                  · subst h; exact .objectWithProps ho hc.1 hc.2 (by simpa using h1) (by assumption) (by simp_all)
                · split at h
                  · subst h; exact .map ho hc.1 hc.2 (by simpa using h1) (by simp_all) (by assumption)
                  · subst h; exact .emptyObject ho hc.1 hc.2 (by simpa using h1) (by simp_all) (by simp_all)
          · exact absurd h.symm hne
      · rw [if_pos ⟨hf, hp⟩] at h
        exact absurd h.symm hne
  · rw [if_pos hr] at h
    exact absurd h.symm hne

/-! ### the documented rules: the shallow flags of a single-typed schema -/

theorem typeOf_of_getStr {s : J} (h : s.getStr "type" ≠ "") : typeOf s = some [s.getStr "type"] := by
  unfold getStr at h ⊢; unfold typeOf
  cases hg : s.get? "type" with
  | none => simp [hg] at h
  | some v => cases v <;> simp_all

theorem typeOf_of_none {s : J} (h : (s.get? "type").isNone = true) : typeOf s = none := by
  unfold typeOf
  cases hg : s.get? "type" with
  | none => rfl
  | some v => simp [hg] at h

theorem getStr_of_none {s : J} (h : (s.get? "type").isNone = true) : s.getStr "type" = "" := by
  unfold getStr
  cases hg : s.get? "type" with
  | none => rfl
  | some v => simp [hg] at h

theorem isNone_of_getStr {s : J} (h : s.getStr "type" ≠ "") : (s.get? "type").isNone = false := by
  cases hg : (s.get? "type").isNone with
  | false => rfl
  | true => exact absurd (getStr_of_none hg) h

/-- a `type` that is one string, or no `type` at all -/
def SingleTy (s : J) : Prop := s.getStr "type" ≠ "" ∨ (s.get? "type").isNone = true

theorem typeContains_single {s : J} (h : SingleTy s) (u : String) (hu : u ≠ "") :
    typeContains s u = (s.getStr "type" == u) := by
  unfold typeContains
  rcases h with h | h
  · rw [typeOf_of_getStr h]
    simp only [Option.getD_some, List.contains_cons, List.contains_nil, Bool.or_false]
    exact Bool.beq_comm
  · rw [typeOf_of_none h, getStr_of_none h]
    simp [Ne.symm hu]

theorem typeContains_empty_single {s : J} (h : SingleTy s) : typeContains s "" = false := by
  unfold typeContains
  rcases h with h | h
  · rw [typeOf_of_getStr h]
    simp only [Option.getD_some, List.contains_cons, List.contains_nil, Bool.or_false, beq_eq_false_iff_ne]
    exact Ne.symm h
  · rw [typeOf_of_none h]; rfl

theorem typeOf_isNone_single {s : J} (h : SingleTy s) : (typeOf s).isNone = (s.get? "type").isNone := by
  rcases h with h | h
  · rw [typeOf_of_getStr h, isNone_of_getStr h]; rfl
  · rw [typeOf_of_none h, h]; rfl

theorem hasRef_false {s : J} (hr : Doc.refStr s = "") : (initFlags s).hasRef = false := by
  simp [initFlags, hr]

theorem hasAP_eq (s : J) : (initFlags s).hasAdditionalProps = apOf s := by
  simp only [initFlags, schemaOrBool, apOf]
  cases s.get? "additionalProperties" with
  | none => rfl
  | some v => cases v <;> first | rfl | (rename_i b; cases b <;> rfl)

theorem hasAI_false {s : J} (h : (s.get? "additionalItems").isSome = false) :
    (initFlags s).hasAdditionalItems = false := by
  simp only [initFlags, schemaOrBool]
  cases hg : s.get? "additionalItems" with
  | none => rfl
  | some v => simp [hg] at h

theorem isObjectType_single {s : J} (hr : Doc.refStr s = "") (h : SingleTy s) :
    isObjectType s (initFlags s) = ((s.get? "type").isNone || s.getStr "type" == "object") := by
  simp [isObjectType, hasRef_false hr, typeOf_isNone_single h, typeContains_empty_single h,
    typeContains_single h "object" (by decide)]

theorem isArrayType_single {s : J} (hr : Doc.refStr s = "") (h : SingleTy s) :
    isArrayType s (initFlags s) = (s.getStr "type" == "array") := by
  rw [isArrayType, hasRef_false hr, typeContains_single h "array" (by decide)]
  rcases h with h | h
  · simp [typeOf_of_getStr h]
  · simp [typeOf_of_none h, getStr_of_none h]


/-- what the documented rules need from the shallow flags, per shape -/
def ShapeFlags : Shape → Flags → Prop
  | .primitive, f | .emptyObject, f => f.isKnownType = true
  | .map, f => f.isMap = true
  | .array, f => f.isArray = true
  | .objectWithProps, f | .allOf, f | .tuple, f => f.isKnownType = false ∧ f.isArray = false ∧ f.isMap = false
  | .other, _ => True

theorem prims_single {t : String} (h : prims.contains t = true) : t ≠ "" ∧
    (t = "string" ∨ t = "integer" ∨ t = "number" ∨ t = "boolean") := by
  have h' : t = "string" ∨ t = "integer" ∨ t = "number" ∨ t = "boolean" := by simpa [prims] using h
  refine ⟨?_, h'⟩
  rintro rfl
  revert h; decide

theorem singleTy_of_obj {s : J} (h : s.getStr "type" = "object" ∨ (s.get? "type").isNone = true) : SingleTy s := by
  rcases h with h | h
  · left; rw [h]; decide
  · right; exact h

theorem fmt_empty {fmt t : String} (hf : fmt = "" ∨ prims.contains t = true) (hp : prims.contains t = false) :
    fmt = "" := by
  rcases hf with hf | hf
  · exact hf
  · rw [hp] at hf; cases hf

theorem not_prims_obj {s : J} (h : s.getStr "type" = "object" ∨ (s.get? "type").isNone = true) :
    prims.contains (s.getStr "type") = false ∧ (s.getStr "type" == "array") = false ∧
    (s.getStr "type" == "boolean") = false ∧ (s.getStr "type" == "integer") = false ∧
    (s.getStr "type" == "number") = false ∧ (s.getStr "type" == "string") = false := by
  rcases h with h | h
  · rw [h]; decide
  · rw [getStr_of_none h]; decide

theorem shallow_isKnownType (x : Ext) (s : J) : (shallow x s).isKnownType =
    (typeContains s "boolean" || typeContains s "integer" || typeContains s "number" ||
      typeContains s "string" || (decide (s.getStr "format" ≠ "") && x.knownFormat (s.getStr "format")) ||
      (isObjectType s (initFlags s) && !(initFlags s).hasProps && !(initFlags s).hasAllOf &&
        !(initFlags s).hasAdditionalProps && !(initFlags s).hasAdditionalItems)) := rfl

theorem shallow_isMap (x : Ext) (s : J) : (shallow x s).isMap =
    (isObjectType s (initFlags s) && (initFlags s).hasAdditionalProps &&
      !((initFlags s).hasProps || (initFlags s).hasAllOf)) := rfl

theorem shallow_isArray (x : Ext) (s : J) : (shallow x s).isArray =
    (isArrayType s (initFlags s) && !(match itemsOf s with | some (.inr _) => true | _ => false)) := rfl

theorem hasProps_eq (s : J) : (initFlags s).hasProps = !(s.getObj "properties").isEmpty := rfl
theorem hasAllOf_eq (s : J) : (initFlags s).hasAllOf = !(s.getArr "allOf").isEmpty := rfl

theorem typeContains_prims_false {s : J} (hs : SingleTy s)
    (h : (s.getStr "type" == "boolean") = false ∧ (s.getStr "type" == "integer") = false ∧
      (s.getStr "type" == "number") = false ∧ (s.getStr "type" == "string") = false) :
    (typeContains s "boolean" || typeContains s "integer" || typeContains s "number" ||
      typeContains s "string") = false := by
  rw [typeContains_single hs _ (by decide : "boolean" ≠ ""), typeContains_single hs _ (by decide : "integer" ≠ ""),
    typeContains_single hs _ (by decide : "number" ≠ ""), typeContains_single hs _ (by decide : "string" ≠ ""),
    h.1, h.2.1, h.2.2.1, h.2.2.2]
  rfl

/-- flags of an object-typed schema without `$ref`, `items`, `additionalItems` -/
theorem shallow_object {x : Ext} {s : J} (hr : Doc.refStr s = "")
    (hf : s.getStr "format" = "" ∨ prims.contains (s.getStr "type") = true)
    (ho : s.getStr "type" = "object" ∨ (s.get? "type").isNone = true)
    (hai : (s.get? "additionalItems").isSome = false) :
    (shallow x s).isKnownType = (!(initFlags s).hasProps && !(initFlags s).hasAllOf && !apOf s) ∧
    (shallow x s).isMap = (apOf s && !((initFlags s).hasProps || (initFlags s).hasAllOf)) ∧
    (shallow x s).isArray = false := by
  have hs := singleTy_of_obj ho
  obtain ⟨hnp, hna, hnprim⟩ := not_prims_obj ho
  have hobj : isObjectType s (initFlags s) = true := by
    rw [isObjectType_single hr hs]
    rcases ho with ho | ho <;> simp [ho]
  refine ⟨?_, ?_, ?_⟩
  · rw [shallow_isKnownType, typeContains_prims_false hs hnprim, fmt_empty hf hnp, hobj, hasAP_eq,
      hasAI_false hai]
    simp
  · rw [shallow_isMap, hobj, hasAP_eq]; simp
  · rw [shallow_isArray, isArrayType_single hr hs, hna]; rfl

/-- flags of an array-typed schema without `$ref`, `properties`, `allOf`, `additionalProperties` -/
theorem shallow_array {x : Ext} {s : J} (hr : Doc.refStr s = "")
    (hf : s.getStr "format" = "" ∨ prims.contains (s.getStr "type") = true)
    (ht : s.getStr "type" = "array") :
    (shallow x s).isKnownType = false ∧ (shallow x s).isMap = false ∧
    (shallow x s).isArray = !(match itemsOf s with | some (.inr _) => true | _ => false) := by
  have hs : SingleTy s := .inl (by rw [ht]; decide)
  have hobj : isObjectType s (initFlags s) = false := by
    rw [isObjectType_single hr hs, isNone_of_getStr (by rw [ht]; decide), ht]; decide
  refine ⟨?_, ?_, ?_⟩
  · rw [shallow_isKnownType, typeContains_prims_false hs (by rw [ht]; decide),
      fmt_empty hf (by rw [ht]; decide), hobj]
    simp
  · rw [shallow_isMap, hobj]; simp
  · rw [shallow_isArray, isArrayType_single hr hs, ht]; simp

theorem shallow_of_view {x : Ext} {s : J} {sh : Shape} (hr : Doc.refStr s = "")
    (hf : s.getStr "format" = "" ∨ prims.contains (s.getStr "type") = true)
    (v : CoreView (s.getStr "type") (s.get? "type").isNone (!(s.getObj "properties").isEmpty)
      (!(s.getArr "allOf").isEmpty) (apOf s) (s.get? "items") (s.get? "additionalItems").isSome sh) :
    ShapeFlags sh (shallow x s) := by
  cases v with
  | primitive hp =>
    obtain ⟨hne, hp⟩ := prims_single hp
    have hs : SingleTy s := .inl hne
    simp only [ShapeFlags, shallow, typeContains_single hs _ (by decide : "boolean" ≠ ""),
      typeContains_single hs _ (by decide : "integer" ≠ ""), typeContains_single hs _ (by decide : "number" ≠ ""),
      typeContains_single hs _ (by decide : "string" ≠ "")]
    rcases hp with hp | hp | hp | hp <;> simp [hp]
  | tuple y ys ht hp ha hap hit =>
    obtain ⟨h1, h2, h3⟩ := shallow_array (x := x) hr hf ht
    refine ⟨h1, ?_, h2⟩
    rw [h3]; simp [itemsOf, hit]
  | array ht hp ha hap hai hit =>
    obtain ⟨h1, h2, h3⟩ := shallow_array (x := x) hr hf ht
    show (shallow x s).isArray = true
    rw [h3]
    rcases hit with hit | ⟨kvs, hit⟩ <;> simp [itemsOf, hit]
  | allOf ho hit hai ha hp hap =>
    obtain ⟨h1, h2, h3⟩ := shallow_object (x := x) hr hf ho hai
    rw [hasProps_eq, hasAllOf_eq, hp, ha, hap] at h1 h2
    exact ⟨h1, h3, h2⟩
  | objectWithProps ho hit hai ha hp hap =>
    obtain ⟨h1, h2, h3⟩ := shallow_object (x := x) hr hf ho hai
    rw [hasProps_eq, hasAllOf_eq, hp, ha, hap] at h1 h2
    exact ⟨h1, h3, h2⟩
  | map ho hit hai ha hp hap =>
    obtain ⟨h1, h2, h3⟩ := shallow_object (x := x) hr hf ho hai
    rw [hasProps_eq, hasAllOf_eq, hp, ha, hap] at h1 h2
    exact h2
  | emptyObject ho hit hai ha hp hap =>
    obtain ⟨h1, h2, h3⟩ := shallow_object (x := x) hr hf ho hai
    rw [hasProps_eq, hasAllOf_eq, hp, ha, hap] at h1 h2
    exact h1

theorem isComplex_decorated (f : Flags) (a m : Bool) :
    isComplex (inferSimple { f with isSimpleMap := m, isSimpleArray := a }) =
      (!(f.isKnownType || a || m) && !f.isArray && !f.isMap) := rfl

/-- the documented rules -/
theorem documented_rules (fc : Facts) (x : Ext) (root : J) (fuel : Nat) (visited : List String) (s : J) (f : Flags)
    (b : Bool) (hs : expectedComplex (shapeOf s) = some b)
    (h : classify fc x root fuel visited s = .ok f) : isComplex f = b := by
  have hne : shapeOf s ≠ .other := by
    intro e; rw [e] at hs; cases hs
  obtain ⟨hr, hf, v⟩ := shapeCore_inv (shapeOf_eq_core s).symm hne
  have hflags := shallow_of_view (x := x) hr hf v
  obtain ⟨a, m, rfl, ha, hm⟩ := classify_ok_noref hr h
  rw [isComplex_decorated]
  generalize shapeOf s = sh at hs hflags
  cases sh <;> simp only [expectedComplex, Option.some.injEq, reduceCtorEq] at hs <;> subst hs <;>
    simp only [ShapeFlags] at hflags
  · simp [hflags]
  · simp [hflags]
  · obtain ⟨h1, h2, h3⟩ := hflags; simp [h1, h2, h3, ha h2, hm h3]
  · obtain ⟨h1, h2, h3⟩ := hflags; simp [h1, h2, h3, ha h2, hm h3]
  · simp [hflags]
  · simp [hflags]
  · obtain ⟨h1, h2, h3⟩ := hflags; simp [h1, h2, h3, ha h2, hm h3]

/-! ### the self-referential array (defect D9) -/

def refA : J := .obj [("$ref", .str "#/definitions/A")]
def bodyA : J := .obj [("type", .str "array"), ("items", refA)]
def rootA : J := .obj [("definitions", .obj [("A", bodyA)])]
def extA : Ext :=
  { knownFormat := fun _ => false
    refTokens := fun r => if r = "#/definitions/A" then some ["definitions", "A"] else none }
def noGuard : Facts := { Facts.reference with schemaRefGuard := false }

theorem noGuard_guard : noGuard.schemaRefGuard = false := rfl

theorem refStr_refA : Doc.refStr refA = "#/definitions/A" := by decide

theorem resolve_A : resolve extA rootA "#/definitions/A" = some bodyA := rfl

theorem refsIn_bodyA : refsIn bodyA = ["#/definitions/A"] := by decide

theorem danglingFrom_nil (x : Ext) (root : J) (n : Nat) (seen : List String) :
    danglingFrom x root n seen [] = false := by
  cases n <;> rfl

/-- the eager expansion of `{$ref A}` finds no dangling `$ref`, whatever the fuel -/
theorem not_dangling_A (n : Nat) : danglingFrom extA rootA n [] ["#/definitions/A"] = false := by
  cases n with
  | zero => rfl
  | succ n =>
    rw [danglingFrom]
    simp only [List.contains_nil, Bool.false_eq_true, if_false, resolve_A, refsIn_bodyA]
    cases n with
    | zero => rfl
    | succ n =>
      rw [List.append_nil, danglingFrom]
      simp [danglingFrom_nil]

theorem shallow_refA : (shallow extA refA).hasRef = true ∧ (shallow extA refA).isMap = false ∧
    (shallow extA refA).isArray = false := by decide

theorem shallow_bodyA : (shallow extA bodyA).isMap = false ∧ (shallow extA bodyA).isArray = true := by decide

theorem itemsOf_bodyA : itemsOf bodyA = some (.inl refA) := rfl

/-- without the guard, neither the `$ref` nor its target is ever classified -/
theorem diverges_aux (n : Nat) : ∀ visited,
    classify noGuard extA rootA n visited refA = .outOfFuel ∧
    classify noGuard extA rootA n visited bodyA = .outOfFuel := by
  induction n with
  | zero => intro _; exact ⟨rfl, rfl⟩
  | succ n ih =>
    intro visited
    constructor
    · rw [classify_ref_step _ _ _ _ _ _ (by rw [refStr_refA]; decide), refStep, shallow_refA.1, refStr_refA]
      simp only [noGuard_guard, Bool.false_and, Bool.false_eq_true, if_false, if_true, not_dangling_A, resolve_A]
      rw [(ih _).2]; rfl
    · rw [classify_succ, mapStep_notMap shallow_bodyA.1, Outcome.bind_ok, arrStep, shallow_bodyA.2,
        if_pos rfl, itemsOf_bodyA]
      simp only []
      rw [(ih _).1]; rfl

theorem diverges_without_guard (n : Nat) : classify noGuard extA rootA n [] refA = .outOfFuel :=
  (diverges_aux n []).1

/-- with the guard the same schema is classified -/
theorem self_array_classified :
    ∃ f, classify Facts.reference extA rootA 10 [] refA = .ok f ∧
      f.isArray = true ∧ f.isSimpleArray = false ∧ isComplex f = false := by
  refine ⟨_, rfl, ?_⟩
  decide

end Proofs.Classify

